(* C01: type holes at token level. For every TypeStructure whose leaf names are identifiers, the tokens of the
   rendered TypeScript type are consumed by the specification type parser (Spec/TsModule.v ptype) up to any
   stop token, and the parsed type is well formed (ty_ok). The parse is NOT claimed to be the intended type:
   for an Option below Vec the parser reads  A | null[]  as  A | (null[])  (that is C05's subject). *)
From Coq Require Import String Ascii.
From Coq Require Import List Arith Bool Lia.
Require Import TT.Model.Str TT.Model.TypeParse TT.Model.Pipeline.
Require Import TT.Spec.TsLex TT.Spec.TsModule TT.Spec.TsObs TT.Spec.C01Wf TT.Model.C01Emit TT.Proofs.C01Holes TT.Proofs.C01Skeleton.
Import ListNotations.
Local Open Scope list_scope.

(* ---------------------------------------------------------------- token rendering of a type *)
Fixpoint sepc (l : list (list tk)) : list tk :=
  match l with [] => [] | [x] => x | x :: r => x ++ P "," :: sepc r end.
Lemma sepc_cons2 x y r : sepc (x :: y :: r) = x ++ P "," :: sepc (y :: r).
Proof. reflexivity. Qed.
Fixpoint rtoks (g : c_cfg) (t : tstruct) : list tk :=
  match t with
  | TPrim p => [KId p]
  | TCustom n => [KId (custom_ts g n)]
  | TArr u | TSet u => rtoks g u ++ [P "["; P "]"]
  | TMap k v => KId (L "Record") :: P "<" :: rtoks g k ++ P "," :: rtoks g v ++ [P ">"]
  | TTuple [] => [KId (L "void")]
  | TTuple l => P "[" :: sepc (map (rtoks g) l) ++ [P "]"]
  | TOpt u => rtoks g u ++ [P "|"; KId (L "null")]
  | TRes u => rtoks g u
  end.
(* nesting through type arguments and tuple elements: the parser's recursion budget *)
Fixpoint tdepth (t : tstruct) : nat :=
  match t with
  | TPrim _ | TCustom _ => 0
  | TArr u | TSet u | TOpt u | TRes u => tdepth u
  | TMap k v => S (Nat.max (tdepth k) (tdepth v))
  | TTuple l => S (fold_right (fun x acc => Nat.max (tdepth x) acc) 0 l)
  end.
Definition leaf_ok (n : str) : bool := path_ok [n].
Fixpoint leaves_ok (g : c_cfg) (t : tstruct) : bool :=
  match t with
  | TPrim p => leaf_ok p
  | TCustom n => leaf_ok (custom_ts g n)
  | TArr u | TSet u | TOpt u | TRes u => leaves_ok g u
  | TMap k v => leaves_ok g k && leaves_ok g v
  | TTuple l => forallb (leaves_ok g) l
  end.

(* ---------------------------------------------------------------- what may follow *)
Definition stopP (rest : list tk) : Prop :=
  match rest with [] => True | c :: _ => tk_is "." c = false /\ tk_is "<" c = false end.
Definition no_sfx (rest : list tk) : Prop :=
  match rest with a :: b :: _ => (tk_is "[" a && tk_is "]" b) = false | _ => True end.
Definition no_bar (rest : list tk) : Prop :=
  match rest with c :: _ => tk_is "|" c = false | [] => True end.
Definition stop (rest : list tk) : Prop := stopP rest /\ no_sfx rest /\ no_bar rest.

(* ---------------------------------------------------------------- suffixes *)
Fixpoint sfx (k : nat) : list tk := match k with 0 => [] | S k' => P "[" :: P "]" :: sfx k' end.
Fixpoint arrn (k : nat) (t : ty) : ty := match k with 0 => t | S k' => arrn k' (TyArr t) end.
Lemma arrn_ok k t : ty_ok t = true -> ty_ok (arrn k t) = true.
Proof. revert t. induction k as [|k IH]; intros t H; [exact H|]. cbn [arrn]. apply IH. exact H. Qed.
Lemma sfx_snoc k : sfx k ++ [P "["; P "]"] = sfx (S k).
Proof. induction k as [|k IH]; [reflexivity|]. cbn [sfx app]. rewrite IH. reflexivity. Qed.

Lemma p_suffix_stop n t rest : no_sfx rest -> p_suffix n t rest = (t, rest).
Proof. intros H. destruct n as [|n]; [reflexivity|]. destruct rest as [|a [|b r]]; try reflexivity.
  cbn [no_sfx] in H. cbn [p_suffix]. rewrite H. reflexivity. Qed.
Lemma p_suffix_sfx : forall k n t rest, k <= n -> no_sfx rest -> p_suffix n t (sfx k ++ rest) = (arrn k t, rest).
Proof. induction k as [|k IH]; intros n t rest Hn Hr.
  - cbn [sfx app arrn]. apply p_suffix_stop. exact Hr.
  - destruct n as [|n]; [lia|]. cbn [sfx app p_suffix]. change (tk_is "[" (P "[") && tk_is "]" (P "]")) with true. cbv iota.
    cbn [arrn]. apply IH; [lia|exact Hr]. Qed.
Lemma sfx_len k : List.length (sfx k) = 2 * k.
Proof. induction k as [|k IH]; [reflexivity|]. cbn [sfx List.length]. lia. Qed.

(* ---------------------------------------------------------------- primaries, postfix items, unions *)
Section Level.
  Variable rec : list tk -> RT ty.
  (* a token list that p_primary consumes whatever follows (no dot or angle bracket next) *)
  Definition isPrim (l : list tk) : Prop :=
    (exists c r, l = c :: r /\ tk_is "|" c = false /\ tk_is "]" c = false) /\
    forall rest, stopP rest -> exists t, p_primary rec (l ++ rest) = Some (t, rest) /\ ty_ok t = true.
  Definition item := (list tk * nat)%type.
  Definition itoks (it : item) : list tk := fst it ++ sfx (snd it).
  Definition utoks (its : list item) : list tk :=
    match its with [] => [] | it :: r => itoks it ++ flat_map (fun x => P "|" :: itoks x) r end.

  Lemma stopP_sfx k rest : stopP rest -> stopP (sfx k ++ rest).
  Proof. destruct k; [auto|]. intros _. cbn. split; reflexivity. Qed.

  Lemma postfix_item it rest : isPrim (fst it) -> stopP rest -> no_sfx rest ->
    exists t, p_postfix rec (itoks it ++ rest) = Some (t, rest) /\ ty_ok t = true.
  Proof. intros [_ Hp] Hs Hn. destruct it as [p k]. unfold itoks. cbn [fst snd] in *. rewrite <- app_assoc.
    destruct (Hp (sfx k ++ rest) (stopP_sfx k rest Hs)) as [t [E Ht]]. unfold p_postfix. rewrite E.
    exists (arrn k t). split; [|apply arrn_ok; exact Ht]. rewrite p_suffix_sfx; [reflexivity| |exact Hn].
    rewrite app_length, sfx_len. lia. Qed.

  Lemma stopP_bar r : stopP (P "|" :: r).
  Proof. cbn. split; reflexivity. Qed.
  Lemma no_sfx_bar r : no_sfx (P "|" :: r).
  Proof. destruct r; cbn; auto. Qed.

  Lemma alts_items : forall its n acc rest,
    Forall (fun it => isPrim (fst it)) its -> List.length its < n -> stop rest ->
    exists ts, p_alts rec n (flat_map (fun x => P "|" :: itoks x) its ++ rest) acc = Some (rev acc ++ ts, rest) /\ forallb ty_ok ts = true.
  Proof. induction its as [|it its IH]; intros n acc rest HF Hn [Hs [Hx Hb]].
    - exists []. cbn [flat_map app]. rewrite app_nil_r. split; [|reflexivity]. destruct n as [|n]; [cbn in Hn; lia|].
      destruct rest as [|c r]; [reflexivity|]. cbn [p_alts]. cbn [no_bar] in Hb. rewrite Hb. reflexivity.
    - inversion HF as [|? ? Hi HF']; subst. destruct n as [|n]; [cbn in Hn; lia|].
      cbn [flat_map]. rewrite <- app_assoc. cbn [app p_alts]. change (tk_is "|" (P "|")) with true. cbv iota.
      assert (stopP (flat_map (fun x => P "|" :: itoks x) its ++ rest) /\ no_sfx (flat_map (fun x => P "|" :: itoks x) its ++ rest)) as [Hs' Hx'].
      { destruct its as [|i2 its']; [cbn [flat_map app]; auto|]. cbn [flat_map app]. split; [apply stopP_bar|apply no_sfx_bar]. }
      destruct (postfix_item it _ Hi Hs' Hx') as [t [E Ht]]. rewrite E.
      destruct (IH n (t :: acc) rest HF') as [ts [E2 Hts]]; [cbn [List.length] in Hn; lia|repeat split; assumption|].
      rewrite E2. exists (t :: ts). split; [cbn [rev]; rewrite <- app_assoc; reflexivity|]. cbn [forallb]. rewrite Ht, Hts. reflexivity. Qed.

  Lemma flat_items_len its : List.length its <= List.length (flat_map (fun x : item => P "|" :: itoks x) its).
  Proof. induction its as [|i its IH]; [cbn; lia|]. cbn [flat_map List.length]. rewrite app_length. cbn [List.length]. lia. Qed.

  Lemma union_items its rest : its <> [] -> Forall (fun it => isPrim (fst it)) its -> stop rest ->
    exists t, p_type_body rec (utoks its ++ rest) = Some (t, rest) /\ ty_ok t = true.
  Proof. intros Hne HF Hst. destruct its as [|it its]; [congruence|]. inversion HF as [|? ? Hi HF']; subst.
    cbn [utoks]. rewrite <- app_assoc. set (tail := flat_map (fun x => P "|" :: itoks x) its ++ rest).
    assert (exists c r', itoks it ++ tail = c :: r' /\ tk_is "|" c = false) as [c [r' [E Hc]]].
    { destruct Hi as [[c [r [Ec [Hc _]]]] _]. destruct it as [p k]. cbn [fst] in Ec. subst p.
      exists c, ((r ++ sfx k) ++ tail). split; [reflexivity|exact Hc]. }
    unfold p_type_body. rewrite E. cbv iota beta. rewrite Hc. rewrite <- E.
    destruct Hst as [Hs [Hx Hb]].
    assert (stopP tail /\ no_sfx tail) as [Hs' Hx'].
    { unfold tail. destruct its as [|i2 its']; [cbn [flat_map app]; auto|]. cbn [flat_map app]. split; [apply stopP_bar|apply no_sfx_bar]. }
    destruct (postfix_item _ _ Hi Hs' Hx') as [t [Ep Ht]]. rewrite Ep.
    destruct (alts_items its (S (List.length tail)) [] rest HF') as [ts [E2 Hts]].
    { unfold tail. rewrite app_length. pose proof (flat_items_len its) as H. apply Nat.lt_succ_r.
      etransitivity; [exact H|apply Nat.le_add_r]. }
    { repeat split; assumption. }
    fold tail in E2. rewrite E2. cbn [rev app]. destruct ts as [|t2 ts].
    - exists t. auto.
    - exists (TyUnion (t :: t2 :: ts)). split; [reflexivity|]. cbn [ty_ok forallb] in *. rewrite Ht, Hts. reflexivity. Qed.
  (* comma separated types up to a closing punctuator *)
  Definition isTy (l : list tk) : Prop :=
    l <> [] /\ forall rest, stop rest -> exists t, rec (l ++ rest) = Some (t, rest) /\ ty_ok t = true.
  Lemma stop_comma r : stop (P "," :: r).
  Proof. repeat split. destruct r; cbn; auto. Qed.
  Lemma tylist_ok (close : string) :
    tk_is close (P close) = true -> tk_is "," (P close) = false -> (forall r, stop (P close :: r)) ->
    forall elems n acc rest, elems <> [] -> Forall isTy elems -> List.length elems <= n ->
    exists ts, p_tylist rec close n (sepc elems ++ P close :: rest) acc = Some (rev acc ++ ts, rest) /\ forallb ty_ok ts = true.
  Proof. intros Hc1 Hc2 Hc3. induction elems as [|x elems IH]; intros n acc rest Hne HF Hn; [congruence|].
    inversion HF as [|? ? [Hx Hp] HF']; subst. destruct n as [|n]; [cbn in Hn; lia|].
    destruct elems as [|y elems].
    - cbn [sepc p_tylist]. destruct (Hp (P close :: rest) (Hc3 rest)) as [t [E Ht]]. rewrite E, Hc2, Hc1.
      exists [t]. split; [reflexivity|]. cbn [forallb]. rewrite Ht. reflexivity.
    - rewrite sepc_cons2, <- app_assoc. cbn [app p_tylist].
      destruct (Hp (P "," :: sepc (y :: elems) ++ P close :: rest) (stop_comma _)) as [t [E Ht]]. rewrite E.
      change (tk_is "," (P ",")) with true. cbv iota.
      destruct (IH n (t :: acc) rest) as [ts [E2 Hts]]; [congruence|exact HF'|cbn [List.length] in *; lia|].
      rewrite E2. exists (t :: ts). split; [cbn [rev]; rewrite <- app_assoc; reflexivity|]. cbn [forallb]. rewrite Ht, Hts. reflexivity. Qed.
  Lemma sepc_len elems : Forall isTy elems -> List.length elems <= List.length (sepc elems).
  Proof. induction 1 as [|x elems [Hx _] HF IH]; [cbn; lia|]. destruct elems as [|y elems].
    - cbn [sepc List.length]. destruct x; [congruence|cbn; lia].
    - rewrite sepc_cons2, app_length. cbn [List.length] in *. destruct x; [congruence|]. cbn [List.length]. lia. Qed.

  Lemma p_path_stop n acc l : match l with c :: _ => tk_is "." c = false | [] => True end -> p_path n acc l = (rev acc, l).
  Proof. intros H. destruct n as [|n]; [reflexivity|]. destruct l as [|c r]; [reflexivity|]. cbn [p_path].
    destruct c; try reflexivity. destruct r as [|[] r']; try reflexivity. unfold tk_is in H. rewrite H. reflexivity. Qed.

  (* a leaf name *)
  Lemma leaf_not_typeof n : leaf_ok n = true -> str_eqb n (L "typeof") = false.
  Proof. intros H. destruct (str_eqb n (L "typeof")) eqn:E; [|reflexivity]. apply str_eqb_eq in E. subst n. vm_compute in H. discriminate. Qed.
  Lemma leaf_ident n : leaf_ok n = true -> is_ts_identifier n = true.
  Proof. unfold leaf_ok. cbn [path_ok]. intros H. apply andb_true_iff in H as [H _]. unfold is_ref_head in H.
    apply andb_true_iff in H as [H _]. unfold is_ident_name in H. apply andb_true_iff in H as [H _]. exact H. Qed.
  Lemma prim_leaf n : leaf_ok n = true -> isPrim [KId n].
  Proof. intros Hn. pose proof (leaf_ident n Hn) as Hi. split.
    - exists (KId n), []. repeat split; unfold tk_is.
      + apply (ident_not_single n "|"%char); auto.
      + apply (ident_not_single n "]"%char); auto.
    - intros rest Hs. cbn [app p_primary]. rewrite (leaf_not_typeof n Hn).
      rewrite p_path_stop; [|destruct rest; [constructor|apply Hs]]. cbn [rev app].
      exists (TyRef [n] []). split; [|cbn [ty_ok forallb]; unfold leaf_ok in Hn; rewrite Hn; reflexivity].
      destruct rest as [|c r]; [reflexivity|]. destruct Hs as [_ Hl]. rewrite Hl. reflexivity. Qed.
End Level.

(* ---------------------------------------------------------------- rendered types are unions of postfix items *)
Definition Rep (f : nat) (l : list tk) : Prop :=
  exists its, its <> [] /\ l = utoks its /\ Forall (fun it => isPrim (p_type f) (fst it)) its.

Lemma rep_parse f l rest : Rep f l -> stop rest ->
  exists t, p_type (S f) (l ++ rest) = Some (t, rest) /\ ty_ok t = true.
Proof. intros [its [Hne [-> HF]]] Hs. cbn [p_type]. apply union_items; assumption. Qed.
Lemma rep_nonempty f l : Rep f l -> l <> [].
Proof. intros [its [Hne [-> HF]]]. destruct its as [|it its]; [congruence|]. inversion HF as [|? ? [[c [r [E _]]] _] _]; subst.
  destruct it as [p k]. cbn [fst] in E. subst p. cbn. discriminate. Qed.
Lemma rep_isTy f l : Rep f l -> isTy (p_type (S f)) l.
Proof. intros H. split; [eapply rep_nonempty; eauto|]. intros rest Hs. apply rep_parse; assumption. Qed.
Lemma rep_first f l : Rep f l -> exists c r, l = c :: r /\ tk_is "]" c = false.
Proof. intros [its [Hne [-> HF]]]. destruct its as [|it its]; [congruence|]. inversion HF as [|? ? [[c [r [E [_ Hb]]]] _] _]; subst.
  destruct it as [p k]. cbn [fst] in E. subst p. exists c. eexists. split; [reflexivity|exact Hb]. Qed.

Lemma utoks_snoc its x : its <> [] -> utoks (its ++ [x]) = utoks its ++ P "|" :: itoks x.
Proof. destruct its as [|it its]; [congruence|]. intros _. cbn [utoks app]. rewrite flat_map_app. cbn [flat_map]. rewrite app_nil_r, <- app_assoc. reflexivity. Qed.

Lemma rep_leaf f n : leaf_ok n = true -> Rep f [KId n].
Proof. intros H. exists [([KId n], 0)]. split; [discriminate|]. split; [reflexivity|]. constructor; [|constructor]. apply prim_leaf. exact H. Qed.

Lemma rep_arr f l : Rep f l -> Rep f (l ++ [P "["; P "]"]).
Proof. intros [its [Hne [-> HF]]]. destruct (exists_last Hne) as [its' [[p k] ->]].
  exists (its' ++ [(p, S k)]). split; [destruct its'; discriminate|]. split.
  - destruct its' as [|i0 its0].
    + cbn [app utoks flat_map]. rewrite !app_nil_r. unfold itoks. cbn [fst snd]. rewrite <- app_assoc, sfx_snoc. reflexivity.
    + rewrite !utoks_snoc by discriminate. rewrite <- app_assoc. cbn [app]. unfold itoks. cbn [fst snd].
      rewrite <- app_assoc, sfx_snoc. reflexivity.
  - apply Forall_app in HF as [H1 H2]. apply Forall_app. split; [exact H1|]. inversion H2; subst. constructor; [assumption|constructor]. Qed.

Lemma rep_opt f l : Rep f l -> Rep f (l ++ [P "|"; KId (L "null")]).
Proof. intros [its [Hne [-> HF]]]. exists (its ++ [([KId (L "null")], 0)]). split; [destruct its; discriminate|]. split.
  - rewrite utoks_snoc by exact Hne. reflexivity.
  - apply Forall_app. split; [exact HF|]. constructor; [|constructor]. apply prim_leaf. reflexivity. Qed.

Lemma stop_close_gt r : stop (P ">" :: r).
Proof. repeat split. destruct r; cbn; auto. Qed.
Lemma stop_close_br r : stop (P "]" :: r).
Proof. repeat split. destruct r; cbn; auto. Qed.

Lemma rep_single f p : isPrim (p_type f) p -> Rep f p.
Proof. intros H. exists [(p, 0)]. split; [discriminate|]. split; [cbn [utoks flat_map]; unfold itoks; cbn [fst snd sfx]; rewrite !app_nil_r; reflexivity|].
  constructor; [exact H|constructor]. Qed.

(* Record<K, V> *)
Lemma prim_record f k v : Rep f k -> Rep f v ->
  isPrim (p_type (S f)) (KId (L "Record") :: P "<" :: k ++ P "," :: v ++ [P ">"]).
Proof. intros Hk Hv. split; [exists (KId (L "Record")); eexists; repeat split|].
  intros rest Hs. cbn [app p_primary]. change (str_eqb (L "Record") (L "typeof")) with false. cbv iota.
  rewrite p_path_stop by reflexivity. cbn [rev app]. change (tk_is "<" (P "<")) with true. cbv iota.
  destruct (tylist_ok (p_type (S f)) ">" eq_refl eq_refl stop_close_gt [k; v]
              (S (List.length (k ++ P "," :: (v ++ [P ">"]) ++ rest))) [] rest) as [ts [E Hts]].
  { discriminate. } { constructor; [apply rep_isTy; exact Hk|constructor; [apply rep_isTy; exact Hv|constructor]]. }
  { cbn [List.length]. rewrite app_length. cbn [List.length]. lia. }
  cbn [sepc] in E. rewrite <- !app_assoc in E. cbn [app] in E.
  replace ((k ++ P "," :: v ++ [P ">"]) ++ rest) with (k ++ P "," :: v ++ P ">" :: rest)
    by (rewrite <- app_assoc; cbn [app]; rewrite <- app_assoc; reflexivity). rewrite E.
  exists (TyRef [L "Record"] ts). split; [reflexivity|]. cbn [ty_ok rev app]. rewrite Hts. reflexivity. Qed.

(* [A, B, ...] *)
Lemma prim_tuple f elems : elems <> [] -> Forall (Rep f) elems ->
  isPrim (p_type (S f)) (P "[" :: sepc elems ++ [P "]"]).
Proof. intros Hne HF. split; [exists (P "["); eexists; repeat split|].
  intros rest Hs.
  assert (Forall (isTy (p_type (S f))) elems) as HT.
  { rewrite Forall_forall in *. intros x Hx. apply rep_isTy, HF, Hx. }
  assert (exists c r, sepc elems ++ P "]" :: rest = c :: r /\ tk_is "]" c = false) as [c [r [E Hc]]].
  { destruct elems as [|x elems]; [congruence|]. inversion HF as [|? ? Hx _]; subst. destruct (rep_first _ _ Hx) as [c [r [-> Hb]]].
    destruct elems as [|y elems]; [exists c, (r ++ P "]" :: rest); split; [reflexivity|exact Hb]|].
    rewrite sepc_cons2. exists c. eexists. split; [cbn [app]; reflexivity|exact Hb]. }
  cbn [app]. rewrite <- app_assoc. cbn [app]. unfold p_primary.
  change (tk_is "(" (P "[")) with false. change (tk_is "[" (P "[")) with true. cbv iota. rewrite E, Hc. rewrite <- E.
  destruct (tylist_ok (p_type (S f)) "]" eq_refl eq_refl stop_close_br elems
              (S (List.length (sepc elems ++ P "]" :: rest))) [] rest Hne HT) as [ts [E2 Hts]].
  { rewrite app_length. pose proof (sepc_len _ _ HT). lia. }
  rewrite E2. exists (TyTuple ts). split; [reflexivity|]. cbn [ty_ok rev app]. exact Hts. Qed.

(* ---------------------------------------------------------------- induction over TypeStructure *)
Lemma tstruct_ind' (Q : tstruct -> Prop) :
  (forall s, Q (TPrim s)) -> (forall t, Q t -> Q (TArr t)) -> (forall k v, Q k -> Q v -> Q (TMap k v)) ->
  (forall t, Q t -> Q (TSet t)) -> (forall l, Forall Q l -> Q (TTuple l)) -> (forall t, Q t -> Q (TOpt t)) ->
  (forall t, Q t -> Q (TRes t)) -> (forall s, Q (TCustom s)) -> forall t, Q t.
Proof. intros H1 H2 H3 H4 H5 H6 H7 H8. fix IH 1. intros t. destruct t as [s|t|k v|t|l|t|t|s].
  - apply H1. - apply H2, IH. - apply H3; apply IH. - apply H4, IH.
  - apply H5. induction l as [|x l IHl]; constructor; [apply IH|exact IHl].
  - apply H6, IH. - apply H7, IH. - apply H8. Qed.

Lemma fold_max_le (l : list tstruct) x : In x l -> tdepth x <= fold_right (fun y acc => Nat.max (tdepth y) acc) 0 l.
Proof. induction l as [|y l IH]; intros H; [destruct H|]. cbn [fold_right]. destruct H as [->|H]; [lia|]. specialize (IH H). lia. Qed.

Theorem render_rep g : forall t f, leaves_ok g t = true -> tdepth t <= f -> Rep f (rtoks g t).
Proof. induction t as [s|t IH|k v IHk IHv|t IH|l IHl|t IH|t IH|s] using tstruct_ind'; intros f Hl Hd; cbn [rtoks leaves_ok tdepth] in *.
  - apply rep_leaf. exact Hl.
  - apply rep_arr, IH; assumption.
  - apply andb_true_iff in Hl as [Hk Hv]. destruct f as [|f]; [lia|]. apply rep_single, prim_record; [apply IHk|apply IHv]; try assumption; lia.
  - apply rep_arr, IH; assumption.
  - destruct l as [|x l]; [apply rep_leaf; reflexivity|]. destruct f as [|f]; [lia|]. apply rep_single, prim_tuple; [discriminate|].
    rewrite Forall_forall in *. intros y Hy. apply in_map_iff in Hy as [z [<- Hz]]. apply IHl; [exact Hz| |].
    + rewrite forallb_forall in Hl. apply Hl, Hz.
    + pose proof (fold_max_le (x :: l) z Hz). lia.
  - apply rep_opt, IH; assumption.
  - apply IH; assumption.
  - apply rep_leaf. exact Hl.
Qed.

(* the type-hole theorem: every rendered type with identifier leaves and nesting below the parser's budget is
   consumed by ptype up to any stop token, and the parsed type is well formed *)
Theorem render_ptype g t rest : leaves_ok g t = true -> tdepth t < TYF -> stop rest ->
  exists ty, ptype (rtoks g t ++ rest) = Some (ty, rest) /\ ty_ok ty = true.
Proof. intros Hl Hd Hs. unfold ptype. change TYF with (S 63) in *. apply rep_parse; [|exact Hs]. apply render_rep; [exact Hl|lia]. Qed.

Lemma stop_semi r : stop (P ";" :: r).
Proof. repeat split. destruct r; cbn; auto. Qed.

(* ---------------------------------------------------------------- the interface template on model structs *)
Definition key_g (k : str) : gkey := if rust_ident_name k then GId k else GStr (escape_js k).
Lemma key_g_ok k : gkey_ok (key_g k) = true.
Proof. unfold key_g. destruct (rust_ident_name k) eqn:E; cbn [gkey_ok].
  - apply rust_ident_is_ident. exact E.
  - exact (str_hole_message k). Qed.
Definition listed_fields (s : c_struct) : list c_field := filter (fun f => negb (c_skipped (cf_serde f))) (cs_fields s).
Definition field_member (g : c_cfg) (s : c_struct) (f : c_field) : gmember :=
  {| gm_key := key_g (field_ser g s f); gm_opt := is_option (cf_ty f); gm_toks := rtoks g (pts (qtts (cf_ty f))) |}.
Definition struct_toks (g : c_cfg) (s : c_struct) : list tk :=
  interface_toks (cs_name s) (map (field_member g s) (listed_fields s)).
(* the field types the theorem speaks about: leaf names are identifiers (no path, no generic garbage), nesting < 64 *)
Definition type_in_budget (g : c_cfg) (t : qty) : bool :=
  leaves_ok g (pts (qtts t)) && (tdepth (pts (qtts t)) <? TYF).

Lemma field_member_good g s f : type_in_budget g (cf_ty f) = true -> good_member (field_member g s f).
Proof. intros H. apply andb_true_iff in H as [Hl Hd]. apply Nat.ltb_lt in Hd. split; [apply key_g_ok|].
  intros rest. cbn [field_member gm_toks]. apply render_ptype; [exact Hl|exact Hd|apply stop_semi]. Qed.

Theorem interface_tokens_ok g s rest :
  is_binding_name (cs_name s) = true ->
  forallb (fun f => type_in_budget g (cf_ty f)) (listed_fields s) = true ->
  exists asts, p_item (struct_toks g s ++ rest) = Some (IInterface (cs_name s) [] None asts [], rest) /\
               item_ok (IInterface (cs_name s) [] None asts []) = true.
Proof. intros Hn Hf. unfold struct_toks.
  destruct (skeleton_interface (cs_name s) (map (field_member g s) (listed_fields s)) rest Hn) as [asts [E [_ Hok]]].
  - rewrite Forall_forall. intros m Hm. apply in_map_iff in Hm as [f [<- Hin]].
    rewrite forallb_forall in Hf. apply field_member_good, Hf, Hin.
  - exists asts. split; assumption. Qed.

(* ---------------------------------------------------------------- the enum alias template *)
Definition lit_item (b : str) : item := ([KStr DQ b], 0).
Definition enum_toks (name : str) (lits : list str) : list tk :=
  [KId (L "export"); KId (L "type"); KId name; P "="] ++ utoks (map lit_item lits) ++ [P ";"].
Lemma p_item_alias name l :
  p_item (KId (L "export") :: KId (L "type") :: KId name :: P "=" :: l) =
  match ptype l with
  | Some (t, r5) => match expect ";" r5 with Some r6 => Some (ITypeAlias name [] t, r6) | None => None end
  | None => None end.
Proof. reflexivity. Qed.
Lemma prim_lit rec b : isPrim rec [KStr DQ b].
Proof. split; [exists (KStr DQ b), []; repeat split|]. intros rest _. exists (TyLit b). split; reflexivity. Qed.

Lemma p_type_S f l : p_type (S f) l = p_type_body (p_type f) l.
Proof. reflexivity. Qed.
Theorem enum_alias_ok name lits rest :
  is_binding_name name = true -> lits <> [] ->
  exists t, p_item (enum_toks name lits ++ rest) = Some (ITypeAlias name [] t, rest) /\ item_ok (ITypeAlias name [] t) = true.
Proof. intros Hn Hne. unfold enum_toks. cbn [app]. rewrite p_item_alias. rewrite <- app_assoc. cbn [app].
  unfold ptype. change TYF with (S 63). rewrite p_type_S.
  destruct (union_items (p_type 63) (map lit_item lits) (P ";" :: rest)) as [t [E Ht]].
  - destruct lits; [congruence|discriminate].
  - rewrite Forall_forall. intros it Hin. apply in_map_iff in Hin as [b [<- _]]. apply prim_lit.
  - apply stop_semi.
  - rewrite E. exists t. split; [reflexivity|]. cbn [item_ok forallb]. rewrite Hn, Ht. reflexivity. Qed.

(* an enum without listed variants: export type N = never ; *)
Definition never_toks (name : str) : list tk := [KId (L "export"); KId (L "type"); KId name; P "="; KId (L "never"); P ";"].
Theorem enum_alias_never_ok name rest : is_binding_name name = true ->
  p_item (never_toks name ++ rest) = Some (ITypeAlias name [] (TyRef [L "never"] []), rest) /\
  item_ok (ITypeAlias name [] (TyRef [L "never"] [])) = true.
Proof. intros Hn. split.
  - unfold never_toks. cbn [app]. rewrite p_item_alias. unfold ptype. change TYF with (S 63).
    rewrite (leaf_parse 63 (L "never") rest) by reflexivity. reflexivity.
  - cbn [item_ok forallb]. rewrite Hn. reflexivity. Qed.
Definition ex_empty_enum : c_struct :=
  {| cs_name := L "Status"; cs_enum := true; cs_serde := [];
     cs_fields := [ {| cf_name := L "Active"; cf_ty := QTuple []; cf_serde := [SSkip]; cf_val := None |} ] |}.
Lemma never_example : lexed (enum_chunks g0 ex_empty_enum) = never_toks (L "Status") /\ c01_ok (text (enum_chunks g0 ex_empty_enum)) = true /\
  c01_ok (text (zod_struct_chunks g0 ex_empty_enum)) = true.
Proof. vm_compute. repeat split. Qed.

(* the token renderings used above are what the lexer sees of the model's text (checked on every generated
   case at run time by lex_compositional; here on a sample) *)
Lemma tokens_example :
  toks_of (interface_chunks g0 ex_struct) = struct_toks g0 ex_struct /\
  lexed (interface_chunks g0 ex_struct) = struct_toks g0 ex_struct /\
  forallb (fun f => type_in_budget g0 (cf_ty f)) (listed_fields ex_struct) = true /\
  lex_module (render_m g0 (pts (L "HashMap<String, Vec<Option<(User, i32)>>>"))) = rtoks g0 (pts (L "HashMap<String, Vec<Option<(User, i32)>>>")).
Proof. vm_compute. repeat split. Qed.

(* ---------------------------------------------------------------- index.ts: the whole file *)
Definition star_toks (m : str) : list tk := [KId (L "export"); P "*"; KId (L "from"); KStr SQ m; P ";"].
Lemma p_item_star m rest : p_item (star_toks m ++ rest) = Some (IExportStar m, rest).
Proof. reflexivity. Qed.
Lemma p_items_stars : forall ms n acc, List.length ms < n ->
  p_items n (flat_map star_toks ms) acc = Some (rev acc ++ map IExportStar ms).
Proof. induction ms as [|m ms IH]; intros n acc Hn; (destruct n as [|n]; [cbn in Hn; lia|]).
  - cbn [flat_map p_items map]. rewrite app_nil_r. reflexivity.
  - cbn [flat_map]. change (p_items (S n) (star_toks m ++ flat_map star_toks ms) acc)
      with (match p_item (star_toks m ++ flat_map star_toks ms) with
            | Some (it, r) => p_items n r (it :: acc) | None => None end).
    rewrite p_item_star, IH by (cbn [List.length] in Hn; lia). cbn [rev map]. rewrite <- app_assoc. reflexivity. Qed.
Theorem index_tokens_ok ms :
  p_items (S (List.length (flat_map star_toks ms))) (flat_map star_toks ms) [] = Some (map IExportStar ms) /\
  forallb item_ok (map IExportStar ms) = true.
Proof. split.
  - rewrite p_items_stars; [reflexivity|]. induction ms as [|m ms IH]; [cbn; lia|]. cbn [flat_map]. rewrite app_length. cbn [star_toks List.length] in *. lia.
  - induction ms as [|m ms IH]; [reflexivity|]. cbn [map forallb item_ok]. exact IH. Qed.
Lemma index_example : lexed (all_chunks (index_file true)) = flat_map star_toks [L "./types"; L "./commands"; L "./events"].
Proof. vm_compute. reflexivity. Qed.

(* ---------------------------------------------------------------- params interface: channel members, index signature *)
(* Name<A, B, ...> for a leaf name: Record<K, V> is the two-argument instance, Channel<T> the one-argument one *)
Lemma prim_generic f name elems : leaf_ok name = true -> elems <> [] -> Forall (Rep f) elems ->
  isPrim (p_type (S f)) (KId name :: P "<" :: sepc elems ++ [P ">"]).
Proof. intros Hname Hne HF. pose proof (leaf_ident name Hname) as Hi. split.
  - exists (KId name). eexists. repeat split; unfold tk_is.
    + apply (ident_not_single name "|"%char); auto.
    + apply (ident_not_single name "]"%char); auto.
  - intros rest Hs.
    assert (Forall (isTy (p_type (S f))) elems) as HT.
    { rewrite Forall_forall in *. intros x Hx. apply rep_isTy, HF, Hx. }
    cbn [app p_primary]. rewrite (leaf_not_typeof name Hname). rewrite p_path_stop by reflexivity. cbn [rev app].
    change (tk_is "<" (P "<")) with true. cbv iota. rewrite <- app_assoc. cbn [app].
    destruct (tylist_ok (p_type (S f)) ">" eq_refl eq_refl stop_close_gt elems
                (S (List.length (sepc elems ++ P ">" :: rest))) [] rest Hne HT) as [ts [E Hts]].
    { rewrite app_length. pose proof (sepc_len _ _ HT). lia. }
    rewrite E. exists (TyRef [name] ts). split; [reflexivity|]. cbn [ty_ok rev app]. unfold leaf_ok in Hname. rewrite Hname, Hts. reflexivity. Qed.

Definition chan_toks (g : c_cfg) (t : tstruct) : list tk := KId (L "Channel") :: P "<" :: rtoks g t ++ [P ">"].
Lemma channel_ptype g t rest : leaves_ok g t = true -> S (tdepth t) < TYF -> stop rest ->
  exists ty, ptype (chan_toks g t ++ rest) = Some (ty, rest) /\ ty_ok ty = true.
Proof. intros Hl Hd Hs. unfold ptype. change TYF with (S 63) in *. apply rep_parse; [|exact Hs].
  apply rep_single. change 63 with (S 62). apply (prim_generic 62 (L "Channel") [rtoks g t]); [reflexivity|discriminate|].
  constructor; [|constructor]. apply render_rep; [exact Hl|lia]. Qed.

(* members followed by an arbitrary tail that p_members finishes *)
Lemma p_members_ok_tail (tail : list tk) (k : nat) (ixs : list (str * ty * ty)) rest :
  (forall n acc ix, k <= n -> p_members ptype n tail acc ix = Some ((rev acc, rev ix ++ ixs), rest)) ->
  forall ms n acc ix, Forall good_member ms -> 2 * List.length ms + k <= n ->
  exists asts, p_members ptype n (flat_map member_toks ms ++ tail) acc ix = Some ((rev acc ++ asts, rev ix ++ ixs), rest) /\
               Forall2 member_matches ms asts.
Proof. intros Hbase. induction ms as [|m ms IH]; intros n acc ix HF Hn.
  - exists []. cbn [flat_map app]. rewrite Hbase by (cbn [List.length] in Hn; lia). rewrite app_nil_r. split; [reflexivity|constructor].
  - inversion HF as [|? ? Hm HF']; subst. destruct Hm as [Hk Hp].
    destruct n as [|[|n]]; [cbn [List.length] in Hn; lia|cbn [List.length] in Hn; lia|].
    cbn [flat_map]. unfold member_toks at 1. rewrite <- !app_assoc. cbn [app]. rewrite <- !app_assoc. cbn [app].
    rewrite <- (app_assoc (gm_toks m)). cbn [app].
    destruct (Hp (flat_map member_toks ms ++ tail)) as [t [Et Ht]].
    rewrite (p_members_member _ _ _ _ t); [|exact Hk|exact Et].
    rewrite p_members_semi. destruct (IH n ((gkey_ast (gm_key m), gm_opt m, t) :: acc) ix HF') as [asts [E HM]]; [cbn [List.length] in Hn; lia|].
    rewrite E. exists ((gkey_ast (gm_key m), gm_opt m, t) :: asts). split; [cbn [rev]; rewrite <- app_assoc; reflexivity|].
    constructor; [repeat split; assumption|exact HM]. Qed.

(* the fixed index signature  [key: string]: unknown;  and the closing brace *)
Definition index_tail (rest : list tk) : list tk :=
  P "[" :: KId (L "key") :: P ":" :: KId (L "string") :: P "]" :: P ":" :: KId (L "unknown") :: P ";" :: P "}" :: rest.
Definition index_sig : str * ty * ty := (L "key", TyRef [L "string"] [], TyRef [L "unknown"] []).
Lemma index_tail_ok rest n acc ix : 3 <= n ->
  p_members ptype n (index_tail rest) acc ix = Some ((rev acc, rev ix ++ [index_sig]), rest).
Proof. intros Hn. destruct n as [|[|[|n]]]; try lia. reflexivity. Qed.

Definition params_iface_toks (name : str) (ms : list gmember) : list tk :=
  [KId (L "export"); KId (L "interface"); KId name; P "{"] ++ flat_map member_toks ms ++ index_tail [].
Theorem skeleton_params_interface name ms rest :
  is_binding_name name = true -> Forall good_member ms ->
  exists asts, p_item (params_iface_toks name ms ++ rest) = Some (IInterface name [] None asts [index_sig], rest) /\
               Forall2 member_matches ms asts /\ item_ok (IInterface name [] None asts [index_sig]) = true.
Proof. intros Hn HF. unfold params_iface_toks. cbn [app]. rewrite p_item_interface. unfold pmembers.
  rewrite <- app_assoc. change (index_tail [] ++ rest) with (index_tail rest).
  destruct (p_members_ok_tail (index_tail rest) 3 [index_sig] rest (index_tail_ok rest) ms
              (S (List.length (flat_map member_toks ms ++ index_tail rest))) [] [] HF) as [asts [E HM]].
  { rewrite app_length. pose proof (flat_len ms). cbn [index_tail List.length]. lia. }
  cbn [rev app] in E. rewrite E. exists asts. split; [reflexivity|]. split; [exact HM|].
  cbn [item_ok]. rewrite Hn. cbn [forallb andb]. rewrite (members_ok_all _ _ HF HM). reflexivity. Qed.

(* on the model's commands: value parameters and channels of the plain-mode params interface *)
Definition param_member (g : c_cfg) (c : c_cmd) (p : str * qty) : gmember :=
  {| gm_key := key_g (param_ser g c (fst p)); gm_opt := is_option (snd p); gm_toks := rtoks g (pts (qtts (snd p))) |}.
Definition channel_member_g (g : c_cfg) (c : c_cmd) (ch : str * qty) : gmember :=
  {| gm_key := key_g (param_ser g c (fst ch)); gm_opt := false; gm_toks := chan_toks g (pts (qtts (snd ch))) |}.
Definition cmd_params_toks (g : c_cfg) (c : c_cmd) : list tk :=
  params_iface_toks (ty_ts c ++ L "Params") (map (param_member g c) (c_values c) ++ map (channel_member_g g c) (c_channels c)).
Definition chan_in_budget (g : c_cfg) (t : qty) : bool :=
  leaves_ok g (pts (qtts t)) && (S (tdepth (pts (qtts t))) <? TYF).
Theorem params_interface_tokens_ok g c rest :
  is_binding_name (ty_ts c ++ L "Params") = true ->
  forallb (fun p => type_in_budget g (snd p)) (c_values c) = true ->
  forallb (fun ch => chan_in_budget g (snd ch)) (c_channels c) = true ->
  exists asts, p_item (cmd_params_toks g c ++ rest) = Some (IInterface (ty_ts c ++ L "Params") [] None asts [index_sig], rest) /\
               item_ok (IInterface (ty_ts c ++ L "Params") [] None asts [index_sig]) = true.
Proof. intros Hn Hv Hc. unfold cmd_params_toks.
  destruct (skeleton_params_interface (ty_ts c ++ L "Params")
              (map (param_member g c) (c_values c) ++ map (channel_member_g g c) (c_channels c)) rest Hn) as [asts [E [_ Hok]]].
  - apply Forall_app. split; rewrite Forall_forall; intros m Hm; apply in_map_iff in Hm as [p [<- Hin]].
    + rewrite forallb_forall in Hv. specialize (Hv p Hin). apply andb_true_iff in Hv as [Hl Hd]. apply Nat.ltb_lt in Hd.
      split; [apply key_g_ok|]. intros r. cbn [param_member gm_toks]. apply render_ptype; [exact Hl|exact Hd|apply stop_semi].
    + rewrite forallb_forall in Hc. specialize (Hc p Hin). apply andb_true_iff in Hc as [Hl Hd]. apply Nat.ltb_lt in Hd.
      split; [apply key_g_ok|]. intros r. cbn [channel_member_g gm_toks]. apply channel_ptype; [exact Hl|exact Hd|apply stop_semi].
  - exists asts. split; assumption. Qed.

Definition ex_cmd : c_cmd :=
  {| cc_name := L "stream_items"; cc_serde := [];
     cc_params := [(L "user_id", T0 "i32"); (L "filter", T1 "Option" (T0 "String")); (L "on_event", T1 "Channel" (T1 "Vec" (T0 "Item")))];
     cc_ret := None |}.
Lemma params_tokens_example :
  lexed (params_iface_chunks g0 ex_cmd) = cmd_params_toks g0 ex_cmd /\ toks_of (params_iface_chunks g0 ex_cmd) = cmd_params_toks g0 ex_cmd /\
  is_binding_name (ty_ts ex_cmd ++ L "Params") = true /\
  forallb (fun p => type_in_budget g0 (snd p)) (c_values ex_cmd) = true /\ forallb (fun ch => chan_in_budget g0 (snd ch)) (c_channels ex_cmd) = true.
Proof. vm_compute. repeat split. Qed.
