(* C06: lemmas about the substring scanners of Model/C06Serde.v on separator-joined texts *)
From Coq Require Import String Ascii.
From Coq Require Import List Arith Lia Bool NArith.
Require Import TT.Model.Str TT.Model.C06Serde.
Import ListNotations.
Local Open Scope char_scope.
Local Open Scope list_scope.

Definition nospace (p : str) : bool := forallb (fun c => negb (Ascii.eqb c " ")) p.
Definition after_first (pat s : str) : option str := option_map snd (find_sub pat s).
Definition SEP : str := L " , ".

(* ---- unfolding ---- *)
Lemma find_sub_nil pat : find_sub pat [] = if starts pat [] then Some ([], skipn (List.length pat) []) else None.
Proof. destruct pat; reflexivity. Qed.
Lemma find_sub_cons pat c r : find_sub pat (c :: r) =
  if starts pat (c :: r) then Some ([], skipn (List.length pat) (c :: r))
  else match find_sub pat r with Some (a, b) => Some (c :: a, b) | None => None end.
Proof. destruct pat; reflexivity. Qed.
Lemma contains_nil pat : contains pat [] = starts pat [].
Proof. unfold contains. rewrite find_sub_nil. destruct (starts pat []); reflexivity. Qed.
Lemma contains_cons pat c r : contains pat (c :: r) = starts pat (c :: r) || contains pat r.
Proof. unfold contains. rewrite find_sub_cons. destruct (starts pat (c :: r)); [reflexivity|].
  destruct (find_sub pat r) as [[a b]|]; reflexivity. Qed.
Lemma after_first_nil pat : pat <> [] -> after_first pat [] = None.
Proof. intros Hp. unfold after_first. rewrite find_sub_nil. destruct pat; [congruence|reflexivity]. Qed.
Lemma after_first_cons pat c r : after_first pat (c :: r) =
  if starts pat (c :: r) then Some (skipn (List.length pat) (c :: r)) else after_first pat r.
Proof. unfold after_first. rewrite find_sub_cons. destruct (starts pat (c :: r)); [reflexivity|].
  destruct (find_sub pat r) as [[a b]|]; reflexivity. Qed.
Lemma contains_after_first pat s : contains pat s = match after_first pat s with Some _ => true | None => false end.
Proof. unfold contains, after_first. destruct (find_sub pat s) as [[a b]|]; reflexivity. Qed.

Lemma starts_refl_app p r : starts p (p ++ r) = true.
Proof. induction p as [|c p IH]; [reflexivity|]. cbn [app starts]. rewrite Ascii.eqb_refl. exact IH. Qed.
Lemma skipn_len_app (p r : str) : skipn (List.length p) (p ++ r) = r.
Proof. induction p as [|c p IH]; [reflexivity|exact IH]. Qed.
Lemma after_first_here pat r : after_first pat (pat ++ r) = Some r.
Proof. destruct pat as [|c p].
  - unfold after_first. destruct r; reflexivity.
  - cbn [app]. rewrite after_first_cons. change (c :: p ++ r) with ((c :: p) ++ r).
    rewrite starts_refl_app, skipn_len_app. reflexivity. Qed.

(* ---- a pattern without a space never straddles a space ---- *)
Lemma starts_app_space pat x b : nospace pat = true -> starts pat (x ++ " " :: b) = starts pat x.
Proof. revert x. induction pat as [|p pat IH]; intros x Hn; [destruct x; reflexivity|].
  cbn [nospace forallb] in Hn. apply andb_true_iff in Hn as [Hp Hn].
  destruct x as [|c x]; cbn [app starts].
  - apply negb_true_iff in Hp. rewrite Hp. reflexivity.
  - rewrite (IH x Hn). reflexivity. Qed.

Lemma contains_app_space pat a b : nospace pat = true -> pat <> [] ->
  contains pat (a ++ " " :: b) = contains pat a || contains pat b.
Proof. intros Hn Hp. induction a as [|c a IH].
  - cbn [app]. rewrite contains_cons, contains_nil.
    change (" " :: b) with ([] ++ " " :: b). rewrite (starts_app_space pat [] b Hn).
    destruct pat; [congruence|reflexivity].
  - cbn [app]. rewrite !contains_cons. change (c :: a ++ " " :: b) with ((c :: a) ++ " " :: b).
    rewrite (starts_app_space pat (c :: a) b Hn), IH. rewrite orb_assoc. reflexivity. Qed.

Lemma after_first_app_space pat a b : nospace pat = true -> pat <> [] -> contains pat a = false ->
  after_first pat (a ++ " " :: b) = after_first pat b.
Proof. intros Hn Hp. induction a as [|c a IH]; intros Hc.
  - cbn [app]. rewrite after_first_cons. change (" " :: b) with ([] ++ " " :: b).
    rewrite (starts_app_space pat [] b Hn). destruct pat; [congruence|reflexivity].
  - rewrite contains_cons in Hc. apply orb_false_iff in Hc as [Hs Hc].
    cbn [app]. rewrite after_first_cons. change (c :: a ++ " " :: b) with ((c :: a) ++ " " :: b).
    rewrite (starts_app_space pat (c :: a) b Hn), Hs. exact (IH Hc). Qed.

(* ---- texts joined by space comma space ---- *)
Lemma join_cons_cons (x y : str) l : join SEP (x :: y :: l) = x ++ " " :: ("," :: []) ++ " " :: join SEP (y :: l).
Proof. reflexivity. Qed.

Section Joined.
Variable pat : str.
Hypothesis Hn : nospace pat = true.
Hypothesis Hp : pat <> [].
Hypothesis Hcomma : contains pat [","] = false.

Lemma contains_join texts : contains pat (join SEP texts) = existsb (contains pat) texts.
Proof. induction texts as [|x [|y l] IH].
  - cbn [join existsb]. rewrite contains_nil. destruct pat; [congruence|reflexivity].
  - cbn [join existsb]. rewrite orb_false_r. reflexivity.
  - rewrite join_cons_cons. rewrite (contains_app_space _ _ _ Hn Hp), (contains_app_space _ _ _ Hn Hp), Hcomma, IH.
    cbn [existsb orb]. reflexivity. Qed.

Definition tail_text (post : list str) : str := match post with [] => [] | _ => SEP ++ join SEP post end.

(* the first occurrence of pat lies at the start of text t, every earlier text is free of it *)
Lemma after_first_join pre t rest post :
  (forall x, In x pre -> contains pat x = false) -> t = pat ++ rest ->
  after_first pat (join SEP (pre ++ t :: post)) = Some (rest ++ tail_text post).
Proof. intros Hfree ->. induction pre as [|x pre IH].
  - cbn [app]. destruct post as [|y l].
    + cbn [join tail_text]. rewrite app_nil_r. apply after_first_here.
    + rewrite join_cons_cons. rewrite <- app_assoc. rewrite after_first_here. reflexivity.
  - cbn [app]. destruct (pre ++ (pat ++ rest) :: post) as [|y l] eqn:E.
    + destruct pre; discriminate.
    + rewrite join_cons_cons.
      rewrite (after_first_app_space _ _ _ Hn Hp (Hfree x (or_introl eq_refl))).
      rewrite (after_first_app_space _ _ _ Hn Hp Hcomma).
      apply IH. intros z Hz. apply Hfree. right. exact Hz. Qed.

Lemma after_first_join_none texts : (forall x, In x texts -> contains pat x = false) ->
  after_first pat (join SEP texts) = None.
Proof. intros Hfree. pose proof (contains_join texts) as H. rewrite contains_after_first in H.
  destruct (after_first pat (join SEP texts)); [|reflexivity].
  symmetry in H. apply existsb_exists in H as [x [Hin Hx]]. rewrite (Hfree x Hin) in Hx. discriminate. Qed.
End Joined.

(* ---- single characters ---- *)
Lemma after_char_app c v r : forallb (fun b => negb (Ascii.eqb b c)) v = true -> after_char c (v ++ c :: r) = Some (v, r).
Proof. induction v as [|b v IH]; intros H.
  - cbn [app after_char]. rewrite Ascii.eqb_refl. reflexivity.
  - cbn [forallb] in H. apply andb_true_iff in H as [Hb H]. apply negb_true_iff in Hb.
    cbn [app after_char]. rewrite Hb, (IH H). reflexivity. Qed.

(* ---- proc_macro2 printing of a comma-separated meta list ---- *)
Lemma tok_go_false l : l <> [] -> tok_go false l = " " :: tok_go true l.
Proof. destruct l; [congruence|reflexivity]. Qed.
Lemma tok_go_app first a b : a <> [] -> tok_go first (a ++ b) = tok_go first a ++ tok_go false b.
Proof. revert first. induction a as [|x a IH]; intros first Ha; [congruence|].
  cbn [app tok_go]. destruct a as [|y a].
  - cbn [app tok_go]. rewrite app_nil_r, <- app_assoc. reflexivity.
  - rewrite (IH false) by discriminate. rewrite <- !app_assoc. reflexivity. Qed.

Lemma sep_tokens_nonempty {A} (f : A -> list tt) l : (forall m, f m <> []) -> l <> [] -> sep_tokens f l <> [].
Proof. intros Hf. destruct l as [|m [|m2 r]]; intros H; [congruence| |]; cbn [sep_tokens].
  - apply Hf.
  - specialize (Hf m). destruct (f m); [congruence|discriminate]. Qed.

Lemma tok_string_sep {A} (f : A -> list tt) l : (forall m, f m <> []) ->
  tok_string (sep_tokens f l) = join SEP (map (fun m => tok_string (f m)) l).
Proof. intros Hf. induction l as [|m [|m2 r] IH]; [reflexivity|reflexivity|].
  change (sep_tokens f (m :: m2 :: r)) with (f m ++ TPunct "," :: sep_tokens f (m2 :: r)).
  cbn [map]. rewrite join_cons_cons. unfold tok_string in *. rewrite (tok_go_app true _ _ (Hf m)).
  cbn [tok_go tok_text app]. rewrite tok_go_false by (apply sep_tokens_nonempty; [exact Hf|discriminate]).
  cbn [map] in IH. rewrite IH. reflexivity. Qed.

(* ------------------------------------------------------------------ find_key on joined texts *)
Lemma starts_skipn_app pat x z : starts pat x = true -> skipn (List.length pat) (x ++ z) = skipn (List.length pat) x ++ z.
Proof. revert x. induction pat as [|p pat IH]; intros x H; [reflexivity|]. destruct x as [|c x]; [discriminate|].
  cbn [starts] in H. apply andb_true_iff in H as [_ H]. cbn [List.length skipn app]. apply IH. exact H. Qed.
Lemma trim_l_opens x z : opens_value (trim_l x) = true -> trim_l (x ++ z) = trim_l x ++ z.
Proof. induction x as [|c x IH]; intros H; [discriminate|]. cbn [app trim_l] in *. destruct (is_space c); [apply IH; exact H|reflexivity]. Qed.
(* what follows a text in a comma-separated list never opens a value *)
Lemma opens_sep x b : opens_value (trim_l (x ++ " " :: "," :: b)) = opens_value (trim_l x).
Proof. induction x as [|c x IH]; [reflexivity|]. cbn [app trim_l]. destruct (is_space c); [exact IH|reflexivity]. Qed.

Section KeyJoined.
Variable key : str.
Hypothesis Hn : nospace key = true.
Hypothesis Hp : key <> [].
Hypothesis Hcomma : forall z, starts key ("," :: z) = false.

Lemma starts_key_sp z : starts key (" " :: z) = false.
Proof. destruct key as [|c k]; [congruence|]. cbn [nospace forallb] in Hn. apply andb_true_iff in Hn as [H _].
  apply negb_true_iff in H. cbn [starts]. rewrite H. reflexivity. Qed.
Lemma starts_key_comma z : starts key ("," :: z) = false.
Proof. apply Hcomma. Qed.

Lemma key_scan_sep p a b :
  key_scan key p (a ++ " " :: "," :: " " :: b) =
  match key_scan key p a with Some r => Some (r ++ " " :: "," :: " " :: b) | None => key_scan key false b end.
Proof. revert p. induction a as [|c a IH]; intros p.
  - cbn [app key_scan]. rewrite starts_key_sp. cbn [andb]. rewrite starts_key_comma. cbn [andb]. rewrite starts_key_sp. reflexivity.
  - cbn [key_scan]. change ((c :: a) ++ " " :: "," :: " " :: b) with ((c :: a) ++ " " :: ("," :: " " :: b)).
    cbn [app key_scan]. change (c :: a ++ " " :: "," :: " " :: b) with ((c :: a) ++ " " :: ("," :: " " :: b)).
    rewrite (starts_app_space key (c :: a) _ Hn).
    destruct (starts key (c :: a)) eqn:Es.
    + rewrite (starts_skipn_app key (c :: a) _ Es), opens_sep.
      destruct (negb p && opens_value (trim_l (skipn (List.length key) (c :: a)))) eqn:E.
      * cbn [andb]. rewrite E. apply andb_true_iff in E as [_ E]. rewrite (trim_l_opens _ _ E). reflexivity.
      * cbn [andb]. rewrite E. apply IH.
    + cbn [andb]. apply IH. Qed.

(* the first text holding the key as a key decides; earlier texts hold none *)
Lemma key_scan_join pre t r post :
  (forall x, In x pre -> key_scan key false x = None) -> key_scan key false t = Some r ->
  key_scan key false (join SEP (pre ++ t :: post)) = Some (r ++ tail_text post).
Proof. intros Hfree Ht. induction pre as [|x pre IH].
  - cbn [app]. destruct post as [|y l].
    + cbn [join tail_text]. rewrite app_nil_r. exact Ht.
    + rewrite join_cons_cons. cbn [app]. rewrite key_scan_sep, Ht. reflexivity.
  - cbn [app]. destruct (pre ++ t :: post) as [|y l] eqn:E; [destruct pre; discriminate|].
    rewrite join_cons_cons. cbn [app]. rewrite key_scan_sep, (Hfree x (or_introl eq_refl)).
    apply IH. intros z Hz. apply Hfree. right. exact Hz. Qed.
Lemma key_scan_join_none texts : (forall x, In x texts -> key_scan key false x = None) ->
  key_scan key false (join SEP texts) = None.
Proof. intros Hfree. induction texts as [|x [|y l] IH].
  - reflexivity.
  - cbn [join]. apply Hfree. left. reflexivity.
  - rewrite join_cons_cons. cbn [app]. rewrite key_scan_sep, (Hfree x (or_introl eq_refl)).
    apply IH. intros z Hz. apply Hfree. right. exact Hz. Qed.

(* the key at the start of a text, followed by something that opens a value *)
Lemma key_scan_here R : opens_value (trim_l R) = true -> key_scan key false (key ++ R) = Some (trim_l R).
Proof. intros H. destruct key as [|c k] eqn:Ek; [congruence|]. cbn [app key_scan]. change (c :: k ++ R) with ((c :: k) ++ R).
  rewrite starts_refl_app, skipn_len_app, H. reflexivity. Qed.
End KeyJoined.
