(* C01: the lexer turns the text of a rendered type into exactly the token rendering the parser theorems
   speak about (Proofs/C01TypeHole.v rtoks), in front of any admissible continuation. Built on the reusable
   lexer facts of Proofs/LexFacts.v (token-boundary composition lexes / lexes_app). *)
From Coq Require Import String Ascii.
From Coq Require Import List Arith Bool Lia.
Require Import TT.Model.Str TT.Model.TypeParse TT.Model.Pipeline.
Require Import TT.Spec.TsLex TT.Spec.TsModule TT.Spec.TsObs TT.Spec.C01Wf TT.Model.C01Emit.
Require Import TT.Proofs.LexFacts TT.Proofs.C01Holes TT.Proofs.C01Skeleton TT.Proofs.C01TypeHole.
Import ListNotations.
Local Open Scope char_scope.
Local Open Scope list_scope.

(* ---------------------------------------------------------------- what may follow a type *)
Definition nl : ascii := ascii_of_nat 10.
Definition follow2 (c : ascii) : bool := existsb (Ascii.eqb c) [" "; ";"; ","; "]"; ">"; "["; ")"; nl].
(* first character one of the above; after a closing angle bracket no equals sign (no >= or >>= token) *)
Definition Pc (r : str) : Prop :=
  match r with
  | [] => True
  | c :: r' => follow2 c = true /\ (c = ">" -> match r' with y :: _ => y <> "=" | [] => True end)
  end.
Lemma follow2_cases c : follow2 c = true ->
  c = " " \/ c = ";" \/ c = "," \/ c = "]" \/ c = ">" \/ c = "[" \/ c = ")" \/ c = nl.
Proof. unfold follow2. cbn [existsb]. intros H. repeat (apply orb_true_iff in H; destruct H as [H|H]);
  try (apply Ascii.eqb_eq in H; subst; tauto). discriminate. Qed.
Lemma follow2_not_id c : follow2 c = true -> is_id_char c = false.
Proof. intros H. destruct (follow2_cases c H) as [->|[->|[->|[->|[->|[->|[->| ->]]]]]]]; reflexivity. Qed.
Lemma follow2_not_eq c : follow2 c = true -> c <> "=".
Proof. intros H. destruct (follow2_cases c H) as [->|[->|[->|[->|[->|[->|[->| ->]]]]]]]; discriminate. Qed.
Lemma Pc_bnd r : Pc r -> bnd r.
Proof. destruct r as [|c r']; [auto|]. intros [H _]. apply follow2_not_id. exact H. Qed.
Lemma Pc_cons c r : follow2 c = true -> c <> ">" -> Pc (c :: r).
Proof. intros H Hn. split; [exact H|]. intros E. contradiction. Qed.
Lemma Pc_gt r : Pc r -> Pc (">" :: r).
Proof. intros H. split; [reflexivity|]. intros _. destruct r as [|y r']; [exact Logic.I|]. destruct H as [H _]. apply follow2_not_eq. exact H. Qed.

(* ---------------------------------------------------------------- the closing angle bracket *)
Definition gt_ok (r : str) : Prop :=
  match r with [] => True | x :: r' => x <> "=" /\ (x = ">" -> match r' with y :: _ => y <> "=" | [] => True end) end.
Lemma try_gt2 r : gt_ok r -> try_punct (">" :: r) = Some ([">"], r).
Proof. intros Hr. unfold try_punct, puncts3, puncts2, puncts1.
  destruct r as [|x r2]; [reflexivity|]. destruct Hr as [Hx Hy].
  assert (Ascii.eqb "=" x = false) as E1 by (apply Ascii.eqb_neq; congruence).
  destruct (Ascii.eqb ">" x) eqn:Eg.
  - apply Ascii.eqb_eq in Eg. subst x. specialize (Hy eq_refl). destruct r2 as [|y r3].
    + cbn [find L list_ascii_of_string starts]. eval_head ">". cbn [andb skipn existsb orb]. eval_head ">". reflexivity.
    + assert (Ascii.eqb "=" y = false) as E2 by (apply Ascii.eqb_neq; congruence).
      cbn [find L list_ascii_of_string starts]. eval_head ">". cbn [andb]. rewrite E2. cbn [andb skipn existsb orb]. eval_head ">". reflexivity.
  - destruct r2 as [|y r3]; cbn [find L list_ascii_of_string starts]; eval_head ">"; cbn [andb]; rewrite ?E1, ?Eg; cbn [andb skipn existsb orb];
      eval_head ">"; reflexivity. Qed.
Lemma lexes_gt2 (Q : str -> Prop) : (forall r, Q r -> gt_ok r) -> lexes Q [">"] [P ">"].
Proof. intros H. apply lexes_step. intros r f Hr. change (P ">") with (KP [">"]). apply lex_punct; try reflexivity. apply try_gt2, H, Hr. Qed.
Lemma Pc_gt_ok r : Pc r -> gt_ok r.
Proof. destruct r as [|x r']; [auto|]. intros [H1 H2]. split; [apply follow2_not_eq; exact H1|exact H2]. Qed.

(* the opening angle bracket in front of a type *)
Definition starts_type (r : str) : Prop := exists c r', r = c :: r' /\ (is_id_start c = true \/ c = "[").
Lemma lexes_lt2 : lexes starts_type ["<"] [P "<"].
Proof. apply lexes_step. intros r f [c [r' [-> Hc]]]. change (P "<") with (KP ["<"]). apply lex_punct; try reflexivity.
  apply try_lt; apply Ascii.eqb_neq; destruct Hc as [Hc| ->]; try discriminate.
  - destruct (id_start_facts c Hc) as [_ [_ [_ [_ [_ [_ Hne]]]]]]. congruence.
  - intros <-. discriminate. Qed.

(* ---------------------------------------------------------------- fixed pieces *)
Lemma P_single c : P (String c EmptyString) = KP [c].
Proof. reflexivity. Qed.
Lemma lexes_brackets : lexes Pc (L "[]") [P "["; P "]"].
Proof. change (L "[]") with (["["] ++ ["]"]). change [P "["; P "]"] with ([KP ["["]] ++ [KP ["]"]]).
  apply (lexes_app (fun _ => True) Pc); [apply lexes_single; reflexivity|apply lexes_single; reflexivity|auto]. Qed.
Lemma lexes_comma_sp (Q : str -> Prop) : lexes Q (L ", ") [P ","].
Proof. change (L ", ") with ([","] ++ [" "]). change [P ","] with ([KP [","]] ++ []).
  apply (lexes_app (fun _ => True) Q); [apply lexes_single; reflexivity|apply lexes_space|auto]. Qed.
Lemma lexes_opt_null : lexes Pc (L " | null") [P "|"; KId (L "null")].
Proof. change (L " | null") with ([" "] ++ (["|"] ++ ([" "] ++ L "null"))).
  change [P "|"; KId (L "null")] with ([] ++ ([KP ["|"]] ++ ([] ++ [KId (L "null")]))).
  apply (lexes_app (fun _ => True) Pc); [apply lexes_space| |auto].
  apply (lexes_app (fun r => exists r', r = " " :: r') Pc); [apply lexes_bar; auto| |intros r _; eexists; reflexivity].
  apply (lexes_app (fun _ => True) Pc); [apply lexes_space| |auto].
  apply lexes_ident; [reflexivity|apply Pc_bnd]. Qed.

(* ---------------------------------------------------------------- rendered types *)
Lemma leaf_is_ident n : leaf_ok n = true -> ident n = true.
Proof. intros H. exact (leaf_ident n H). Qed.
Lemma render_head g : forall t, leaves_ok g t = true -> starts_type (render_m g t).
Proof. induction t as [s|t IH|k v IHk IHv|t IH|l IHl|t IH|t IH|s] using tstruct_ind'; cbn [render_m leaves_ok]; intros Hl.
  - pose proof (leaf_is_ident _ Hl) as Hi. destruct s as [|c r]; [discriminate|]. cbn [ident] in Hi. apply andb_true_iff in Hi as [Hc _].
    exists c, r. auto.
  - destruct (IH Hl) as [c [r [-> H]]]. exists c. eexists. split; [reflexivity|exact H].
  - exists "R". eexists. split; [reflexivity|left; reflexivity].
  - destruct (IH Hl) as [c [r [-> H]]]. exists c. eexists. split; [reflexivity|exact H].
  - destruct l as [|x l]; [exists "v"; eexists; split; [reflexivity|left; reflexivity]|].
    exists "[". eexists. split; [reflexivity|right; reflexivity].
  - destruct (IH Hl) as [c [r [-> H]]]. exists c. eexists. split; [reflexivity|exact H].
  - apply IH. exact Hl.
  - pose proof (leaf_is_ident _ Hl) as Hi. destruct (custom_ts g s) as [|c r]; [discriminate|]. cbn [ident] in Hi. apply andb_true_iff in Hi as [Hc _].
    exists c, r. auto. Qed.

Lemma starts_type_app a b : starts_type a -> starts_type (a ++ b).
Proof. intros [c [r [-> H]]]. exists c, (r ++ b). auto. Qed.

(* a comma separated list of rendered types *)
Lemma lexes_join g : forall l, l <> [] -> Forall (fun t => leaves_ok g t = true /\ lexes Pc (render_m g t) (rtoks g t)) l ->
  lexes Pc (join (L ", ") (map (render_m g) l)) (sepc (map (rtoks g) l)).
Proof. induction l as [|x l IH]; intros Hne HF; [congruence|]. inversion HF as [|? ? [Hlx Hx] HF']; subst.
  destruct l as [|y l]; [exact Hx|].
  change (join (L ", ") (map (render_m g) (x :: y :: l))) with (render_m g x ++ (L ", " ++ join (L ", ") (map (render_m g) (y :: l)))).
  change (sepc (map (rtoks g) (x :: y :: l))) with (rtoks g x ++ P "," :: sepc (map (rtoks g) (y :: l))).
  apply (lexes_app Pc Pc); [exact Hx| |intros r _; apply Pc_cons; [reflexivity|discriminate]].
  change (P "," :: sepc (map (rtoks g) (y :: l))) with ([P ","] ++ sepc (map (rtoks g) (y :: l))).
  apply (lexes_app (fun _ => True) Pc); [apply lexes_comma_sp|apply IH; [discriminate|exact HF']|auto]. Qed.

Theorem lexes_render g : forall t, leaves_ok g t = true -> lexes Pc (render_m g t) (rtoks g t).
Proof. induction t as [s|t IH|k v IHk IHv|t IH|l IHl|t IH|t IH|s] using tstruct_ind'; cbn [render_m rtoks leaves_ok]; intros Hl.
  - apply lexes_ident; [apply leaf_is_ident; exact Hl|apply Pc_bnd].
  - apply (lexes_app Pc Pc); [apply IH; exact Hl|apply lexes_brackets|intros r _; apply Pc_cons; [reflexivity|discriminate]].
  - apply andb_true_iff in Hl as [Hk Hv].
    change (L "Record<" ++ render_m g k ++ L ", " ++ render_m g v ++ L ">")
      with (L "Record" ++ (["<"] ++ (render_m g k ++ (L ", " ++ (render_m g v ++ [">"]))))).
    change (KId (L "Record") :: P "<" :: rtoks g k ++ P "," :: rtoks g v ++ [P ">"])
      with ([KId (L "Record")] ++ ([P "<"] ++ (rtoks g k ++ ([P ","] ++ (rtoks g v ++ [P ">"]))))).
    apply (lexes_app (fun r => bnd r) Pc); [apply lexes_ident; [reflexivity|auto]| |intros r _; reflexivity].
    apply (lexes_app starts_type Pc); [apply lexes_lt2| |intros r _; apply starts_type_app, starts_type_app, render_head; exact Hk].
    apply (lexes_app Pc Pc); [apply IHk; exact Hk| |intros r _; apply Pc_cons; [reflexivity|discriminate]].
    apply (lexes_app (fun _ => True) Pc); [apply lexes_comma_sp| |auto].
    apply (lexes_app Pc Pc); [apply IHv; exact Hv|apply lexes_gt2; apply Pc_gt_ok|intros r Hr; apply Pc_gt; exact Hr].
  - apply (lexes_app Pc Pc); [apply IH; exact Hl|apply lexes_brackets|intros r _; apply Pc_cons; [reflexivity|discriminate]].
  - destruct l as [|x l]; [apply lexes_ident; [reflexivity|apply Pc_bnd]|].
    change (L "[" ++ join (L ", ") (map (render_m g) (x :: l)) ++ L "]") with (["["] ++ (join (L ", ") (map (render_m g) (x :: l)) ++ ["]"])).
    change (P "[" :: sepc (map (rtoks g) (x :: l)) ++ [P "]"]) with ([KP ["["]] ++ (sepc (map (rtoks g) (x :: l)) ++ [KP ["]"]])).
    apply (lexes_app (fun _ => True) Pc); [apply lexes_single; reflexivity| |auto].
    apply (lexes_app Pc Pc); [|apply lexes_single; reflexivity|intros r _; apply Pc_cons; [reflexivity|discriminate]].
    apply lexes_join; [discriminate|]. rewrite Forall_forall in *. intros y Hy. rewrite forallb_forall in Hl. split; [apply Hl, Hy|apply IHl; [exact Hy|apply Hl, Hy]].
  - apply (lexes_app Pc Pc); [apply IH; exact Hl|apply lexes_opt_null|intros r _; apply Pc_cons; [reflexivity|discriminate]].
  - apply IH. exact Hl.
  - apply lexes_ident; [apply leaf_is_ident; exact Hl|apply Pc_bnd].
Qed.

(* the type text alone, and in front of a semicolon and anything *)
Theorem lex_render_alone g t : leaves_ok g t = true -> lex_module (render_m g t) = rtoks g t.
Proof. intros H. apply (lexes_module Pc); [apply lexes_render; exact H|exact Logic.I]. Qed.

(* ---------------------------------------------------------------- the boolean type-hole predicate, for all types *)
Definition simple_tk (t : tk) : bool := match t with KId _ | KP _ => true | _ => false end.
Lemma sepc_simple l : Forall (fun x => forallb simple_tk x = true) l -> forallb simple_tk (sepc l) = true.
Proof. induction 1 as [|x l Hx HF IH]; [reflexivity|]. destruct l as [|y l]; [exact Hx|].
  rewrite sepc_cons2, forallb_app, Hx. cbn [forallb simple_tk andb]. exact IH. Qed.
Lemma rtoks_simple g : forall t, forallb simple_tk (rtoks g t) = true.
Proof. induction t as [s|t IH|k v IHk IHv|t IH|l IHl|t IH|t IH|s] using tstruct_ind'; cbn [rtoks]; try reflexivity.
  - rewrite forallb_app, IH. reflexivity.
  - cbn [forallb simple_tk andb]. rewrite forallb_app, IHk. cbn [forallb simple_tk andb]. rewrite forallb_app, IHv. reflexivity.
  - rewrite forallb_app, IH. reflexivity.
  - destruct l as [|x l]; [reflexivity|]. cbn [forallb simple_tk andb]. rewrite forallb_app. rewrite sepc_simple; [reflexivity|].
    rewrite Forall_forall in *. intros y Hy. apply in_map_iff in Hy as [z [<- Hz]]. apply IHl, Hz.
  - rewrite forallb_app, IH. reflexivity.
  - exact IH. Qed.
Lemma simple_clean l : forallb simple_tk l = true -> toks_clean l = true.
Proof. intros H. unfold toks_clean. apply andb_true_iff. split.
  - apply negb_true_iff. unfold has_err. induction l as [|t l IH]; [reflexivity|]. cbn [forallb] in H. apply andb_true_iff in H as [Ht Hl].
    cbn [existsb]. rewrite (IH Hl). destruct t; try discriminate; reflexivity.
  - induction l as [|t l IH]; [reflexivity|]. cbn [forallb] in *. apply andb_true_iff in H as [Ht Hl]. rewrite (IH Hl).
    destruct t; try discriminate; reflexivity. Qed.
Lemma stop_nil : stop [].
Proof. repeat split. Qed.

(* C01_holes for the type class, at text level: the text the renderer prints for a type with identifier leaves and
   nesting below the parser budget satisfies the boolean hole predicate (lexes without error, parses completely as
   one type, the type is well formed) *)
Theorem type_hole_text g t : leaves_ok g t = true -> tdepth t < TYF -> hole_ok HType (render_m g t) = true.
Proof. intros Hl Hd. cbn [hole_ok]. rewrite (lex_render_alone g t Hl). rewrite (simple_clean _ (rtoks_simple g t)). cbn [andb].
  destruct (render_ptype g t [] Hl Hd stop_nil) as [ty [E Ht]]. rewrite app_nil_r in E. rewrite E. exact Ht. Qed.

(* and in place: in front of the semicolon of a member line and whatever follows, the lexer yields the type tokens
   and then goes on with the rest *)
Theorem lex_render_member g t rest : leaves_ok g t = true ->
  exists f', List.length (";" :: rest) < f' /\
    lexm (S (List.length (render_m g t ++ ";" :: rest))) (render_m g t ++ ";" :: rest) = rtoks g t ++ lexm f' (";" :: rest).
Proof. intros Hl. apply (lexes_render g t Hl); [apply Pc_cons; [reflexivity|discriminate]|lia]. Qed.
