(* C06: emitted names = serde's wire names outside the recorded classes; witnesses inside them *)
From Coq Require Import String Ascii.
From Coq Require Import List Arith Lia Bool NArith.
Require Import TT.Model.Str TT.Model.C06Serde TT.Spec.C06SerdeRule TT.Proofs.StrFacts TT.Proofs.C06Strings TT.Proofs.C06Proofs.
Import ListNotations.
Local Open Scope char_scope.
Local Open Scope list_scope.

(* the per-item components of the class predicates *)
Definition it_skip_text (it : item) : bool := negb (has_skip it) && existsb group_skip_text (it_attrs it).
Definition it_skip_beside (it : item) : bool := has_skip it && negb (existsb group_skip_seen (it_attrs it)).
Definition it_escape (it : item) : bool := match rename_of it with Some v => needs_escape v | None => false end.
Definition it_rename_text (it : item) : bool :=
  existsb (fun m => match m with
                    | MRename _ => false
                    | MRenameP l => p_bad l
                    | _ => key_occurs (L "rename") (meta_text m) end) (concat (it_attrs it)).

Lemma item_rename_ok it : item_ok it = true -> it_escape it = false -> it_rename_text it = false ->
  fst (field_attrs (map group_string (it_attrs it))) = rename_of it.
Proof. intros Hok He Hr. unfold item_ok in Hok. apply andb_true_iff in Hok as [Hok Hc]. apply Nat.leb_le in Hc.
  apply andb_true_iff in Hok as [_ Hoth].
  apply item_rename; [exact Hoth| | | |exact Hc].
  - intros m Hm Hnr. pose proof (existsb_false_in _ _ Hr m Hm) as H. cbn beta in H. destruct m; try discriminate; exact H.
  - intros l Hl. exact (existsb_false_in _ _ Hr (MRenameP l) Hl).
  - intros v Hv. unfold it_escape in He. rewrite Hv in He. exact He. Qed.

Lemma default_is_snake : default_case default_field_case = RSnake.
Proof. reflexivity. Qed.

Lemma name_field dfc it ra : item_ok it = true ->
  match ra with None => has_skip it = false -> cfg_differs dfc it = false | Some _ => True end ->
  has_skip it = false ->
  compute_field_name dfc (unraw (it_ident it)) (rename_of it) ra = wire_name KStruct ra it.
Proof. intros Hok Hcfg Hs. unfold item_ok in Hok. apply andb_true_iff in Hok as [Hok _]. apply andb_true_iff in Hok as [Hid _].
  unfold compute_field_name, wire_name. destruct (rename_of it) as [v|] eqn:Er; [reflexivity|].
  destruct ra as [r|]; [apply apply_field_ok; exact Hid|].
  specialize (Hcfg Hs). unfold cfg_differs in Hcfg. rewrite Hs, Er in Hcfg. cbn [negb andb] in Hcfg.
  apply negb_false_iff in Hcfg. apply str_eqb_eq in Hcfg. exact Hcfg. Qed.

Lemma name_variant it ra : compute_variant_name (unraw (it_ident it)) (rename_of it) ra = wire_name KEnum ra it.
Proof. unfold compute_variant_name, wire_name. destruct (rename_of it) as [v|]; [reflexivity|].
  destruct ra as [r|]; [|reflexivity]. cbn [is_struct]. rewrite <- apply_variant_ok. destruct r; reflexivity. Qed.

Lemma name_item dfc k it ra : item_ok it = true ->
  (is_struct k = true -> match ra with None => has_skip it = false -> cfg_differs dfc it = false | Some _ => True end) ->
  has_skip it = false ->
  (if is_struct k then compute_field_name dfc (unraw (it_ident it)) (rename_of it) ra
   else compute_variant_name (unraw (it_ident it)) (rename_of it) ra) = wire_name k ra it.
Proof. intros Hok Hcfg Hs. destruct k; cbn [is_struct] in *; [apply name_field; [exact Hok|apply Hcfg; reflexivity|exact Hs]|apply name_variant]. Qed.

Lemma emit_ok dfc k ra items :
  forallb item_ok items = true ->
  existsb it_skip_text items = false -> existsb it_skip_beside items = false ->
  existsb it_escape items = false -> existsb it_rename_text items = false ->
  (is_struct k = true -> ra = None -> existsb (cfg_differs dfc) items = false) ->
  emit_raw k dfc ra (map item_raw items)
  = map (wire_name k ra) (filter (fun it => negb (has_skip it)) items).
Proof. induction items as [|it items IH]; intros Hok H2 H3 H4 H5 H7; [reflexivity|].
  cbn [forallb] in Hok. apply andb_true_iff in Hok as [Hit Hok].
  cbn [existsb] in H2, H3, H4, H5.
  apply orb_false_iff in H2 as [A2 H2]. apply orb_false_iff in H3 as [A3 H3].
  apply orb_false_iff in H4 as [A4 H4]. apply orb_false_iff in H5 as [A5 H5].
  assert (is_struct k = true -> ra = None -> cfg_differs dfc it = false /\ existsb (cfg_differs dfc) items = false) as H7'.
  { intros Hk Hr. specialize (H7 Hk Hr). cbn [existsb] in H7. apply orb_false_iff in H7. exact H7. }
  assert (is_struct k = true -> ra = None -> existsb (cfg_differs dfc) items = false) as H7t by (intros Hk Hr; apply (H7' Hk Hr)).
  specialize (IH Hok H2 H3 H4 H5 H7t).
  cbn [map emit_raw item_raw filter].
  pose proof (item_rename_ok it Hit A4 A5) as Hrn.
  destruct (field_attrs (map group_string (it_attrs it))) as [rn sk] eqn:E. cbn [fst] in Hrn. subst rn.
  destruct (has_skip it) eqn:Hs.
  - unfold it_skip_beside in A3. rewrite Hs in A3. cbn [andb] in A3. apply negb_false_iff in A3.
    pose proof (item_skip_true it Hs A3) as Hsk. rewrite E in Hsk. cbn [snd] in Hsk. subst sk.
    cbn [negb]. exact IH.
  - unfold it_skip_text in A2. rewrite Hs in A2. cbn [negb andb] in A2.
    pose proof (item_skip_false it Hs A2) as Hsk. rewrite E in Hsk. cbn [snd] in Hsk. subst sk.
    cbn [negb map]. rewrite (name_item dfc k it ra Hit); [rewrite IH; reflexivity| |exact Hs].
    intros Hk. destruct ra as [r|]; [exact I|]. intros _. apply (H7' Hk eq_refl). Qed.

(* every configured default_field_case *)
Theorem names_correct_cfg dfc c : in_domain c = true -> kf_C06 c = false -> kf_config_case dfc c = false ->
  emitted_keys dfc c = serde_wire_names c.
Proof. intros Hd Hk Hcfg. unfold emitted_keys, emitted_keys_raw, serde_wire_names.
  unfold kf_C06 in Hk. repeat (apply orb_false_iff in Hk as [Hk ?]).
  rewrite (struct_attrs_container c Hd) by assumption.
  unfold in_domain in Hd. apply andb_true_iff in Hd as [Hd _]. unfold in_domain0 in Hd. apply andb_true_iff in Hd as [Hd _]. apply andb_true_iff in Hd as [Hd _]. apply andb_true_iff in Hd as [Hitems _].
  match goal with X : kf_rename_text c = false |- _ => unfold kf_rename_text in X; apply orb_false_iff in X as [Hrt _] end.
  unfold kf_skip_text, kf_skip_beside, kf_rename_escape in *.
  apply emit_ok; try assumption.
  intros Hs Hr. unfold kf_config_case in Hcfg. rewrite Hs, Hr in Hcfg. exact Hcfg. Qed.

(* the class is empty under the default configuration *)
Lemma config_default_empty c : kf_config_case default_field_case c = false.
Proof. unfold kf_config_case. destruct (is_struct (c_kind c)); [|reflexivity]. destruct (container_rule c); [reflexivity|].
  cbn [andb]. induction (c_items c) as [|it l IH]; [reflexivity|]. cbn [existsb]. rewrite IH, orb_false_r.
  unfold cfg_differs. destruct (has_skip it); [reflexivity|]. destruct (rename_of it); [reflexivity|].
  rewrite default_is_snake. cbn [apply_naming_convention negb andb]. rewrite str_eqb_refl. reflexivity. Qed.

Theorem names_correct c : in_domain c = true -> kf_C06 c = false ->
  emitted_keys default_field_case c = serde_wire_names c.
Proof. intros Hd Hk. apply names_correct_cfg; [exact Hd|exact Hk|apply config_default_empty]. Qed.

(* reflection of the run-time oracle *)
Lemma strs_eqb_eq a b : strs_eqb a b = true <-> a = b.
Proof. revert b. induction a as [|x a IH]; intros [|y b]; cbn [strs_eqb]; split; intros H; try reflexivity; try discriminate.
  - apply andb_true_iff in H as [H1 H2]. apply str_eqb_eq in H1. apply IH in H2. subst. reflexivity.
  - injection H as -> ->. rewrite str_eqb_refl. apply IH. reflexivity. Qed.
Theorem oracle_exact c observed : c06_ok c observed = true <-> observed = serde_wire_names c.
Proof. unfold c06_ok. apply strs_eqb_eq. Qed.

(* C06-7 witness: default_field_case = camelCase, unattributed struct *)
Definition w7 : container := {| c_kind := KStruct; c_attrs := []; c_items := [{| it_ident := L "user_id"; it_attrs := [] |}; {| it_ident := L "a"; it_attrs := [] |}] |}.
Lemma config_case_refuted : in_domain w7 = true /\ kf_C06 w7 = false /\ kf_config_case (L "camelCase") w7 = true /\
  emitted_keys (L "camelCase") w7 = [L "userId"; L "a"] /\ serde_wire_names w7 = [L "user_id"; L "a"] /\
  c06_ok w7 [L "userId"; L "a"] = false.
Proof. vm_compute. repeat split. Qed.

(* ------------------------------------------------------------------ other attributes are inert *)
Lemma first_rename_core l : first_rename (filter (fun m => negb (is_other m)) l) = first_rename l.
Proof. induction l as [|m l IH]; [reflexivity|]. destruct m as [v|l0| |n o]; cbn [filter is_other negb first_rename]; auto. destruct (ser_of l0); auto. Qed.
Lemma skip_core l : existsb is_mskip (filter (fun m => negb (is_other m)) l) = existsb is_mskip l.
Proof. induction l as [|m l IH]; [reflexivity|]. destruct m; cbn [filter is_other negb existsb is_mskip]; auto. Qed.

Lemma core_determines it it' : core_item it = core_item it' ->
  it_ident it = it_ident it' /\ rename_of it = rename_of it' /\ has_skip it = has_skip it'.
Proof. unfold core_item. intros H. injection H as Hi Hc. split; [exact Hi|]. split.
  - unfold rename_of. rewrite <- (first_rename_core (concat (it_attrs it))), Hc. apply first_rename_core.
  - unfold has_skip. rewrite <- !existsb_concat. rewrite <- (skip_core (concat (it_attrs it))), Hc. apply skip_core. Qed.

Lemma wire_same k ra l l' : map core_item l = map core_item l' ->
  map (wire_name k ra) (filter (fun it => negb (has_skip it)) l) = map (wire_name k ra) (filter (fun it => negb (has_skip it)) l').
Proof. revert l'. induction l as [|it l IH]; intros [|it' l'] H; try discriminate; [reflexivity|].
  cbn [map] in H. pose proof (f_equal (hd (core_item it)) H) as H1. pose proof (f_equal (@tl _) H) as H2. cbn [hd tl] in H1, H2. destruct (core_determines it it' H1) as (Hi & Hr & Hs).
  cbn [filter]. rewrite Hs. destruct (has_skip it'); cbn [negb map]; [apply IH; exact H2|].
  rewrite (IH l' H2). f_equal. unfold wire_name. rewrite Hr, Hi. reflexivity. Qed.

Theorem spec_ignores_others c c' : same_modulo_others c c' -> serde_wire_names c = serde_wire_names c'.
Proof. intros (Hk & Hr & Hi). unfold serde_wire_names. rewrite Hk, Hr. apply wire_same. exact Hi. Qed.

Theorem other_attrs_inert c c' : same_modulo_others c c' ->
  in_domain c = true -> in_domain c' = true -> kf_C06 c = false -> kf_C06 c' = false ->
  emitted_keys default_field_case c = emitted_keys default_field_case c'.
Proof. intros Hs Hd Hd' Hk Hk'. rewrite (names_correct c Hd Hk), (names_correct c' Hd' Hk'), (spec_ignores_others c c' Hs). reflexivity. Qed.

(* ------------------------------------------------------------------ witnesses inside the classes *)
Definition S_ (s : string) : str := L s.
Definition it0 (id : string) (a : list group) : item := {| it_ident := L id; it_attrs := a |}.

Definition w1 : container := {| c_kind := KEnum; c_attrs := [[CRenameAll (L "SCREAMING_SNAKE_CASE")]];
                                c_items := [it0 "InProgress" []; it0 "Done" []] |}.
Definition w2 : container := {| c_kind := KStruct; c_attrs := [];
  c_items := [it0 "a" []; it0 "b" [[MOther (L "default") (Some (L "skip_me"))]]; it0 "c" [[MOther (L "skip_deserializing") None]]] |}.
Definition w3 : container := {| c_kind := KStruct; c_attrs := [];
  c_items := [it0 "a" []; it0 "b" [[MSkip; MOther (L "skip_serializing_if") (Some (L "Option::is_none"))]]] |}.
Definition w3' : container := {| c_kind := KStruct; c_attrs := []; c_items := [it0 "a" []; it0 "b" [[MSkip]]] |}.
Definition w4 : container := {| c_kind := KStruct; c_attrs := []; c_items := [it0 "a" [[MRename ["a"; """"; "b"]]]] |}.
Definition w5 : container := {| c_kind := KStruct; c_attrs := [];
  c_items := [it0 "e" [[MOther (L "default") (Some (L "a rename = b")); MOther (L "alias") (Some (L "x"))]]] |}.
Definition w6 : container := {| c_kind := KEnum; c_attrs := []; c_items := [it0 "Active" []; it0 "Gone" [[MSkip]]] |}.

Definition refutes (kf : container -> bool) (w : container) (got : list str) : Prop :=
  in_domain w = true /\ kf w = true /\ emitted_keys default_field_case w = got /\ c06_ok w got = false.

(* repaired (C06-1-variant-rule): the old witness now satisfies the property *)
Lemma variant_rule_repaired : in_domain w1 = true /\ kf_C06 w1 = false /\
  emitted_keys default_field_case w1 = [L "IN_PROGRESS"; L "DONE"] /\ c06_ok w1 [L "IN_PROGRESS"; L "DONE"] = true
  /\ c06_ok w1 [L "INPROGRESS"; L "DONE"] = false.
Proof. vm_compute. repeat split. Qed.
Lemma skip_text_refuted : refutes kf_skip_text w2 [L "a"] /\ serde_wire_names w2 = [L "a"; L "b"; L "c"].
Proof. vm_compute. repeat split. Qed.
Lemma skip_beside_refuted : refutes kf_skip_beside w3 [L "a"; L "b"] /\ serde_wire_names w3 = [L "a"].
Proof. vm_compute. repeat split. Qed.
Lemma rename_escape_refuted : refutes kf_rename_escape w4 [["a"; "\"]] /\ serde_wire_names w4 = [["a"; """"; "b"]].
Proof. vm_compute. repeat split. Qed.
Lemma rename_text_refuted : refutes kf_rename_text w5 [L " , alias = "] /\ serde_wire_names w5 = [L "e"].
Proof. vm_compute. repeat split. Qed.
(* repaired (C06-6-variant-skip): the old witness now satisfies the property *)
Lemma variant_skip_repaired : in_domain w6 = true /\ kf_C06 w6 = false /\
  emitted_keys default_field_case w6 = [L "Active"] /\ c06_ok w6 [L "Active"] = true /\ c06_ok w6 [L "Active"; L "Gone"] = false.
Proof. vm_compute. repeat split. Qed.
(* the two skip classes now reach enum variants as well (parse_enum filters with the same flag) *)
Definition w2e : container := {| c_kind := KEnum; c_attrs := [];
  c_items := [it0 "A" []; it0 "B" [[MOther (L "alias") (Some (L "skip_me"))]]] |}.
Definition w3e : container := {| c_kind := KEnum; c_attrs := [];
  c_items := [it0 "A" []; it0 "B" [[MSkip; MOther (L "skip_deserializing_x") None; MOther (L "alias") (Some (L "skip_serializing"))]]] |}.
Lemma skip_text_variant_refuted : refutes kf_skip_text w2e [L "A"] /\ serde_wire_names w2e = [L "A"; L "B"].
Proof. vm_compute. repeat split. Qed.
Lemma skip_beside_variant_refuted : refutes kf_skip_beside w3e [L "A"; L "B"] /\ serde_wire_names w3e = [L "A"].
Proof. vm_compute. repeat split. Qed.

(* adding skip_serializing_if beside skip changes the emitted keys: inertness fails inside C06-3 *)
Lemma other_attrs_inert_refuted :
  same_modulo_others w3' w3 /\ in_domain w3' = true /\ in_domain w3 = true /\ kf_C06 w3' = false /\
  emitted_keys default_field_case w3' <> emitted_keys default_field_case w3.
Proof. split; [repeat split|]. split; [reflexivity|]. split; [reflexivity|]. split; [reflexivity|]. vm_compute. discriminate. Qed.

(* C06-8 / C06-9 witnesses, and the other legal spellings outside them *)
Definition w8 : container := {| c_kind := KStruct; c_attrs := [[CRenameAllP [(false, L "camelCase")]]];
                                c_items := [it0 "user_id" []] |}.
Definition w8i : container := {| c_kind := KStruct; c_attrs := [];
                                 c_items := [it0 "a" [[MRenameP [(false, L "de_name"); (true, L "ser_name")]]]] |}.
Definition w9 : container := {| c_kind := KEnum; c_attrs := [[CKV (L "rename_all_fields") (L "camelCase")]];
                                c_items := [it0 "TaskStarted" []] |}.
(* the former C06-5 witness (default = <rename>, alias = <x>) is repaired too: rename inside a value is no key *)
Definition w5old : container := {| c_kind := KStruct; c_attrs := [];
  c_items := [it0 "e" [[MOther (L "default") (Some (L "rename")); MOther (L "alias") (Some (L "x"))]]] |}.
Definition repaired (w : container) (names : list str) : Prop :=
  in_domain w = true /\ kf_C06 w = false /\ emitted_keys default_field_case w = names /\ c06_ok w names = true.
Lemma spellings_repaired :
  repaired w8 [L "user_id"] /\ repaired w8i [L "ser_name"] /\ repaired w9 [L "TaskStarted"] /\ repaired w5old [L "e"] /\
  c06_ok w8 [L "userId"] = false /\ c06_ok w8i [L "de_name"] = false /\ c06_ok w9 [L "taskStarted"] = false.
Proof. vm_compute. repeat split. Qed.
Lemma variant_marker_is_variant sh : named_as_variant (variant_marker sh) = true.
Proof. destruct sh; reflexivity. Qed.

(* ------------------------------------------------------------------ deepening round 7: the widened domain *)
(* the former, ASCII-only domain is inside the new one *)
Lemma domain_ascii c : in_domain0 c = true ->
  forallb (fun it => is_ascii_str (unraw (it_ident it))) (c_items c) = true -> in_domain c = true.
Proof. intros H0 Ha. unfold in_domain. rewrite H0. cbn [andb]. apply forallb_forall. intros it Hit.
  pose proof (proj1 (forallb_forall _ _) Ha it Hit) as H. cbn beta in H. unfold uni_rule_ok. rewrite H. reflexivity. Qed.
(* non-ASCII identifiers: struct under SCREAMING-KEBAB-CASE, enum under UPPERCASE and under camelCase with an
   ASCII first character; out of the domain: a SnakeCase-based variant rule, camelCase with a non-ASCII head *)
Definition wu_struct : container := {| c_kind := KStruct; c_attrs := [[CRenameAll (L "SCREAMING-KEBAB-CASE")]];
  c_items := [it0 "größe_x" []; it0 "naïve_été" [[MOther (L "default") None]]; it0 "名前" [[MRename (L "name")]]; it0 "x_ß" [[MSkip]]] |}.
Definition wu_enum (r : string) (v : string) : container := {| c_kind := KEnum; c_attrs := [[CRenameAll (L r)]];
  c_items := [it0 v []; it0 "Done" []] |}.
Lemma unicode_examples :
  in_domain wu_struct = true /\ kf_C06 wu_struct = false /\
  emitted_keys default_field_case wu_struct = [L "GRößE-X"; L "NAïVE-éTé"; L "name"] /\
  in_domain (wu_enum "UPPERCASE" "Été") = true /\ emitted_keys default_field_case (wu_enum "UPPERCASE" "Été") = [L "ÉTé"; L "DONE"] /\
  in_domain (wu_enum "camelCase" "Naïve") = true /\ emitted_keys default_field_case (wu_enum "camelCase" "Naïve") = [L "naïve"; L "done"] /\
  in_domain (wu_enum "snake_case" "Été") = false /\ in_domain (wu_enum "camelCase" "Été") = false /\
  in_domain (wu_enum "snake_case" "Ete") = true.
Proof. vm_compute. repeat split. Qed.
