(* C07 and C09 copy of Proofs/HarvestProofs.v for the repaired harvester (one-argument Result is descended into) *)
From Coq Require Import String Ascii.
From Coq Require Import List Arith Lia Bool ZArith.
Require Import TT.Model.Str TT.Proofs.StrFacts TT.Model.C07TypeParse TT.Proofs.C07TypeParseProofs TT.Model.C07Harvest.
Import ListNotations.
Local Open Scope char_scope.
Local Open Scope list_scope.

(* ---------- the harvester's own defect classes ---------- *)
(* kf_result_one_arg lives in Model/Harvest.v *)

Local Open Scope string_scope.
Definition known_heads := ["Option"; "Result"; "Vec"; "HashMap"; "BTreeMap"; "HashSet"; "BTreeSet"].
Local Close Scope string_scope.
(* generic heads are the std containers of the type table *)
Fixpoint heads_known (t : rty) : Prop :=
  match t with
  | RPath n [] => True
  | RPath n args => one_of n known_heads = true /\ (fix go l := match l with [] => True | x :: l' => heads_known x /\ go l' end) args
  | RRef t => heads_known t
  | RTuple l => (fix go l := match l with [] => True | x :: l' => heads_known x /\ go l' end) l
  end.
Lemma hk_list l : (fix go l := match l with [] => True | x :: l' => heads_known x /\ go l' end) l <-> Forall heads_known l.
Proof. induction l; simpl; split; intros; auto. constructor; tauto. inversion H; subst; tauto. Qed.

Definition same_set (a b : list str) : Prop := forall x, In x a <-> In x b.
Lemma same_set_app a a' b b' : same_set a a' -> same_set b b' -> same_set (a ++ b) (a' ++ b').
Proof. intros H1 H2 x. rewrite !in_app_iff. rewrite (H1 x), (H2 x). tauto. Qed.
Lemma same_set_refl a : same_set a a. Proof. intros x; tauto. Qed.

(* ---------- strip_wrapped on a printed generic ---------- *)
Lemma strip_wrapped_path (tag : string) p n J : L tag = p ++ ["<"] -> String.length tag = S (List.length p) ->
  Forall plain p -> Forall plain n ->
  starts (L tag) (n ++ "<" :: J ++ [">"]) = str_eqb n p /\
  (n = p -> strip_wrapped tag (n ++ "<" :: J ++ [">"]) = Some J).
Proof. intros Ht Hl Hp Hn. split.
  - rewrite Ht. apply starts_tag; auto.
  - intros ->. unfold strip_wrapped. rewrite Ht. rewrite starts_tag by auto. rewrite str_eqb_refl. rewrite Hl.
    replace (p ++ "<" :: J ++ [">"]) with ((p ++ ["<"]) ++ J ++ [">"]) by (rewrite <- app_assoc; reflexivity).
    replace (S (List.length p)) with (List.length (p ++ ["<"])) by (rewrite app_length; simpl; lia).
    rewrite skipn_app, skipn_all, Nat.sub_diag. cbn [skipn app]. rewrite ends_with_snoc.
    rewrite !app_length. cbn [List.length].
    replace (List.length p + 1 + (List.length J + 1) - (List.length p + 1) - 1) with (List.length J) by lia.
    rewrite firstn_app, firstn_all, Nat.sub_diag. cbn [firstn]. rewrite app_nil_r. reflexivity. Qed.

Lemma starts_tag_ident (tag : string) p n : L tag = p ++ ["<"] -> Forall plain n -> starts (L tag) n = false.
Proof. intros Ht Hn. rewrite Ht. apply starts_tag_none; auto. Qed.

(* ---------- one unfolding ---------- *)
Lemma harvest_S f s0 : harvest (S f) s0 =
    let s := trim s0 in
    if starts (L "Result<") s then
      match strip_wrapped "Result<" s with
      | Some inner => match find_top inner with
                      | Some (a, r) => harvest f (trim a) ++ harvest f (trim r)
                      | None => harvest f inner end
      | None => [] end
    else if starts (L "Option<") s then
      match strip_wrapped "Option<" s with Some inner => harvest f inner | None => [] end
    else if starts (L "Vec<") s then
      match strip_wrapped "Vec<" s with Some inner => harvest f inner | None => [] end
    else if starts (L "HashMap<") s || starts (L "BTreeMap<") s then
      match (if starts (L "HashMap<") s then strip_wrapped "HashMap<" s else strip_wrapped "BTreeMap<" s) with
      | Some inner => match find_top inner with
                      | Some (a, r) => harvest f (trim a) ++ harvest f (trim r)
                      | None => [] end
      | None => [] end
    else if starts (L "HashSet<") s || starts (L "BTreeSet<") s then
      match (if starts (L "HashSet<") s then strip_wrapped "HashSet<" s else strip_wrapped "BTreeSet<" s) with
      | Some inner => harvest f inner | None => [] end
    else if starts (L "(") s && ends_with ")" s && negb (str_eqb s (L "()")) then
      flat_map (fun p => harvest f (trim p)) (split_top_level (mid 1 1 s))
    else if starts (L "&") s then harvest f (strip_amps s)
    else if custom_name s then [s] else [].
Proof. reflexivity. Qed.

(* splitting "K, V" at the first top-level comma *)
Lemma first_comma_split k v : wf k -> wf v ->
  find_top (tts k ++ L ", " ++ tts v) = Some (tts k, " " :: tts v) /\
  trim (tts k) = tts k /\ trim (" " :: tts v) = tts v.
Proof. intros Hk Hv. cbn [L list_ascii_of_string app]. split; [apply top_first, tts_transp; auto|].
  split; [apply trim_tight, tts_tight; auto|apply trim_sp_tight, tts_tight; auto]. Qed.

Fixpoint unref (t : rty) : rty := match t with RRef u => unref u | _ => t end.
Lemma strip_amps_tts t : wf t -> strip_amps (tts t) = tts (unref t).
Proof. induction t as [n args _|t IH|l _] using rty_ind'; intros Hw.
  - simpl in Hw. destruct Hw as ((Hne & Hp) & _). destruct n as [|c n]; [congruence|]. inversion Hp; subst.
    assert (Hc : Ascii.eqb c "&" = false) by (apply plain_facts in H1; tauto).
    destruct args; [rewrite tts_path_nil | rewrite tts_path_cons]; simpl;
      destruct c as [[] [] [] [] [] [] [] []]; try reflexivity; discriminate.
  - rewrite tts_ref. simpl. apply IH; auto.
  - destruct l; [rewrite tts_unit | rewrite tts_tuple]; reflexivity.
Qed.
Lemma unref_facts t : wf t -> heads_known t -> wf (unref t) /\ heads_known (unref t) /\ height (unref t) <= height t /\
  (forall u, unref t <> RRef u) /\ names (unref t) = names t /\
  kf_result_ok_has_comma (unref t) = kf_result_ok_has_comma t /\ kf_tuple_elem_has_comma (unref t) = kf_tuple_elem_has_comma t /\
  kf_result_one_arg (unref t) = kf_result_one_arg t.
Proof. induction t as [n args _|t IH|l _] using rty_ind'; intros Hw Hk.
  - cbn [unref]. split; [exact Hw|]. split; [exact Hk|]. split; [lia|]. split; [congruence|]. auto.
  - simpl in Hw, Hk. destruct (IH Hw Hk) as (A & B & C & D & E & F & G & H).
    cbn [unref]. split; [exact A|]. split; [exact B|]. split; [simpl; lia|]. split; [exact D|]. auto.
  - cbn [unref]. split; [exact Hw|]. split; [exact Hk|]. split; [lia|]. split; [congruence|]. auto.
Qed.

Lemma flat_map_same (f g : rty -> list str) l : Forall (fun t => same_set (f t) (g t)) l -> same_set (flat_map f l) (flat_map g l).
Proof. induction 1; simpl. apply same_set_refl. apply same_set_app; auto. Qed.

Lemma names_path_cons n a rest : names (RPath n (a :: rest)) = flat_map names (a :: rest).
Proof. reflexivity. Qed.

Lemma one_of_known n : one_of n known_heads = true ->
  n = L "Option" \/ n = L "Result" \/ n = L "Vec" \/ n = L "HashMap" \/ n = L "BTreeMap" \/ n = L "HashSet" \/ n = L "BTreeSet".
Proof. unfold one_of, known_heads. simpl. intros H.
  repeat (apply orb_true_iff in H as [H|H]; [apply str_eqb_eq in H; tauto|]). discriminate. Qed.

Ltac tagtests Hp c n' J :=
  rewrite ?(proj1 (strip_wrapped_path "Result<" (L "Result") (c :: n') J eq_refl eq_refl ltac:(repeat constructor) Hp)),
          ?(proj1 (strip_wrapped_path "Option<" (L "Option") (c :: n') J eq_refl eq_refl ltac:(repeat constructor) Hp)),
          ?(proj1 (strip_wrapped_path "Vec<" (L "Vec") (c :: n') J eq_refl eq_refl ltac:(repeat constructor) Hp)),
          ?(proj1 (strip_wrapped_path "HashMap<" (L "HashMap") (c :: n') J eq_refl eq_refl ltac:(repeat constructor) Hp)),
          ?(proj1 (strip_wrapped_path "BTreeMap<" (L "BTreeMap") (c :: n') J eq_refl eq_refl ltac:(repeat constructor) Hp)),
          ?(proj1 (strip_wrapped_path "HashSet<" (L "HashSet") (c :: n') J eq_refl eq_refl ltac:(repeat constructor) Hp)),
          ?(proj1 (strip_wrapped_path "BTreeSet<" (L "BTreeSet") (c :: n') J eq_refl eq_refl ltac:(repeat constructor) Hp)).

Theorem harvest_names : forall fuel t, height t < fuel -> wf t -> heads_known t ->
  same_set (harvest fuel (tts t)) (names t).
Proof.
  induction fuel as [|f IH]; intros t Hf Hw Hk; [lia|].
  rewrite harvest_S. cbv zeta. rewrite (trim_tight _ (tts_tight _ Hw)).
  destruct t as [n args|t|l].
  - (* path *)
    simpl in Hw. destruct Hw as ((Hne & Hp) & (Har1 & Har2 & Har3) & Ha). apply wf_list in Ha.
    destruct n as [|c n']; [congruence|].
    assert (Hc : plain c) by (inversion Hp; auto).
    destruct args as [|a rest].
    + rewrite tts_path_nil.
      rewrite (starts_tag_ident "Result<" (L "Result")), (starts_tag_ident "Option<" (L "Option")), (starts_tag_ident "Vec<" (L "Vec")),
              (starts_tag_ident "HashMap<" (L "HashMap")), (starts_tag_ident "BTreeMap<" (L "BTreeMap")),
              (starts_tag_ident "HashSet<" (L "HashSet")), (starts_tag_ident "BTreeSet<" (L "BTreeSet")) by auto.
      assert (Hpar : starts (L "(") (c :: n') = false) by (apply (starts1_plain "("); auto).
      assert (Hamp : starts (L "&") (c :: n') = false) by (apply (starts1_plain "&"); auto).
      rewrite Hpar, Hamp. simpl orb. simpl andb. cbv iota. apply same_set_refl.
    + simpl in Hk. destruct Hk as [Hhead Hkargs]. apply (proj1 (hk_list (a :: rest))) in Hkargs.
      rewrite tts_path_cons. set (J := join (L ", ") (map tts (a :: rest))).
      inversion Ha as [|? ? Hwa Hwrest]; subst. inversion Hkargs as [|? ? Hka Hkrest]; subst.
      assert (Hsub : forall x, In x (a :: rest) -> same_set (harvest f (tts x)) (names x)).
      { intros x Hx. apply IH.
        - simpl in Hf. pose proof (max_fold_le (a :: rest) x Hx). simpl in H. lia.
        - rewrite Forall_forall in Ha; auto.
        - rewrite Forall_forall in Hkargs; auto. }
      assert (Hone : rest = [] -> same_set (harvest f J) (names (RPath (c :: n') [a]))).
      { intros ->. unfold J. simpl map. rewrite join_one. rewrite names_path_cons. simpl flat_map. rewrite app_nil_r. apply Hsub; left; auto. }
      assert (Htwo : forall (d : list str) v, rest = [v] ->
                match find_top J with
                | Some (a0, r0) => harvest f (trim a0) ++ harvest f (trim r0)
                | None => d end = harvest f (tts a) ++ harvest f (tts v)).
      { intros d v ->. unfold J. change (map tts [a; v]) with [tts a; tts v]. rewrite join_cons2, join_one.
        inversion Hwrest; subst. destruct (first_comma_split a v Hwa H1) as (E1 & E2 & E3). rewrite E1, E2, E3. reflexivity. }
      assert (Htwo' : forall v, rest = [v] -> same_set (harvest f (tts a) ++ harvest f (tts v)) (names (RPath (c :: n') [a; v]))).
      { intros v ->. rewrite names_path_cons. simpl flat_map. rewrite app_nil_r. apply same_set_app; apply Hsub; simpl; auto. }
      tagtests Hp c n' J.
      destruct (one_of_known _ Hhead) as [E|[E|[E|[E|[E|[E|E]]]]]]; rewrite E in *.
      * (* Option *) change (str_eqb (L "Option") (L "Result")) with false. rewrite str_eqb_refl. cbv iota.
        rewrite (proj2 (strip_wrapped_path "Option<" (L "Option") (L "Option") J eq_refl eq_refl ltac:(repeat constructor) ltac:(repeat constructor)) eq_refl).
        assert (rest = []) by (destruct rest; auto; exfalso; specialize (Har1 eq_refl); simpl in Har1; lia). subst rest. apply Hone; auto.
      * (* Result *) rewrite str_eqb_refl. cbv iota.
        rewrite (proj2 (strip_wrapped_path "Result<" (L "Result") (L "Result") J eq_refl eq_refl ltac:(repeat constructor) ltac:(repeat constructor)) eq_refl).
        destruct rest as [|e [|x rest]].
        -- (* one argument: no comma in the printed inner type, the inner type is harvested *)
           assert (EJ : J = tts a) by (unfold J; simpl map; apply join_one).
           rewrite EJ. rewrite (top_none (tts a)) by (apply tts_transp; auto). rewrite <- EJ. apply Hone; auto.
        -- rewrite (Htwo _ e eq_refl). apply Htwo'; auto.
        -- exfalso. specialize (Har3 eq_refl). simpl in Har3. lia.
      * (* Vec *) change (str_eqb (L "Vec") (L "Result")) with false. change (str_eqb (L "Vec") (L "Option")) with false. rewrite str_eqb_refl. cbv iota.
        rewrite (proj2 (strip_wrapped_path "Vec<" (L "Vec") (L "Vec") J eq_refl eq_refl ltac:(repeat constructor) ltac:(repeat constructor)) eq_refl).
        assert (rest = []) by (destruct rest; auto; exfalso; specialize (Har1 eq_refl); simpl in Har1; lia). subst rest. apply Hone; auto.
      * (* HashMap *) change (str_eqb (L "HashMap") (L "Result")) with false. change (str_eqb (L "HashMap") (L "Option")) with false.
        change (str_eqb (L "HashMap") (L "Vec")) with false. rewrite str_eqb_refl. simpl orb. cbv iota.
        rewrite (proj2 (strip_wrapped_path "HashMap<" (L "HashMap") (L "HashMap") J eq_refl eq_refl ltac:(repeat constructor) ltac:(repeat constructor)) eq_refl).
        destruct (Har2 eq_refl) as [|(k & v & Ekv & Hmk)]; [discriminate|]. inversion Ekv; subst k rest.
        rewrite (Htwo _ v eq_refl). apply Htwo'; auto.
      * (* BTreeMap *) change (str_eqb (L "BTreeMap") (L "Result")) with false. change (str_eqb (L "BTreeMap") (L "Option")) with false.
        change (str_eqb (L "BTreeMap") (L "Vec")) with false. change (str_eqb (L "BTreeMap") (L "HashMap")) with false. rewrite str_eqb_refl. simpl orb. cbv iota.
        rewrite (proj2 (strip_wrapped_path "BTreeMap<" (L "BTreeMap") (L "BTreeMap") J eq_refl eq_refl ltac:(repeat constructor) ltac:(repeat constructor)) eq_refl).
        destruct (Har2 eq_refl) as [|(k & v & Ekv & Hmk)]; [discriminate|]. inversion Ekv; subst k rest.
        rewrite (Htwo _ v eq_refl). apply Htwo'; auto.
      * (* HashSet *) change (str_eqb (L "HashSet") (L "Result")) with false. change (str_eqb (L "HashSet") (L "Option")) with false.
        change (str_eqb (L "HashSet") (L "Vec")) with false. change (str_eqb (L "HashSet") (L "HashMap")) with false.
        change (str_eqb (L "HashSet") (L "BTreeMap")) with false. rewrite str_eqb_refl. simpl orb. cbv iota.
        rewrite (proj2 (strip_wrapped_path "HashSet<" (L "HashSet") (L "HashSet") J eq_refl eq_refl ltac:(repeat constructor) ltac:(repeat constructor)) eq_refl).
        assert (rest = []) by (destruct rest; auto; exfalso; specialize (Har1 eq_refl); simpl in Har1; lia). subst rest. apply Hone; auto.
      * (* BTreeSet *) change (str_eqb (L "BTreeSet") (L "Result")) with false. change (str_eqb (L "BTreeSet") (L "Option")) with false.
        change (str_eqb (L "BTreeSet") (L "Vec")) with false. change (str_eqb (L "BTreeSet") (L "HashMap")) with false.
        change (str_eqb (L "BTreeSet") (L "BTreeMap")) with false. change (str_eqb (L "BTreeSet") (L "HashSet")) with false. rewrite str_eqb_refl. simpl orb. cbv iota.
        rewrite (proj2 (strip_wrapped_path "BTreeSet<" (L "BTreeSet") (L "BTreeSet") J eq_refl eq_refl ltac:(repeat constructor) ltac:(repeat constructor)) eq_refl).
        assert (rest = []) by (destruct rest; auto; exfalso; specialize (Har1 eq_refl); simpl in Har1; lia). subst rest. apply Hone; auto.
  - (* reference *)
    simpl in Hw, Hk, Hf. rewrite tts_ref.
    cbn [L list_ascii_of_string starts Ascii.eqb Bool.eqb andb orb].
    change ("&"%char :: tts t) with (tts (RRef t)). rewrite (strip_amps_tts (RRef t)) by (simpl; auto).
    cbn [unref]. destruct (unref_facts t Hw Hk) as (A & B & C & D & E & F & G & H).
    change (names (RRef t)) with (names t). rewrite <- E. apply IH; try congruence; auto. lia.
  - (* tuple *)
    simpl in Hw, Hk. apply wf_list in Hw. apply hk_list in Hk.
    destruct l as [|a l].
    + rewrite tts_unit. apply same_set_refl.
    + rewrite tts_tuple. set (J := join (L ", ") (map tts (a :: l))).
      assert (Hends : ends_with ")" ("(" :: J ++ [")"]) = true).
      { change ("(" :: J ++ [")"]) with (("(" :: J) ++ [")"]). apply ends_with_snoc. }
      assert (HJ : exists x J', J = x :: J').
      { unfold J. assert (Hwa0 : wf a) by (inversion Hw; auto). destruct (tts_tight a Hwa0) as (Hn & _).
        destruct (tts a) as [|x r0] eqn:Ea; [congruence|].
        destruct l as [|b l']; [simpl map; rewrite join_one, Ea; eauto|].
        change (map tts (a :: b :: l')) with (tts a :: tts b :: map tts l'). rewrite join_cons2, Ea. simpl. eauto. }
      assert (Hne : str_eqb ("(" :: J ++ [")"]) (L "()") = false).
      { apply str_eqb_neq. destruct HJ as (x & J' & ->). intro E. inversion E as [[E1 E2]]. destruct J'; discriminate. }
      assert (Htag : forall tag, In tag ["Result<"; "Option<"; "Vec<"; "HashMap<"; "BTreeMap<"; "HashSet<"; "BTreeSet<"; "&"]%string ->
                 starts (L tag) ("(" :: J ++ [")"]) = false).
      { intros tag Ht. simpl in Ht. repeat (destruct Ht as [<-|Ht]; [reflexivity|]). contradiction. }
      rewrite !Htag by (simpl; tauto).
      assert (Hpar : starts (L "(") ("(" :: J ++ [")"]) = true) by reflexivity.
      rewrite Hpar, Hends, Hne. cbn [andb negb orb]. cbv iota.
      assert (Hmid : mid 1 1 ("(" :: J ++ [")"]) = J) by (apply (mid_wrap ["("] J [")"])).
      rewrite Hmid. unfold J.
      assert (Htp : Forall (transp 0%Z) (map tts (a :: l))).
      { apply Forall_forall. intros w Hwin. apply in_map_iff in Hwin as (x & <- & Hx). apply tts_transp.
        rewrite Forall_forall in Hw. auto. }
      change (map tts (a :: l)) with (tts a :: map tts l) in *. inversion Htp; subst.
      rewrite split_top_level_join by auto.
      assert (Hwa : wf a) by (inversion Hw; auto). assert (Hwl : Forall wf l) by (inversion Hw; auto).
      cbn [flat_map]. rewrite trim_tight by (apply tts_tight; auto).
      change (names (RTuple (a :: l))) with (names a ++ flat_map names l).
      assert (Hsub : forall x, In x (a :: l) -> same_set (harvest f (tts x)) (names x)).
      { intros x Hx. apply IH.
        - simpl in Hf. pose proof (max_fold_le (a :: l) x Hx). simpl in H. lia.
        - rewrite Forall_forall in Hw; auto.
        - rewrite Forall_forall in Hk; auto. }
      apply same_set_app. apply Hsub; left; auto.
      assert (Hl : forall l', incl l' l -> Forall wf l' ->
                same_set (flat_map (fun p => harvest f (trim p)) (map (cons " ") (map tts l'))) (flat_map names l')).
      { induction l' as [|x l' IHl]; intros Hinc Hwf; simpl. apply same_set_refl.
        inversion Hwf; subst. rewrite trim_sp_tight by (apply tts_tight; auto).
        apply same_set_app. apply Hsub; right; apply Hinc; left; auto. apply IHl; auto. intros y Hy; apply Hinc; right; auto. }
      apply Hl; auto. apply incl_refl.
Qed.
