(* C11: the full statement for one attribute with side items (flags and other validators) around a canonical
   length validator, on a String field. *)
From Coq Require Import String Ascii List Arith Lia Bool NArith ZArith.
Require Import TT.Model.Str TT.Model.C11Validator TT.Spec.C11Spec TT.Proofs.C11Proofs TT.Proofs.C11Scan TT.Proofs.C11Loop TT.Proofs.C11Arr TT.Proofs.C11Full.
Import ListNotations.
Local Open Scope char_scope.
Local Open Scope list_scope.

Definition cnt (g : flag) (l : list side) : nat := List.length (filter (sflag g) l).
Definition side_cons (s : side) : list cons :=
  match s with SdF FE => [CEmail None] | SdF FU => [CUrl None] | SdO _ _ => [] end.
Lemma item_cons_side : forall s, item_cons (sitem s) = Some (side_cons s).
Proof. intros [[|]|n kv]; reflexivity. Qed.
Lemma concat_opt_sides : forall l rest, concat_opt (map item_cons (map sitem l) ++ rest) =
  option_map (app (flat_map side_cons l)) (concat_opt rest).
Proof. induction l as [|s l IH]; intros rest; cbn [map app flat_map concat_opt].
  - destruct (concat_opt rest); reflexivity.
  - rewrite item_cons_side, IH. destruct (concat_opt rest); cbn [option_map]; rewrite ?app_assoc; reflexivity. Qed.

Lemma of_kind_app : forall k a b, of_kind k (a ++ b) = of_kind k a ++ of_kind k b.
Proof. intros. unfold of_kind. apply filter_app. Qed.
Lemma of_kind_sides : forall l,
  of_kind 0 (flat_map side_cons l) = repeat (CEmail None) (cnt FE l) /\
  of_kind 1 (flat_map side_cons l) = repeat (CUrl None) (cnt FU l) /\
  forall n, of_kind (S (S n)) (flat_map side_cons l) = [].
Proof. induction l as [|s l [I0 [I1 I2]]]; [repeat split|].
  cbn [flat_map]. unfold cnt in *. cbn [filter]. split; [|split; [|intros n]]; rewrite of_kind_app, ?I0, ?I1, ?I2;
  destruct s as [[|]|nm kv]; reflexivity. Qed.
Lemma has_cnt : forall g l, has_flag g l = negb (Nat.eqb (cnt g l) 0).
Proof. intros g l. unfold has_flag, cnt. induction l as [|s l IH]; [reflexivity|]. cbn [existsb filter].
  destruct (sflag g s); [reflexivity|exact IH]. Qed.
Lemma repeat_once : forall (c : cons) g l, cnt g l <= 1 -> repeat c (cnt g l) = if has_flag g l then [c] else [].
Proof. intros c g l H. rewrite has_cnt. destruct (cnt g l) as [|[|n]]; [reflexivity|reflexivity|lia]. Qed.
Lemma cnt_app : forall g a b, cnt g (a ++ b) = cnt g a + cnt g b.
Proof. intros. unfold cnt. rewrite filter_app, app_length. reflexivity. Qed.

(* the constraints of a canonical argument list are bounds only *)
Lemma args_cons_kinds : forall o omin omax omsg ex, args_cons (canon_args o omin omax omsg) = Some ex ->
  of_kind 0 ex = [] /\ of_kind 1 ex = [].
Proof. intros o omin omax omsg ex H. rewrite args_cons_canon in H.
  destruct omin as [a|], omax as [b|]; cbn [option_map bound_cons] in H;
  repeat match type of H with context [dec_of_num ?n] => destruct (dec_of_num n) end;
  inversion H; subst; split; reflexivity. Qed.

(* the oracle step, for any split of the side items around the bounds: the field's expected constraints are the sides'
   flags and the bounds ex, the parsed attributes carry exactly these flags and the cstr c whose methods denote ex *)
Lemma oracle_sides : forall (f : field) (k : nat) (P Q : list side) (ex : list cons) (c : cstr) (va : vattrs) (chain : str),
  of_kind 0 ex = [] -> of_kind 1 ex = [] ->
  meths_cons (cstr_meths c ++ repeat MOptional k) = Some ex ->
  cnt FE (P ++ Q) <= 1 -> cnt FU (P ++ Q) <= 1 ->
  v_email va = has_flag FE (P ++ Q) -> v_url va = has_flag FU (P ++ Q) -> length_meths va = cstr_meths c ->
  read_chain chain = Some (Sch (L "z.string") [] (string_meths va ++ repeat MOptional k)) ->
  expected f = Some (flat_map side_cons P ++ ex ++ flat_map side_cons Q) -> kind_of (f_ty f) = KString ->
  c11_field_ok f chain = true.
Proof. intros f k P Q ex c va chain K0 K1 Hg HE HU Ve Vu Vl Hs Hex Hk.
  unfold c11_field_ok. rewrite Hs, Hex, Hk. cbn [base_ok forallb andb].
  change (str_eqb (L "z.string") (L "z.string")) with true. cbn [andb].
  unfold string_meths. rewrite Ve, Vu, Vl.
  assert (Hm : meths_cons (((if has_flag FE (P ++ Q) then [MEmail None] else []) ++ (if has_flag FU (P ++ Q) then [MUrl None] else []) ++
                cstr_meths c) ++ repeat MOptional k) =
               Some ((if has_flag FE (P ++ Q) then [CEmail None] else []) ++ (if has_flag FU (P ++ Q) then [CUrl None] else []) ++ ex)).
  { rewrite <- !app_assoc. destruct (has_flag FE (P ++ Q)), (has_flag FU (P ++ Q)); cbn [app meths_cons meth_cons]; rewrite Hg; reflexivity. }
  rewrite Hm. apply same_cons_iff. intros kd.
  destruct (of_kind_sides P) as [P0 [P1 P2]]. destruct (of_kind_sides Q) as [Q0 [Q1 Q2]].
  rewrite !of_kind_app.
  destruct kd as [|[|kd]].
  - rewrite P0, Q0, K0. rewrite app_nil_l, <- repeat_app, <- cnt_app, (repeat_once _ _ _ HE).
    destruct (has_flag FE (P ++ Q)), (has_flag FU (P ++ Q)); cbn [of_kind filter cons_kind Nat.eqb app]; rewrite ?K0; reflexivity.
  - rewrite P1, Q1, K1. rewrite app_nil_l, <- repeat_app, <- cnt_app, (repeat_once _ _ _ HU).
    destruct (has_flag FE (P ++ Q)), (has_flag FU (P ++ Q)); cbn [of_kind filter cons_kind Nat.eqb app]; rewrite ?K1; reflexivity.
  - rewrite P2, Q2, app_nil_r. cbn [app].
    destruct (has_flag FE (P ++ Q)), (has_flag FU (P ++ Q)); cbn [of_kind filter cons_kind Nat.eqb app]; reflexivity. Qed.

(* ------------------------------------------------------------------ attributes without length / range *)
Definition sides_of (s : sattr) : list side := match s with SLr pr _ _ _ _ _ po => pr ++ po | SFlags fl => fl | _ => [] end.
Definition all_sides (ss : list sattr) : list side := flat_map sides_of ss.
Definition nolr (s : sattr) : bool := match s with SLr _ _ _ _ _ _ _ => false | _ => true end.
Lemma flags_effect_nil : forall v, flags_effect [] v = v.
Proof. intros [l r e u]. unfold flags_effect. cbn [v_length v_range v_email v_url has_flag existsb]. rewrite !orb_false_r. reflexivity. Qed.
Lemma flags_effect_app : forall a b v, flags_effect b (flags_effect a v) = flags_effect (a ++ b) v.
Proof. intros a b v. unfold flags_effect, has_flag. cbn [v_length v_range v_email v_url]. rewrite !existsb_app, !orb_assoc. reflexivity. Qed.
Lemma nolr_fold : forall dispf A v, forallb nolr A = true -> fold_left (effect dispf) A v = flags_effect (all_sides A) v.
Proof. intros dispf A. induction A as [|s A IH]; intros v H; [symmetry; apply flags_effect_nil|].
  cbn [forallb] in H. apply andb_true_iff in H as [Hs HA]. cbn [fold_left]. rewrite (IH _ HA).
  unfold all_sides. cbn [flat_map]. fold (all_sides A).
  destruct s as [pr r o a b m po|fl| |]; [discriminate Hs| | |]; cbn [effect sides_of app].
  - apply flags_effect_app.
  - reflexivity.
  - reflexivity. Qed.
Lemma nolr_items : forall A, forallb nolr A = true -> flat_map attr_items (map attr_of A) = map sitem (all_sides A).
Proof. induction A as [|s A IH]; intros H; [reflexivity|].
  cbn [forallb] in H. apply andb_true_iff in H as [Hs HA]. cbn [map flat_map]. rewrite (IH HA).
  unfold all_sides. cbn [flat_map]. rewrite map_app.
  destruct s as [pr r o a b m po|fl| |]; [discriminate Hs| | |]; reflexivity. Qed.
Lemma nolr_ok : forall A, forallb nolr A = true -> Forall sattr_ok A -> sides_ok (all_sides A).
Proof. induction A as [|s A IH]; intros H Hok; [reflexivity|].
  cbn [forallb] in H. apply andb_true_iff in H as [Hs HA]. inversion Hok as [|? ? H1 H2]; subst.
  unfold all_sides, sides_ok. cbn [flat_map]. rewrite forallb_app. fold (all_sides A). rewrite (IH HA H2), andb_true_r.
  destruct s as [pr r o a b m po|fl| |]; [discriminate Hs|exact H1|reflexivity|reflexivity]. Qed.

(* ------------------------------------------------------------------ the loop grammar on a String field *)
Section LoopFull.
Variable dispf : str -> option str.
Variables (k o : nat) (omin omax omsg : option str) (pr po : list side) (A B : list sattr).
Hypothesis (Hmin : oku64 omin) (Hmax : oku64 omax) (Hmsg : okm omsg) (Hag : msg_agrees omsg).
Hypothesis (Hpr : sides_ok pr) (Hpo : sides_ok po).
Hypothesis (HA : forallb nolr A = true) (HB : forallb nolr B = true) (HAok : Forall sattr_ok A) (HBok : Forall sattr_ok B).
Local Notation ss := (A ++ SLr pr false o omin omax omsg po :: B).
Local Notation P := (all_sides A ++ pr).
Local Notation Q := (po ++ all_sides B).
Hypothesis (HE : cnt FE (P ++ Q) <= 1) (HU : cnt FU (P ++ Q) <= 1).
Definition loop_field : field := {| f_ty := opt_ty k TyString; f_attrs := map attr_of ss |}.
Local Notation va := (fold_left (effect dispf) ss va_init).

Lemma loop_va : v_email va = has_flag FE (P ++ Q) /\ v_url va = has_flag FU (P ++ Q) /\
  v_length va = Some (canon_cstr dispf false omin omax omsg) /\ v_range va = None.
Proof. rewrite fold_left_app. cbn [fold_left effect]. rewrite !nolr_fold by assumption.
  unfold flags_effect, lr_effect, has_flag. cbn [v_email v_url v_length v_range va_init orb].
  rewrite !existsb_app. repeat split; rewrite ?orb_assoc; reflexivity. Qed.

Lemma loop_expected : exists ex, args_cons (canon_args o omin omax omsg) = Some ex /\
  meths_cons (cstr_meths (canon_cstr dispf false omin omax omsg) ++ repeat MOptional k) = Some ex /\
  expected loop_field = Some (flat_map side_cons P ++ ex ++ flat_map side_cons Q).
Proof. destruct (canon_cons_agree dispf false k o omin omax omsg (oku64_okb _ Hmin) (oku64_okb _ Hmax) Hmsg Hag) as [ex [He Hg]].
  exists ex. split; [exact He|]. split; [exact Hg|].
  unfold expected, field_items, loop_field. cbn [f_attrs]. rewrite map_app, flat_map_app. cbn [map flat_map attr_of attr_items].
  rewrite !nolr_items by assumption. unfold lr_items. rewrite !map_app. cbn [map]. rewrite <- !app_assoc.
  rewrite concat_opt_sides, concat_opt_sides. cbn [app concat_opt canon_item item_cons]. rewrite He.
  rewrite <- map_app, <- map_app.
  rewrite <- (app_nil_r (map item_cons (map sitem (po ++ all_sides B)))), concat_opt_sides. cbn [concat_opt option_map].
  rewrite app_nil_r, !flat_map_app, <- !app_assoc. reflexivity. Qed.

Theorem full_loop_string : exists v chain, field_chain dispf loop_field = Ok (v, chain) /\ c11_field_ok loop_field chain = true.
Proof. exists (Some va), (build_schema (tstruct_of (opt_ty k TyString)) (Some va)). split.
  - unfold field_chain, loop_field. cbn [f_attrs f_ty]. rewrite loop_exact.
    + rewrite existsb_app. cbn [existsb is_val]. rewrite orb_true_r. reflexivity.
    + apply Forall_app. split; [exact HAok|]. constructor; [|exact HBok]. cbn [sattr_ok]. auto using oku64_okn.
  - destruct loop_expected as [ex [He [Hg Hex]]]. destruct (args_cons_kinds _ _ _ _ _ He) as [K0 K1].
    destruct loop_va as [Ve [Vu [Vl Vr]]].
    pose proof (canon_va_ok dispf false omin omax omsg (oku64_okb _ Hmin) (oku64_okb _ Hmax)) as Hva0.
    assert (Hva : va_ok va = true).
    { unfold va_ok. rewrite Vl, Vr. unfold va_ok, canon_va in Hva0. cbn [v_length v_range] in Hva0. exact Hva0. }
    rewrite tstruct_opt_ty. cbn [tstruct_of]. destruct (render_exact va k Hva) as [Hs _].
    assert (Vl' : length_meths va = cstr_meths (canon_cstr dispf false omin omax omsg)) by (unfold length_meths; rewrite Vl; reflexivity).
    apply (oracle_sides loop_field k P Q ex (canon_cstr dispf false omin omax omsg) va _ K0 K1 Hg HE HU Ve Vu Vl' Hs Hex).
    cbn [f_ty loop_field]. apply kind_opt_ty. Qed.

(* the same attribute lists on a Vec field of any readable element type: no email / url among the side items
   (they are outside the domain on a Vec), other validators at will *)
Definition loop_field_vec (ti : ty) : field := {| f_ty := opt_ty k (TyVec ti); f_attrs := map attr_of ss |}.
Lemma no_flags_cons : forall l, cnt FE l = 0 -> cnt FU l = 0 -> flat_map side_cons l = [].
Proof. induction l as [|s l IH]; intros H1 H2; [reflexivity|]. unfold cnt in *. cbn [filter flat_map] in *.
  destruct s as [[|]|nm kv]; cbn [sflag flag_eqb List.length side_cons app] in *; try discriminate; apply IH; assumption. Qed.
Theorem full_loop_vec : forall ti, readable (tstruct_of ti) = true -> cnt FE (P ++ Q) = 0 -> cnt FU (P ++ Q) = 0 ->
  exists v chain, field_chain dispf (loop_field_vec ti) = Ok (v, chain) /\ c11_field_ok (loop_field_vec ti) chain = true.
Proof. intros ti Hr Z0 Z1. exists (Some va), (build_schema (tstruct_of (opt_ty k (TyVec ti))) (Some va)). split.
  - unfold field_chain, loop_field_vec. cbn [f_attrs f_ty]. rewrite loop_exact.
    + rewrite existsb_app. cbn [existsb is_val]. rewrite orb_true_r. reflexivity.
    + apply Forall_app. split; [exact HAok|]. constructor; [|exact HBok]. cbn [sattr_ok]. auto using oku64_okn.
  - destruct loop_expected as [ex [He [Hg Hex]]]. destruct loop_va as [Ve [Vu [Vl Vr]]].
    pose proof (canon_va_ok dispf false omin omax omsg (oku64_okb _ Hmin) (oku64_okb _ Hmax)) as Hva0.
    assert (Hva : va_ok va = true).
    { unfold va_ok. rewrite Vl, Vr. unfold va_ok, canon_va in Hva0. cbn [v_length v_range] in Hva0. exact Hva0. }
    rewrite tstruct_opt_ty. cbn [tstruct_of]. unfold c11_field_ok.
    rewrite (render_exact_arrays_all _ _ k Hr Hva). unfold arr_of, length_meths. rewrite Vl, Hg.
    assert (Hex' : expected (loop_field_vec ti) = Some ex).
    { change (expected (loop_field_vec ti)) with (expected loop_field). rewrite Hex.
      rewrite cnt_app in Z0, Z1. rewrite (no_flags_cons P), (no_flags_cons Q) by lia. rewrite app_nil_r. reflexivity. }
    rewrite Hex'. cbn [f_ty loop_field_vec]. rewrite kind_opt_ty. cbn [kind_of base_ok forallb].
    change (str_eqb (L "z.array") (L "z.array")) with true. rewrite schema_of_no_cons. cbn [andb]. apply same_cons_refl. Qed.
End LoopFull.

(* ------------------------------------------------------------------ String fields without length: flags and other validators only *)
Theorem full_flags_string : forall dispf k A, forallb nolr A = true -> Forall sattr_ok A -> existsb is_val A = true ->
  cnt FE (all_sides A) <= 1 -> cnt FU (all_sides A) <= 1 ->
  let f := {| f_ty := opt_ty k TyString; f_attrs := map attr_of A |} in
  exists v chain, field_chain dispf f = Ok (v, chain) /\ c11_field_ok f chain = true.
Proof. intros dispf k A HA Hok Hv HE HU f.
  set (va := flags_effect (all_sides A) va_init).
  exists (Some va), (build_schema (tstruct_of (opt_ty k TyString)) (Some va)). split.
  - unfold field_chain, f. cbn [f_attrs f_ty]. rewrite loop_exact by exact Hok. rewrite Hv, nolr_fold by exact HA. reflexivity.
  - assert (Hva : va_ok va = true) by reflexivity.
    rewrite tstruct_opt_ty. cbn [tstruct_of]. destruct (render_exact va k Hva) as [Hs _].
    apply (oracle_sides f k (all_sides A) [] [] empty_cstr va _ eq_refl eq_refl).
    + apply meths_cons_optional.
    + rewrite app_nil_r. exact HE.
    + rewrite app_nil_r. exact HU.
    + rewrite app_nil_r. reflexivity.
    + rewrite app_nil_r. reflexivity.
    + reflexivity.
    + exact Hs.
    + unfold expected, field_items, f. cbn [f_attrs]. rewrite nolr_items by exact HA.
      rewrite <- (app_nil_r (map item_cons _)), concat_opt_sides. reflexivity.
    + cbn [f_ty f]. apply kind_opt_ty. Qed.

(* ------------------------------------------------------------------ the loop grammar on a numeric field: one range validator *)
Section LoopNum.
Variable dispf : str -> option str.
Variables (k o : nat) (omin omax omsg : option str) (pr po : list side) (A B : list sattr).
Hypothesis (Hmin : okb dispf omin) (Hmax : okb dispf omax) (Hmsg : okm omsg) (Hag : msg_agrees omsg).
Hypothesis (Hpr : sides_ok pr) (Hpo : sides_ok po).
Hypothesis (HA : forallb nolr A = true) (HB : forallb nolr B = true) (HAok : Forall sattr_ok A) (HBok : Forall sattr_ok B).
Local Notation ss := (A ++ SLr pr true o omin omax omsg po :: B).
Local Notation P := (all_sides A ++ pr).
Local Notation Q := (po ++ all_sides B).
Hypothesis (Z0 : cnt FE (P ++ Q) = 0) (Z1 : cnt FU (P ++ Q) = 0).
Definition loop_field_num : field := {| f_ty := opt_ty k TyNum; f_attrs := map attr_of ss |}.
Local Notation va := (fold_left (effect dispf) ss va_init).

Lemma loop_va_num : v_range va = Some (canon_cstr dispf true omin omax omsg) /\ v_length va = None.
Proof. rewrite fold_left_app. cbn [fold_left effect]. rewrite !nolr_fold by assumption.
  unfold flags_effect, lr_effect. cbn [v_length v_range va_init]. split; reflexivity. Qed.

Lemma loop_expected_num : exists ex, 
  meths_cons (cstr_meths (canon_cstr dispf true omin omax omsg) ++ repeat MOptional k) = Some ex /\
  expected loop_field_num = Some ex.
Proof. destruct (canon_cons_agree dispf true k o omin omax omsg Hmin Hmax Hmsg Hag) as [ex [He Hg]].
  exists ex. split; [exact Hg|].
  unfold expected, field_items, loop_field_num. cbn [f_attrs]. rewrite map_app, flat_map_app. cbn [map flat_map attr_of attr_items].
  rewrite !nolr_items by assumption. unfold lr_items. rewrite !map_app. cbn [map]. rewrite <- !app_assoc.
  rewrite concat_opt_sides, concat_opt_sides. cbn [app concat_opt canon_item item_cons]. rewrite He.
  rewrite <- map_app, <- map_app.
  rewrite <- (app_nil_r (map item_cons (map sitem (po ++ all_sides B)))), concat_opt_sides. cbn [concat_opt option_map].
  rewrite app_nil_r. rewrite !cnt_app in Z0, Z1.
  rewrite (no_flags_cons (all_sides A)), (no_flags_cons pr), (no_flags_cons (po ++ all_sides B)) by (rewrite ?cnt_app; lia).
  cbn [app]. rewrite app_nil_r. reflexivity. Qed.

Theorem full_loop_num : exists v chain, field_chain dispf loop_field_num = Ok (v, chain) /\ c11_field_ok loop_field_num chain = true.
Proof. exists (Some va), (build_schema (tstruct_of (opt_ty k TyNum)) (Some va)). split.
  - unfold field_chain, loop_field_num. cbn [f_attrs f_ty]. rewrite loop_exact.
    + rewrite existsb_app. cbn [existsb is_val]. rewrite orb_true_r. reflexivity.
    + apply Forall_app. split; [exact HAok|]. constructor; [|exact HBok]. cbn [sattr_ok]. repeat split; eauto using okb_okn.
  - destruct loop_expected_num as [ex [Hg Hex]]. destruct loop_va_num as [Vr Vl].
    pose proof (canon_va_ok dispf true omin omax omsg Hmin Hmax) as Hva0.
    assert (Hva : va_ok va = true).
    { unfold va_ok. rewrite Vl, Vr. unfold va_ok, canon_va in Hva0. cbn [v_length v_range] in Hva0. exact Hva0. }
    rewrite tstruct_opt_ty. cbn [tstruct_of]. unfold c11_field_ok.
    destruct (render_exact va k Hva) as [_ [Hn _]]. rewrite Hn. unfold number_meths. rewrite Vr, Hg, Hex.
    cbn [f_ty loop_field_num]. rewrite kind_opt_ty. cbn [kind_of base_ok forallb].
    change (str_eqb (L "z.coerce.number") (L "z.coerce.number")) with true. cbn [andb]. apply same_cons_refl. Qed.
End LoopNum.
