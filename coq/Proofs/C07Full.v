(* C07: the specification worklist never runs out of fuel, and the final form of the theorem: domain
   predicate and complement of the six classes instead of the decidable premises. *)
From Coq Require Import String Ascii.
From Coq Require Import List Arith Lia Bool Permutation.
Require Import TT.Model.Base TT.Model.Str TT.Model.C07TypeParse TT.Model.C07Harvest TT.Model.C07Worklist TT.Model.C07Reach.
Require Import TT.Spec.TsObs TT.Spec.C07Spec TT.Proofs.WorklistSpike TT.Proofs.C07Proofs TT.Proofs.C07Concrete TT.Proofs.C07Lift.
Import ListNotations.

Lemma has_dup_nodup (l : list str) : has_dup l = false -> NoDup l.
Proof. induction l as [|x r IH]; simpl; intros H; [constructor|]. apply orb_false_elim in H as [H1 H2].
  constructor; auto. intros Hin. assert (existsb (str_eqb x) r = true); [|congruence].
  apply existsb_exists. exists x. split; auto. apply TT.Proofs.StrFacts.str_eqb_refl. Qed.

Lemma sum_le (f g : str -> nat) l : (forall x, f x <= g x) -> list_sum (map f l) <= list_sum (map g l).
Proof. intros H. induction l; simpl; auto. specialize (H a). lia. Qed.

Lemma spec_total p roots : in_domain p = true -> exists l, reach_from_opt p roots = Some l.
Proof.
  intros Hdom. unfold reach_from_opt.
  assert (Hnd : NoDup (def_names p)).
  { unfold in_domain in Hdom. apply andb_true_iff in Hdom as [Hdom _]. apply andb_true_iff in Hdom as [Hdom _].
    apply andb_true_iff in Hdom as [Hdom _]. apply andb_true_iff in Hdom as [_ Hn]. apply andb_true_iff in Hn as [Hn _].
    unfold nodup_b in Hn. apply negb_true_iff in Hn. apply has_dup_nodup; auto. }
  destruct (work str_dec (spec_succ p) (spec_defined p) (spec_defined p) (spec_fuel p roots) roots []) as [l|] eqn:E; [eauto|].
  exfalso. revert E. apply (work_total str str_dec (spec_succ p) (spec_defined p) (spec_defined p) (def_names p) Hnd (spec_defined_in p)).
  unfold pot, spec_fuel. simpl. unfold def_names. rewrite map_map.
  pose proof (sum_le (fun d => List.length (spec_succ p d)) (fun d => S (List.length (spec_succ p d))) (map d_name (spec_defs p))
               (fun x => Nat.le_succ_diag_r _)) as Hs. rewrite !map_map in Hs.
  lia.
Qed.

Theorem declared_exact_full o p decl : ord_ok o -> in_domain p = true ->
  kf_c07_field_result p = false -> kf_c07_odd_name p = false -> kf_c07_inline_mod p = false ->
  kf_c07_payload_expr p = false ->
  C07Reach.declared o p = Some decl ->
  NoDup decl /\ (forall x, In x decl <-> SpecReach p x) /\ Permutation decl (reachable_spec p).
Proof.
  intros Ho Hdom K5 K6 K7 K8 Hd.
  pose proof (agree_from_classes p Hdom K5 K6 K7 K8) as Ha.
  destruct (declared_exact o Ho p Ha decl Hd) as [Hnd Hin]. split; auto. split; auto.
  destruct (spec_total p (command_roots p ++ event_roots p) Hdom) as (l & El).
  assert (reachable_spec p = l). { unfold reachable_spec, reach_from. unfold reach_from_opt in El. rewrite El. reflexivity. }
  subst l. destruct (reachable_spec_exact p _ El) as [Hnl Hil].
  apply NoDup_Permutation; auto. intros x. rewrite Hin, Hil. tauto.
Qed.
