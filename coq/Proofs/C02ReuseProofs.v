(* C02 reuse: the per-round closedness of one analyzer reused over a history of rounds, as an
   invariant over the fold of the rounds; the class C02-9 refuted by computation. *)
From Coq Require Import String Ascii.
From Coq Require Import List Arith Bool Lia.
Require Import TT.Model.Str TT.Model.Pipeline TT.Spec.C02Closed TT.Model.C02Model TT.Spec.C02Domain.
Require Import TT.Model.C02Samples TT.Model.C02Reuse TT.Model.C02ReuseSamples.
Require Import TT.Proofs.C02Reflect TT.Proofs.C02World.
Import ListNotations.

(* ---------------- the closed-world premise, item by item ---------------- *)
Lemma cw_names : forall p n,
  In n (flat_map qnames (site_qtys p) ++ payload_names p) ->
  exists it, In it (pj_items p) /\ In n (item_names it).
Proof.
  intros p n Hn. apply in_app_or in Hn. destruct Hn as [Hn|Hn].
  - apply in_flat_map in Hn. destruct Hn as [t [Ht Hq]].
    unfold site_qtys in Ht. apply in_app_or in Ht. destruct Ht as [Ht|Ht]; [|apply in_app_or in Ht; destruct Ht as [Ht|Ht]].
    + apply in_flat_map in Ht. destruct Ht as [c [Hc Htc]].
      unfold cmds in Hc. apply in_flat_map in Hc. destruct Hc as [it [Hit Hc]].
      exists it. split; [exact Hit|].
      destruct it as [a b c0 d|a b|nm ic ps r bd|]; try (destruct Hc; fail).
      destruct ic; [|destruct Hc]. destruct Hc as [Hc|[]]. subst c.
      cbn [item_names]. apply in_or_app. left. unfold cmd_names. apply in_flat_map. exists t. split; [exact Htc|exact Hq].
    + apply in_map_iff in Ht. destruct Ht as [f [Hf Hin]]. subst t.
      unfold serde_fields in Hin. apply in_flat_map in Hin. destruct Hin as [it [Hit Hin]].
      exists it. split; [exact Hit|].
      destruct it as [a b c0 d|a b|nm ic ps r bd|]; try (destruct Hin; fail).
      destruct b; [|destruct Hin]. destruct c0; [|destruct Hin].
      cbn [item_names]. apply in_flat_map. exists f. split; [exact Hin|exact Hq].
    + apply in_flat_map in Ht. destruct Ht as [r [Hr Htr]].
      unfold emit_recs in Hr. apply in_flat_map in Hr. destruct Hr as [it [Hit Hr]].
      exists it. split; [exact Hit|].
      destruct it as [a b c0 d|a b|nm ic ps rt bd|]; try (destruct Hr; fail).
      cbn [item_names]. apply in_or_app. right. apply in_flat_map. exists r. split; [exact Hr|].
      unfold rec_names. destruct (er_prov r) as [[t'|m]|]; try (destruct Htr; fail).
      destruct Htr as [Htr|[]]. subst t'. exact Hq.
  - unfold payload_names in Hn. apply in_flat_map in Hn. destruct Hn as [r [Hr Hnr]].
    unfold emit_recs in Hr. apply in_flat_map in Hr. destruct Hr as [it [Hit Hr]].
    exists it. split; [exact Hit|].
    destruct it as [a b c0 d|a b|nm ic ps rt bd|]; try (destruct Hr; fail).
    cbn [item_names]. apply in_or_app. right. apply in_flat_map. exists r. split; [exact Hr|].
    unfold rec_names. destruct (er_prov r) as [[t'|m]|]; try (destruct Hnr; fail). exact Hnr.
Qed.

Lemma known_app : forall a b n, known (a ++ b) n = known a n || known b n.
Proof. intros a b n. unfold known. apply existsb_app. Qed.

Lemma known_has_info : forall ss rest maps n,
  known ss n = true -> has_info {| pj_items := map struct_item ss ++ rest; pj_maps := maps |} n = true.
Proof.
  intros ss rest maps n. unfold has_info, info. cbn [pj_items].
  induction ss as [|[m [b fs]] ss IH]; intros Hk.
  - discriminate Hk.
  - cbn [known existsb fst] in Hk. cbn [map struct_item app].
    destruct b; cbn [info_in]; destruct (str_eqb n m) eqn:E; try reflexivity; apply IH; exact Hk.
Qed.

Lemma mapped_keys : forall maps n, mapped maps n = true -> In n (map fst maps).
Proof.
  intros maps n. unfold mapped. induction maps as [|[a b] r IH]; cbn [assoc map fst].
  - discriminate.
  - destruct (str_eqb n a) eqn:E.
    + intros _. left. apply str_eqb_eq in E. symmetry. exact E.
    + intros H. right. apply IH. exact H.
Qed.
Lemma keys_mapped : forall maps n, In n (map fst maps) -> mapped maps n = true.
Proof.
  intros maps n. unfold mapped. induction maps as [|[a b] r IH]; cbn [assoc map fst].
  - intros [].
  - intros [H|H].
    + subst a. rewrite str_eqb_refl. reflexivity.
    + destruct (str_eqb n a); [reflexivity|apply IH; exact H].
Qed.

Lemma skipn_len_app : forall (A : Type) (a b : list A), skipn (List.length a) (a ++ b) = b.
Proof. intros A a b. induction a as [|x a IH]; [reflexivity|exact IH]. Qed.

Lemma demote_names : forall it n, In n (item_names (demote it)) -> In n (item_names it).
Proof.
  intros it n. destruct it as [a b c0 d|a b|nm ic ps rt bd|]; cbn [demote]; try (intros H; exact H).
  cbn [item_names]. cbn [app]. intros H. apply in_or_app. right. exact H.
Qed.

(* ---------------- the invariant ---------------- *)
(* every name an accumulated item mentions is a discovered struct or was a mapping key of some round so far *)
Definition Inv (st : astate) (seen : list str) : Prop :=
  forall it, In it (view_items st) -> forall n, In n (item_names it) -> known (st_structs st) n = true \/ In n seen.
Definition covers (maps : list (str * str)) (seen : list str) : Prop := forall k, In k seen -> mapped maps k = true.

Lemma inv_init : Inv st0 [].
Proof. intros it H. destruct H. Qed.

Lemma inv_step : forall st seen r,
  Inv st seen -> fresh_ok st (step st r) (ri_maps r) = true -> Inv (step st r) (seen ++ map fst (ri_maps r)).
Proof.
  intros st seen r HI HF it Hit n Hn.
  unfold fresh_ok, fresh_items in HF. rewrite forallb_forall in HF.
  assert (Hfresh : forall it0, In it0 (fresh_items st (step st r)) -> known (st_structs (step st r)) n = true \/ In n (seen ++ map fst (ri_maps r)) \/ ~ In n (item_names it0)).
  { intros it0 H0. destruct (in_dec (list_eq_dec ascii_dec) n (item_names it0)) as [Hi|Hi]; [|right; right; exact Hi].
    specialize (HF it0 H0). rewrite forallb_forall in HF. specialize (HF n Hi).
    apply orb_true_iff in HF. destruct HF as [HF|HF]; [left; exact HF|].
    right. left. apply in_or_app. right. apply mapped_keys. exact HF. }
  assert (Hold : forall it0, In it0 (view_items st) -> In n (item_names it0) ->
                 known (st_structs (step st r)) n = true \/ In n (seen ++ map fst (ri_maps r))).
  { intros it0 H0 Hn0. destruct (HI it0 H0 n Hn0) as [Hk|Hs].
    - left. unfold step. cbn [st_structs]. rewrite known_app, Hk. reflexivity.
    - right. apply in_or_app. left. exact Hs. }
  unfold view_items in Hit. unfold step in Hit. cbn [st_structs st_past st_cur] in Hit.
  rewrite map_app in Hit.
  apply in_app_or in Hit. destruct Hit as [Hit|Hit]; [apply in_app_or in Hit; destruct Hit as [Hit|Hit]|apply in_app_or in Hit; destruct Hit as [Hit|Hit]].
  - apply Hold with (it0 := it); [|exact Hn]. unfold view_items. apply in_or_app. left. exact Hit.
  - destruct (Hfresh it) as [H|[H|H]]; [|left; exact H|right; exact H|contradiction].
    unfold fresh_items, step. cbn [st_structs st_cur]. rewrite skipn_len_app. apply in_or_app. left. exact Hit.
  - apply in_app_or in Hit. destruct Hit as [Hit|Hit].
    + apply Hold with (it0 := it); [|exact Hn]. unfold view_items. apply in_or_app. right. apply in_or_app. left. exact Hit.
    + apply in_map_iff in Hit. destruct Hit as [it0 [He Hi0]]. subst it.
      apply Hold with (it0 := it0); [|apply demote_names; exact Hn].
      unfold view_items. apply in_or_app. right. apply in_or_app. right. exact Hi0.
  - destruct (Hfresh it) as [H|[H|H]]; [|left; exact H|right; exact H|contradiction].
    unfold fresh_items, step. cbn [st_structs st_cur]. apply in_or_app. right. exact Hit.
Qed.

Lemma inv_closed_world : forall st seen maps, Inv st seen -> covers maps seen -> closed_world (view st maps) = true.
Proof.
  intros st seen maps HI HC. unfold closed_world. apply forallb_forall. intros n Hn.
  apply cw_names in Hn. destruct Hn as [it [Hit Hn]]. cbn [view pj_items] in Hit.
  destruct (HI it Hit n Hn) as [Hk|Hs].
  - apply orb_true_iff. left. unfold view, view_items. apply known_has_info. exact Hk.
  - apply orb_true_iff. right. cbn [view pj_maps]. apply HC. exact Hs.
Qed.

Lemma dropped_covers : forall seen r t, maps_dropped seen (r :: t) = false ->
  covers (ri_maps r) (seen ++ map fst (ri_maps r)) /\ maps_dropped (seen ++ map fst (ri_maps r)) t = false.
Proof.
  intros seen r t H. cbn [maps_dropped] in H. apply orb_false_iff in H. destruct H as [H1 H2]. split; [|exact H2].
  intros k Hk. apply in_app_or in Hk. destruct Hk as [Hk|Hk].
  - destruct (mapped (ri_maps r) k) eqn:E; [reflexivity|].
    assert (X : existsb (fun k0 => negb (mapped (ri_maps r) k0)) seen = true).
    { apply existsb_exists. exists k. split; [exact Hk|]. rewrite E. reflexivity. }
    rewrite X in H1. discriminate.
  - apply keys_mapped. exact Hk.
Qed.

(* the per-round statement, from any state that satisfies the invariant *)
Theorem reuse_closed_from : forall h st seen zod,
  Inv st seen -> maps_dropped seen h = false -> rounds_fresh_ok st h = true ->
  forall sr, In sr (run st h) ->
    wf (reuse_view sr) = true -> dom (reuse_view sr) = true -> kf_C02 (reuse_view sr) zod = false ->
    closed_world (reuse_view sr) = true /\ closed (reuse_files sr zod) /\ exports_nodup (reuse_files sr zod).
Proof.
  induction h as [|r t IH]; intros st seen zod HI HD HF sr Hin Hwf Hdom Hkf.
  - destruct Hin.
  - cbn [rounds_fresh_ok] in HF. apply andb_true_iff in HF. destruct HF as [HF1 HF2].
    apply dropped_covers in HD. destruct HD as [HC HD].
    pose proof (inv_step st seen r HI HF1) as HI'.
    cbn [run] in Hin. destruct Hin as [Hin|Hin].
    + subst sr. unfold reuse_view in *. cbn [fst snd] in *.
      assert (Hcw : closed_world (view (step st r) (ri_maps r)) = true) by (apply inv_closed_world with (seen := seen ++ map fst (ri_maps r)); assumption).
      split; [exact Hcw|]. unfold reuse_files, reuse_view. cbn [fst snd]. apply C02_closed_world; assumption.
    + apply IH with (st := step st r) (seen := seen ++ map fst (ri_maps r)); assumption.
Qed.

Theorem reuse_closed : forall h zod,
  kf_reuse_maps h = false -> rounds_fresh_ok st0 h = true ->
  forall sr, In sr (run st0 h) ->
    wf (reuse_view sr) = true -> dom (reuse_view sr) = true -> kf_C02 (reuse_view sr) zod = false ->
    closed (reuse_files sr zod) /\ exports_nodup (reuse_files sr zod).
Proof.
  intros h zod HD HF sr Hin Hwf Hdom Hkf.
  apply (reuse_closed_from h st0 [] zod inv_init HD HF sr Hin Hwf Hdom Hkf).
Qed.

(* the closed-world premise of every round's view is itself a consequence (the invariant) *)
Lemma reuse_cw_from : forall h st seen,
  Inv st seen -> maps_dropped seen h = false -> rounds_fresh_ok st h = true ->
  Forall (fun sr => closed_world (reuse_view sr) = true) (run st h).
Proof.
  induction h as [|r t IH]; intros st seen HI HD HF; cbn [run]; [constructor|].
  cbn [rounds_fresh_ok] in HF. apply andb_true_iff in HF. destruct HF as [HF1 HF2].
  apply dropped_covers in HD. destruct HD as [HC HD].
  pose proof (inv_step st seen r HI HF1) as HI'. constructor.
  - unfold reuse_view. cbn [fst snd]. apply inv_closed_world with (seen := seen ++ map fst (ri_maps r)); assumption.
  - apply IH with (seen := seen ++ map fst (ri_maps r)); assumption.
Qed.
Theorem reuse_closed_world_invariant : forall h,
  kf_reuse_maps h = false -> rounds_fresh_ok st0 h = true ->
  Forall (fun sr => closed_world (reuse_view sr) = true) (run st0 h).
Proof. intros h HD HF. exact (reuse_cw_from h st0 [] inv_init HD HF). Qed.

(* discovered structs are never forgotten and never re-read: the state after a round extends the one before *)
Theorem reuse_structs_monotone : forall st r, exists more, st_structs (step st r) = st_structs st ++ more.
Proof. intros st r. unfold step. cbn [st_structs]. eexists. reflexivity. Qed.

(* ---------------- computed witnesses ---------------- *)
Definition round_in_premises (zod : bool) (sr : astate * rinput) : bool :=
  wf (reuse_view sr) && dom (reuse_view sr) && negb (kf_C02 (reuse_view sr) zod).

(* C02-9: every premise but the class premise holds, in every round; the second round is not closed *)
Lemma reuse_maps_dropped_fails :
  kf_reuse_maps h_maps_dropped = true /\ rounds_fresh_ok st0 h_maps_dropped = true /\
  forallb (round_in_premises false) (run st0 h_maps_dropped) = true /\
  map (fun sr => c02_ok (reuse_files sr false)) (run st0 h_maps_dropped) = [true; false].
Proof. vm_compute. repeat split; reflexivity. Qed.

Theorem reuse_refuted : exists h zod sr,
  rounds_fresh_ok st0 h = true /\ In sr (run st0 h) /\
  wf (reuse_view sr) = true /\ dom (reuse_view sr) = true /\ kf_C02 (reuse_view sr) zod = false /\
  kf_reuse_maps h = true /\ ~ (closed (reuse_files sr zod) /\ exports_nodup (reuse_files sr zod)).
Proof.
  exists h_maps_dropped, false, (nth 1 (run st0 h_maps_dropped) (st0, {| ri_files := []; ri_maps := [] |})).
  split; [vm_compute; reflexivity|]. split; [right; left; reflexivity|].
  split; [vm_compute; reflexivity|]. split; [vm_compute; reflexivity|]. split; [vm_compute; reflexivity|].
  split; [vm_compute; reflexivity|].
  intros H. apply c02_ok_iff in H. vm_compute in H. discriminate.
Qed.

(* non-vacuity: the same history with the mapping kept, and a three-round history (event file removed,
   payload struct redefined, types added), meet every premise in every round *)
Lemma reuse_examples :
  kf_reuse_maps h_maps_kept = false /\ rounds_fresh_ok st0 h_maps_kept = true /\
  forallb (round_in_premises false) (run st0 h_maps_kept) = true /\
  kf_reuse_maps h_three = false /\ rounds_fresh_ok st0 h_three = true /\
  forallb (round_in_premises true) (run st0 h_three) = true /\
  map (fun sr => map fst (st_structs (fst sr))) (run st0 h_three) =
    [[L "User"; L "Progress"]; [L "User"; L "Progress"]; [L "User"; L "Progress"; L "Team"; L "Status"]]%string /\
  map (fun sr => c02_ok (reuse_files sr true)) (run st0 h_three) = [true; true; true].
Proof. vm_compute. repeat split; reflexivity. Qed.
