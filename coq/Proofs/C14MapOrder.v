(* C14 round 7: the iteration order of the type_mappings map reaches nothing - neither the fingerprint (hash_config goes
   through a BTreeMap) nor the write plan nor any step of the run machine. This is what allows the check to feed the
   identity order on the build-script path, where the order of a run is not observable. *)
From Coq Require Import List Arith Bool.
Require Import TT.Model.Str TT.Model.C08Fingerprint TT.Model.C08Run.
Import ListNotations.

Lemma analyse_files_only w w' p : w_files w = w_files w' -> analyse w p = analyse w' p.
Proof. intros H. unfold analyse. rewrite H. reflexivity. Qed.
Lemma fp_files_only w w' p c : w_files w = w_files w' -> fp w p c = fp w' p c.
Proof. intros H. unfold fp. rewrite (analyse_files_only w w' p H). reflexivity. Qed.
Lemma files_files_only w w' p c : w_files w = w_files w' -> files w p c = files w' p c.
Proof. intros H. unfold files. rewrite (analyse_files_only w w' p H). reflexivity. Qed.
Lemma unhashed_files_only w w' p c : w_files w = w_files w' -> unhashed w p c = unhashed w' p c.
Proof. intros H. unfold unhashed. rewrite (analyse_files_only w w' p H). reflexivity. Qed.

Lemma map_order_irrelevant w w' p c : w_files w = w_files w' ->
  fp w p c = fp w' p c /\ files w p c = files w' p c /\ unhashed w p c = unhashed w' p c.
Proof. intros H. split; [apply fp_files_only; exact H|]. split; [apply files_files_only|apply unhashed_files_only]; exact H. Qed.

Lemma cache_hit_files_only presence w w' (st : cstate) : w_files w = w_files w' ->
  cache_hit_c presence w st = cache_hit_c presence w' st.
Proof. intros H. unfold cache_hit_c, cache_hit.
  rewrite (fp_files_only w w' _ _ H), (files_files_only w w' _ _ H). reflexivity. Qed.

Lemma run_files_only presence w w' flag fault (st : cstate) : w_files w = w_files w' ->
  run_c presence w flag fault st = run_c presence w' flag fault st.
Proof. intros H. unfold run_c, run.
  change (cache_hit project config sched fname tree tree tree_eqb files fp presence w st) with (cache_hit_c presence w st).
  change (cache_hit project config sched fname tree tree tree_eqb files fp presence w' st) with (cache_hit_c presence w' st).
  rewrite (cache_hit_files_only presence w w' st H), (fp_files_only w w' _ _ H), (files_files_only w w' _ _ H). reflexivity. Qed.

(* whole histories: replacing the map order of every run leaves every state of the history unchanged *)
Definition same_files_op (o o' : cop) : Prop :=
  match o, o' with
  | Run _ _ _ _ w flag, Run _ _ _ _ w' flag' => w_files w = w_files w' /\ flag = flag'
  | _, _ => o = o'
  end.
Lemma step_files_only presence (st : cstate) o o' : same_files_op o o' -> step_c presence st o = step_c presence st o'.
Proof. destruct o, o'; cbn [same_files_op]; intros H; try (inversion H; reflexivity); try discriminate H.
  destruct H as [H ->]. unfold step_c, step. 
  change (run project config sched fname tree tree fname_eqb tree_eqb files fp has_commands g_force presence) with (run_c presence).
  rewrite (run_files_only presence w w0 flag0 None st H). reflexivity. Qed.
Lemma history_files_only presence : forall ops ops' (st : cstate), Forall2 same_files_op ops ops' ->
  fold_left (step_c presence) ops st = fold_left (step_c presence) ops' st.
Proof. induction ops as [|o ops IH]; intros ops' st H; inversion H as [|? o' ? ops2 Ho Hr]; subst; [reflexivity|].
  cbn [fold_left]. rewrite (step_files_only presence st o o' Ho). apply IH. exact Hr. Qed.
