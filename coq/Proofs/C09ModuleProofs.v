(* C09: (a) the identifiers the rendered Zod schema of a field mentions are exactly z and the schema names
   of the custom names of its TypeStructure (structural induction over the renderer model of C10);
   (b) the constants of the whole module, struct schemas then parameter schemas, satisfy the run-time oracle
   decl_before_use, hence DeclBeforeUse and ParamsLast. *)
From Coq Require Import String Ascii.
From Coq Require Import List Arith Lia Bool.
Require Import TT.Model.Base TT.Model.Str TT.Model.C07TypeParse TT.Model.C07Harvest TT.Model.C07Worklist TT.Model.C07Reach TT.Model.Topo.
Require TT.Model.TypeParse TT.Model.C10Zod.
Require Import TT.Spec.TsLex TT.Spec.TsModule TT.Spec.TsObs TT.Spec.C07Spec TT.Spec.C09Spec TT.Model.C09Module.
Require Import TT.Proofs.StrFacts TT.Proofs.TopoProofs TT.Proofs.C20Extra TT.Proofs.C07Concrete TT.Proofs.C09Proofs TT.Proofs.C09Full TT.Proofs.C09Oracle.
Import ListNotations.

Section TsInd.
  Variable P : tstruct -> Prop.
  Hypothesis Hprim : forall s, P (TPrim s).
  Hypothesis Harr : forall t, P t -> P (TArr t).
  Hypothesis Hmap : forall k v, P k -> P v -> P (TMap k v).
  Hypothesis Hset : forall t, P t -> P (TSet t).
  Hypothesis Htup : forall l, Forall P l -> P (TTuple l).
  Hypothesis Hopt : forall t, P t -> P (TOpt t).
  Hypothesis Hres : forall t, P t -> P (TRes t).
  Hypothesis Hcus : forall s, P (TCustom s).
  Fixpoint tstruct_ind' (t : tstruct) : P t :=
    match t with
    | TPrim s => Hprim s | TArr u => Harr u (tstruct_ind' u) | TMap k v => Hmap k v (tstruct_ind' k) (tstruct_ind' v)
    | TSet u => Hset u (tstruct_ind' u)
    | TTuple l => Htup l ((fix go l : Forall P l := match l with [] => Forall_nil _ | x :: l' => Forall_cons _ (tstruct_ind' x) (go l') end) l)
    | TOpt u => Hopt u (tstruct_ind' u) | TRes u => Hres u (tstruct_ind' u) | TCustom s => Hcus s
    end.
End TsInd.

Local Notation zex := (TT.Model.C10Zod.zex_of []).
Definition ids_ok (t : tstruct) : Prop :=
  forall k, (forall x, In x (ex_ids [] (zex (conv t) k)) -> x = L "z" \/ exists n, In n (ts_names t) /\ x = schema_name n)
         /\ (forall n, In n (ts_names t) -> In (schema_name n) (ex_ids [] (zex (conv t) k))).

Lemma ids_zcall name args : ex_ids [] (TT.Model.C10Zod.zcall name args) = L "z" :: flat_map (ex_ids []) args.
Proof. reflexivity. Qed.
Lemma ids_link e name : ex_ids [] (TT.Model.C10Zod.link e name) = ex_ids [] e.
Proof. unfold TT.Model.C10Zod.link. cbn [ex_ids flat_map]. rewrite app_nil_r. reflexivity. Qed.

Lemma prim_ids p k x : In x (ex_ids [] (zex (TT.Model.TypeParse.TPrim p) k)) -> x = L "z".
Proof. cbn [TT.Model.C10Zod.zex_of].
  repeat match goal with |- context [if ?b then _ else _] => destruct b end; cbn; intuition. Qed.

Theorem zex_ids : forall t, ids_ok t.
Proof.
  induction t using tstruct_ind'; intros k; cbn [conv ts_names].
  - split; [intros x Hx; left; eapply prim_ids; eauto|intros n []].
  - cbn [TT.Model.C10Zod.zex_of]. rewrite ids_zcall. cbn [flat_map]. rewrite app_nil_r. destruct (IHt false) as [A B]. split.
    + intros x [<-|Hx]; auto.
    + intros n Hn. right. auto.
  - cbn [TT.Model.C10Zod.zex_of]. rewrite ids_zcall. cbn [flat_map]. rewrite app_nil_r.
    destruct (IHt1 true) as [A1 B1]. destruct (IHt2 false) as [A2 B2]. split.
    + intros x [<-|Hx]; auto. apply in_app_or in Hx as [Hx|Hx]; [destruct (A1 x Hx) as [|(n & Hn & E)]|destruct (A2 x Hx) as [|(n & Hn & E)]]; auto;
        right; exists n; split; auto; apply in_or_app; auto.
    + intros n Hn. right. apply in_or_app. apply in_app_or in Hn as [Hn|Hn]; auto.
  - cbn [TT.Model.C10Zod.zex_of]. rewrite ids_zcall. cbn [flat_map]. rewrite app_nil_r. destruct (IHt false) as [A B]. split.
    + intros x [<-|Hx]; auto.
    + intros n Hn. right. auto.
  - destruct l as [|a l].
    + cbn. split; [intros x [<-|[]]; auto|intros n []].
    + assert (E : zex (TT.Model.TypeParse.TTuple (map conv (a :: l))) k =
                  TT.Model.C10Zod.zcall "tuple" [EArr (map (fun x => zex x false) (map conv (a :: l)))]) by reflexivity.
      rewrite E, ids_zcall. cbn [flat_map ex_ids]. rewrite app_nil_r. rewrite map_map.
      change (ts_names a ++ flat_map ts_names l) with (flat_map ts_names (a :: l)). split.
      * intros x [<-|Hx]; auto. apply in_flat_map in Hx as (e & He & Hx). apply in_map_iff in He as (t & <- & Ht).
        rewrite Forall_forall in H. destruct (H t Ht false) as [A _]. destruct (A x Hx) as [|(n & Hn & En)]; auto.
        right. exists n. split; auto. apply in_flat_map. exists t; auto.
      * intros n Hn. right. apply in_flat_map in Hn as (t & Ht & Hn). apply in_flat_map. exists (zex (conv t) false). split.
        -- apply in_map_iff. exists t; auto.
        -- rewrite Forall_forall in H. apply (H t Ht false). auto.
  - cbn [TT.Model.C10Zod.zex_of]. rewrite ids_link. apply IHt.
  - cbn [TT.Model.C10Zod.zex_of]. rewrite ids_zcall. cbn [flat_map ex_ids]. rewrite !app_nil_r.
    destruct (IHt false) as [A B]. split.
    + intros x [<-|Hx]; auto. apply in_app_or in Hx as [Hx|Hx]; auto. cbn in Hx. intuition.
    + intros n Hn. right. apply in_or_app. left. auto.
  - cbn. split; [intros x [<-|[]]; right; exists s; auto|intros n [<-|[]]; left; reflexivity].
Qed.

(* at the level of printed type strings: what a field of type s contributes to the right-hand side *)
Lemma string_ids_spec s x : In x (string_ids s) -> x = L "z" \/ exists n, In n (ts_of s) /\ x = schema_name n.
Proof. unfold string_ids, ts_of. destruct (parse_type_structure s) as [t|]; [|intros []]. apply (zex_ids t false). Qed.
Lemma string_ids_complete s n : In n (ts_of s) -> In (schema_name n) (string_ids s).
Proof. unfold string_ids, ts_of. destruct (parse_type_structure s) as [t|]; [|intros []]. apply (zex_ids t false). Qed.

(* the identifiers of a struct schema are z and the schema names of schema_refs: C09_decl_before_use speaks
   about the identifiers of the text *)
Theorem struct_ids_refs p n x : In x (struct_ids p n) <-> x = L "z" \/ exists m, In m (schema_refs p n) /\ x = schema_name m.
Proof.
  unfold struct_ids, schema_refs, raw_fields_ts. destruct (field_strings p n) as [l|]; simpl.
  - split.
    + intros [<-|Hx]; auto. apply in_flat_map in Hx as (s & Hs & Hx). destruct (string_ids_spec s x Hx) as [|(m & Hm & E)]; auto.
      right. exists m. split; auto. apply in_concat. exists (ts_of s). split; auto. apply in_map; auto.
    + intros [->|(m & Hm & ->)]; auto. right. apply in_concat in Hm as (l' & Hl' & Hm). apply in_map_iff in Hl' as (s & <- & Hs).
      apply in_flat_map. exists s. split; auto. apply string_ids_complete; auto.
  - split; [intros [<-|[]]; auto|intros [->|(m & [] & _)]; auto].
Qed.

(* ---------------- the whole module ---------------- *)
Lemma starts_app_same (a b c : str) : starts (a ++ b) (a ++ c) = starts b c.
Proof. induction a as [|x a IH]; simpl; auto. rewrite Ascii.eqb_refl. simpl. auto. Qed.
Lemma starts_prefix (a c : str) : starts a (a ++ c) = true.
Proof. rewrite <- (app_nil_r a) at 1. rewrite starts_app_same. destruct c; reflexivity. Qed.
Lemma params_of_schema n : is_params (schema_name n) = ends_in "Params" n.
Proof. unfold is_params, ends_in, schema_name. rewrite rev_app_distr.
  change (rev (L "ParamsSchema")) with (rev (L "Schema") ++ rev (L "Params")). apply starts_app_same. Qed.
Lemma params_const_is_params c : is_params (params_const c) = true.
Proof. unfold is_params, ends_in, params_const. rewrite rev_app_distr. apply starts_prefix. Qed.
Lemma params_const_form c : params_const c = schema_name (pascal true (fn_name c) ++ L "Params").
Proof. unfold params_const, schema_name. rewrite <- app_assoc. reflexivity. Qed.
Lemma ends_in_params_app x : ends_in "Params" (x ++ L "Params") = true.
Proof. unfold ends_in. rewrite rev_app_distr. apply starts_prefix. Qed.
Lemma schema_name_inj a b : schema_name a = schema_name b -> a = b.
Proof. unfold schema_name. apply app_inv_tail. Qed.
Lemma z_not_schema n : L "z" <> schema_name n.
Proof. intros E. apply (f_equal (@List.length ascii)) in E. unfold schema_name in E. rewrite app_length in E. simpl in E. lia. Qed.

Section Module.
Variable o : orders.
Hypothesis Ho : ord_ok o.
Variable p : project.
Hypothesis Hdom : in_domain p = true.
Hypothesis K5 : kf_c07_field_result p = false.
Hypothesis K6 : kf_c07_odd_name p = false.
Hypothesis K7 : kf_c07_inline_mod p = false.
Hypothesis Hac : acyclic (spec_graph p).
Hypothesis Hnp : no_params_suffix p = true.

Theorem module_decl_before_use cs : zod_consts o p = Some cs -> decl_before_use cs = true.
Proof.
  unfold zod_consts. destruct (emitted_zod o p) as [out|] eqn:Eo; [|discriminate]. intros Hcs. simpl in Hcs. injection Hcs as <-.
  destruct (zod_order_full o p out Ho Hdom K5 K6 K7 Hac Eo) as [Hnd Hord].
  set (A := map (fun n => (schema_name n, struct_ids p n)) out). set (B := param_consts p).
  unfold no_params_suffix in Hnp. apply andb_true_iff in Hnp as [Hn12 Hn3]. apply andb_true_iff in Hn12 as [Hn1 Hn2].
  rewrite forallb_forall in Hn1, Hn2, Hn3.
  (* the emitted names are defined names *)
  assert (Hout_def : forall u, In u out -> In u (def_names p)).
  { intros u Hu. pose proof Eo as Eo'. unfold emitted_zod in Eo'.
    destruct (discovered o p) as [disc|] eqn:Ed; [|discriminate].
    destruct (C07Reach.declared o p) as [decl|] eqn:Edecl; [|discriminate].
    destruct (topo_sort _ _ _) as [sorted|]; [|discriminate]. injection Eo' as <-.
    apply filter_In in Hu as [_ Hu]. apply smemb_true in Hu.
    destruct (declared_sub o Ho p disc decl Ed Edecl u Hu) as [_ Hr]. apply resolvable_in; auto. }
  assert (HA : forall k, k < List.length out -> exists u, nth_error out k = Some u /\ nth_error (A ++ B) k = Some (schema_name u, struct_ids p u)).
  { intros k Hk. destruct (nth_error out k) as [u|] eqn:Eu; [|apply nth_error_None in Eu; lia]. exists u. split; auto.
    rewrite nth_error_app1 by (unfold A; rewrite map_length; auto). unfold A. rewrite (map_nth_error _ _ _ Eu). reflexivity. }
  assert (HBin : forall b, In b B -> exists c, In c (commands p) /\ b = (params_const c, params_ids c)).
  { intros b Hb. unfold B, param_consts in Hb. apply in_map_iff in Hb as (c & <- & Hc). apply filter_In in Hc as [Hc _]. eauto. }
  (* a struct name reference that names a constant of the module names an emitted struct *)
  assert (Hname : forall m, (ends_in "Params" m = true -> False) -> In (schema_name m) (map fst (A ++ B)) -> In m out).
  { intros m Hm Hin. rewrite map_app in Hin. apply in_app_or in Hin as [Hin|Hin].
    - unfold A in Hin. rewrite map_map in Hin. apply in_map_iff in Hin as (u & Eu & Hu). simpl in Eu. apply schema_name_inj in Eu. subst; auto.
    - exfalso. apply in_map_iff in Hin as (b & Eb & Hb). destruct (HBin b Hb) as (c & _ & ->). simpl in Eb.
      rewrite params_const_form in Eb. apply schema_name_inj in Eb. apply Hm. rewrite <- Eb. apply ends_in_params_app. }
  apply c09_oracle_exact. split.
  - (* DeclBeforeUse *)
    intros k n refs Hk x Hx Hxin.
    destruct (Nat.lt_ge_cases k (List.length out)) as [Hlt|Hge].
    + destruct (HA k Hlt) as (u & Hu & Hcu). rewrite Hcu in Hk. injection Hk as <- <-.
      apply struct_ids_refs in Hx as [->|(m & Hm & ->)].
      * exfalso. rewrite map_app in Hxin. apply in_app_or in Hxin as [Hin|Hin].
        -- unfold A in Hin. rewrite map_map in Hin. apply in_map_iff in Hin as (v & Ev & _). simpl in Ev. apply (z_not_schema v). auto.
        -- apply in_map_iff in Hin as (b & Eb & Hb). destruct (HBin b Hb) as (c & _ & ->). simpl in Eb. rewrite params_const_form in Eb.
           eapply z_not_schema; eauto.
      * assert (Hu_in : In u out) by (eapply nth_error_In; eauto).
        assert (Hmp : ends_in "Params" m = true -> False).
        { intros E. specialize (Hn2 u (Hout_def u Hu_in)). rewrite forallb_forall in Hn2. specialize (Hn2 m Hm). rewrite E in Hn2. discriminate. }
        pose proof (Hname m Hmp Hxin) as Hm_out.
        destruct (Hord u m Hu_in Hm_out Hm) as (i & j & Hi & Hj & Hij).
        assert (j = k).
        { apply (proj1 (NoDup_nth_error out) Hnd); [apply nth_error_Some; rewrite Hj; discriminate|congruence]. }
        subst j. assert (Hi_lt : i < List.length out) by lia. destruct (HA i Hi_lt) as (m' & Hm' & Hcm). rewrite Hi in Hm'. injection Hm' as <-.
        exists i, (struct_ids p m). split; auto.
    + rewrite nth_error_app2 in Hk by (unfold A; rewrite map_length; auto). apply nth_error_In in Hk.
      destruct (HBin _ Hk) as (c & Hc & E). injection E as -> ->.
      destruct Hx as [<-|Hx].
      * exfalso. rewrite map_app in Hxin. apply in_app_or in Hxin as [Hin|Hin].
        -- unfold A in Hin. rewrite map_map in Hin. apply in_map_iff in Hin as (v & Ev & _). simpl in Ev. apply (z_not_schema v). auto.
        -- apply in_map_iff in Hin as (b & Eb & Hb). destruct (HBin b Hb) as (c' & _ & ->). simpl in Eb. rewrite params_const_form in Eb.
           eapply z_not_schema; eauto.
      * apply in_flat_map in Hx as (t & Ht & Hx). destruct (string_ids_spec _ _ Hx) as [->|(m & Hm & ->)].
        -- exfalso. rewrite map_app in Hxin. apply in_app_or in Hxin as [Hin|Hin].
           ++ unfold A in Hin. rewrite map_map in Hin. apply in_map_iff in Hin as (v & Ev & _). simpl in Ev. apply (z_not_schema v). auto.
           ++ apply in_map_iff in Hin as (b & Eb & Hb). destruct (HBin b Hb) as (c' & _ & ->). simpl in Eb. rewrite params_const_form in Eb.
              eapply z_not_schema; eauto.
        -- assert (Hmp : ends_in "Params" m = true -> False).
           { intros E. specialize (Hn3 c Hc). rewrite forallb_forall in Hn3. specialize (Hn3 t Ht). rewrite forallb_forall in Hn3.
             specialize (Hn3 m Hm). rewrite E in Hn3. discriminate. }
           pose proof (Hname m Hmp Hxin) as Hm_out. apply In_nth_error in Hm_out as (i & Hi).
           assert (Hi_lt : i < List.length out) by (apply nth_error_Some; rewrite Hi; discriminate).
           destruct (HA i Hi_lt) as (m' & Hm' & Hcm). rewrite Hi in Hm'. injection Hm' as <-.
           exists i, (struct_ids p m). split; [lia|auto].
  - (* ParamsLast *)
    intros i j a b Hij Hi Hj Ha.
    destruct (Nat.lt_ge_cases i (List.length out)) as [Hlt|Hge].
    + exfalso. destruct (HA i Hlt) as (u & Hu & Hcu). rewrite Hcu in Hi. injection Hi as <-. simpl in Ha.
      rewrite params_of_schema in Ha. specialize (Hn1 u (Hout_def u (nth_error_In _ _ Hu))). rewrite Ha in Hn1. discriminate.
    + rewrite nth_error_app2 in Hj by (unfold A; rewrite map_length; lia). apply nth_error_In in Hj.
      destruct (HBin _ Hj) as (c & _ & ->). simpl. apply params_const_is_params.
Qed.
End Module.
