(* C09: (a) the identifiers the rendered Zod schema of a field mentions are exactly z and the schema names
   of the custom names of its TypeStructure (structural induction over the renderer model of C10);
   (b) the constants of the whole module, struct schemas then parameter schemas, satisfy the run-time oracle
   decl_before_use, hence DeclBeforeUse and ParamsLast. *)
From Coq Require Import String Ascii.
From Coq Require Import List Arith Lia Bool.
Require Import TT.Model.Base TT.Model.Str TT.Model.C07TypeParse TT.Model.C07Harvest TT.Model.C07Worklist TT.Model.C07Reach TT.Model.Topo.
Require TT.Model.TypeParse TT.Model.C10Zod.
Require Import TT.Spec.TsLex TT.Spec.TsModule TT.Spec.TsObs TT.Spec.C07Spec TT.Spec.C09Spec TT.Model.C09Module.
Require Import TT.Proofs.StrFacts TT.Proofs.TopoProofs TT.Proofs.C20Extra TT.Proofs.C07Concrete TT.Proofs.C09Proofs TT.Proofs.C09Full TT.Proofs.C09Oracle.
Import ListNotations.

Section TsInd.
  Variable P : tstruct -> Prop.
  Hypothesis Hprim : forall s, P (TPrim s).
  Hypothesis Harr : forall t, P t -> P (TArr t).
  Hypothesis Hmap : forall k v, P k -> P v -> P (TMap k v).
  Hypothesis Hset : forall t, P t -> P (TSet t).
  Hypothesis Htup : forall l, Forall P l -> P (TTuple l).
  Hypothesis Hopt : forall t, P t -> P (TOpt t).
  Hypothesis Hres : forall t, P t -> P (TRes t).
  Hypothesis Hcus : forall s, P (TCustom s).
  Fixpoint tstruct_ind' (t : tstruct) : P t :=
    match t with
    | TPrim s => Hprim s | TArr u => Harr u (tstruct_ind' u) | TMap k v => Hmap k v (tstruct_ind' k) (tstruct_ind' v)
    | TSet u => Hset u (tstruct_ind' u)
    | TTuple l => Htup l ((fix go l : Forall P l := match l with [] => Forall_nil _ | x :: l' => Forall_cons _ (tstruct_ind' x) (go l') end) l)
    | TOpt u => Hopt u (tstruct_ind' u) | TRes u => Hres u (tstruct_ind' u) | TCustom s => Hcus s
    end.
End TsInd.

Section Renderer.
Variable m : list (str * str).          (* config.type_mappings *)
Local Notation zex := (TT.Model.C10Zod.zex_of m).
Local Notation unmapped := (fun n => TT.Model.C10Zod.lookup m n = None).
(* a mapped name is rendered as z.string() / z.number() / .. / z.custom<X>((val) => true): identifiers z and true only *)
Definition ids_ok (t : tstruct) : Prop :=
  forall k, (forall x, In x (ex_ids [] (zex (conv t) k)) ->
               x = L "z" \/ x = L "true" \/ exists n, In n (ts_names t) /\ unmapped n /\ x = schema_name n)
         /\ (forall n, In n (ts_names t) -> unmapped n -> In (schema_name n) (ex_ids [] (zex (conv t) k))).

Lemma ids_zcall name args : ex_ids [] (TT.Model.C10Zod.zcall name args) = L "z" :: flat_map (ex_ids []) args.
Proof. reflexivity. Qed.
Lemma ids_link e name : ex_ids [] (TT.Model.C10Zod.link e name) = ex_ids [] e.
Proof. unfold TT.Model.C10Zod.link. cbn [ex_ids flat_map]. rewrite app_nil_r. reflexivity. Qed.

Lemma prim_ids p k x : In x (ex_ids [] (zex (TT.Model.TypeParse.TPrim p) k)) -> x = L "z".
Proof. cbn [TT.Model.C10Zod.zex_of].
  repeat match goal with |- context [if ?b then _ else _] => destruct b end; cbn; intuition. Qed.

Lemma custom_ids n x : In x (ex_ids [] (TT.Model.C10Zod.zcustom_ex m n)) ->
  x = L "z" \/ x = L "true" \/ (unmapped n /\ x = schema_name n).
Proof. unfold TT.Model.C10Zod.zcustom_ex. destruct (TT.Model.C10Zod.lookup m n) as [y|].
  - repeat match goal with |- context [if ?b then _ else _] => destruct b end; cbn; intuition.
  - cbn. intros [<-|[]]. right. right. auto. Qed.

Theorem zex_ids : forall t, ids_ok t.
Proof.
  induction t using tstruct_ind'; intros k; cbn [conv ts_names].
  - split; [intros x Hx; left; eapply prim_ids; eauto|intros n []].
  - cbn [TT.Model.C10Zod.zex_of]. rewrite ids_zcall. cbn [flat_map]. rewrite app_nil_r. destruct (IHt false) as [A B]. split.
    + intros x [<-|Hx]; auto.
    + intros n Hn Hu. right. auto.
  - cbn [TT.Model.C10Zod.zex_of]. rewrite ids_zcall. cbn [flat_map]. rewrite app_nil_r.
    destruct (IHt1 true) as [A1 B1]. destruct (IHt2 false) as [A2 B2]. split.
    + intros x [<-|Hx]; auto. apply in_app_or in Hx as [Hx|Hx];
        [destruct (A1 x Hx) as [|[|(n & Hn & Hu & E)]]|destruct (A2 x Hx) as [|[|(n & Hn & Hu & E)]]]; auto;
        right; right; exists n; split; auto; apply in_or_app; auto.
    + intros n Hn Hu. right. apply in_or_app. apply in_app_or in Hn as [Hn|Hn]; auto.
  - cbn [TT.Model.C10Zod.zex_of]. rewrite ids_zcall. cbn [flat_map]. rewrite app_nil_r. destruct (IHt false) as [A B]. split.
    + intros x [<-|Hx]; auto.
    + intros n Hn Hu. right. auto.
  - destruct l as [|a l].
    + cbn. split; [intros x [<-|[]]; auto|intros n []].
    + assert (E : zex (TT.Model.TypeParse.TTuple (map conv (a :: l))) k =
                  TT.Model.C10Zod.zcall "tuple" [EArr (map (fun x => zex x false) (map conv (a :: l)))]) by reflexivity.
      rewrite E, ids_zcall. cbn [flat_map ex_ids]. rewrite app_nil_r. rewrite map_map.
      change (ts_names a ++ flat_map ts_names l) with (flat_map ts_names (a :: l)). split.
      * intros x [<-|Hx]; auto. apply in_flat_map in Hx as (e & He & Hx). apply in_map_iff in He as (t & <- & Ht).
        rewrite Forall_forall in H. destruct (H t Ht false) as [A _]. destruct (A x Hx) as [|[|(n & Hn & Hu & En)]]; auto.
        right. right. exists n. split; auto. apply in_flat_map. exists t; auto.
      * intros n Hn Hu. right. apply in_flat_map in Hn as (t & Ht & Hn). apply in_flat_map. exists (zex (conv t) false). split.
        -- apply in_map_iff. exists t; auto.
        -- rewrite Forall_forall in H. apply (H t Ht false); auto.
  - cbn [TT.Model.C10Zod.zex_of]. rewrite ids_link. apply IHt.
  - cbn [TT.Model.C10Zod.zex_of]. rewrite ids_zcall. cbn [flat_map ex_ids]. rewrite !app_nil_r.
    destruct (IHt false) as [A B]. split.
    + intros x [<-|Hx]; auto. apply in_app_or in Hx as [Hx|Hx]; auto. cbn in Hx. intuition.
    + intros n Hn Hu. right. apply in_or_app. left. auto.
  - cbn [TT.Model.C10Zod.zex_of ts_names]. split.
    + intros x Hx. destruct (custom_ids s x Hx) as [|[|[Hu ->]]]; auto. right. right. exists s. simpl. auto.
    + intros n [<-|[]] Hu. unfold TT.Model.C10Zod.zcustom_ex. rewrite Hu. left. reflexivity.
Qed.

(* at the level of printed type strings: what a field of type s contributes to the right-hand side *)
Lemma string_ids_spec s x : In x (string_ids_m m s) ->
  x = L "z" \/ x = L "true" \/ exists n, In n (ts_of s) /\ unmapped n /\ x = schema_name n.
Proof. unfold string_ids_m, ts_of. destruct (parse_type_structure s) as [t|]; [|intros []]. apply (zex_ids t false). Qed.
Lemma string_ids_complete s n : In n (ts_of s) -> unmapped n -> In (schema_name n) (string_ids_m m s).
Proof. unfold string_ids_m, ts_of. destruct (parse_type_structure s) as [t|]; [|intros []]. apply (zex_ids t false). Qed.

Lemma unmapped_iff n : unmapped n <-> is_mapped m n = false.
Proof. unfold is_mapped. induction m as [|[k v] r IH]; simpl; [tauto|]. destruct (str_eqb k n); simpl; [split; discriminate|auto]. Qed.

(* the identifiers of a struct schema are z, possibly true, and the schema names of the unmapped schema_refs *)
Theorem struct_ids_refs p n x : In x (struct_ids_m m p n) <->
  x = L "z" \/ (x = L "true" /\ In x (struct_ids_m m p n)) \/ exists r, In r (schema_refs_m m p n) /\ x = schema_name r.
Proof.
  unfold struct_ids_m, schema_refs_m, schema_refs, raw_fields_ts. destruct (field_strings p n) as [l|]; simpl.
  - split.
    + intros [<-|Hx]; auto. pose proof Hx as Hx0. apply in_flat_map in Hx as (s & Hs & Hx).
      destruct (string_ids_spec s x Hx) as [|[->|(r & Hr & Hu & E)]]; auto.
      right. right. exists r. split; auto. apply filter_In. split.
      * apply in_concat. exists (ts_of s). split; auto. apply in_map; auto.
      * apply negb_true_iff. apply unmapped_iff. auto.
    + intros [->|[[_ H]|(r & Hr & ->)]]; auto. right. apply filter_In in Hr as [Hr Hu]. apply negb_true_iff in Hu. apply unmapped_iff in Hu.
      apply in_concat in Hr as (l' & Hl' & Hr). apply in_map_iff in Hl' as (s & <- & Hs).
      apply in_flat_map. exists s. split; auto. apply string_ids_complete; auto.
  - split; [intros [<-|[]]; auto|intros [->|[[_ H]|(r & Hr & _)]]; auto].
Qed.
End Renderer.

(* ---------------- the whole module ---------------- *)
Lemma starts_app_same (a b c : str) : starts (a ++ b) (a ++ c) = starts b c.
Proof. induction a as [|x a IH]; simpl; auto. rewrite Ascii.eqb_refl. simpl. auto. Qed.
Lemma starts_prefix (a c : str) : starts a (a ++ c) = true.
Proof. rewrite <- (app_nil_r a) at 1. rewrite starts_app_same. destruct c; reflexivity. Qed.
Lemma params_of_schema n : is_params (schema_name n) = ends_in "Params" n.
Proof. unfold is_params, ends_in, schema_name. rewrite rev_app_distr.
  change (rev (L "ParamsSchema")) with (rev (L "Schema") ++ rev (L "Params")). apply starts_app_same. Qed.
Lemma params_const_is_params c : is_params (params_const c) = true.
Proof. unfold is_params, ends_in, params_const. rewrite rev_app_distr. apply starts_prefix. Qed.
Lemma params_const_form c : params_const c = schema_name (pascal true (fn_name c) ++ L "Params").
Proof. unfold params_const, schema_name. rewrite <- app_assoc. reflexivity. Qed.
Lemma ends_in_params_app x : ends_in "Params" (x ++ L "Params") = true.
Proof. unfold ends_in. rewrite rev_app_distr. apply starts_prefix. Qed.
Lemma schema_name_inj a b : schema_name a = schema_name b -> a = b.
Proof. unfold schema_name. apply app_inv_tail. Qed.
Lemma true_not_schema n : L "true" <> schema_name n.
Proof. intros E. apply (f_equal (@List.length ascii)) in E. unfold schema_name in E. rewrite app_length in E. simpl in E. lia. Qed.
Lemma z_not_schema n : L "z" <> schema_name n.
Proof. intros E. apply (f_equal (@List.length ascii)) in E. unfold schema_name in E. rewrite app_length in E. simpl in E. lia. Qed.

Section Module.
Variable o : orders.
Hypothesis Ho : ord_ok o.
Variable p : project.
Hypothesis Hdom : in_domain p = true.
Hypothesis K5 : kf_c07_field_result p = false.
Hypothesis K6 : kf_c07_odd_name p = false.
Hypothesis K7 : kf_c07_inline_mod p = false.
Hypothesis K8 : kf_c07_payload_expr p = false.
Hypothesis Hac : acyclic (spec_graph p).
Hypothesis Hnp : no_params_suffix p = true.
Variable m : list (str * str).          (* config.type_mappings *)

Theorem module_decl_before_use_m cs : zod_consts_m m o p = Some cs -> decl_before_use cs = true.
Proof.
  unfold zod_consts_m. destruct (emitted_zod o p) as [out|] eqn:Eo; [|discriminate]. intros Hcs. simpl in Hcs. injection Hcs as <-.
  destruct (zod_order_full o p out Ho Hdom K5 K6 K7 K8 Hac Eo) as [Hnd Hord].
  set (A := map (fun n => (schema_name n, struct_ids_m m p n)) out). set (B := param_consts_m m p).
  unfold no_params_suffix in Hnp. apply andb_true_iff in Hnp as [Hn12 Hn3]. apply andb_true_iff in Hn12 as [Hn1 Hn2].
  rewrite forallb_forall in Hn1, Hn2, Hn3.
  (* the emitted names are defined names *)
  assert (Hout_def : forall u, In u out -> In u (def_names p)).
  { intros u Hu. pose proof Eo as Eo'. unfold emitted_zod in Eo'.
    destruct (discovered o p) as [disc|] eqn:Ed; [|discriminate].
    destruct (C07Reach.declared o p) as [decl|] eqn:Edecl; [|discriminate].
    destruct (topo_sort _ _ _) as [sorted|]; [|discriminate]. injection Eo' as <-.
    apply filter_In in Hu as [_ Hu]. apply smemb_true in Hu.
    destruct (declared_sub o Ho p disc decl Ed Edecl u Hu) as [_ Hr]. apply resolvable_in; auto. }
  assert (HA : forall k, k < List.length out -> exists u, nth_error out k = Some u /\ nth_error (A ++ B) k = Some (schema_name u, struct_ids_m m p u)).
  { intros k Hk. destruct (nth_error out k) as [u|] eqn:Eu; [|apply nth_error_None in Eu; lia]. exists u. split; auto.
    rewrite nth_error_app1 by (unfold A; rewrite map_length; auto). unfold A. rewrite (map_nth_error _ _ _ Eu). reflexivity. }
  assert (HBin : forall b, In b B -> exists c, In c (commands p) /\
            b = (params_const c, L "z" :: flat_map (fun t => string_ids_m m (tstr t)) (cmd_params c))).
  { intros b Hb. unfold B, param_consts_m in Hb. apply in_map_iff in Hb as (c & <- & Hc). apply filter_In in Hc as [Hc _]. eauto. }
  (* a struct name reference that names a constant of the module names an emitted struct *)
  assert (Hname : forall r, (ends_in "Params" r = true -> False) -> In (schema_name r) (map fst (A ++ B)) -> In r out).
  { intros r Hm Hin. rewrite map_app in Hin. apply in_app_or in Hin as [Hin|Hin].
    - unfold A in Hin. rewrite map_map in Hin. apply in_map_iff in Hin as (u & Eu & Hu). simpl in Eu. apply schema_name_inj in Eu. subst; auto.
    - exfalso. apply in_map_iff in Hin as (b & Eb & Hb). destruct (HBin b Hb) as (c & _ & ->). simpl in Eb.
      rewrite params_const_form in Eb. apply schema_name_inj in Eb. apply Hm. rewrite <- Eb. apply ends_in_params_app. }
  assert (Hshort : forall x, (forall n, x <> schema_name n) -> In x (map fst (A ++ B)) -> False).
  { intros x Hx Hin. rewrite map_app in Hin. apply in_app_or in Hin as [Hin|Hin].
    - unfold A in Hin. rewrite map_map in Hin. apply in_map_iff in Hin as (v & Ev & _). simpl in Ev. apply (Hx v). auto.
    - apply in_map_iff in Hin as (b & Eb & Hb). destruct (HBin b Hb) as (c & _ & ->). simpl in Eb. rewrite params_const_form in Eb.
      eapply Hx; eauto. }
  apply c09_oracle_exact. split.
  - (* DeclBeforeUse *)
    intros k n refs Hk x Hx Hxin.
    destruct (Nat.lt_ge_cases k (List.length out)) as [Hlt|Hge].
    + destruct (HA k Hlt) as (u & Hu & Hcu). rewrite Hcu in Hk. injection Hk as <- <-.
      apply (struct_ids_refs m) in Hx as [->|[[-> _]|(r & Hr & ->)]].
      * exfalso. apply (Hshort (L "z") z_not_schema Hxin).
      * exfalso. apply (Hshort (L "true") true_not_schema Hxin).
      * apply filter_In in Hr as [Hr _].
        assert (Hu_in : In u out) by (eapply nth_error_In; eauto).
        assert (Hmp : ends_in "Params" r = true -> False).
        { intros E. specialize (Hn2 u (Hout_def u Hu_in)). rewrite forallb_forall in Hn2. specialize (Hn2 r Hr). rewrite E in Hn2. discriminate. }
        pose proof (Hname r Hmp Hxin) as Hm_out.
        destruct (Hord u r Hu_in Hm_out Hr) as (i & j & Hi & Hj & Hij).
        assert (j = k).
        { apply (proj1 (NoDup_nth_error out) Hnd); [apply nth_error_Some; rewrite Hj; discriminate|congruence]. }
        subst j. assert (Hi_lt : i < List.length out) by lia. destruct (HA i Hi_lt) as (m' & Hm' & Hcm). rewrite Hi in Hm'. injection Hm' as <-.
        exists i, (struct_ids_m m p r). split; auto.
    + rewrite nth_error_app2 in Hk by (unfold A; rewrite map_length; auto). apply nth_error_In in Hk.
      destruct (HBin _ Hk) as (c & Hc & E). injection E as -> ->.
      destruct Hx as [<-|Hx]; [exfalso; apply (Hshort (L "z") z_not_schema Hxin)|].
      apply in_flat_map in Hx as (t & Ht & Hx). destruct (string_ids_spec m _ _ Hx) as [->|[->|(r & Hr & _ & ->)]].
      * exfalso. apply (Hshort (L "z") z_not_schema Hxin).
      * exfalso. apply (Hshort (L "true") true_not_schema Hxin).
      * assert (Hmp : ends_in "Params" r = true -> False).
        { intros E. specialize (Hn3 c Hc). rewrite forallb_forall in Hn3. specialize (Hn3 t Ht). rewrite forallb_forall in Hn3.
          specialize (Hn3 r Hr). rewrite E in Hn3. discriminate. }
        pose proof (Hname r Hmp Hxin) as Hm_out. apply In_nth_error in Hm_out as (i & Hi).
        assert (Hi_lt : i < List.length out) by (apply nth_error_Some; rewrite Hi; discriminate).
        destruct (HA i Hi_lt) as (m' & Hm' & Hcm). rewrite Hi in Hm'. injection Hm' as <-.
        exists i, (struct_ids_m m p r). split; [lia|auto].
  - (* ParamsLast *)
    intros i j a b Hij Hi Hj Ha.
    destruct (Nat.lt_ge_cases i (List.length out)) as [Hlt|Hge].
    + exfalso. destruct (HA i Hlt) as (u & Hu & Hcu). rewrite Hcu in Hi. injection Hi as <-. simpl in Ha.
      rewrite params_of_schema in Ha. specialize (Hn1 u (Hout_def u (nth_error_In _ _ Hu))). rewrite Ha in Hn1. discriminate.
    + rewrite nth_error_app2 in Hj by (unfold A; rewrite map_length; lia). apply nth_error_In in Hj.
      destruct (HBin _ Hj) as (c & _ & ->). simpl. apply params_const_is_params.
Qed.
End Module.

(* without type mappings *)
Theorem module_decl_before_use o (Ho : ord_ok o) p : in_domain p = true ->
  kf_c07_field_result p = false -> kf_c07_odd_name p = false -> kf_c07_inline_mod p = false ->
  kf_c07_payload_expr p = false ->
  acyclic (spec_graph p) -> no_params_suffix p = true ->
  forall cs, zod_consts o p = Some cs -> decl_before_use cs = true.
Proof. intros Hd K5 K6 K7 K8 Hac Hnp cs. exact (module_decl_before_use_m o Ho p Hd K5 K6 K7 K8 Hac Hnp [] cs). Qed.

(* the instances without mappings used by Properties/C09.v *)
Theorem zex_ids_plain : forall t k,
  (forall x, In x (ex_ids [] (TT.Model.C10Zod.zex_of [] (conv t) k)) -> x = L "z" \/ exists n, In n (ts_names t) /\ x = schema_name n) /\
  (forall n, In n (ts_names t) -> In (schema_name n) (ex_ids [] (TT.Model.C10Zod.zex_of [] (conv t) k))).
Proof. intros t k. destruct (zex_ids [] t k) as [A B]. split.
  - intros x Hx. destruct (A x Hx) as [|[->|(n & Hn & _ & E)]]; eauto.
    (* without mappings no identifier true is printed *)
    exfalso. clear A B. revert k Hx. induction t using tstruct_ind'; intros k Hx; cbn [conv] in Hx.
    + apply prim_ids in Hx. discriminate.
    + cbn [TT.Model.C10Zod.zex_of] in Hx. rewrite ids_zcall in Hx. cbn [flat_map] in Hx. rewrite app_nil_r in Hx. destruct Hx as [E|Hx]; [discriminate|eauto].
    + cbn [TT.Model.C10Zod.zex_of] in Hx. rewrite ids_zcall in Hx. cbn [flat_map] in Hx. rewrite app_nil_r in Hx.
      destruct Hx as [E|Hx]; [discriminate|]. apply in_app_or in Hx as [Hx|Hx]; eauto.
    + cbn [TT.Model.C10Zod.zex_of] in Hx. rewrite ids_zcall in Hx. cbn [flat_map] in Hx. rewrite app_nil_r in Hx. destruct Hx as [E|Hx]; [discriminate|eauto].
    + destruct l as [|a l]; [cbn in Hx; intuition discriminate|].
      change (TT.Model.C10Zod.zex_of [] (TT.Model.TypeParse.TTuple (map conv (a :: l))) k) with
             (TT.Model.C10Zod.zcall "tuple" [EArr (map (fun x => TT.Model.C10Zod.zex_of [] x false) (map conv (a :: l)))]) in Hx.
      rewrite ids_zcall in Hx. cbn [flat_map ex_ids] in Hx. rewrite app_nil_r, map_map in Hx. destruct Hx as [E|Hx]; [discriminate|].
      apply in_flat_map in Hx as (e & He & Hx). apply in_map_iff in He as (t & <- & Ht). rewrite Forall_forall in H. eapply H; eauto.
    + cbn [TT.Model.C10Zod.zex_of] in Hx. rewrite ids_link in Hx. eauto.
    + cbn [TT.Model.C10Zod.zex_of] in Hx. rewrite ids_zcall in Hx. cbn [flat_map ex_ids] in Hx. rewrite !app_nil_r in Hx.
      destruct Hx as [E|Hx]; [discriminate|]. apply in_app_or in Hx as [Hx|Hx]; eauto. cbn in Hx. intuition discriminate.
    + cbn in Hx. destruct Hx as [E|[]]. apply (true_not_schema s). auto.
  - intros n Hn. apply B; auto.
Qed.
Theorem struct_ids_refs_plain p n x : In x (struct_ids p n) <-> x = L "z" \/ exists r, In r (schema_refs p n) /\ x = schema_name r.
Proof.
  unfold struct_ids, schema_refs, raw_fields_ts. destruct (field_strings p n) as [l|]; simpl.
  - split.
    + intros [<-|Hx]; auto. apply in_flat_map in Hx as (s & Hs & Hx). unfold string_ids, field_ex in Hx.
      destruct (parse_type_structure s) as [t|] eqn:Ep; [|contradiction].
      destruct (proj1 (zex_ids_plain t false) x Hx) as [|(r & Hr & E)]; auto.
      right. exists r. split; auto. apply in_concat. exists (ts_of s). split; [apply in_map; auto|]. unfold ts_of. rewrite Ep. auto.
    + intros [->|(r & Hr & ->)]; auto. right. apply in_concat in Hr as (l' & Hl' & Hr). apply in_map_iff in Hl' as (s & <- & Hs).
      apply in_flat_map. exists s. split; auto. unfold string_ids, field_ex, ts_of in *.
      destruct (parse_type_structure s) as [t|]; [|contradiction]. apply (zex_ids_plain t false); auto.
  - split; [intros [<-|[]]; auto|intros [->|(r & [] & _)]; auto].
Qed.
