(* C06 deepening round 7: the parsing premise of the member-list theorems, discharged by the round trips
   of C10 (Proofs/C10ParseTy.v, Proofs/C10ParseEx.v): the canonical tokens of every normal-form type tree
   are read as one unit in front of a semicolon, those of every normal-form Zod expression in front of a comma. *)
From Coq Require Import String Ascii.
From Coq Require Import List Arith Lia Bool.
Require Import TT.Model.Str TT.Model.C06Print TT.Spec.TsLex TT.Spec.TsModule TT.Spec.TsObs.
Require Import TT.Proofs.C10ParseTy TT.Proofs.C10ParseEx TT.Proofs.C06Lists.
Import ListNotations.
Local Open Scope list_scope.

Theorem reads_type (m : member) (t : ty) : nf t -> nest t < TYF -> reads ptype ";" (m, (pr t, t)).
Proof. intros Hnf Hn rest. cbn [fst snd]. destruct (round_trip t Hnf) as [H _]. unfold ptype. apply H; [exact Hn|].
  cbn. repeat split; reflexivity. Qed.
Theorem reads_expr (m : member) (e : ex) : nfx e -> enest e < 62 -> reads (p_expr 62) "," (m, (pe e, e)).
Proof. intros Hnf Hn rest. cbn [fst snd]. destruct (round_trip_ex e Hnf) as [H _]. apply H; [exact Hn|].
  cbn. repeat split; reflexivity. Qed.

(* an instance with nested types: Array of a union inside a generic *)
Definition ex_ty : ty := TyRef [L "Record"] [TyRef [L "string"] []; TyArr (TyRef [L "User"] [])].
Lemma ex_ty_ok : nf ex_ty /\ nest ex_ty < TYF.
Proof. split; [|cbn; unfold TYF; lia]. cbn. repeat split; reflexivity. Qed.
