(* C06 deepening round 7: whole declarations. The text of a complete interface declaration, of the enum
   alias, of the z.object schema constant and of the z.enum schema constant - as the templates print them,
   for every list of names - is read by the specification lexer + module parser + the reader of
   Spec/C06Keys (read_keys) as exactly the list of names. *)
From Coq Require Import String Ascii.
From Coq Require Import List Arith Lia Bool.
Require Import TT.Model.Str TT.Proofs.StrFacts TT.Model.C06Print TT.Spec.TsLex TT.Spec.TsModule TT.Spec.C06Keys.
Require Import TT.Proofs.LexFacts TT.Proofs.C06Print TT.Proofs.C06Lists.
Import ListNotations.
Local Open Scope char_scope.
Local Open Scope list_scope.

(* closed token tests are evaluated *)
Ltac tks := repeat match goal with |- context [tk_is ?s ?t] =>
  let b := eval vm_compute in (tk_is s t) in
  match b with true => change (tk_is s t) with true | false => change (tk_is s t) with false end end;
  cbn [orb andb]; cbv iota.

Lemma clean_key_tok bare name : clean_tk (key_tok bare name) = true.
Proof. destruct bare; reflexivity. Qed.
Lemma clean_flat {A} (f : A -> list tk) l : (forall x, In x l -> forallb clean_tk (f x) = true) -> forallb clean_tk (flat_map f l) = true.
Proof. induction l as [|x l IH]; intros H; [reflexivity|]. cbn [flat_map]. rewrite forallb_app, (H x (or_introl eq_refl)), IH; [reflexivity|].
  intros y Hy. apply H. right. exact Hy. Qed.
Lemma p_items_one n it toks : p_item toks = Some (it, []) -> toks <> [] -> p_items (S (S n)) toks [] = Some [it].
Proof. intros H Hne. destruct toks as [|c r]; [congruence|]. cbn [p_items]. rewrite H. reflexivity. Qed.
Lemma read_one n file toks it d : lexes T file toks -> forallb clean_tk toks = true -> toks <> [] ->
  p_item toks = Some (it, []) -> decl_of n it = Some d -> read_keys n file = Some [d].
Proof. intros Hl Hc Hne Hp Hd. unfold read_keys, parse_module. rewrite (lexes_module T file toks Hl I), (has_err_clean _ Hc).
  destruct toks as [|c r]; [congruence|]. cbn [List.length]. rewrite (p_items_one _ it (c :: r) Hp Hne).
  cbn [flat_map]. rewrite Hd. reflexivity. Qed.

(* ------------------------------------------------------------------ export interface N { members } *)
Definition interface_toks (n : str) (l : list (member * (list tk * ty))) : list tk :=
  KId (L "export") :: KId (L "interface") :: KId n :: P "{" :: flat_map mtoks l ++ [P "}"].
Lemma p_item_interface name r :
  p_item (KId (L "export") :: KId (L "interface") :: KId name :: P "{" :: r) =
  match pmembers r with Some ((ms, ix), r6) => Some (IInterface name [] None ms ix, r6) | None => None end.
Proof. reflexivity. Qed.
Lemma lex_interface n (l : list (member * (list tk * ty))) : ident n = true ->
  Forall (fun x => key_choice_ok x /\ lexes semi_next (m_value (fst x)) (fst (snd x))) l ->
  lexes T (interface_text n (map fst l)) (interface_toks n l).
Proof. intros Hn H. unfold interface_text, interface_toks.
  change (L "export interface " ++ n ++ L " {" ++ interface_body (map fst l))
    with (L "export" ++ " " :: L "interface" ++ " " :: n ++ " " :: "{" :: interface_body (map fst l)).
  change (KId (L "export") :: KId (L "interface") :: KId n :: P "{" :: flat_map mtoks l ++ [P "}"])
    with ([KId (L "export")] ++ [KId (L "interface")] ++ [KId n] ++ P "{" :: flat_map mtoks l ++ [P "}"]).
  apply (lexes_app bnd T); [apply lexes_ident; [reflexivity|auto]| |intros r _; reflexivity].
  apply lexes_cons_ws; [reflexivity|].
  apply (lexes_app bnd T); [apply lexes_ident; [reflexivity|auto]| |intros r _; reflexivity].
  apply lexes_cons_ws; [reflexivity|].
  apply (lexes_app bnd T); [apply lexes_ident; [exact Hn|auto]| |intros r _; reflexivity].
  apply lexes_cons_ws; [reflexivity|]. apply (lexes_cons_single T "{"); [reflexivity|].
  apply lex_interface_body. exact H. Qed.

Definition member_ok (x : member * (list tk * ty)) : Prop :=
  key_choice_ok x /\ lexes semi_next (m_value (fst x)) (fst (snd x)) /\ reads ptype ";" x /\ forallb clean_tk (fst (snd x)) = true.
Theorem read_interface n (l : list (member * (list tk * ty))) : ident n = true -> Forall member_ok l ->
  read_keys n (interface_text n (map fst l)) = Some [DInterface (map m_name (map fst l))].
Proof. intros Hn H.
  assert (Forall (fun x => key_choice_ok x /\ lexes semi_next (m_value (fst x)) (fst (snd x))) l) as H1
    by (eapply Forall_impl; [|exact H]; intros x (A1 & A2 & A3 & A4); tauto).
  assert (Forall (fun x => key_choice_ok x /\ reads ptype ";" x) l) as H2
    by (eapply Forall_impl; [|exact H]; intros x (A1 & A2 & A3 & A4); tauto).
  destruct (interface_members_read l [] H2) as [Hp Hk].
  apply (read_one n _ (interface_toks n l) (IInterface n [] None (map mem_of l) [])).
  - apply lex_interface; assumption.
  - unfold interface_toks. cbn [forallb clean_tk P andb]. rewrite forallb_app. cbn [forallb clean_tk P andb]. rewrite andb_true_r.
    apply clean_flat. intros x Hx. rewrite Forall_forall in H. destruct (H x Hx) as (_ & _ & _ & Hc).
    unfold mtoks. cbn [forallb]. rewrite clean_key_tok. rewrite forallb_app. cbn [forallb clean_tk P andb]. rewrite forallb_app, Hc.
    destruct (m_opt (fst x)); reflexivity.
  - discriminate.
  - unfold interface_toks. rewrite p_item_interface, Hp. reflexivity.
  - cbn [decl_of]. rewrite str_eqb_refl, Hk. reflexivity. Qed.
