(* C06 deepening round 7: whole declarations. The text of a complete interface declaration, of the enum
   alias, of the z.object schema constant and of the z.enum schema constant - as the templates print them,
   for every list of names - is read by the specification lexer + module parser + the reader of
   Spec/C06Keys (read_keys) as exactly the list of names. *)
From Coq Require Import String Ascii.
From Coq Require Import List Arith Lia Bool.
Require Import TT.Model.Str TT.Proofs.StrFacts TT.Model.C06Print TT.Spec.TsLex TT.Spec.TsModule TT.Spec.C06Keys.
Require Import TT.Proofs.LexFacts TT.Proofs.C06Print TT.Proofs.C06Lists.
Import ListNotations.
Local Open Scope char_scope.
Local Open Scope list_scope.

(* closed token tests are evaluated *)
Ltac tks := repeat match goal with |- context [tk_is ?s ?t] =>
  let b := eval vm_compute in (tk_is s t) in
  match b with true => change (tk_is s t) with true | false => change (tk_is s t) with false end end;
  cbn [orb andb]; cbv iota.

Lemma clean_key_tok bare name : clean_tk (key_tok bare name) = true.
Proof. destruct bare; reflexivity. Qed.
Lemma clean_flat {A} (f : A -> list tk) l : (forall x, In x l -> forallb clean_tk (f x) = true) -> forallb clean_tk (flat_map f l) = true.
Proof. induction l as [|x l IH]; intros H; [reflexivity|]. cbn [flat_map]. rewrite forallb_app, (H x (or_introl eq_refl)), IH; [reflexivity|].
  intros y Hy. apply H. right. exact Hy. Qed.
Lemma p_items_one n it toks : p_item toks = Some (it, []) -> toks <> [] -> p_items (S (S n)) toks [] = Some [it].
Proof. intros H Hne. destruct toks as [|c r]; [congruence|]. cbn [p_items]. rewrite H. reflexivity. Qed.
Lemma read_one n file toks it d : lexes T file toks -> forallb clean_tk toks = true -> toks <> [] ->
  p_item toks = Some (it, []) -> decl_of n it = Some d -> read_keys n file = Some [d].
Proof. intros Hl Hc Hne Hp Hd. unfold read_keys, parse_module. rewrite (lexes_module T file toks Hl I), (has_err_clean _ Hc).
  destruct toks as [|c r]; [congruence|]. cbn [List.length]. rewrite (p_items_one _ it (c :: r) Hp Hne).
  cbn [flat_map]. rewrite Hd. reflexivity. Qed.

(* ------------------------------------------------------------------ export interface N { members } *)
Definition interface_toks (n : str) (l : list (member * (list tk * ty))) : list tk :=
  KId (L "export") :: KId (L "interface") :: KId n :: P "{" :: flat_map mtoks l ++ [P "}"].
Lemma p_item_interface name r :
  p_item (KId (L "export") :: KId (L "interface") :: KId name :: P "{" :: r) =
  match pmembers r with Some ((ms, ix), r6) => Some (IInterface name [] None ms ix, r6) | None => None end.
Proof. reflexivity. Qed.
Lemma lex_interface n (l : list (member * (list tk * ty))) : ident n = true ->
  Forall (fun x => key_choice_ok x /\ lexes semi_next (m_value (fst x)) (fst (snd x))) l ->
  lexes T (interface_text n (map fst l)) (interface_toks n l).
Proof. intros Hn H. unfold interface_text, interface_toks.
  change (L "export interface " ++ n ++ L " {" ++ interface_body (map fst l))
    with (L "export" ++ " " :: L "interface" ++ " " :: n ++ " " :: "{" :: interface_body (map fst l)).
  change (KId (L "export") :: KId (L "interface") :: KId n :: P "{" :: flat_map mtoks l ++ [P "}"])
    with ([KId (L "export")] ++ [KId (L "interface")] ++ [KId n] ++ P "{" :: flat_map mtoks l ++ [P "}"]).
  apply (lexes_app bnd T); [apply lexes_ident; [reflexivity|auto]| |intros r _; reflexivity].
  apply lexes_cons_ws; [reflexivity|].
  apply (lexes_app bnd T); [apply lexes_ident; [reflexivity|auto]| |intros r _; reflexivity].
  apply lexes_cons_ws; [reflexivity|].
  apply (lexes_app bnd T); [apply lexes_ident; [exact Hn|auto]| |intros r _; reflexivity].
  apply lexes_cons_ws; [reflexivity|]. apply (lexes_cons_single T "{"); [reflexivity|].
  apply lex_interface_body. exact H. Qed.

Definition member_ok (x : member * (list tk * ty)) : Prop :=
  key_choice_ok x /\ lexes semi_next (m_value (fst x)) (fst (snd x)) /\ reads ptype ";" x /\ forallb clean_tk (fst (snd x)) = true.
Theorem read_interface n (l : list (member * (list tk * ty))) : ident n = true -> Forall member_ok l ->
  read_keys n (interface_text n (map fst l)) = Some [DInterface (map m_name (map fst l))].
Proof. intros Hn H.
  assert (Forall (fun x => key_choice_ok x /\ lexes semi_next (m_value (fst x)) (fst (snd x))) l) as H1
    by (eapply Forall_impl; [|exact H]; intros x (A1 & A2 & A3 & A4); tauto).
  assert (Forall (fun x => key_choice_ok x /\ reads ptype ";" x) l) as H2
    by (eapply Forall_impl; [|exact H]; intros x (A1 & A2 & A3 & A4); tauto).
  destruct (interface_members_read l [] H2) as [Hp Hk].
  apply (read_one n _ (interface_toks n l) (IInterface n [] None (map mem_of l) [])).
  - apply lex_interface; assumption.
  - unfold interface_toks. cbn [forallb clean_tk P andb]. rewrite forallb_app. cbn [forallb clean_tk P andb]. rewrite andb_true_r.
    apply clean_flat. intros x Hx. rewrite Forall_forall in H. destruct (H x Hx) as (_ & _ & _ & Hc).
    unfold mtoks. cbn [forallb]. rewrite clean_key_tok. rewrite forallb_app. cbn [forallb clean_tk P andb]. rewrite forallb_app, Hc.
    destruct (m_opt (fst x)); reflexivity.
  - discriminate.
  - unfold interface_toks. rewrite p_item_interface, Hp. reflexivity.
  - cbn [decl_of]. rewrite str_eqb_refl, Hk. reflexivity. Qed.

(* ------------------------------------------------------------------ the enum alias: export type N = lit | lit ; *)
Lemma lexes_lit (P0 : str -> Prop) (s : str) (ts : list tk) (k : nat) :
  k <= List.length s -> (forall r f, lexm (k + f) (s ++ r) = ts ++ lexm f r) -> lexes P0 s ts.
Proof. intros Hk H r f _ Hf. rewrite app_length in Hf. exists (f - k). split; [lia|].
  replace f with (k + (f - k)) at 1 by lia. apply H. Qed.

Lemma lex_union_join names : names <> [] -> lexes T (join (L " | ") (map quoted_code names)) (union_toks names).
Proof. induction names as [|n l IH]; [congruence|]. intros _. destruct l as [|n2 l].
  - cbn [map join union_toks flat_map]. rewrite quoted_is_literal. apply lexes_literal.
  - change (join (L " | ") (map quoted_code (n :: n2 :: l))) with (quoted_code n ++ " " :: "|" :: " " :: join (L " | ") (map quoted_code (n2 :: l))).
    change (union_toks (n :: n2 :: l)) with ([KStr DQ (escape_js n)] ++ P "|" :: union_toks (n2 :: l)).
    apply (lexes_app T T); [rewrite quoted_is_literal; apply lexes_literal| |intros; exact I].
    apply lexes_cons_ws; [reflexivity|].
    apply (lexes_cons_tok T "|" (" " :: join (L " | ") (map quoted_code (n2 :: l)))); [intros f r; apply lex_bar_sp|].
    apply lexes_cons_ws; [reflexivity|]. apply IH. discriminate. Qed.
Lemma clean_union names : forallb clean_tk (union_toks names) = true.
Proof. destruct names as [|n l]; [reflexivity|]. cbn [union_toks forallb clean_tk andb]. induction l as [|m l IH]; [reflexivity|]. cbn [flat_map app forallb clean_tk P andb]. exact IH. Qed.

Definition alias_toks (n : str) (names : list str) : list tk :=
  KId (L "export") :: KId (L "type") :: KId n :: P "=" :: union_toks names ++ [P ";"].
Lemma p_item_alias name r :
  p_item (KId (L "export") :: KId (L "type") :: KId name :: P "=" :: r) =
  match ptype r with
  | Some (t, r5) => match expect ";" r5 with Some r6 => Some (ITypeAlias name [] t, r6) | None => None end
  | None => None end.
Proof. reflexivity. Qed.
Lemma lex_alias n names : ident n = true -> names <> [] -> lexes T (alias_text n names) (alias_toks n names).
Proof. intros Hn Hne. unfold alias_text, alias_toks.
  change (L "export type " ++ n ++ L " = " ++ join (L " | ") (map quoted_code names) ++ L ";")
    with (L "export" ++ " " :: L "type" ++ " " :: n ++ L " = " ++ join (L " | ") (map quoted_code names) ++ L ";").
  change (KId (L "export") :: KId (L "type") :: KId n :: P "=" :: union_toks names ++ [P ";"])
    with ([KId (L "export")] ++ [KId (L "type")] ++ [KId n] ++ [P "="] ++ union_toks names ++ [P ";"]).
  apply (lexes_app bnd T); [apply lexes_ident; [reflexivity|auto]| |intros r _; reflexivity].
  apply lexes_cons_ws; [reflexivity|].
  apply (lexes_app bnd T); [apply lexes_ident; [reflexivity|auto]| |intros r _; reflexivity].
  apply lexes_cons_ws; [reflexivity|].
  apply (lexes_app bnd T); [apply lexes_ident; [exact Hn|auto]| |intros r _; reflexivity].
  apply (lexes_app T T); [apply (lexes_lit T _ _ 3); [cbn; lia|intros r f; reflexivity]| |intros; exact I].
  apply (lexes_app T T); [apply lex_union_join; exact Hne|apply (lexes_single T ";"); reflexivity|intros; exact I]. Qed.

Theorem read_alias n names : ident n = true -> names <> [] ->
  read_keys n (alias_text n names) = Some [DLiterals names].
Proof. intros Hn Hne. destruct (union_reads_back names [] Hne) as [t [Hp Hl]].
  apply (read_one n _ (alias_toks n names) (ITypeAlias n [] t)).
  - apply lex_alias; assumption.
  - unfold alias_toks. cbn [forallb clean_tk P andb]. rewrite forallb_app, clean_union. reflexivity.
  - discriminate.
  - unfold alias_toks. rewrite p_item_alias, Hp. reflexivity.
  - cbn [decl_of]. rewrite str_eqb_refl, Hl. reflexivity. Qed.

(* ------------------------------------------------------------------ export const NSchema = z.m( <object or array> ); *)
Lemma body_chain_start rec r :
  p_expr_body rec (KId (L "z") :: P "." :: r) = p_ops rec (S (List.length (P "." :: r))) (EId (L "z")) (P "." :: r).
Proof. reflexivity. Qed.
Lemma p_ops_dot rec n e s r : p_ops rec (S n) e (P "." :: KId s :: r) = p_ops rec n (EMember e s false) r.
Proof. reflexivity. Qed.
Lemma p_ops_call rec n e r : p_ops rec (S n) e (P "(" :: r) =
  match p_exlist rec ")" (S (List.length r)) r [] with Some (args, r1) => p_ops rec n (ECall e [] args) r1 | None => None end.
Proof. reflexivity. Qed.
Lemma p_ops_semi rec n e : p_ops rec n e [P ";"] = Some (e, [P ";"]).
Proof. destruct n; reflexivity. Qed.
Lemma p_ops_close rec n e r : p_ops rec n e (P ")" :: r) = Some (e, P ")" :: r).
Proof. destruct n; reflexivity. Qed.
Lemma p_exlist_one rec n c0 l a r : tk_is ")" c0 = false -> tk_is "," c0 = false -> tk_is "..." c0 = false ->
  rec (c0 :: l) = Some (a, P ")" :: r) -> p_exlist rec ")" (S (S n)) (c0 :: l) [] = Some ([a], r).
Proof. intros H1 H2 H3 Hr. cbn [p_exlist]. rewrite H1, H2, H3, Hr. tks. reflexivity. Qed.

Lemma body_zcall rec m c0 Y a : tk_is ")" c0 = false -> tk_is "," c0 = false -> tk_is "..." c0 = false ->
  rec (c0 :: Y) = Some (a, [P ")"; P ";"]) ->
  p_expr_body rec (KId (L "z") :: P "." :: KId m :: P "(" :: c0 :: Y) = Some (ECall (EMember (EId (L "z")) m false) [] [a], [P ";"]).
Proof. intros H1 H2 H3 Hr. rewrite body_chain_start. cbn [List.length]. rewrite p_ops_dot, p_ops_call. cbn [List.length].
  rewrite (p_exlist_one rec _ c0 Y a [P ";"] H1 H2 H3 Hr). apply p_ops_semi. Qed.

Lemma p_expr_braced f c0 l a r : (c0 = P "{" \/ c0 = P "[") ->
  p_atom (p_expr f) (c0 :: l) = Some (a, P ")" :: r) -> p_expr (S f) (c0 :: l) = Some (a, P ")" :: r).
Proof. intros Hc H. cbn [p_expr]. unfold p_expr_body. destruct Hc as [-> | ->]; tks; rewrite H; apply p_ops_close. Qed.

Lemma p_item_const name r :
  p_item (KId (L "export") :: KId (L "const") :: KId name :: P "=" :: r) =
  match p_expr_body (p_expr 63) r with
  | Some (e, r4) => match expect ";" r4 with Some r5 => Some (IConst name e, r5) | None => None end
  | None => None end.
Proof. reflexivity. Qed.

Lemma p_item_zcall name m c0 Y a : (c0 = P "{" \/ c0 = P "[") ->
  p_atom (p_expr 62) (c0 :: Y) = Some (a, [P ")"; P ";"]) ->
  p_item (KId (L "export") :: KId (L "const") :: KId name :: P "=" :: KId (L "z") :: P "." :: KId m :: P "(" :: c0 :: Y)
  = Some (IConst name (ECall (EMember (EId (L "z")) m false) [] [a]), []).
Proof. intros Hc H. rewrite p_item_const.
  rewrite (body_zcall (p_expr 63) m c0 Y a); [reflexivity| | | |apply (p_expr_braced 62 c0 Y a [P ";"] Hc H)];
  destruct Hc as [-> | ->]; reflexivity. Qed.

Lemma ident_schema n : ident n = true -> ident (schema_name n) = true.
Proof. unfold schema_name, ident. destruct n as [|c r]; [discriminate|]. cbn [app]. intros H. apply andb_true_iff in H as [H1 H2].
  rewrite H1, forallb_app, H2. reflexivity. Qed.

Lemma lex_const_header n (m : string) c0 body btoks : ident n = true -> single c0 = true ->
  7 <= List.length (L " = z." ++ L m ++ ["("]) ->
  (forall r f, lexm (7 + f) (L " = z." ++ L m ++ "(" :: r) = [P "="; KId (L "z"); P "."; KId (L m); P "("] ++ lexm f r) ->
  lexes T body btoks ->
  lexes T (L "export const " ++ n ++ L "Schema = z." ++ L m ++ "(" :: c0 :: body)
          (KId (L "export") :: KId (L "const") :: KId (schema_name n) :: P "=" :: KId (L "z") :: P "." :: KId (L m) :: P "(" :: KP [c0] :: btoks).
Proof. intros Hn Hc Hlen Hm Hb.
  replace (L "export const " ++ n ++ L "Schema = z." ++ L m ++ "(" :: c0 :: body)
    with (L "export" ++ " " :: L "const" ++ " " :: schema_name n ++ (L " = z." ++ L m ++ ["("]) ++ c0 :: body)
    by (unfold schema_name; cbn [L list_ascii_of_string app]; rewrite <- !app_assoc; reflexivity).
  change (KId (L "export") :: KId (L "const") :: KId (schema_name n) :: P "=" :: KId (L "z") :: P "." :: KId (L m) :: P "(" :: KP [c0] :: btoks)
    with ([KId (L "export")] ++ [KId (L "const")] ++ [KId (schema_name n)] ++ [P "="; KId (L "z"); P "."; KId (L m); P "("] ++ KP [c0] :: btoks).
  apply (lexes_app bnd T); [apply lexes_ident; [reflexivity|auto]| |intros r _; reflexivity].
  apply lexes_cons_ws; [reflexivity|].
  apply (lexes_app bnd T); [apply lexes_ident; [reflexivity|auto]| |intros r _; reflexivity].
  apply lexes_cons_ws; [reflexivity|].
  apply (lexes_app bnd T); [apply lexes_ident; [apply ident_schema; exact Hn|auto]| |intros r _; reflexivity].
  apply (lexes_app T T); [| |intros; exact I].
  - apply (lexes_lit T _ _ 7); [exact Hlen|]. intros r f. rewrite <- !app_assoc. apply Hm.
  - apply (lexes_cons_single T c0); assumption. Qed.

Lemma is_z_call_same (m : string) args : is_z_call m (ECall (EMember (EId (L "z")) (L m) false) [] args) = Some args.
Proof. unfold is_z_call. rewrite !str_eqb_refl. reflexivity. Qed.
Lemma enum_not_object args : is_z_call "object" (ECall (EMember (EId (L "z")) (L "enum") false) [] args) = None.
Proof. reflexivity. Qed.

(* ------------------------------------------------------------------ export const NSchema = z.object({ props }); *)
Definition zobject_toks (n : str) (l : list (member * (list tk * ex))) : list tk :=
  KId (L "export") :: KId (L "const") :: KId (schema_name n) :: P "=" :: KId (L "z") :: P "." :: KId (L "object") :: P "(" :: P "{"
  :: flat_map ptoks l ++ [P "}"; P ")"; P ";"].
Definition prop_ok (x : member * (list tk * ex)) : Prop :=
  key_choice_ok x /\ lexes comma_next (m_value (fst x)) (fst (snd x)) /\ reads (p_expr 62) "," x /\ forallb clean_tk (fst (snd x)) = true.
Theorem read_zobject n (l : list (member * (list tk * ex))) : ident n = true -> Forall prop_ok l ->
  read_keys n (zobject_text n (map fst l)) = Some [DZObject (map m_name (map fst l))].
Proof. intros Hn H.
  assert (Forall (fun x => key_choice_ok x /\ lexes comma_next (m_value (fst x)) (fst (snd x))) l) as H1
    by (eapply Forall_impl; [|exact H]; intros x (A1 & A2 & A3 & A4); tauto).
  assert (Forall (fun x => key_choice_ok x /\ reads (p_expr 62) "," x) l) as H2
    by (eapply Forall_impl; [|exact H]; intros x (A1 & A2 & A3 & A4); tauto).
  destruct (zobject_props_read (p_expr 62) l [P ")"; P ";"] H2) as [Hp Hk].
  apply (read_one n _ (zobject_toks n l) (IConst (schema_name n) (ECall (EMember (EId (L "z")) (L "object") false) [] [EObj (map prop_of l)]))).
  - unfold zobject_text, zobject_toks.
    change (L "export const " ++ n ++ L "Schema = z.object({" ++ zobject_body (map fst l))
      with (L "export const " ++ n ++ L "Schema = z." ++ L "object" ++ "(" :: "{" :: zobject_body (map fst l)).
    apply (lex_const_header n "object" "{"); [exact Hn|reflexivity|cbn; lia|intros r f; reflexivity|].
    apply lex_zobject_body. exact H1.
  - unfold zobject_toks. cbn [forallb clean_tk P andb]. rewrite forallb_app. cbn [forallb clean_tk P andb]. rewrite andb_true_r.
    apply clean_flat. intros x Hx. rewrite Forall_forall in H. destruct (H x Hx) as (_ & _ & _ & Hc).
    unfold ptoks. cbn [forallb clean_tk P andb]. rewrite clean_key_tok, forallb_app, Hc. reflexivity.
  - discriminate.
  - unfold zobject_toks. apply p_item_zcall; [left; reflexivity|exact Hp].
  - cbn [decl_of]. rewrite str_eqb_refl, is_z_call_same, Hk. reflexivity. Qed.

(* ------------------------------------------------------------------ export const NSchema = z.enum([ literals ]); *)
Definition zenum_toks (n : str) (names : list str) : list tk :=
  KId (L "export") :: KId (L "const") :: KId (schema_name n) :: P "=" :: KId (L "z") :: P "." :: KId (L "enum") :: P "(" :: P "["
  :: arr_toks (map escape_js names) ++ [P "]"; P ")"; P ";"].
Lemma clean_arr bodies : forallb clean_tk (arr_toks bodies) = true.
Proof. induction bodies as [|b [|b2 l] IH]; [reflexivity|reflexivity|].
  change (arr_toks (b :: b2 :: l)) with (KStr DQ b :: P "," :: arr_toks (b2 :: l)). cbn [forallb clean_tk P andb]. exact IH. Qed.
Theorem read_zenum n names : ident n = true -> names <> [] ->
  read_keys n (zenum_text n names) = Some [DZEnum names].
Proof. intros Hn Hne.
  destruct (zenum_array_read (p_expr 62) names [P ")"; P ";"] (p_expr_lit 61)) as [Hp Hk].
  apply (read_one n _ (zenum_toks n names) (IConst (schema_name n) (ECall (EMember (EId (L "z")) (L "enum") false) [] [EArr (map (EStr DQ) (map escape_js names))]))).
  - unfold zenum_text, zenum_toks.
    change (L "export const " ++ n ++ L "Schema = z.enum([" ++ zenum_list names ++ L "]);")
      with (L "export const " ++ n ++ L "Schema = z." ++ L "enum" ++ "(" :: "[" :: zenum_list names ++ L "]);").
    apply (lex_const_header n "enum" "["); [exact Hn|reflexivity|cbn; lia|intros r f; reflexivity|].
    apply (lexes_app T T); [apply lex_zenum_list|apply (lexes_lit T _ _ 3); [cbn; lia|intros r f; reflexivity]|intros; exact I].
  - unfold zenum_toks. cbn [forallb clean_tk P andb]. rewrite forallb_app, clean_arr. reflexivity.
  - discriminate.
  - unfold zenum_toks. apply p_item_zcall; [right; reflexivity|exact Hp].
  - cbn [decl_of]. rewrite str_eqb_refl, enum_not_object, is_z_call_same.
    destruct names as [|a names']; [congruence|]. cbn [map]. cbn [map] in Hk. rewrite Hk. reflexivity. Qed.

(* ------------------------------------------------------------------ instances *)
Lemma ex_members_file : Forall member_ok ex_members.
Proof. pose proof ex_members_ok as H. unfold ex_members in *. 
  repeat match goal with |- Forall _ (_ :: _) => constructor | |- Forall _ [] => constructor end;
  match goal with |- member_ok ?x => 
    let Hx := fresh in assert (In x ex_members) as Hx by (unfold ex_members; cbn; tauto);
    destruct (proj1 (Forall_forall _ _) ex_members_ok x Hx) as (A1 & A2 & A3); repeat split; try assumption; reflexivity end. Qed.
Lemma ex_props_file : Forall prop_ok ex_props.
Proof. unfold ex_props.
  repeat match goal with |- Forall _ (_ :: _) => constructor | |- Forall _ [] => constructor end;
  match goal with |- prop_ok ?x => 
    let Hx := fresh in assert (In x ex_props) as Hx by (unfold ex_props; cbn; tauto);
    destruct (proj1 (Forall_forall _ _) ex_props_ok x Hx) as (A1 & A2 & A3); repeat split; try assumption; reflexivity end. Qed.
Lemma ex_files :
  read_keys (L "T0") (interface_text (L "T0") (map fst ex_members)) = Some [DInterface [L "user-id"; L "firstName"; L "a""b\c"]] /\
  read_keys (L "T0") (zobject_text (L "T0") (map fst ex_props)) = Some [DZObject [L "user-id"; L "firstName"]] /\
  read_keys (L "T0") (alias_text (L "T0") [L "IN_PROGRESS"; L "a\"; L "x""y"]) = Some [DLiterals [L "IN_PROGRESS"; L "a\"; L "x""y"]] /\
  read_keys (L "T0") (zenum_text (L "T0") [L "IN_PROGRESS"; L "a\"; L "x""y"]) = Some [DZEnum [L "IN_PROGRESS"; L "a\"; L "x""y"]].
Proof. split; [|split; [|split]].
  - apply (read_interface (L "T0") ex_members eq_refl ex_members_file).
  - apply (read_zobject (L "T0") ex_props eq_refl ex_props_file).
  - apply read_alias; [reflexivity|discriminate].
  - apply read_zenum; [reflexivity|discriminate]. Qed.
