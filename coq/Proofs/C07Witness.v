(* C07: computed witnesses - inside each recorded class the faithful model differs from the specification *)
From Coq Require Import String Ascii.
From Coq Require Import List Arith Bool.
Require Import TT.Model.Str TT.Model.C07TypeParse TT.Model.C07Harvest TT.Model.C07Worklist TT.Model.C07Reach.
Require Import TT.Spec.C07Spec TT.Spec.C07Known.
Import ListNotations.

Definition refutes (p : project) : Prop :=
  in_domain p = true /\
  exists d l, C07Reach.declared o_default p = Some d /\
              reach_from_opt p (command_roots p ++ event_roots p) = Some l /\ same_set_b d l = false.
Ltac witness := split; [vm_compute; reflexivity|]; split; [vm_compute; reflexivity|];
  eexists; eexists; split; [vm_compute; reflexivity|]; split; [vm_compute; reflexivity|]; vm_compute; reflexivity.
(* the witnesses of the two repaired defects now satisfy the property *)
Definition repaired (p : project) : Prop :=
  in_domain p = true /\
  exists d l, C07Reach.declared o_default p = Some d /\
              reach_from_opt p (command_roots p ++ event_roots p) = Some l /\ same_set_b d l = true /\ l <> [].
Ltac positive := split; [vm_compute; reflexivity|];
  eexists; eexists; split; [vm_compute; reflexivity|]; split; [vm_compute; reflexivity|]; split; [vm_compute; reflexivity|discriminate].
Lemma result_map_repaired : repaired w_result_map. Proof. positive. Qed.
Lemma tuple_generic_repaired : repaired w_tuple_generic. Proof. positive. Qed.
Lemma result_alias_repaired : repaired w_result_alias. Proof. positive. Qed.
Lemma event_nested_repaired : repaired w_event_nested. Proof. positive. Qed.
Lemma field_result_refuted : kf_c07_field_result w_field_result = true /\ refutes w_field_result. Proof. witness. Qed.
Lemma inline_mod_refuted : kf_c07_inline_mod w_inline_mod = true /\ refutes w_inline_mod. Proof. witness. Qed.
Lemma payload_expr_refuted : kf_c07_payload_expr w_payload_expr = true /\ refutes w_payload_expr. Proof. witness. Qed.
Lemma odd_name_refuted : kf_c07_odd_name w_odd_name = true /\ refutes w_odd_name. Proof. witness. Qed.
