(* C04 - proofs: the keys reaching invoke in the faithful model against Tauri's. *)
From Coq Require Import String Ascii.
From Coq Require Import List Arith Lia Bool NArith Permutation.
Require Import TT.Model.Str TT.Model.C04Case TT.Model.C04Model TT.Spec.C04TauriCase TT.Proofs.CamelSpike.
Import ListNotations.
Local Open Scope list_scope.

(* ---------- strings ---------- *)
Lemma str_eqb_refl (s : str) : str_eqb s s = true.
Proof. unfold str_eqb. destruct (list_eq_dec ascii_dec s s); congruence. Qed.
Lemma str_eqb_eq (a b : str) : str_eqb a b = true -> a = b.
Proof. unfold str_eqb. destruct (list_eq_dec ascii_dec a b); congruence. Qed.

(* ---------- naming: the faithful rule against the specification ---------- *)
Lemma rule_agrees (r : rule) (s : str) :
  forallb snake_char s = true -> (r = RCamel -> has_letter s = true) ->
  apply_rule r s = Ok (spec_name r s).
Proof.
  intros Hs Hl. destruct r; try reflexivity.
  - (* Pascal *) unfold apply_rule, spec_name, words. rewrite (proj2 (pascal_words s [])). reflexivity.
  - (* Camel *) unfold apply_rule, spec_name. f_equal. apply camel_guard_agrees; auto.
Qed.

Lemma rule_eqb_eq a b : rule_eqb a b = true -> a = b.
Proof. destruct a, b; simpl; congruence. Qed.

(* ---------- kinds: the analysis against the specification, outside the three spelling classes ---------- *)
Lemma has_type_arg_nonempty a : has_type_arg a = true -> args_nonempty a = true.
Proof. destruct a as [[|g l]|]; simpl; congruence. Qed.
Lemma first_is_type_angle a : first_is_type a = true -> args_angle a = true.
Proof. destruct a as [[|[] l]|]; simpl; congruence. Qed.

Definition kinds_agree (t : aty) : Prop :=
  match spec_kind t with
  | KInjected => is_injected t = true /\ channel_of t = false
  | KChannel => is_injected t = true /\ channel_of t = true
  | KValue => is_injected t = false /\ channel_of t = false
  end.

Lemma kinds_ok (t : aty) :
  ty_dom t = true -> ty_bare_window t = false ->
  kinds_agree t.
Proof.
  unfold kinds_agree. destruct t as [pre n args|]; [|simpl; auto].
  intros Hd Hw. unfold ty_dom in Hd. apply andb_true_iff in Hd as [Hsane Hd].
  destruct n.
  - (* AppHandle *) unfold spec_kind. rewrite Hd. unfold pre_root in Hd.
    destruct pre as [|[] [|? ?]]; try discriminate; simpl; auto.
  - (* Window *) unfold spec_kind. rewrite Hd. unfold pre_root in Hd.
    destruct pre as [|[] [|? ?]]; try discriminate; simpl; auto.
    destruct args as [[|g l]|]; simpl in *; try discriminate; auto.
  - (* WebviewWindow *) unfold spec_kind. rewrite Hd. unfold pre_root in Hd.
    destruct pre as [|[] [|? ?]]; try discriminate; simpl; auto.
  - (* State *) apply andb_true_iff in Hd as [Hp Hd]. unfold spec_kind. rewrite Hp. cbn [andb].
    destruct (has_type_arg args) eqn:Ht.
    + pose proof (has_type_arg_nonempty _ Ht) as Hn. unfold pre_root in Hp.
      destruct pre as [|[] [|? ?]]; try discriminate; simpl; auto.
    + cbn [orb] in Hd. apply andb_true_iff in Hd as [Hnil Hnone].
      destruct pre; [|discriminate]. destruct args; [discriminate|]. simpl; auto.
  - (* Manager *) unfold spec_kind. destruct pre as [|[] [|[] [|? ?]]]; simpl in *; try discriminate; auto.
  - (* Request *) apply andb_true_iff in Hd as [Hp Hd]. unfold spec_kind. rewrite Hp. unfold pre_ipc in Hp.
    destruct pre as [|[] [|[] [|? ?]]]; cbn in *; try discriminate; rewrite ?orb_false_r in Hd; rewrite ?Hd; auto.
  - (* Channel *) apply andb_true_iff in Hd as [Hp Hd]. unfold spec_kind. rewrite Hp. cbn [andb].
    destruct (first_is_type args) eqn:Hf.
    + pose proof (first_is_type_angle _ Hf) as Ha. unfold pre_ipc in Hp.
      destruct pre as [|[] [|[] [|? ?]]]; simpl in *; try discriminate; rewrite ?Hf, ?Ha; auto.
    + cbn [orb] in Hd. apply andb_true_iff in Hd as [Hnil Hnone].
      destruct pre; [|discriminate]. destruct args; [discriminate|]. simpl; auto.
  - (* Option *) unfold spec_kind. destruct pre as [|[] [|[] [|? ?]]]; simpl; auto.
  - (* Other *) unfold spec_kind. destruct pre as [|[] [|[] [|? ?]]]; simpl; auto.
Qed.

Lemma opt_agrees t : is_opt t = spec_opt t.
Proof. reflexivity. Qed.

(* ---------- resolution of the generated shapes ---------- *)
Definition entries_of (x : ctx) : list (str * bool) := x_values x ++ chan_members (x_chans x).

Lemma kb_of_tag s l : kb_of (tag s l) = l.
Proof. unfold kb_of, tag. rewrite map_map. erewrite map_ext; [apply map_id|]. intros [k b]; reflexivity. Qed.
Lemma kb_of_app a b : kb_of (a ++ b) = kb_of a ++ kb_of b.
Proof. unfold kb_of. apply map_app. Qed.

Lemma plain_keys (x : ctx) : invoke_keys (gen_plain x) = Some (tag Raw (entries_of x)).
Proof. unfold gen_plain, entries_of. destruct (x_values x ++ chan_members (x_chans x)) as [|e l]; reflexivity. Qed.

Lemma lookup_chan k cs l : In k cs -> lookup k (chan_members cs ++ l) = Some false.
Proof.
  induction cs as [|c cs IH]; intros Hin; [destruct Hin|]. simpl.
  destruct (str_eqb k c) eqn:E; [reflexivity|].
  destruct Hin as [->|Hin]; [rewrite str_eqb_refl in E; discriminate|auto].
Qed.
Lemma mapM_lookup_chan all l : forall cs, incl cs all ->
  mapM (fun k => match lookup k (chan_members all ++ l) with Some b => Some (k, b, Raw) | None => None end) cs
  = Some (tag Raw (chan_members cs)).
Proof.
  induction cs as [|c cs IH]; intros Hi; [reflexivity|].
  cbn [mapM]. rewrite (lookup_chan c all l) by (apply Hi; left; reflexivity).
  rewrite IH by (intros y Hy; apply Hi; right; exact Hy). reflexivity.
Qed.

Lemma zod_keys (x : ctx) :
  invoke_keys (gen_zod x) = Some (tag Validated (x_values x) ++ tag Raw (chan_members (x_chans x))).
Proof.
  unfold gen_zod. destruct (x_values x) as [|v vs]; destruct (x_chans x) as [|c cs].
  - reflexivity.
  - reflexivity.
  - cbn. rewrite app_nil_r. reflexivity.
  - unfold invoke_keys. cbn [g_call g_schema caller_keys g_decl].
    rewrite (mapM_lookup_chan (c :: cs) (v :: vs) (c :: cs)) by apply incl_refl. reflexivity.
Qed.

(* both modes deliver the same (key, omittable) pairs, whatever the command *)
Theorem modes_agree (cf : cfg) (c : cmd) :
  match generate cf Plain c, generate cf Zod c with
  | Ok gp, Ok gz => exists lp lz, invoke_keys gp = Some lp /\ invoke_keys gz = Some lz /\ kb_of lp = kb_of lz
  | Panic, Panic => True
  | _, _ => False
  end.
Proof.
  unfold generate. destruct (analyse cf c) as [|x]; [exact I|].
  exists (tag Raw (entries_of x)), (tag Validated (x_values x) ++ tag Raw (chan_members (x_chans x))).
  split; [apply plain_keys|]. split; [apply zod_keys|].
  rewrite kb_of_app, !kb_of_tag. reflexivity.
Qed.

(* ---------- the analysis of a command in the domain, outside the classes ---------- *)
Lemma mapO_ok {A B} (f : A -> outcome B) (g : A -> B) (l : list A) :
  (forall x, In x l -> f x = Ok (g x)) -> mapO f l = Ok (map g l).
Proof.
  induction l as [|x l IH]; intros H; [reflexivity|]. cbn [mapO map].
  rewrite (H x (or_introl eq_refl)), IH by (intros y Hy; apply H; right; exact Hy). reflexivity.
Qed.

Definition no_spelling_class (c : cmd) : Prop := kf_bare_window c = false /\ kf_pattern c = false.

Lemma existsb_false_In {A} (f : A -> bool) l x : existsb f l = false -> In x l -> f x = false.
Proof. intros H Hin. destruct (f x) eqn:E; [|reflexivity]. rewrite <- H. symmetry. apply existsb_exists. eauto. Qed.

Lemma param_kinds (c : cmd) (p : param) :
  cmd_dom c = true -> no_spelling_class c -> In p (c_params c) -> kinds_agree (p_ty p).
Proof.
  intros Hd [Hw _] Hin. unfold cmd_dom in Hd. apply andb_true_iff in Hd as [_ Hd].
  pose proof (proj1 (forallb_forall _ _) Hd p Hin) as Hp. apply andb_true_iff in Hp as [_ Hp].
  apply kinds_ok; auto.
  apply (existsb_false_In _ _ p Hw Hin).
Qed.
Lemma param_bound (c : cmd) (p : param) :
  no_spelling_class c -> In p (c_params c) -> bound p = true \/ spec_kind (p_ty p) = KInjected.
Proof.
  intros [_ Hp] Hin. pose proof (existsb_false_In _ _ p Hp Hin) as H. cbn beta in H.
  destruct (bound p); [left; reflexivity|right]. cbn [negb andb] in H. unfold named_by_tauri in H.
  destruct (spec_kind (p_ty p)); [reflexivity|discriminate|discriminate].
Qed.
Lemma spec_pname_bound p : bound p = true -> spec_pname p = p_name p.
Proof. unfold bound, spec_pname. destruct (p_pat p); [reflexivity|discriminate|discriminate]. Qed.

(* the key the generator gives to a parameter Tauri names = the key Tauri gives *)
Lemma key_ok (cf : cfg) (c : cmd) (p : param) :
  cmd_dom c = true -> kf_macro_case cf c = false -> kf_underscore_name cf c = false ->
  In p (c_params c) -> named_by_tauri p = true -> bound p = true ->
  param_key cf (p_name p) = Ok (spec_key cf c (p_name p)).
Proof.
  intros Hd Hm Hu Hin Hn Hb. unfold param_key.
  unfold cmd_dom in Hd. apply andb_true_iff in Hd as [_ Hd].
  pose proof (proj1 (forallb_forall _ _) Hd p Hin) as Hp. apply andb_true_iff in Hp as [Hp _].
  unfold snake_name in Hp. apply andb_true_iff in Hp as [Hs _].
  (* same key under the command attribute's case and under the configured one *)
  pose proof (existsb_false_In _ _ p Hm Hin) as H. cbn beta in H. rewrite Hn, (spec_pname_bound p Hb) in H. cbn [andb] in H.
  apply negb_false_iff in H. apply str_eqb_eq in H. rewrite H.
  apply rule_agrees; auto.
  intros Hc. unfold kf_underscore_name in Hu. rewrite Hc in Hu. cbn [rule_eqb andb] in Hu.
  pose proof (existsb_false_In _ _ p Hu Hin) as H'. cbn beta in H'. rewrite Hn in H'. cbn [andb] in H'.
  apply negb_false_iff in H'. exact H'.
Qed.

Definition value_spec (cf : cfg) (c : cmd) (p : param) : str * bool :=
  (spec_key cf c (p_name p), spec_opt (p_ty p)).
Definition chan_spec (cf : cfg) (c : cmd) (p : param) : str := spec_key cf c (p_name p).

Lemma analyse_ok (cf : cfg) (c : cmd) :
  cmd_dom c = true -> no_spelling_class c -> kf_macro_case cf c = false -> kf_underscore_name cf c = false ->
  analyse cf c = Ok {| x_values := map (value_spec cf c) (value_params c);
                       x_chans := map (chan_spec cf c) (chan_params c) |}.
Proof.
  intros Hd Hs Hm Hu. unfold analyse.
  cbn [apply_rule].
  rewrite (mapO_ok (value_entry cf) (value_spec cf c)).
  2:{ intros p Hin. apply filter_In in Hin as [Hin Hv]. apply andb_true_iff in Hv as [Hb Hv]. apply negb_true_iff in Hv.
      pose proof (param_kinds c p Hd Hs Hin) as Hk. unfold kinds_agree in Hk.
      unfold value_entry, value_spec. rewrite (key_ok cf c p Hd Hm Hu Hin); [reflexivity| |exact Hb].
      unfold named_by_tauri. destruct (spec_kind (p_ty p)); [destruct Hk; congruence|reflexivity|reflexivity]. }
  rewrite (mapO_ok (fun p => param_key cf (p_name p)) (chan_spec cf c)).
  2:{ intros p Hin. apply filter_In in Hin as [Hin Hv]. apply andb_true_iff in Hv as [Hb Hv].
      pose proof (param_kinds c p Hd Hs Hin) as Hk. unfold kinds_agree in Hk.
      unfold chan_spec. apply (key_ok cf c p Hd Hm Hu Hin); [|exact Hb].
      unfold named_by_tauri. destruct (spec_kind (p_ty p)); [destruct Hk; congruence|reflexivity|reflexivity]. }
  reflexivity.
Qed.

(* values first, then channels: a permutation of the parameter order *)
Lemma split_perm {A B} (a b : A -> bool) (f g : A -> B) (h : A -> list B) (l : list A) :
  (forall x, In x l ->
     (a x = true /\ b x = false /\ h x = [f x]) \/ (a x = false /\ b x = true /\ h x = [g x]) \/
     (a x = false /\ b x = false /\ h x = [])) ->
  Permutation (map f (filter a l) ++ map g (filter b l)) (flat_map h l).
Proof.
  induction l as [|x l IH]; intros H; [constructor|].
  assert (IH' := IH (fun y Hy => H y (or_intror Hy))). clear IH.
  destruct (H x (or_introl eq_refl)) as [(Ha & Hb & Hh)|[(Ha & Hb & Hh)|(Ha & Hb & Hh)]];
    cbn [filter flat_map]; rewrite Ha, Hb, Hh; cbn [map app].
  - constructor. exact IH'.
  - eapply Permutation_trans; [apply Permutation_sym, Permutation_middle|]. constructor. exact IH'.
  - exact IH'.
Qed.

Lemma entries_perm (cf : cfg) (c : cmd) :
  cmd_dom c = true -> no_spelling_class c ->
  Permutation (map (value_spec cf c) (value_params c) ++ chan_members (map (chan_spec cf c) (chan_params c)))
              (spec_keys cf c).
Proof.
  intros Hd Hs. unfold chan_members. rewrite map_map. unfold value_params, chan_params, spec_keys.
  apply split_perm. intros p Hin. pose proof (param_kinds c p Hd Hs Hin) as Hk. unfold kinds_agree in Hk.
  pose proof (param_bound c p Hs Hin) as Hb.
  unfold spec_entry, value_spec, chan_spec. destruct (spec_kind (p_ty p)); destruct Hk as [Hi Hc]; rewrite Hi, Hc; cbn [negb];
    rewrite ?andb_false_r.
  - right; right; auto.
  - destruct Hb as [Hb|Hb]; [|discriminate]. rewrite Hb, (spec_pname_bound p Hb). cbn [andb]. right; left; auto.
  - destruct Hb as [Hb|Hb]; [|discriminate]. rewrite Hb, (spec_pname_bound p Hb). cbn [andb]. left; auto.
Qed.

Definition outside_classes (cf : cfg) (c : cmd) : Prop := kf_any cf c = false.
Lemma outside_split cf c : kf_any cf c = false ->
  no_spelling_class c /\ kf_macro_case cf c = false /\ kf_underscore_name cf c = false.
Proof.
  unfold kf_any. intros H. repeat (apply orb_false_iff in H; destruct H as [H ?]). unfold no_spelling_class. auto.
Qed.

(* main theorem: (key, omittable) pairs reaching invoke are Tauri's, in both modes *)
Theorem optional_ok_thm (cf : cfg) (m : mode) (c : cmd) :
  cmd_dom c = true -> kf_any cf c = false ->
  exists g l, generate cf m c = Ok g /\ invoke_keys g = Some l /\ Permutation (kb_of l) (spec_keys cf c).
Proof.
  intros Hd Hk. apply outside_split in Hk as (Hs & Hm & Hu).
  unfold generate. rewrite (analyse_ok cf c Hd Hs Hm Hu).
  set (x := {| x_values := _; x_chans := _ |}).
  destruct m.
  - exists (gen_plain x), (tag Raw (entries_of x)). split; [reflexivity|]. split; [apply plain_keys|].
    rewrite kb_of_tag. apply entries_perm; auto.
  - exists (gen_zod x), (tag Validated (x_values x) ++ tag Raw (chan_members (x_chans x))).
    split; [reflexivity|]. split; [apply zod_keys|]. rewrite kb_of_app, !kb_of_tag. apply entries_perm; auto.
Qed.

Theorem keys_ok_thm (cf : cfg) (m : mode) (c : cmd) :
  cmd_dom c = true -> kf_any cf c = false ->
  exists g l, generate cf m c = Ok g /\ invoke_keys g = Some l /\
              Permutation (map (fun e => fst (fst e)) l) (map fst (spec_keys cf c)).
Proof.
  intros Hd Hk. destruct (optional_ok_thm cf m c Hd Hk) as (g & l & Hg & Hi & Hp).
  exists g, l. split; auto. split; auto.
  apply (Permutation_map fst) in Hp. unfold kb_of in Hp. rewrite map_map in Hp. exact Hp.
Qed.

(* Zod mode: exactly the value keys are validated, exactly the channel keys are re-attached raw *)
Lemma filter_flat_values (cf : cfg) (c : cmd) :
  cmd_dom c = true -> no_spelling_class c ->
  map fst (map (value_spec cf c) (value_params c)) = spec_value_keys cf c /\
  map (chan_spec cf c) (chan_params c) = spec_chan_keys cf c.
Proof.
  intros Hd Hs. unfold value_params, chan_params, spec_value_keys, spec_chan_keys.
  assert (H : forall p, In p (c_params c) -> kinds_agree (p_ty p)) by (intros p Hin; apply (param_kinds c p Hd Hs Hin)).
  assert (HB : forall p, In p (c_params c) -> bound p = true \/ spec_kind (p_ty p) = KInjected) by (intros p Hin; apply (param_bound c p Hs Hin)).
  induction (c_params c) as [|p l IH]; [split; reflexivity|].
  destruct IH as [IH1 IH2]; [intros q Hq; apply H; right; exact Hq|intros q Hq; apply HB; right; exact Hq|].
  pose proof (H p (or_introl eq_refl)) as Hk. unfold kinds_agree in Hk.
  pose proof (HB p (or_introl eq_refl)) as Hb.
  cbn [filter flat_map]. destruct (spec_kind (p_ty p)); destruct Hk as [Hi Hc]; rewrite Hi, Hc; cbn [negb];
    rewrite ?andb_false_r; [|destruct Hb as [Hb|Hb]; [rewrite Hb, (spec_pname_bound p Hb)|discriminate]..];
    cbn [andb map app fst value_spec chan_spec]; rewrite ?IH1, ?IH2; split; reflexivity.
Qed.

Theorem zod_split_thm (cf : cfg) (c : cmd) :
  cmd_dom c = true -> kf_any cf c = false ->
  exists g vs cs, generate cf Zod c = Ok g /\ invoke_keys g = Some (tag Validated vs ++ tag Raw cs) /\
                  map fst vs = spec_value_keys cf c /\ map fst cs = spec_chan_keys cf c.
Proof.
  intros Hd Hk. apply outside_split in Hk as (Hs & Hm & Hu).
  unfold generate. rewrite (analyse_ok cf c Hd Hs Hm Hu).
  set (x := {| x_values := _; x_chans := _ |}).
  exists (gen_zod x), (x_values x), (chan_members (x_chans x)). split; [reflexivity|]. split; [apply zod_keys|].
  destruct (filter_flat_values cf c Hd Hs) as [H1 H2]. split; [exact H1|].
  unfold chan_members. rewrite map_map. cbn [fst]. rewrite map_id. exact H2.
Qed.

(* ---------- the boolean oracle accepts what the theorems describe ---------- *)
Lemma kb_eqb_refl x : kb_eqb x x = true.
Proof. unfold kb_eqb. rewrite str_eqb_refl. destruct (snd x); reflexivity. Qed.
Lemma subset_kb_incl a b : incl a b -> subset_kb a b = true.
Proof. intros H. apply forallb_forall. intros x Hx. apply existsb_exists. exists x. split; [apply H, Hx|apply kb_eqb_refl]. Qed.
Lemma perm_same_kb a b : Permutation a b -> same_kb a b = true.
Proof.
  intros H. unfold same_kb. apply andb_true_iff. split; apply subset_kb_incl; intros x Hx.
  - eapply Permutation_in; eauto.
  - eapply Permutation_in; [apply Permutation_sym|]; eauto.
Qed.
Theorem oracle_accepts (cf : cfg) (m : mode) (c : cmd) :
  cmd_dom c = true -> kf_any cf c = false ->
  exists g l, generate cf m c = Ok g /\ invoke_keys g = Some l /\ optional_ok cf c l = true.
Proof.
  intros Hd Hk. destruct (optional_ok_thm cf m c Hd Hk) as (g & l & Hg & Hi & Hp).
  exists g, l. split; auto. split; auto. apply perm_same_kb. exact Hp.
Qed.

(* ---------- witnesses: inside each class the faithful model violates the property ---------- *)
Definition T (s : string) : str := L s.
Definition mkp (n : string) (t : aty) : param := {| p_name := L n; p_ty := t; p_pat := PatIdent |}.
Definition plain_t (n : ntag) : aty := APath [] n None.
Definition cfg_default : cfg := {| default_case := L "camelCase" |}.
Definition bad (cf : cfg) (m : mode) (c : cmd) : bool :=
  match generate cf m c with
  | Panic => true
  | Ok g => match invoke_keys g with Some l => negb (keys_ok cf c l) | None => true end
  end.

Definition w_window : cmd := {| c_name := L "show_it"; c_macro_case := None;
  c_params := [mkp "window" (plain_t NWindow); mkp "user_id" (plain_t NOther)] |}.
Definition w_ipc_channel : cmd := {| c_name := L "start_job"; c_macro_case := None;
  c_params := [mkp "on_event" (APath [SIpc] NChannel (Some [GType])); mkp "job_id" (plain_t NOther)] |}.
Definition w_request : cmd := {| c_name := L "raw_call"; c_macro_case := None;
  c_params := [mkp "request" (APath [] NRequest (Some [GLife])); mkp "user_id" (plain_t NOther)] |}.
Definition w_macro : cmd := {| c_name := L "save_user"; c_macro_case := Some (L "snake_case");
  c_params := [mkp "user_id" (plain_t NOther); mkp "display_name" (APath [] NOption (Some [GType]))] |}.
Definition w_underscore : cmd := {| c_name := L "odd_name"; c_macro_case := None;
  c_params := [mkp "__" (plain_t NOther); mkp "user_id" (plain_t NOther)] |}.

Definition only_class (i : nat) (cf : cfg) (c : cmd) : bool :=
  let l := [kf_bare_window c; kf_macro_case cf c; kf_underscore_name cf c; kf_pattern c] in
  forallb (fun jb => Bool.eqb (snd jb) (Nat.eqb (fst jb) i)) (combine (seq 0 4) l).
Definition good (cf : cfg) (m : mode) (c : cmd) : bool :=
  match generate cf m c with
  | Panic => false
  | Ok g => match invoke_keys g with Some l => optional_ok cf c l | None => false end
  end.

Lemma refuted_bare_window :
  cmd_dom w_window = true /\ only_class 0 cfg_default w_window = true /\
  bad cfg_default Plain w_window = true /\ bad cfg_default Zod w_window = true.
Proof. vm_compute. auto. Qed.
Lemma refuted_macro_case :
  cmd_dom w_macro = true /\ only_class 1 cfg_default w_macro = true /\
  bad cfg_default Plain w_macro = true /\ bad cfg_default Zod w_macro = true.
Proof. vm_compute. auto. Qed.
(* since the call-site guard: no panic, but the key is the name itself where Tauri deserialises the empty string *)
Lemma refuted_underscore_name :
  cmd_dom w_underscore = true /\ only_class 2 cfg_default w_underscore = true /\
  bad cfg_default Plain w_underscore = true /\ bad cfg_default Zod w_underscore = true /\
  spec_keys cfg_default w_underscore = [([], false); (L "userId", false)] /\
  option_map kb_of (match generate cfg_default Plain w_underscore with Ok g => invoke_keys g | Panic => None end)
    = Some [(L "__", false); (L "userId", false)].
Proof. vm_compute. repeat split; reflexivity. Qed.

(* a value parameter bound by a destructuring pattern, and a channel bound by the wildcard, get no key at all *)
Definition w_pattern : cmd := {| c_name := L "move_to"; c_macro_case := None;
  c_params := [ {| p_name := L "point"; p_ty := plain_t NOther; p_pat := PatDestructure |};
                {| p_name := L "w"; p_ty := APath [] NChannel (Some [GType]); p_pat := PatWild |};
                {| p_name := L "w"; p_ty := APath [] NAppHandle None; p_pat := PatWild |};
                mkp "speed" (plain_t NOther) ] |}.
Lemma refuted_pattern :
  cmd_dom w_pattern = true /\ only_class 3 cfg_default w_pattern = true /\
  bad cfg_default Plain w_pattern = true /\ bad cfg_default Zod w_pattern = true /\
  spec_keys cfg_default w_pattern = [(L "point", false); ([], false); (L "speed", false)] /\
  option_map kb_of (match generate cfg_default Plain w_pattern with Ok g => invoke_keys g | Panic => None end)
    = Some [(L "speed", false)].
Proof. vm_compute. repeat split; reflexivity. Qed.

(* repaired: the former witnesses of C04-2 (ipc::Channel) and of the panic half of C04-5 *)
Lemma fixed_ipc_channel :
  cmd_dom w_ipc_channel = true /\ kf_any cfg_default w_ipc_channel = false /\
  good cfg_default Plain w_ipc_channel = true /\ good cfg_default Zod w_ipc_channel = true /\
  spec_keys cfg_default w_ipc_channel = [(L "onEvent", false); (L "jobId", false)].
Proof. vm_compute. repeat split; reflexivity. Qed.

Definition w_request_ipc : cmd := {| c_name := L "raw_call"; c_macro_case := None;
  c_params := [mkp "request" (APath [SIpc] NRequest (Some [GLife])); mkp "user_id" (plain_t NOther)] |}.
Lemma fixed_short_request :
  cmd_dom w_request = true /\ kf_any cfg_default w_request = false /\
  good cfg_default Plain w_request = true /\ good cfg_default Zod w_request = true /\
  spec_keys cfg_default w_request = [(L "userId", false)] /\
  cmd_dom w_request_ipc = true /\ good cfg_default Plain w_request_ipc = true /\ good cfg_default Zod w_request_ipc = true.
Proof. vm_compute. repeat split; reflexivity. Qed.

(* generation never panics, whatever the names (the guard covers the function name and every key) *)
Lemma mapO_total {A B} (f : A -> outcome B) (l : list A) :
  (forall x, exists y, f x = Ok y) -> exists ys, mapO f l = Ok ys.
Proof. intros H. induction l as [|x l [ys IH]]; [eexists; reflexivity|].
  destruct (H x) as [y Hy]. exists (y :: ys). cbn [mapO]. rewrite Hy, IH. reflexivity. Qed.
Lemma apply_rule_total r s : exists k, apply_rule r s = Ok k.
Proof. destruct r; eexists; reflexivity. Qed.
Theorem never_panics (cf : cfg) (m : mode) (c : cmd) : exists g, generate cf m c = Ok g.
Proof.
  unfold generate, analyse. cbn [apply_rule].
  destruct (mapO_total (value_entry cf) (value_params c)) as [vs Hv].
  { intros p. unfold value_entry, param_key. destruct (apply_rule_total (configured cf) (p_name p)) as [k ->]. eexists; reflexivity. }
  destruct (mapO_total (fun p => param_key cf (p_name p)) (chan_params c)) as [cs Hc].
  { intros p. apply apply_rule_total. }
  rewrite Hv, Hc. eexists; reflexivity.
Qed.

(* ---------- project level: every command gets exactly its own keys ---------- *)
Lemma nodup_str_find (f : file) (g : fn_item) :
  nodup_str (map (fun g => c_name (f_cmd g)) f) = true -> In g f ->
  find (fun h => str_eqb (c_name (f_cmd h)) (c_name (f_cmd g))) f = Some g.
Proof.
  induction f as [|h f IH]; intros Hn Hin; [destruct Hin|].
  cbn [map nodup_str] in Hn. apply andb_true_iff in Hn as [Hh Hn]. cbn [find].
  destruct Hin as [->|Hin]; [rewrite str_eqb_refl; reflexivity|].
  destruct (str_eqb (c_name (f_cmd h)) (c_name (f_cmd g))) eqn:E; [|apply IH; auto].
  exfalso. apply str_eqb_eq in E. apply negb_true_iff in Hh.
  assert (existsb (str_eqb (c_name (f_cmd h))) (map (fun g => c_name (f_cmd g)) f) = true) as Hc; [|congruence].
  apply existsb_exists. exists (c_name (f_cmd g)). split; [apply in_map_iff; eauto|]. rewrite E. apply str_eqb_refl.
Qed.

Lemma generate_in_own (cf : cfg) (m : mode) (f : file) (c : cmd) :
  nodup_str (map (fun g => c_name (f_cmd g)) f) = true -> In c (commands_of f) ->
  generate_in cf m f c = generate cf m c.
Proof.
  intros Hn Hin. unfold commands_of in Hin. apply in_map_iff in Hin as (g & <- & Hg). apply filter_In in Hg as [Hg _].
  unfold generate_in, generate, analyse_in, analyse, chan_source, find_fn.
  rewrite (nodup_str_find f g Hn Hg). reflexivity.
Qed.

Theorem project_keys_thm (cf : cfg) (m : mode) (p : project) :
  project_dom p = true ->
  forall c r, In (c, r) (generate_project cf m p) -> kf_any cf c = false ->
  exists g l, r = Ok g /\ invoke_keys g = Some l /\ Permutation (kb_of l) (spec_keys cf c).
Proof.
  intros Hd c r Hin Hk. unfold generate_project in Hin. apply in_flat_map in Hin as (f & Hf & Hin).
  apply in_map_iff in Hin as (c' & Heq & Hc). inversion Heq; subst c' r. clear Heq.
  pose proof (proj1 (forallb_forall _ _) Hd f Hf) as Hfd. unfold file_dom in Hfd. apply andb_true_iff in Hfd as [Hn Hall].
  rewrite (generate_in_own cf m f c Hn Hc).
  assert (cmd_dom c = true) as Hcd.
  { unfold commands_of in Hc. apply in_map_iff in Hc as (g & <- & Hg). apply filter_In in Hg as [Hg _].
    apply (proj1 (forallb_forall _ _) Hall g Hg). }
  destruct (optional_ok_thm cf m c Hcd Hk) as (g & l & Hg & Hi & Hp). exists g, l. auto.
Qed.

(* the commands for which something is generated are exactly the functions carrying the attribute, each once *)
Lemma project_commands (cf : cfg) (m : mode) (p : project) :
  map fst (generate_project cf m p) = flat_map commands_of p.
Proof.
  unfold generate_project. induction p as [|f p IH]; [reflexivity|]. cbn [flat_map]. rewrite map_app, IH, map_map. cbn [fst].
  rewrite map_id. reflexivity.
Qed.

(* a helper whose name extends a command's name, and a command whose name is a suffix of an earlier one, change nothing *)
Definition ex_project : project :=
  [ [ {| f_cmd := {| c_name := L "start_download"; c_macro_case := None;
                     c_params := [mkp "url" (plain_t NOther); mkp "on_progress" (APath [] NChannel (Some [GType]))] |};
         f_is_command := true |};
      {| f_cmd := {| c_name := L "download"; c_macro_case := None;
                     c_params := [mkp "file_id" (plain_t NOther); mkp "dest_path" (APath [] NOption (Some [GType]))] |};
         f_is_command := true |};
      {| f_cmd := {| c_name := L "download_helper"; c_macro_case := None;
                     c_params := [mkp "ch" (APath [] NChannel (Some [GType]))] |}; f_is_command := false |} ];
    [ {| f_cmd := {| c_name := L "download"; c_macro_case := None; c_params := [mkp "x" (APath [] NChannel (Some [GType]))] |};
         f_is_command := false |} ] ].
Lemma ex_project_ok :
  project_dom ex_project = true /\
  map (fun cr => (c_name (fst cr),
                  match snd cr with Ok g => option_map kb_of (invoke_keys g) | Panic => None end))
      (generate_project cfg_default Zod ex_project)
  = [ (L "start_download", Some [(L "url", false); (L "onProgress", false)]);
      (L "download", Some [(L "fileId", false); (L "destPath", true)]) ].
Proof. vm_compute. split; reflexivity. Qed.

(* ---------- histories: after every run, every command has the keys its current state demands ---------- *)
Theorem history_keys_thm (h : list run_step) :
  (forall s, In s h -> project_dom (r_project s) = true) ->
  forall s out, In (s, out) (combine h (run_history h)) ->
  forall c r, In (c, r) out -> kf_any (r_cfg s) c = false ->
  exists g l, r = Ok g /\ invoke_keys g = Some l /\ Permutation (kb_of l) (spec_keys (r_cfg s) c).
Proof.
  intros Hd s out Hin c r Hc Hk. unfold run_history in Hin.
  assert (out = after_run s /\ In s h) as [-> Hs].
  { clear -Hin. induction h as [|a h IH]; [destruct Hin|]. cbn in Hin. destruct Hin as [E|Hin].
    - inversion E; subst. split; [reflexivity|left; reflexivity].
    - destruct (IH Hin) as [-> ?]. split; [reflexivity|right; assumption]. }
  apply (project_keys_thm (r_cfg s) (r_mode s) (r_project s) (Hd s Hs) c r Hc Hk).
Qed.
