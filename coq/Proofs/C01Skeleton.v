(* C01: token-level skeleton of the plain-mode interface template (ts/templates/partials/interface.tera):
   good holes imply that the specification parser accepts the item and the result is well formed. *)
From Coq Require Import String Ascii.
From Coq Require Import List Arith Bool Lia.
Require Import TT.Model.Str TT.Model.Pipeline.
Require Import TT.Spec.TsLex TT.Spec.TsModule TT.Spec.TsObs TT.Spec.C01Wf TT.Model.C01Emit TT.Proofs.C01Holes.
Import ListNotations.
Local Open Scope list_scope.

(* a member line  key[?]: type;  at token level: the key hole lexed to one identifier token, the type
   hole to tokens that the type parser consumes up to the semicolon, whatever follows *)
(* the key token: a bare identifier name or (ts_key filter) a double-quoted literal *)
Inductive gkey := GId (s : str) | GStr (b : str).
Definition gkey_tok (k : gkey) : tk := match k with GId s => KId s | GStr b => KStr DQ b end.
Definition gkey_ast (k : gkey) : key := match k with GId s => KeyId s | GStr b => KeyStr b end.
Definition gkey_ok (k : gkey) : bool := match k with GId s => is_ident_name s | GStr b => str_body_ok DQ b end.
Record gmember := { gm_key : gkey; gm_opt : bool; gm_toks : list tk }.
Definition good_member (m : gmember) : Prop :=
  gkey_ok (gm_key m) = true /\
  forall rest, exists t, ptype (gm_toks m ++ P ";" :: rest) = Some (t, P ";" :: rest) /\ ty_ok t = true.
Definition member_toks (m : gmember) : list tk :=
  gkey_tok (gm_key m) :: (if gm_opt m then [P "?"] else []) ++ P ":" :: gm_toks m ++ [P ";"].
(* what the parser returns for a member: same key, same optional mark, some well-formed type *)
Definition member_matches (m : gmember) (a : key * bool * ty) : Prop :=
  fst (fst a) = gkey_ast (gm_key m) /\ snd (fst a) = gm_opt m /\ ty_ok (snd a) = true.
Definition interface_toks (name : str) (ms : list gmember) : list tk :=
  [KId (L "export"); KId (L "interface"); KId name; P "{"] ++ flat_map member_toks ms ++ [P "}"].

Lemma ident_not_single k c : is_ts_identifier k = true -> is_id_start c = false -> str_eqb k [c] = false.
Proof. intros Hk Hc. unfold str_eqb. destruct (list_eq_dec ascii_dec k [c]) as [->|]; [|reflexivity].
  cbn [is_ts_identifier forallb] in Hk. rewrite Hc in Hk. discriminate. Qed.

Lemma tk_is_ident_punct k (s : string) c : L s = [c] -> is_ts_identifier k = true -> is_id_start c = false -> tk_is s (KId k) = false.
Proof. intros Hs Hk Hc. unfold tk_is. rewrite Hs. apply ident_not_single; assumption. Qed.

Lemma p_item_interface name l :
  p_item (KId (L "export") :: KId (L "interface") :: KId name :: P "{" :: l) =
  match pmembers l with Some ((ms, ix), r6) => Some (IInterface name [] None ms ix, r6) | None => None end.
Proof. reflexivity. Qed.

Lemma p_members_close n rest acc ix :
  p_members ptype (S n) (P "}" :: rest) acc ix = Some ((rev acc, rev ix), rest).
Proof. reflexivity. Qed.
Lemma p_members_semi n rest acc ix :
  p_members ptype (S n) (P ";" :: rest) acc ix = p_members ptype n rest acc ix.
Proof. reflexivity. Qed.

Lemma p_members_member n k (opt : bool) toks t tail acc ix :
  gkey_ok k = true ->
  ptype (toks ++ P ";" :: tail) = Some (t, P ";" :: tail) ->
  p_members ptype (S n) (gkey_tok k :: (if opt then [P "?"] else []) ++ P ":" :: toks ++ P ";" :: tail) acc ix =
  p_members ptype n (P ";" :: tail) ((gkey_ast k, opt, t) :: acc) ix.
Proof. intros Hk Hp. destruct k as [k|b]; cbn [gkey_tok gkey_ast gkey_ok] in *.
  - unfold is_ident_name in Hk. apply andb_true_iff in Hk as [Hk _].
    assert (tk_is "}" (KId k) = false) as H1 by (apply (tk_is_ident_punct k "}" "}"%char); auto).
    assert (tk_is ";" (KId k) = false) as H2 by (apply (tk_is_ident_punct k ";" ";"%char); auto).
    assert (tk_is "," (KId k) = false) as H3 by (apply (tk_is_ident_punct k "," ","%char); auto).
    assert (tk_is "[" (KId k) = false) as H4 by (apply (tk_is_ident_punct k "[" "["%char); auto).
    cbn [p_members]. rewrite H1, H2, H3, H4. cbn [orb].
    destruct opt; cbn [app].
    + change (tk_is "?" (P "?")) with true. cbv iota. change (tk_is ":" (P ":")) with true. cbv iota. rewrite Hp. reflexivity.
    + change (tk_is "?" (P ":")) with false. cbv iota. change (tk_is ":" (P ":")) with true. cbv iota. rewrite Hp. reflexivity.
  - cbn [p_members tk_is orb].
    destruct opt; cbn [app].
    + change (tk_is "?" (P "?")) with true. cbv iota. change (tk_is ":" (P ":")) with true. cbv iota. rewrite Hp. reflexivity.
    + change (tk_is "?" (P ":")) with false. cbv iota. change (tk_is ":" (P ":")) with true. cbv iota. rewrite Hp. reflexivity. Qed.

Lemma p_members_ok : forall ms n acc ix rest,
  Forall good_member ms -> 2 * List.length ms + 1 <= n ->
  exists asts, p_members ptype n (flat_map member_toks ms ++ P "}" :: rest) acc ix = Some ((rev acc ++ asts, rev ix), rest) /\
               Forall2 member_matches ms asts.
Proof. induction ms as [|m ms IH]; intros n acc ix rest HF Hn.
  - exists []. cbn [flat_map app]. destruct n as [|n]; [cbn in Hn; lia|]. rewrite p_members_close, app_nil_r. split; [reflexivity|constructor].
  - inversion HF as [|? ? Hm HF']; subst. destruct Hm as [Hk Hp].
    destruct n as [|[|n]]; [cbn [List.length] in Hn; lia|cbn [List.length] in Hn; lia|].
    cbn [flat_map]. unfold member_toks at 1. rewrite <- !app_assoc. cbn [app]. rewrite <- !app_assoc. cbn [app].
    rewrite <- (app_assoc (gm_toks m)). cbn [app].
    destruct (Hp (flat_map member_toks ms ++ P "}" :: rest)) as [t [Et Ht]].
    rewrite (p_members_member _ _ _ _ t); [|exact Hk|exact Et].
    rewrite p_members_semi. destruct (IH n ((gkey_ast (gm_key m), gm_opt m, t) :: acc) ix rest HF') as [asts [E HM]]; [cbn [List.length] in Hn; lia|].
    rewrite E. exists ((gkey_ast (gm_key m), gm_opt m, t) :: asts). split; [cbn [rev]; rewrite <- app_assoc; reflexivity|].
    constructor; [repeat split; assumption|exact HM]. Qed.

Lemma members_ok_all ms asts : Forall good_member ms -> Forall2 member_matches ms asts -> forallb member_ok asts = true.
Proof. intros HF HM. induction HM as [|m a ms asts [Hk [_ Ht]] HM IH]; [reflexivity|].
  inversion HF as [|? ? [Hg _] HF']; subst. cbn [forallb]. rewrite (IH HF'), andb_true_r. unfold member_ok. rewrite Hk, Ht, andb_true_r.
  destruct (gm_key m); cbn [gkey_ast key_ok gkey_ok] in *; auto. Qed.

Lemma flat_len ms : 2 * List.length ms <= List.length (flat_map member_toks ms).
Proof. induction ms as [|m ms IH]; [cbn; lia|]. cbn [flat_map List.length]. rewrite app_length. unfold member_toks at 1.
  cbn [List.length]. rewrite app_length. cbn [List.length]. rewrite app_length. cbn [List.length]. lia. Qed.

Theorem skeleton_interface name ms rest :
  is_binding_name name = true -> Forall good_member ms ->
  exists asts, p_item (interface_toks name ms ++ rest) = Some (IInterface name [] None asts [], rest) /\
               Forall2 member_matches ms asts /\ item_ok (IInterface name [] None asts []) = true.
Proof. intros Hn HF. unfold interface_toks. cbn [app]. rewrite p_item_interface. unfold pmembers.
  rewrite <- app_assoc. cbn [app].
  destruct (p_members_ok ms (S (List.length (flat_map member_toks ms ++ P "}" :: rest))) [] [] rest HF) as [asts [E HM]].
  { rewrite app_length. pose proof (flat_len ms). cbn [List.length]. lia. }
  rewrite E. exists asts. split; [reflexivity|]. split; [exact HM|].
  cbn [item_ok]. rewrite Hn. cbn [forallb andb]. rewrite (members_ok_all _ _ HF HM). reflexivity. Qed.

(* good members exist: a leaf type name, for any continuation *)
Lemma leaf_parse f n rest : path_ok [n] = true -> str_eqb n (L "typeof") = false ->
  p_type (S f) (KId n :: P ";" :: rest) = Some (TyRef [n] [], P ";" :: rest).
Proof. intros Hn Ht.
  assert (str_eqb n (L "|") = false) as Hb.
  { apply (ident_not_single n "|"%char); [|reflexivity]. cbn [path_ok] in Hn. apply andb_true_iff in Hn as [Hn _].
    unfold is_ref_head in Hn. apply andb_true_iff in Hn as [Hn _]. unfold is_ident_name in Hn. apply andb_true_iff in Hn as [Hn _]. exact Hn. }
  cbn [p_type]. unfold p_type_body. change (tk_is "|" (KId n)) with (str_eqb n (L "|")). rewrite Hb.
  unfold p_postfix. cbn [p_primary]. rewrite Ht. destruct rest as [|[] r]; reflexivity. Qed.

Lemma good_leaf k opt n : gkey_ok k = true -> path_ok [n] = true -> str_eqb n (L "typeof") = false ->
  good_member {| gm_key := k; gm_opt := opt; gm_toks := [KId n] |}.
Proof. intros Hk Hn Ht. split; [exact Hk|].
  intros rest. exists (TyRef [n] []). split; [|cbn [ty_ok forallb]; rewrite Hn; reflexivity].
  cbn [gm_toks app]. unfold ptype. change TYF with (S 63). apply leaf_parse; assumption. Qed.

Definition ex_struct : c_struct :=
  {| cs_name := L "User"; cs_enum := false; cs_serde := [SRenameAll (L "camelCase")];
     cs_fields := [ {| cf_name := L "user_id"; cf_ty := T0 "i32"; cf_serde := []; cf_val := None |};
                    {| cf_name := L "nick"; cf_ty := T1 "Option" (T0 "String"); cf_serde := []; cf_val := None |};
                    {| cf_name := L "tags"; cf_ty := T2 "HashMap" (T0 "String") (T1 "Vec" (T0 "Item")); cf_serde := [SRename (L "allTags")]; cf_val := None |} ] |}.
