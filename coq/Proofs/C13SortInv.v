(* C13: facts about the stable insertion sort of Model/C13Order.v (adapted from the design-phase
   spike Proofs/SortInvSpike.v, which is stated for its own copy of insert/isort). *)
From Coq Require Import List Arith Lia Bool Permutation Sorted.
Require Import TT.Model.Base TT.Model.C13Order.
Import ListNotations.

Section Perm.
Context {A : Type}.
Variable leb : A -> A -> bool.

Lemma insert_perm x l : Permutation (x :: l) (insert leb x l).
Proof. induction l as [|y r IH]; cbn [insert]; auto. destruct (leb x y); auto.
  eapply perm_trans; [apply perm_swap|]. constructor; auto. Qed.
Lemma isort_perm l : Permutation l (isort leb l).
Proof. induction l as [|x r IH]; cbn [isort]; auto. eapply perm_trans; [|apply insert_perm]. constructor; auto. Qed.
End Perm.

Section SortInv.
Context {A : Type}.
Variable leb : A -> A -> bool.
Hypothesis leb_total : forall a b, leb a b = true \/ leb b a = true.
Hypothesis leb_trans : forall a b c, leb a b = true -> leb b c = true -> leb a c = true.
Hypothesis leb_antisym : forall a b, leb a b = true -> leb b a = true -> a = b.

Definition le (a b : A) : Prop := leb a b = true.

Lemma insert_sorted x l : StronglySorted le l -> StronglySorted le (insert leb x l).
Proof. induction 1 as [|y r Hr IH Hy]; cbn [insert]. repeat constructor.
  destruct (leb x y) eqn:E.
  - constructor. constructor; auto. constructor; auto. rewrite Forall_forall in *. intros z Hz. eapply leb_trans; eauto. apply Hy; auto.
  - constructor; auto. assert (Hyx : le y x) by (destruct (leb_total x y); [congruence|auto]).
    rewrite Forall_forall in *. intros z Hz. apply (Permutation_in _ (Permutation_sym (insert_perm leb x r))) in Hz.
    destruct Hz as [<-|Hz]; auto. Qed.
Lemma isort_sorted l : StronglySorted le (isort leb l).
Proof. induction l as [|x r IH]; cbn [isort]. constructor. apply insert_sorted; auto. Qed.

Lemma sorted_perm_unique : forall l l', StronglySorted le l -> StronglySorted le l' -> Permutation l l' -> l = l'.
Proof. induction l as [|x r IH]; intros l' Hs Hs' Hp.
  - apply Permutation_nil in Hp. auto.
  - destruct l' as [|y r']; [apply Permutation_sym, Permutation_nil in Hp; discriminate|].
    inversion Hs as [|? ? Hr Hx]; subst. inversion Hs' as [|? ? Hr' Hy]; subst.
    assert (x = y).
    { assert (Hxin : In x (y :: r')) by (eapply Permutation_in; eauto; left; auto).
      assert (Hyin : In y (x :: r)) by (eapply Permutation_in; [apply Permutation_sym; eauto|left; auto]).
      destruct Hxin as [->|Hxin]; auto. destruct Hyin as [->|Hyin]; auto.
      rewrite Forall_forall in *. apply leb_antisym; [apply Hx | apply Hy]; auto. }
    subst y. f_equal. apply IH; auto. eapply Permutation_cons_inv; eauto. Qed.

Theorem isort_perm_invariant l l' : Permutation l l' -> isort leb l = isort leb l'.
Proof. intros Hp. apply sorted_perm_unique; try apply isort_sorted.
  eapply perm_trans; [apply Permutation_sym, isort_perm|]. eapply perm_trans; [exact Hp|]. apply isort_perm. Qed.
End SortInv.

(* sorting names *)
Lemma sort_names_invariant l l' : Permutation l l' -> sort_names l = sort_names l'.
Proof. unfold sort_names. apply isort_perm_invariant.
  - intros a b. destruct (Nat.leb a b) eqn:E; auto. right. apply Nat.leb_le. apply Nat.leb_gt in E. lia.
  - intros a b c H1 H2. apply Nat.leb_le in H1, H2. apply Nat.leb_le. lia.
  - intros a b H1 H2. apply Nat.leb_le in H1, H2. lia. Qed.

Lemma order_by_perm {A} (key : A -> name) w (l : list A) : Permutation (order_by key w l) l.
Proof. unfold order_by. apply Permutation_sym, isort_perm. Qed.

(* sorting commutes with a map that preserves the comparison *)
Lemma insert_map {A B} (f : A -> B) (la : A -> A -> bool) (lb : B -> B -> bool) :
  (forall a b, lb (f a) (f b) = la a b) ->
  forall x l, insert lb (f x) (map f l) = map f (insert la x l).
Proof. intros H x l. induction l as [|y r IH]; cbn [insert map]; auto.
  rewrite H. destruct (la x y); cbn [map]; auto. rewrite IH. reflexivity. Qed.
Lemma isort_map {A B} (f : A -> B) (la : A -> A -> bool) (lb : B -> B -> bool) :
  (forall a b, lb (f a) (f b) = la a b) ->
  forall l, isort lb (map f l) = map f (isort la l).
Proof. intros H l. induction l as [|x r IH]; cbn [isort map]; auto.
  rewrite IH. apply insert_map; auto. Qed.

(* an element that contributes nothing can be inserted anywhere *)
Lemma flat_map_insert_nil {A B} (h : A -> list B) (leb : A -> A -> bool) x l :
  h x = [] -> flat_map h (insert leb x l) = flat_map h l.
Proof. intros Hx. induction l as [|y r IH]; cbn [insert flat_map]. rewrite Hx; auto.
  destruct (leb x y); cbn [flat_map]. rewrite Hx; auto. rewrite IH; auto. Qed.

(* if at most one element contributes, the order of the list does not matter *)
Lemma flat_map_insert_single {A B} (h : A -> list B) (leb : A -> A -> bool) x l :
  (forall y, In y l -> h y = []) -> flat_map h (insert leb x l) = h x.
Proof. intros Hl. induction l as [|y r IH]; cbn [insert flat_map]. apply app_nil_r.
  destruct (leb x y); cbn [flat_map].
  - rewrite (Hl y) by (left; auto). cbn [app].
    replace (flat_map h r) with (@nil B). apply app_nil_r.
    symmetry. clear IH. induction r as [|z r IH]; cbn [flat_map]; auto. rewrite (Hl z) by (right; left; auto).
    cbn [app]. apply IH. intros w Hw. apply Hl. destruct Hw as [<-|Hw]; [left; auto|right; right; auto].
  - rewrite (Hl y) by (left; auto). cbn [app]. apply IH. intros w Hw. apply Hl. right; auto. Qed.

Lemma flat_map_all_nil {A B} (h : A -> list B) l : (forall y, In y l -> h y = []) -> flat_map h l = [].
Proof. induction l as [|y r IH]; intros Hl; cbn [flat_map]; auto. rewrite (Hl y) by (left; auto). cbn [app].
  apply IH. intros w Hw. apply Hl. right; auto. Qed.

(* count of contributing elements < 2: the flattened result is independent of the sort *)
Lemma flat_map_isort_lt2 {A B} (h : A -> list B) (nz : A -> bool) (leb : A -> A -> bool) :
  (forall a, nz a = false -> h a = []) ->
  forall l, length (filter nz l) < 2 -> flat_map h (isort leb l) = flat_map h l.
Proof. intros Hnz. induction l as [|x r IH]; intros Hc; cbn [isort flat_map]; auto.
  cbn [filter] in Hc. destruct (nz x) eqn:E.
  - cbn [length] in Hc. assert (Hr : forall y, In y r -> h y = []).
    { intros y Hy. apply Hnz. destruct (nz y) eqn:Ey; auto. exfalso.
      assert (In y (filter nz r)) by (apply filter_In; auto).
      destruct (filter nz r); [contradiction|cbn [length] in Hc; lia]. }
    rewrite flat_map_insert_single.
    + rewrite (flat_map_all_nil h r Hr). symmetry. apply app_nil_r.
    + intros y Hy. apply Hr. eapply Permutation_in; [apply Permutation_sym, isort_perm|exact Hy].
  - rewrite flat_map_insert_nil by (apply Hnz; auto). rewrite (Hnz x E). cbn [app]. apply IH. exact Hc. Qed.
