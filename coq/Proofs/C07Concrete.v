(* C07: the abstract pipeline theorem instantiated with the model of Model/C07Reach.v. *)
From Coq Require Import String Ascii.
From Coq Require Import List Arith Lia Bool Permutation.
Require Import TT.Model.Base TT.Model.Str TT.Model.C07TypeParse TT.Model.C07Harvest TT.Model.C07Worklist TT.Model.C07Reach.
Require Import TT.Spec.C07Spec TT.Proofs.WorklistSpike TT.Proofs.C07Proofs.
Import ListNotations.

Local Notation memb_true := (WorklistSpike.memb_true str str_dec).
Local Notation memb_false := (WorklistSpike.memb_false str str_dec).

Lemma smemb_true x l : smemb x l = true <-> In x l. Proof. apply memb_true. Qed.
Lemma smemb_eq_iff y a b : Bool.eqb (smemb y a) (smemb y b) = true -> (In y a <-> In y b).
Proof. intros H. apply eqb_prop in H. rewrite <- !smemb_true. rewrite H. tauto. Qed.

Lemma str_eqb_true a b : str_eqb a b = true -> a = b.
Proof. unfold str_eqb. destruct (list_eq_dec ascii_dec a b); auto; discriminate. Qed.

Lemma defs_incl p d : In d (defs p) -> In d (spec_defs p).
Proof. unfold defs, spec_defs, file_defs. rewrite !in_flat_map. intros (f & Hf & Hd). exists f. split; auto.
  apply in_flat_map in Hd as (it & Hit & Hd). apply in_flat_map. exists it. split; auto.
  destruct it; simpl in *; auto; contradiction. Qed.
Lemma resolvable_in_top p n : resolvable p n = true -> In n (top_names p).
Proof. unfold resolvable, field_strings, lookup. destruct (find _ (defs p)) as [d|] eqn:E; [|discriminate].
  intros _. apply find_some in E as [Hin Hc]. apply andb_true_iff in Hc as [_ Hn]. apply str_eqb_true in Hn. subst n.
  unfold top_names. apply in_map. exact Hin. Qed.
Lemma resolvable_in p n : resolvable p n = true -> In n (def_names p).
Proof. intros H. apply resolvable_in_top in H. unfold top_names in H. apply in_map_iff in H as (d & <- & Hd).
  unfold def_names. apply in_map. apply defs_incl. exact Hd. Qed.
Lemma spec_defined_in p n : spec_defined p n = true -> In n (def_names p).
Proof. unfold spec_defined, spec_lookup. destruct (find _ (spec_defs p)) as [d|] eqn:E; [|discriminate].
  intros _. apply find_some in E as [Hin Hc]. apply andb_true_iff in Hc as [_ Hn]. apply str_eqb_true in Hn. subst n.
  unfold def_names. apply in_map. exact Hin. Qed.
Lemma resolvable_indexed p n : resolvable p n = true -> indexed p n = true.
Proof. unfold resolvable, field_strings, lookup, indexed. destruct (find _ (defs p)) as [d|] eqn:E; [|discriminate].
  intros _. apply find_some in E as [Hin Hc]. apply existsb_exists. exists d. split; auto. Qed.

Lemma target_ext (s : str -> list str) (d1 d2 : str -> bool) roots :
  (forall n, d1 n = d2 n) -> forall x, target s d1 roots x <-> target s d2 roots x.
Proof.
  intros Hd x. split; intros (Hx & r & Hr & Hreach); (split; [congruence|]); exists r; split; auto.
  - apply (reach_transfer str s s d1 d2 (fun _ => True) (fun _ => True)); auto. intros; rewrite <- Hd; auto.
  - apply (reach_transfer str s s d2 d1 (fun _ => True) (fun _ => True)); auto. intros; rewrite Hd; auto.
Qed.

Section Concrete.
Variable o : orders.
Hypothesis Ho : ord_ok o.
Variable p : project.
Hypothesis Hagree : agree_b p = true.

Lemma defined_agree : forall n, resolvable p n = spec_defined p n.
Proof.
  intros n. unfold agree_b in Hagree. apply andb_true_iff in Hagree as [H _]. apply andb_true_iff in H as [H _].
  rewrite forallb_forall in H.
  destruct (resolvable p n) eqn:E1.
  - specialize (H n (resolvable_in _ _ E1)). rewrite E1 in H. apply eqb_prop in H. auto.
  - destruct (spec_defined p n) eqn:E2; auto.
    specialize (H n (spec_defined_in _ _ E2)). rewrite E1, E2 in H. discriminate.
Qed.

Lemma in_dnames y : resolvable p y = true -> In y (dnames p).
Proof. intros H. unfold dnames. apply filter_In. split; auto. apply resolvable_in; auto. Qed.

Lemma concat_fields n y : In y (concat (fields_ts o p n)) <-> In y (concat (raw_fields_ts p n)).
Proof.
  unfold fields_ts, raw_fields_ts. destruct (field_strings p n) as [l|]; [|tauto].
  induction l as [|s l IH]; simpl; [tauto|]. rewrite !in_app_iff, IH. rewrite (proj2 (Ho S_FIELD n (ts_of s)) y). tauto.
Qed.

Lemma mapM_some {A B} (f : A -> option B) : forall l ys, mapM f l = Some ys ->
  (forall y, In y ys -> exists x, In x l /\ f x = Some y) /\ (forall x, In x l -> exists y, In y ys /\ f x = Some y).
Proof. induction l as [|a l IH]; intros ys H; simpl in H.
  - inversion H; subst. split; intros ? [].
  - destruct (f a) as [b|] eqn:Ea; [|discriminate]. destruct (mapM f l) as [bs|] eqn:El; [|discriminate].
    inversion H; subst. destruct (IH bs eq_refl) as [H1 H2]. split.
    + intros y [<-|Hy]; [exists a; split; auto; left; auto|]. destruct (H1 y Hy) as (x & Hx & Hf). exists x. split; auto. right; auto.
    + intros x [<-|Hx]; [exists b; split; auto; left; auto|]. destruct (H2 x Hx) as (y & Hy & Hf). exists y. split; auto. right; auto.
Qed.

Theorem declared_exact decl :
  C07Reach.declared o p = Some decl ->
  NoDup decl /\ forall x, In x decl <-> SpecReach p x.
Proof.
  intros Hd. unfold C07Reach.declared in Hd.
  destruct (discovered o p) as [disc|] eqn:Edisc; [|discriminate].
  destruct (used_types o p disc) as [used|] eqn:Eused; [|discriminate].
  destruct (mapM (event_closure o p disc) (events p)) as [closures|] eqn:Ecl; [|discriminate].
  inversion Hd; subst decl; clear Hd.
  unfold discovered in Edisc. unfold used_types in Eused.
  pose proof Hagree as Ha. unfold agree_b in Ha.
  apply andb_true_iff in Ha as [Ha Ha3]. apply andb_true_iff in Ha as [_ Ha2].
  rewrite forallb_forall in Ha2, Ha3.
  pose proof (pipeline_exact str str_dec
    (fun n => o S_DEPS n (deps_of p n)) (resolvable p) (indexed p) (resolvable_indexed p)
    (o S_ROOTS [] (harvest_roots p)) (fields_ts o p) (o S_USED [] (used_roots p))
    (map (fun e => o S_EVENT e (ts_of e)) (events p)) (o S_STRUCTS [])
    (fun l _ => Ho S_STRUCTS [] l)
    (spec_succ p) (command_roots p) (event_roots p)) as HP.
  unfold declared_abs in HP.
  assert (HAH : forall n y, resolvable p n = true -> resolvable p y = true ->
                In y (o S_DEPS n (deps_of p n)) <-> In y (spec_succ p n)).
  { intros n y Hn Hy. rewrite (proj2 (Ho S_DEPS n (deps_of p n)) y).
    specialize (Ha2 n (in_dnames _ Hn)). rewrite forallb_forall in Ha2. specialize (Ha2 y (in_dnames _ Hy)).
    apply andb_true_iff in Ha2 as [H1 _]. apply smemb_eq_iff; auto. }
  assert (HAT : forall n y, resolvable p n = true -> resolvable p y = true ->
                In y (concat (fields_ts o p n)) <-> In y (spec_succ p n)).
  { intros n y Hn Hy. rewrite concat_fields.
    specialize (Ha2 n (in_dnames _ Hn)). rewrite forallb_forall in Ha2. specialize (Ha2 y (in_dnames _ Hy)).
    apply andb_true_iff in Ha2 as [_ H2]. apply smemb_eq_iff; auto. }
  assert (HRT : forall y, resolvable p y = true -> In y (o S_USED [] (used_roots p)) <-> In y (command_roots p)).
  { intros y Hy. rewrite (proj2 (Ho S_USED [] (used_roots p)) y). specialize (Ha3 y (in_dnames _ Hy)).
    apply andb_true_iff in Ha3 as [H _]. apply andb_true_iff in H as [H _]. apply smemb_eq_iff; auto. }
  assert (HRH : forall y, resolvable p y = true -> In y (command_roots p) \/ In y (event_roots p) ->
                In y (o S_ROOTS [] (harvest_roots p))).
  { intros y Hy Hin. rewrite (proj2 (Ho S_ROOTS [] (harvest_roots p)) y). specialize (Ha3 y (in_dnames _ Hy)).
    apply andb_true_iff in Ha3 as [H _]. apply andb_true_iff in H as [_ H].
    apply smemb_true. destruct (smemb y (harvest_roots p)); auto.
    destruct Hin as [Hin|Hin]; apply smemb_true in Hin; rewrite Hin in H; simpl in H; try discriminate.
    rewrite orb_true_r in H. discriminate. }
  assert (HET : forall y, resolvable p y = true ->
                (exists e, In e (map (fun e => o S_EVENT e (ts_of e)) (events p)) /\ In y e) <-> In y (event_roots p)).
  { intros y Hy. specialize (Ha3 y (in_dnames _ Hy)). apply andb_true_iff in Ha3 as [_ H]. apply eqb_prop in H.
    rewrite <- smemb_true, <- H. rewrite existsb_exists. split.
    - intros (e & He & Hye). apply in_map_iff in He as (e0 & <- & He0). exists e0. split; auto.
      apply smemb_true. apply (proj2 (Ho S_EVENT e0 (ts_of e0)) y). auto.
    - intros (e0 & He0 & Hye). exists (o S_EVENT e0 (ts_of e0)). split; [apply in_map_iff; exists e0; split; auto|].
      apply (proj2 (Ho S_EVENT e0 (ts_of e0)) y). apply smemb_true; auto. }
  (* the closures are what the nested worklist computes from the payload names *)
  assert (HCL : forall x, smemb x disc = true ->
                ((exists cl, In cl closures /\ In x cl) <->
                 exists init, In init (map (fun e => o S_EVENT e (ts_of e)) (events p)) /\
                              target (fun n => concat (fields_ts o p n)) (fun n => smemb n disc) init x)).
  { intros x Hx. destruct (mapM_some _ _ _ Ecl) as [M1 M2]. split.
    - intros (cl & Hcl & Hxcl). destruct (M1 cl Hcl) as (e & He & Hf). unfold event_closure in Hf. cbv zeta in Hf.
      destruct (nested str_dec (fields_ts o p) (fun n => smemb n disc) _ (o S_EVENT e (ts_of e)) [] _) as [out|] eqn:En; [|discriminate]. simpl in Hf. injection Hf as <-.
      apply (proj2 (Ho S_CLOSURE e out) x) in Hxcl.
      destruct (nested_exact str str_dec _ _ _ _ _ En) as [_ Hout].
      exists (o S_EVENT e (ts_of e)). split; [apply in_map_iff; exists e; split; auto|]. apply Hout; auto.
    - intros (init & Hi & Ht). apply in_map_iff in Hi as (e & <- & He). destruct (M2 e He) as (cl & Hcl & Hf).
      exists cl. split; auto. unfold event_closure in Hf. cbv zeta in Hf.
      destruct (nested str_dec (fields_ts o p) (fun n => smemb n disc) _ (o S_EVENT e (ts_of e)) [] _) as [out|] eqn:En; [|discriminate]. simpl in Hf. injection Hf as <-.
      apply (proj2 (Ho S_CLOSURE e out) x).
      destruct (nested_exact str str_dec _ _ _ _ _ En) as [_ Hout]. apply Hout; auto. }
  destruct (HP HAH HAT HRT HRH HET _ _ _ _ closures Edisc Eused HCL) as [Hnd Hin].
  split; [exact Hnd|]. intros x. rewrite Hin. unfold SpecReach. apply target_ext. apply defined_agree.
Qed.
End Concrete.

(* the oracle's list is the specification *)
Theorem reachable_spec_exact p l : reach_from_opt p (command_roots p ++ event_roots p) = Some l ->
  NoDup l /\ forall x, In x l <-> SpecReach p x.
Proof. intros H. unfold reach_from_opt in H. apply (work_exact str str_dec _ _ _ (fun n H => H) _ _ _ H). Qed.

Lemma ord_ok_default : ord_ok o_default.
Proof. intros s k l. unfold o_default, dedup. split; [apply NoDup_nodup|]. intros x. apply nodup_In. Qed.

Theorem declared_permutation : forall o p decl l,
  ord_ok o -> agree_b p = true ->
  C07Reach.declared o p = Some decl -> reach_from_opt p (command_roots p ++ event_roots p) = Some l ->
  Permutation decl l.
Proof.
  intros o p decl l Ho Ha Hd Hl. destruct (declared_exact o Ho p Ha decl Hd) as [H1 H2].
  destruct (reachable_spec_exact p l Hl) as [H3 H4]. apply NoDup_Permutation; auto.
  intros x. rewrite H2, H4. tauto.
Qed.
