(* C08 round 7: the run-time oracle (boolean, extracted) is equivalent to the Prop-level statement of the property on the
   observation it is applied to. *)
From Coq Require Import String Ascii List Arith Lia Bool.
Require Import TT.Model.Str TT.Model.C08Fingerprint TT.Model.C08Run.
Require Import TT.Proofs.C08RunProofs TT.Proofs.C08FpProofs TT.Proofs.C08Examples.
Import ListNotations.

Notation up_to_date_c := (up_to_date project config sched fname tree tree files).

Lemma filter_nil_inv {A} (p : A -> bool) l : filter p l = [] -> forall x, In x l -> p x = false.
Proof. intros H x Hin. destruct (p x) eqn:E; [|reflexivity].
  assert (Hf : In x (filter p l)) by (apply filter_In; auto). rewrite H in Hf. destruct Hf. Qed.

Lemma all_current_up_to_date w st : all_current w st = true -> up_to_date_c w st.
Proof. unfold all_current, stale. cbv zeta. intros H.
  destruct (map fst (filter _ _)) eqn:E1 in H; [|discriminate].
  destruct (map fst (filter _ _)) eqn:E2 in H; [|discriminate].
  apply map_eq_nil in E1. apply map_eq_nil in E2. intros f x Hin.
  pose proof (filter_nil_inv _ _ E1 (f, x) Hin) as H1. pose proof (filter_nil_inv _ _ E2 (f, x) Hin) as H2.
  cbn [fst snd] in H1, H2. destruct (s_out st f) as [y|]; [|discriminate].
  apply negb_false_iff, tree_eqb_spec in H2. subst. reflexivity. Qed.

Theorem all_current_reflects w st : all_current w st = true <-> up_to_date_c w st.
Proof. split; [apply all_current_up_to_date|apply up_to_date_all_current]. Qed.

Lemma all_current_components w st :
  all_current w st = match fst (stale w st), snd (stale w st) with [], [] => true | _, _ => false end.
Proof. unfold all_current. destruct (stale w st) as [[|a l] [|b m]]; reflexivity. Qed.

(* the oracle applied to the missing / different lists of a state says exactly what the property says of that state *)
Theorem c08_ok_reflects w r st :
  c08_ok r (fst (stale w st)) (snd (stale w st)) = true <-> (r = Success \/ r = UpToDate -> up_to_date_c w st).
Proof. destruct r; cbn [c08_ok].
  - split; [intros _ [H|H]; discriminate H|reflexivity].
  - rewrite <- all_current_components, all_current_reflects. split; [intros H _; exact H|intros H; apply H; right; reflexivity].
  - rewrite <- all_current_components, all_current_reflects. split; [intros H _; exact H|intros H; apply H; left; reflexivity].
  - split; [intros _ [H|H]; discriminate H|reflexivity]. Qed.
