(* C10 deepening, Zod side, token level: canonical token printer [pe] for the schema expressions the
   builder denotes and the round trip  p_expr f (pe e ++ rest) = Some (e, rest)  through the expression
   parser of TT.Spec.TsModule (member chains, calls, array and object literals). *)
From Coq Require Import String Ascii.
From Coq Require Import List Arith Lia Bool.
Require Import TT.Model.Str TT.Proofs.StrFacts TT.Spec.TsLex TT.Spec.TsModule TT.Spec.TsObs TT.Proofs.C10ParseTy.
Import ListNotations.
Local Open Scope list_scope.

Definition pprop (pe : ex -> list tk) (p : option key * ex) : list tk :=
  match fst p with Some (KeyId k) => KId k :: kp ":" :: pe (snd p) | _ => [] end.
Fixpoint pe (e : ex) : list tk :=
  match e with
  | EId n => [KId n]
  | EMember r n false => pe r ++ [kp "."; KId n]
  | ECall f [] args => pe f ++ kp "(" :: sepk (kp ",") (map pe args) ++ [kp ")"]
  | EArr l => kp "[" :: sepk (kp ",") (map pe l) ++ [kp "]"]
  | EObj ps => kp "{" :: sepk (kp ",") (map (pprop pe) ps) ++ [kp "}"]
  | _ => []
  end.

(* identifiers the expression parser reads as a plain name *)
Definition idx (n : str) : Prop :=
  is_ts_identifier n = true /\ str_eqb n (L "await") = false /\ str_eqb n (L "new") = false.
Definition chainlike (e : ex) : bool := match e with EId _ | EMember _ _ _ | ECall _ _ _ => true | _ => false end.

Fixpoint nfx (e : ex) : Prop :=
  match e with
  | EId n => idx n
  | EMember r n false => chainlike r = true /\ nfx r /\ is_ts_identifier n = true
  | ECall f [] args => chainlike f = true /\ nfx f /\
                       (fix go (l : list ex) : Prop := match l with [] => True | x :: r => nfx x /\ go r end) args
  | EArr l => (fix go (l : list ex) : Prop := match l with [] => True | x :: r => nfx x /\ go r end) l
  | EObj ps => (fix go (l : list (option key * ex)) : Prop :=
                  match l with [] => True
                  | p :: r => (match fst p with Some (KeyId k) => is_ts_identifier k = true | _ => False end /\ nfx (snd p)) /\ go r end) ps
  | _ => False
  end.
Fixpoint enest (e : ex) : nat :=
  match e with
  | EMember r _ _ => enest r
  | ECall f _ args => Nat.max (enest f) (S (fold_right (fun x acc => Nat.max (enest x) acc) 0 args))
  | EArr l => S (fold_right (fun x acc => Nat.max (enest x) acc) 0 l)
  | EObj ps => S (fold_right (fun p acc => Nat.max (enest (snd p)) acc) 0 ps)
  | _ => 0
  end.
Definition maxe (l : list ex) : nat := fold_right (fun x acc => Nat.max (enest x) acc) 0 l.
Definition maxp (l : list (option key * ex)) : nat := fold_right (fun p acc => Nat.max (enest (snd p)) acc) 0 l.

Lemma nfx_list l : (fix go (l : list ex) : Prop := match l with [] => True | x :: r => nfx x /\ go r end) l <-> Forall nfx l.
Proof. induction l as [|x r IH]; split; intros H; auto. destruct H; constructor; tauto. inversion H; subst; tauto. Qed.
Definition prop_ok (p : option key * ex) : Prop :=
  match fst p with Some (KeyId k) => is_ts_identifier k = true | _ => False end /\ nfx (snd p).
Lemma nfx_props l :
  (fix go (l : list (option key * ex)) : Prop :=
     match l with [] => True
     | p :: r => (match fst p with Some (KeyId k) => is_ts_identifier k = true | _ => False end /\ nfx (snd p)) /\ go r end) l
  <-> Forall prop_ok l.
Proof. induction l as [|x r IH]; split; intros H; auto. destruct H; constructor; [assumption|tauto]. inversion H; subst; split; [assumption|tauto]. Qed.

Section ExInd.
  Variable P : ex -> Prop.
  Hypothesis Hid : forall n, P (EId n).
  Hypothesis Hstr : forall q s, P (EStr q s).
  Hypothesis Hnum : forall s, P (ENum s).
  Hypothesis Htpl : forall s, P (ETpl s).
  Hypothesis Harr : forall l, Forall P l -> P (EArr l).
  Hypothesis Hobj : forall ps, Forall (fun p => P (snd p)) ps -> P (EObj ps).
  Hypothesis Hmem : forall r n oc, P r -> P (EMember r n oc).
  Hypothesis Hcall : forall f targs args, P f -> Forall P args -> P (ECall f targs args).
  Hypothesis Hidx : forall e i, P (EIndex e i).
  Hypothesis Harrow : forall ps b, P (EArrow ps b).
  Hypothesis Hun : forall op e, P (EUnary op e).
  Hypothesis Hspr : forall e, P (ESpread e).
  Fixpoint ex_ind2 (e : ex) : P e :=
    let go := fix go (l : list ex) : Forall P l :=
                match l with [] => Forall_nil _ | x :: r => Forall_cons _ (ex_ind2 x) (go r) end in
    match e with
    | EId n => Hid n | EStr q s => Hstr q s | ENum s => Hnum s | ETpl s => Htpl s
    | EArr l => Harr l (go l)
    | EObj ps => Hobj ps ((fix gp (l : list (option key * ex)) : Forall (fun p => P (snd p)) l :=
                             match l with [] => Forall_nil _ | p :: r => Forall_cons _ (ex_ind2 (snd p)) (gp r) end) ps)
    | EMember r n oc => Hmem r n oc (ex_ind2 r)
    | ECall f targs args => Hcall f targs args (ex_ind2 f) (go args)
    | EIndex e i => Hidx e i | EArrow ps b => Harrow ps b | EUnary op e => Hun op e | ESpread e => Hspr e
    end.
End ExInd.

(* what may follow a complete expression: none of the continuation operators *)
Definition stope (rest : list tk) : Prop :=
  match rest with [] => True
  | c :: _ => tk_is "." c = false /\ tk_is "?." c = false /\ tk_is "(" c = false /\ tk_is "[" c = false /\ tk_is "<" c = false /\ tk_is "=>" c = false end.

Lemma p_ops_stop rec n e rest : stope rest -> p_ops rec n e rest = Some (e, rest).
Proof.
  intros H. destruct n; [reflexivity|]. cbn [p_ops]. destruct rest as [|c r]; [reflexivity|].
  destruct H as [H1 [H2 [H3 [H4 [H5 _]]]]]. rewrite H1, H2, H3, H4, H5. reflexivity.
Qed.

(* suffix operators of a chain *)
Inductive op := OMem (n : str) | OCall (args : list ex).
Definition pop (o : op) : list tk :=
  match o with OMem n => [kp "."; KId n] | OCall args => kp "(" :: sepk (kp ",") (map pe args) ++ [kp ")"] end.
Definition app_op (e : ex) (o : op) : ex := match o with OMem n => EMember e n false | OCall args => ECall e [] args end.

(* first token of an argument: an identifier or an opening bracket / brace *)
Definition arg_head (c : tk) : Prop :=
  forall s : string, (s = ")" \/ s = "]" \/ s = "}" \/ s = "," \/ s = "..." \/ s = "-" \/ s = "!" \/ s = "+")%string -> tk_is s c = false.

Lemma tk_is_kid_punct (s : string) c k : L s = [c] -> is_id_start c = false -> is_ts_identifier k = true -> tk_is s (KId k) = false.
Proof. apply tk_is_id. Qed.
Lemma ident_not_dots k : is_ts_identifier k = true -> tk_is "..." (KId k) = false.
Proof.
  intros H. unfold tk_is. apply str_eqb_neq. intros ->. discriminate.
Qed.
Lemma arg_head_kid k : is_ts_identifier k = true -> arg_head (KId k).
Proof.
  intros H s Hs. destruct Hs as [->|[->|[->|[->|[->|[->|[->| ->]]]]]]];
    try (apply ident_not_dots; exact H);
    first [apply (tk_is_id ")" ")"%char)|apply (tk_is_id "]" "]"%char)|apply (tk_is_id "}" "}"%char)|apply (tk_is_id "," ","%char)
          |apply (tk_is_id "-" "-"%char)|apply (tk_is_id "!" "!"%char)|apply (tk_is_id "+" "+"%char)]; auto.
Qed.
Lemma arg_head_br : arg_head (kp "[") /\ arg_head (kp "{").
Proof. split; intros s Hs; destruct Hs as [->|[->|[->|[->|[->|[->|[->| ->]]]]]]]; reflexivity. Qed.

Lemma pe_head e : nfx e -> exists c r, pe e = c :: r /\ arg_head c /\ tk_is "await" c = false /\ tk_is "new" c = false.
Proof.
  induction e as [n|q s|s|s|l IH|ps IH|r n oc IH|f targs args IHf IHa|e i|ps b|o e|e] using ex_ind2; cbn [nfx]; try tauto.
  - intros [Hi [Ha Hn]]. exists (KId n), []. repeat split; [apply arg_head_kid; exact Hi|exact Ha|exact Hn].
  - intros _. eexists; eexists; split; [reflexivity|]. split; [apply arg_head_br|split; reflexivity].
  - intros _. eexists; eexists; split; [reflexivity|]. split; [apply arg_head_br|split; reflexivity].
  - destruct oc; [tauto|]. intros [_ [Hr _]]. destruct (IH Hr) as [c [r' [E H]]]. cbn [pe]. rewrite E. eexists; eexists; split; [reflexivity|exact H].
  - destruct targs; [|tauto]. intros [_ [Hf _]]. destruct (IHf Hf) as [c [r' [E H]]]. cbn [pe]. rewrite E. eexists; eexists; split; [reflexivity|exact H].
Qed.

Section Round.
  Variable f : nat.
  Let rec := p_expr f.
  Definition arg_ok (a : ex) : Prop :=
    (exists c r, pe a = c :: r /\ arg_head c) /\ forall rest, stope rest -> rec (pe a ++ rest) = Some (a, rest).

  (* argument list up to the closing bracket; separators are skipped by the parser *)
  Lemma p_exlist_ok (close : string) :
    (close = ")" \/ close = "]")%string ->
    forall args, Forall arg_ok args ->
    forall n acc rest, 2 * List.length args < n ->
    p_exlist rec close n (sepk (kp ",") (map pe args) ++ kp close :: rest) acc = Some (rev acc ++ args, rest).
  Proof.
    intros Hclose. induction args as [|a r IH]; intros HF n acc rest Hn.
    - destruct n; [lia|]. cbn [map sepk app p_exlist].
      assert (tk_is close (kp close) = true) as -> by (destruct Hclose as [-> | ->]; reflexivity). rewrite app_nil_r. reflexivity.
    - inversion HF as [|? ? [[c [r0 [Ec Hc]]] Ha] Hr]; subst. destruct n as [|n]; [cbn in Hn; lia|].
      assert (Hstep : forall tail, stope tail ->
                p_exlist rec close (S n) (pe a ++ tail) acc = p_exlist rec close n tail (a :: acc)).
      { intros tail Ht. rewrite Ec. cbn [app p_exlist].
        rewrite (Hc close) by (destruct Hclose as [-> | ->]; tauto). rewrite (Hc ","%string) by tauto. rewrite (Hc "..."%string) by tauto.
        rewrite (app_comm_cons r0 tail c), <- Ec. rewrite Ha by exact Ht. reflexivity. }
      destruct r as [|b r'].
      + cbn [map sepk]. rewrite Hstep by (destruct Hclose as [-> | ->]; cbn; repeat split; reflexivity).
        destruct n; [cbn in Hn; lia|]. cbn [p_exlist].
        assert (tk_is close (kp close) = true) as -> by (destruct Hclose as [-> | ->]; reflexivity). cbn [rev]. reflexivity.
      + change (sepk (kp ",") (map pe (a :: b :: r'))) with (pe a ++ kp "," :: sepk (kp ",") (map pe (b :: r'))).
        rewrite <- app_assoc. rewrite Hstep by (cbn; repeat split; reflexivity).
        destruct n; [cbn in Hn; lia|]. cbn [app p_exlist].
        assert (tk_is close (kp ",") = false) as -> by (destruct Hclose as [-> | ->]; reflexivity).
        assert (tk_is "," (kp ",") = true) as -> by reflexivity.
        rewrite IH; [|exact Hr|cbn [List.length] in *; lia]. cbn [rev]. rewrite <- app_assoc. reflexivity.
  Qed.

  (* object literal entries  k: e, ... } *)
  Lemma p_props_ok : forall ps, Forall (fun p => exists k, fst p = Some (KeyId k) /\ is_ts_identifier k = true /\
                                   forall rest, stope rest -> rec (pe (snd p) ++ rest) = Some (snd p, rest)) ps ->
    forall n acc rest, 2 * List.length ps < n ->
    p_props rec n (sepk (kp ",") (map (pprop pe) ps) ++ kp "}" :: rest) acc = Some (rev acc ++ ps, rest).
  Proof.
    induction ps as [|p r IH]; intros HF n acc rest Hn.
    - destruct n; [lia|]. cbn [map sepk app p_props]. assert (tk_is "}" (kp "}") = true) as -> by reflexivity. rewrite app_nil_r. reflexivity.
    - inversion HF as [|? ? [k [Ek [Hk Hp]]] Hr]; subst. destruct n as [|n]; [cbn in Hn; lia|]. destruct p as [ko e]. cbn [fst snd] in *. subst ko.
      assert (Hstep : forall tail, stope tail ->
                p_props rec (S n) (pprop pe (Some (KeyId k), e) ++ tail) acc = p_props rec n tail ((Some (KeyId k), e) :: acc)).
      { intros tail Ht. unfold pprop. cbn [fst snd app p_props].
        rewrite (tk_is_id "}" "}"%char) by auto. rewrite (tk_is_id "," ","%char) by auto. rewrite ident_not_dots by exact Hk.
        assert (tk_is ":" (kp ":") = true) as -> by reflexivity. rewrite Hp by exact Ht. reflexivity. }
      destruct r as [|q r'].
      + cbn [map sepk]. rewrite Hstep by (cbn; repeat split; reflexivity).
        destruct n; [cbn in Hn; lia|]. cbn [p_props]. assert (tk_is "}" (kp "}") = true) as -> by reflexivity. reflexivity.
      + change (sepk (kp ",") (map (pprop pe) ((Some (KeyId k), e) :: q :: r')))
          with (pprop pe (Some (KeyId k), e) ++ kp "," :: sepk (kp ",") (map (pprop pe) (q :: r'))).
        rewrite <- app_assoc. rewrite Hstep by (cbn; repeat split; reflexivity).
        destruct n; [cbn in Hn; lia|]. cbn [app p_props].
        assert (tk_is "}" (kp ",") = false) as -> by reflexivity. assert (tk_is "," (kp ",") = true) as -> by reflexivity.
        rewrite IH; [|exact Hr|cbn [List.length] in *; lia]. cbn [rev]. rewrite <- app_assoc. reflexivity.
  Qed.

  Definition op_ok (o : op) : Prop :=
    match o with OMem n => is_ts_identifier n = true | OCall args => Forall arg_ok args end.

  Lemma sepk_len_ne (s : tk) (l : list (list tk)) : Forall (fun x => x <> []) l -> 2 * List.length l <= S (List.length (sepk s l)).
  Proof.
    induction 1 as [|x r Hx Hr IH]; [cbn; lia|]. destruct r as [|y r'].
    - cbn [sepk List.length]. destruct x; [congruence|cbn; lia].
    - change (sepk s (x :: y :: r')) with (x ++ s :: sepk s (y :: r')). rewrite app_length. cbn [List.length] in *.
      destruct x; [congruence|cbn [List.length]; lia].
  Qed.
  Lemma args_len args : Forall arg_ok args -> 2 * List.length args <= S (List.length (sepk (kp ",") (map pe args))).
  Proof.
    intros H. rewrite <- (map_length pe args). apply sepk_len_ne. apply Forall_forall. intros x Hx. apply in_map_iff in Hx.
    destruct Hx as [a [<- Ha]]. rewrite Forall_forall in H. destruct (H a Ha) as [[c [r [E _]]] _]. rewrite E. discriminate.
  Qed.

  Lemma pop_len o : 1 <= List.length (pop o).
  Proof. destruct o; cbn; lia. Qed.

  (* the suffix operators of a chain *)
  Lemma p_ops_ok : forall ops n e0 rest, Forall op_ok ops -> List.length (flat_map pop ops ++ rest) < n -> stope rest ->
    p_ops rec n e0 (flat_map pop ops ++ rest) = Some (fold_left app_op ops e0, rest).
  Proof.
    induction ops as [|o r IH]; intros n e0 rest HF Hn Hs.
    - cbn [flat_map app fold_left]. apply p_ops_stop. exact Hs.
    - inversion HF as [|? ? Ho Hr]; subst. destruct n as [|n]; [lia|]. cbn [flat_map fold_left] in Hn |- *. rewrite <- app_assoc in Hn |- *.
      destruct o as [m|args]; cbn [pop app p_ops app_op] in *.
      + assert (tk_is "." (kp ".") = true) as -> by reflexivity. apply IH; [exact Hr|cbn [List.length] in Hn; lia|exact Hs].
      + assert (tk_is "." (kp "(") = false) as -> by reflexivity. assert (tk_is "?." (kp "(") = false) as -> by reflexivity.
        assert (tk_is "(" (kp "(") = true) as -> by reflexivity.
        rewrite <- app_assoc. cbn [app].
        rewrite (p_exlist_ok ")") with (acc := []); [|left; reflexivity|exact Ho|].
        * cbn [rev app]. apply IH; [exact Hr| |exact Hs]. cbn [List.length] in Hn. rewrite !app_length in Hn. cbn [List.length] in Hn. rewrite app_length in *. lia.
        * rewrite !app_length. cbn [List.length]. pose proof (args_len args Ho). lia.
  Qed.
End Round.

(* ---- the round trip ---- *)
Definition RTE (e : ex) : Prop :=
  nfx e ->
  (forall f rest, enest e < f -> stope rest -> p_expr f (pe e ++ rest) = Some (e, rest)) /\
  (chainlike e = true -> forall f rest sfx, enest e <= f -> Forall (op_ok f) sfx -> stope rest ->
     p_expr (S f) (pe e ++ flat_map pop sfx ++ rest) = Some (fold_left app_op sfx e, rest)).

Lemma A_of_B e :
  (forall f rest sfx, enest e <= f -> Forall (op_ok f) sfx -> stope rest ->
     p_expr (S f) (pe e ++ flat_map pop sfx ++ rest) = Some (fold_left app_op sfx e, rest)) ->
  forall f rest, enest e < f -> stope rest -> p_expr f (pe e ++ rest) = Some (e, rest).
Proof. intros H f rest Hf Hs. destruct f as [|f]; [lia|]. apply (H f rest []); [lia|constructor|exact Hs]. Qed.

Lemma maxe_le l x : In x l -> enest x <= maxe l.
Proof. induction l as [|a r IH]; cbn; [tauto|]. intros [->|H]; [lia|]. specialize (IH H). unfold maxe in IH. lia. Qed.
Lemma maxp_le l p : In p l -> enest (snd p) <= maxp l.
Proof. induction l as [|a r IH]; cbn; [tauto|]. intros [->|H]; [lia|]. specialize (IH H). unfold maxp in IH. lia. Qed.

Lemma args_ok f args : Forall RTE args -> Forall nfx args -> maxe args < f -> Forall (arg_ok f) args.
Proof.
  intros HR Hn Hm. rewrite Forall_forall in *. intros a Ha. split.
  - destruct (pe_head a (Hn a Ha)) as [c [r [E [H _]]]]. exists c, r. tauto.
  - intros rest Hs. apply (HR a Ha (Hn a Ha)); [|exact Hs]. pose proof (maxe_le args a Ha). lia.
Qed.

Lemma stope_ops sfx rest : stope rest -> match flat_map pop sfx ++ rest with [] => True | c :: _ => tk_is "=>" c = false end.
Proof.
  intros Hs. destruct sfx as [|o r]; cbn [flat_map app].
  - destruct rest; [exact I|]. cbn in Hs. tauto.
  - destruct o; reflexivity.
Qed.

Lemma round_trip_ex : forall e, RTE e.
Proof.
  induction e as [n|q s|s|s|l IH|ps IH|r n oc IH|f0 targs args IHf IHa|e i|ps b|o e|e] using ex_ind2; unfold RTE; cbn [nfx]; try tauto.
  - (* identifier *)
    intros [Hi [Haw Hnw]].
    assert (HB : forall f rest sfx, enest (EId n) <= f -> Forall (op_ok f) sfx -> stope rest ->
                 p_expr (S f) (pe (EId n) ++ flat_map pop sfx ++ rest) = Some (fold_left app_op sfx (EId n), rest)).
    { intros f rest sfx _ Hops Hs. cbn [pe app p_expr]. unfold p_expr_body.
      rewrite (tk_is_id "-" "-"%char), (tk_is_id "!" "!"%char), (tk_is_id "+" "+"%char) by auto. cbn [orb].
      assert (tk_is "await" (KId n) = false) as -> by exact Haw. assert (tk_is "new" (KId n) = false) as -> by exact Hnw. cbn [orb].
      cbn [p_atom]. pose proof (stope_ops sfx rest Hs) as Hh.
      destruct (flat_map pop sfx ++ rest) as [|c r1] eqn:E.
      - destruct sfx as [|o ?]; [|destruct o; discriminate]. cbn in E. subst rest. reflexivity.
      - rewrite Hh. rewrite <- E. apply p_ops_ok; [exact Hops|lia|exact Hs]. }
    split; [apply A_of_B; exact HB|intros _; exact HB].
  - (* array literal *)
    intros Hl. apply nfx_list in Hl. split; [|discriminate].
    intros f rest Hf Hs. destruct f as [|f]; [lia|]. cbn [enest] in Hf. fold (maxe l) in Hf.
    cbn [pe app p_expr]. unfold p_expr_body.
    assert (tk_is "-" (kp "[") || tk_is "!" (kp "[") || tk_is "+" (kp "[") = false) as -> by reflexivity.
    assert (tk_is "await" (kp "[") || tk_is "new" (kp "[") = false) as -> by reflexivity.
    unfold kp at 1. cbn [p_atom]. assert (tk_is "[" (KP (L "[")) = true) as -> by reflexivity.
    rewrite <- app_assoc. cbn [app].
    rewrite (p_exlist_ok f "]") with (acc := []); [|right; reflexivity|apply args_ok; [exact IH|exact Hl|lia]|].
    + cbn [rev app]. rewrite p_ops_stop by exact Hs. reflexivity.
    + rewrite app_length. cbn [List.length]. pose proof (args_len f l (args_ok f l IH Hl ltac:(lia))). lia.
  - (* object literal *)
    intros Hps. apply nfx_props in Hps. split; [|discriminate].
    intros f rest Hf Hs. destruct f as [|f]; [lia|]. cbn [enest] in Hf. fold (maxp ps) in Hf.
    cbn [pe app p_expr]. unfold p_expr_body.
    assert (tk_is "-" (kp "{") || tk_is "!" (kp "{") || tk_is "+" (kp "{") = false) as -> by reflexivity.
    assert (tk_is "await" (kp "{") || tk_is "new" (kp "{") = false) as -> by reflexivity.
    unfold kp at 1. cbn [p_atom]. assert (tk_is "[" (KP (L "{")) = false) as -> by reflexivity.
    assert (tk_is "{" (KP (L "{")) = true) as -> by reflexivity.
    rewrite <- app_assoc. cbn [app].
    assert (HF : Forall (fun p => exists k, fst p = Some (KeyId k) /\ is_ts_identifier k = true /\
                         forall rest, stope rest -> p_expr f (pe (snd p) ++ rest) = Some (snd p, rest)) ps).
    { rewrite Forall_forall in *. intros p Hp. destruct (Hps p Hp) as [Hk Hn]. destruct (fst p) as [[k| |]|] eqn:Ek; try tauto.
      exists k. repeat split; [exact Hk|]. intros rest0 Hs0. apply (IH p Hp Hn); [|exact Hs0]. pose proof (maxp_le ps p Hp). lia. }
    rewrite (p_props_ok f ps HF) with (acc := []).
    + cbn [rev app]. rewrite p_ops_stop by exact Hs. reflexivity.
    + rewrite app_length. cbn [List.length].
      assert (2 * List.length ps <= S (List.length (sepk (kp ",") (map (pprop pe) ps)))); [|lia].
      rewrite <- (map_length (pprop pe) ps). apply sepk_len_ne. apply Forall_forall. intros x Hx. apply in_map_iff in Hx.
      destruct Hx as [p [<- Hp]]. rewrite Forall_forall in HF. destruct (HF p Hp) as [k [Ek _]]. unfold pprop. rewrite Ek. discriminate.
  - (* member *)
    destruct oc; [tauto|]. intros [Hc [Hr Hn]]. destruct (IH Hr) as [_ IHB]. specialize (IHB Hc).
    assert (HB : forall f rest sfx, enest (EMember r n false) <= f -> Forall (op_ok f) sfx -> stope rest ->
                 p_expr (S f) (pe (EMember r n false) ++ flat_map pop sfx ++ rest) = Some (fold_left app_op sfx (EMember r n false), rest)).
    { intros f rest sfx Hf Hops Hs. cbn [pe enest] in *. rewrite <- app_assoc.
      change ([kp "."; KId n] ++ flat_map pop sfx ++ rest) with (flat_map pop (OMem n :: sfx) ++ rest).
      rewrite IHB; [reflexivity|exact Hf|constructor; [exact Hn|exact Hops]|exact Hs]. }
    split; [apply A_of_B; exact HB|intros _; exact HB].
  - (* call *)
    destruct targs; [|tauto]. intros [Hc [Hf0 Hargs]]. apply nfx_list in Hargs. destruct (IHf Hf0) as [_ IHB]. specialize (IHB Hc).
    assert (HB : forall f rest sfx, enest (ECall f0 [] args) <= f -> Forall (op_ok f) sfx -> stope rest ->
                 p_expr (S f) (pe (ECall f0 [] args) ++ flat_map pop sfx ++ rest) = Some (fold_left app_op sfx (ECall f0 [] args), rest)).
    { intros f rest sfx Hf Hops Hs. cbn [pe]. cbn [enest] in Hf. fold (maxe args) in Hf. rewrite <- app_assoc.
      replace ((kp "(" :: sepk (kp ",") (map pe args) ++ [kp ")"]) ++ flat_map pop sfx ++ rest) with (flat_map pop (OCall args :: sfx) ++ rest)
        by (cbn [flat_map pop]; rewrite <- app_assoc; reflexivity).
      rewrite IHB; [reflexivity|lia|constructor; [|exact Hops]|exact Hs].
      cbn [op_ok]. apply args_ok; [exact IHa|exact Hargs|lia]. }
    split; [apply A_of_B; exact HB|intros _; exact HB].
Qed.

Theorem pexpr_pe e : nfx e -> enest e < 64 -> pexpr (pe e) = Some (e, []).
Proof.
  intros Hn He. destruct (round_trip_ex e Hn) as [H _]. specialize (H 64 [] He I). rewrite app_nil_r in H. exact H.
Qed.
