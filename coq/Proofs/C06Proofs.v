(* C06: the faithful model of Model/C06Serde.v against serde's rules (Spec/C06SerdeRule.v) *)
From Coq Require Import String Ascii.
From Coq Require Import List Arith Lia Bool NArith.
Require Import TT.Model.Str TT.Model.C06Serde TT.Spec.C06SerdeRule TT.Proofs.StrFacts TT.Proofs.C06Strings.
Import ListNotations.
Local Open Scope char_scope.
Local Open Scope list_scope.

Lemma existsb_map {A B} (f : B -> bool) (g : A -> B) l : existsb f (map g l) = existsb (fun x => f (g x)) l.
Proof. induction l as [|x l IH]; [reflexivity|]. cbn [map existsb]. rewrite IH. reflexivity. Qed.
Lemma existsb_false_in {A} (f : A -> bool) l : existsb f l = false -> forall x, In x l -> f x = false.
Proof. intros H x Hin. destruct (f x) eqn:E; [|reflexivity].
  assert (existsb f l = true) as H2 by (apply existsb_exists; exists x; auto). congruence. Qed.
Lemma existsb_concat {A} (f : A -> bool) ls : existsb f (concat ls) = existsb (existsb f) ls.
Proof. induction ls as [|l ls IH]; [reflexivity|]. cbn [concat existsb]. rewrite existsb_app, IH. reflexivity. Qed.

(* ------------------------------------------------------------------ printed texts *)
Lemma meta_tokens_ne m : meta_tokens m <> [].
Proof. destruct m as [v| |n [v|]]; discriminate. Qed.
Lemma cmeta_tokens_ne m : cmeta_tokens m <> [].
Proof. destruct m; discriminate. Qed.
Lemma group_string_join g : group_string g = join SEP (map meta_text g).
Proof. unfold group_string, meta_text. apply tok_string_sep. exact meta_tokens_ne. Qed.
Definition cmeta_text (m : cmeta) : str := tok_string (cmeta_tokens m).
Lemma cgroup_string_join g : cgroup_string g = join SEP (map cmeta_text g).
Proof. unfold cgroup_string, cmeta_text. apply tok_string_sep. exact cmeta_tokens_ne. Qed.

Definition KV (v : str) : str := " " :: "=" :: " " :: lit v.
Lemma meta_text_rename v : meta_text (MRename v) = L "rename" ++ KV v.
Proof. unfold meta_text, tok_string, KV. cbn [meta_tokens tok_go tok_text app]. rewrite app_nil_r. reflexivity. Qed.
Lemma cmeta_text_rename_all v : cmeta_text (CRenameAll v) = L "rename_all" ++ KV v.
Proof. unfold cmeta_text, tok_string, KV. cbn [cmeta_tokens tok_go tok_text app]. rewrite app_nil_r. reflexivity. Qed.
Lemma cmeta_text_flag n : cmeta_text (CFlag n) = n.
Proof. unfold cmeta_text, tok_string. cbn [cmeta_tokens tok_go tok_text app]. apply app_nil_r. Qed.
Lemma meta_text_skip : meta_text MSkip = L "skip".
Proof. reflexivity. Qed.

(* ------------------------------------------------------------------ the value scan after a key *)
Lemma esc_id v : needs_escape v = false -> esc v = v.
Proof. induction v as [|c v IH]; intros H; [reflexivity|]. cbn [needs_escape existsb] in H.
  apply orb_false_iff in H as [Hc H]. apply orb_false_iff in Hc as [Hq Hb].
  cbn [esc]. rewrite Hq, Hb. f_equal. apply IH. exact H. Qed.
Lemma no_quote v : needs_escape v = false -> forallb (fun b => negb (Ascii.eqb b """")) v = true.
Proof. induction v as [|c v IH]; intros H; [reflexivity|]. cbn [needs_escape existsb] in H.
  apply orb_false_iff in H as [Hc H]. apply orb_false_iff in Hc as [Hq Hb].
  cbn [forallb]. rewrite Hq. cbn [negb andb]. apply IH. exact H. Qed.

Lemma trim_start_sp c r : ws_len (c :: r) = 0 -> trim_start (" " :: c :: r) = c :: r.
Proof. intros H. unfold trim_start. cbn [List.length trim_start_go].
  change (ws_len (" " :: c :: r)) with 1. cbn [skipn]. rewrite H. reflexivity. Qed.

Lemma kv_not_all v Q : starts (L "_all") (trim_start (KV v ++ Q)) = false.
Proof. unfold KV. cbn [app]. rewrite trim_start_sp by reflexivity. reflexivity. Qed.
Lemma kv_value v Q : needs_escape v = false ->
  match after_char "=" (KV v ++ Q) with Some (_, r) => quoted_value (trim_start r) | None => None end = Some v.
Proof. intros Hv. unfold KV, lit. cbn [app after_char]. change (Ascii.eqb " " "=") with false. change (Ascii.eqb "=" "=") with true.
  cbv iota. rewrite trim_start_sp by reflexivity. unfold quoted_value. cbn [after_char]. change (Ascii.eqb """" """") with true. cbv iota.
  rewrite (esc_id v Hv). rewrite <- app_assoc. cbn [app]. rewrite (after_char_app """" v Q (no_quote v Hv)). reflexivity. Qed.

(* ------------------------------------------------------------------ parse_rename on one attribute *)
Lemma parse_rename_go_S f tokens : parse_rename_go (S f) tokens =
  match after_first (L "rename") tokens with
  | None => None
  | Some ar => if starts (L "_all") (trim_start ar) then parse_rename_go f (skipn 4 (trim_start ar))
               else match after_char "=" ar with Some (_, r) => quoted_value (trim_start r) | None => None end
  end.
Proof. unfold after_first. cbn [parse_rename_go]. destruct (find_sub (L "rename") tokens) as [[a b]|]; reflexivity. Qed.

Definition is_rename (m : meta) : bool := match m with MRename _ => true | _ => false end.
Definition rename_free (m : meta) : Prop := is_rename m = false -> contains (L "rename") (meta_text m) = false.

Lemma first_rename_split g :
  (first_rename g = None /\ forall m, In m g -> is_rename m = false) \/
  (exists pre v post, g = pre ++ MRename v :: post /\ first_rename g = Some v /\ forall m, In m pre -> is_rename m = false).
Proof. induction g as [|m g IH]; [left; split; [reflexivity|intros m []]|].
  destruct m as [v| |n o].
  - right. exists [], v, g. split; [reflexivity|]. split; [reflexivity|intros m []].
  - destruct IH as [[Hn Ha]|[pre [v [post [-> [Hf Ha]]]]]].
    + left. split; [exact Hn|]. intros m [<-|Hin]; [reflexivity|auto].
    + right. exists (MSkip :: pre), v, post. split; [reflexivity|]. split; [exact Hf|]. intros m [<-|Hin]; [reflexivity|auto].
  - destruct IH as [[Hn Ha]|[pre [v [post [-> [Hf Ha]]]]]].
    + left. split; [exact Hn|]. intros m [<-|Hin]; [reflexivity|auto].
    + right. exists (MOther n o :: pre), v, post. split; [reflexivity|]. split; [exact Hf|]. intros m [<-|Hin]; [reflexivity|auto]. Qed.

Lemma pat_rename_ok : nospace (L "rename") = true /\ L "rename" <> [] /\ contains (L "rename") [","] = false.
Proof. split; [reflexivity|]. split; [discriminate|reflexivity]. Qed.

Lemma parse_rename_group g :
  (forall m, In m g -> rename_free m) ->
  (forall v, first_rename g = Some v -> needs_escape v = false) ->
  parse_rename (group_string g) = first_rename g.
Proof. intros Hfree Hesc. destruct pat_rename_ok as (Hn & Hp & Hc).
  unfold parse_rename. rewrite parse_rename_go_S, group_string_join.
  destruct (first_rename_split g) as [[Hnone Ha]|[pre [v [post [-> [Hf Ha]]]]]].
  - rewrite (after_first_join_none _ Hn Hp Hc).
    + symmetry. exact Hnone.
    + intros x Hx. apply in_map_iff in Hx as [m [<- Hm]]. apply (Hfree m Hm). apply Ha. exact Hm.
  - rewrite map_app. cbn [map]. rewrite (after_first_join _ Hn Hp Hc (map meta_text pre) _ (KV v) (map meta_text post)).
    + rewrite kv_not_all, kv_value; [symmetry; exact Hf|]. apply Hesc. exact Hf.
    + intros x Hx. apply in_map_iff in Hx as [m [<- Hm]]. apply (Hfree m); [apply in_or_app; left; exact Hm|]. apply Ha. exact Hm.
    + apply meta_text_rename. Qed.

(* ------------------------------------------------------------------ the skip test on one attribute *)
Lemma pat_skip_ok : nospace (L "skip") = true /\ L "skip" <> [] /\ contains (L "skip") [","] = false.
Proof. split; [reflexivity|]. split; [discriminate|reflexivity]. Qed.
Lemma pat_skipser_ok : nospace (L "skip_serializing") = true /\ L "skip_serializing" <> [] /\ contains (L "skip_serializing") [","] = false.
Proof. split; [reflexivity|]. split; [discriminate|reflexivity]. Qed.

Definition skip_in (m : meta) : bool := contains (L "skip") (meta_text m).
Definition skipser_in (m : meta) : bool := contains (L "skip_serializing") (meta_text m).
Lemma field_skip_group g : field_skip (group_string g) = existsb skip_in g && negb (existsb skipser_in g).
Proof. unfold field_skip. rewrite group_string_join.
  destruct pat_skip_ok as (Hn & Hp & Hc). destruct pat_skipser_ok as (Hn2 & Hp2 & Hc2).
  rewrite (contains_join _ Hn Hp Hc), (contains_join _ Hn2 Hp2 Hc2), !existsb_map. reflexivity. Qed.

Lemma field_skip_seen g : group_skip_seen g = true -> field_skip (group_string g) = true.
Proof. unfold group_skip_seen. intros H. apply andb_true_iff in H as [Hs Hn]. rewrite field_skip_group.
  fold skipser_in in Hn. rewrite Hn, andb_true_r. apply existsb_exists in Hs as [m [Hin Hm]].
  apply existsb_exists. exists m. split; [exact Hin|]. destruct m; try discriminate. reflexivity. Qed.
Lemma field_skip_no_skip g : existsb is_mskip g = false -> field_skip (group_string g) = group_skip_text g.
Proof. intros H. rewrite field_skip_group. unfold group_skip_text. rewrite H. reflexivity. Qed.

(* ------------------------------------------------------------------ folds over the attributes of an item *)
Fixpoint last_rename (gs : list str) (rn : option str) : option str :=
  match gs with [] => rn | ts :: r => last_rename r (match parse_rename ts with Some v => Some v | None => rn end) end.
Lemma field_attrs_go_spec gs rn sk : field_attrs_go gs rn sk = (last_rename gs rn, sk || existsb field_skip gs).
Proof. revert rn sk. induction gs as [|ts gs IH]; intros rn sk; cbn [field_attrs_go last_rename existsb].
  - rewrite orb_false_r. reflexivity.
  - rewrite IH. f_equal. destruct (field_skip ts), sk; reflexivity. Qed.

Lemma first_rename_app a b : first_rename (a ++ b) = match first_rename a with Some v => Some v | None => first_rename b end.
Proof. induction a as [|m a IH]; [reflexivity|]. destruct m; cbn [app first_rename]; auto. Qed.
Lemma count_renames_app a b : count_renames (a ++ b) = count_renames a + count_renames b.
Proof. unfold count_renames. rewrite filter_app, app_length. reflexivity. Qed.
Lemma first_rename_count g v : first_rename g = Some v -> 1 <= count_renames g.
Proof. induction g as [|m g IH]; [discriminate|]. destruct m; cbn [first_rename]; intros H.
  - unfold count_renames. cbn [filter List.length]. lia.
  - apply IH in H. unfold count_renames in *. cbn [filter]. exact H.
  - apply IH in H. unfold count_renames in *. cbn [filter]. exact H. Qed.

Lemma last_rename_groups gs rn :
  (forall g, In g gs -> parse_rename (group_string g) = first_rename g) ->
  count_renames (concat gs) <= 1 ->
  last_rename (map group_string gs) rn = match first_rename (concat gs) with Some v => Some v | None => rn end.
Proof. revert rn. induction gs as [|g gs IH]; intros rn Hp Hc; [reflexivity|].
  cbn [map last_rename concat]. rewrite (Hp g (or_introl eq_refl)).
  cbn [concat] in Hc. rewrite count_renames_app in Hc.
  rewrite IH; [|intros g' Hg'; apply Hp; right; exact Hg'|lia].
  rewrite first_rename_app. destruct (first_rename g) as [v|] eqn:Eg; [|reflexivity].
  destruct (first_rename (concat gs)) as [w|] eqn:Ew; [|reflexivity].
  apply first_rename_count in Eg. apply first_rename_count in Ew. lia. Qed.

(* per-item facts delivered by the domain and the complement of the classes *)
Definition item_rename_free (it : item) : Prop := forall m, In m (concat (it_attrs it)) -> rename_free m.

Lemma item_rename it :
  item_rename_free it ->
  (forall v, rename_of it = Some v -> needs_escape v = false) ->
  count_renames (concat (it_attrs it)) <= 1 ->
  fst (field_attrs (map group_string (it_attrs it))) = rename_of it.
Proof. intros Hfree Hesc Hc. unfold field_attrs. rewrite field_attrs_go_spec. cbn [fst].
  rewrite last_rename_groups; [unfold rename_of; destruct (first_rename (concat (it_attrs it))); reflexivity| |exact Hc].
  intros g Hg. apply parse_rename_group.
  - intros m Hm. apply Hfree. apply in_concat. exists g. split; assumption.
  - intros v Hv. destruct (first_rename_split g) as [[Hn _]|[pre [w [post [Hgeq [Hf _]]]]]]; [congruence|].
    (* the first rename of g is the only rename of the item *)
    assert (rename_of it = Some v) as Hr.
    { unfold rename_of. apply in_split in Hg as [l1 [l2 Hl]]. rewrite Hl in *. rewrite concat_app. cbn [concat].
      rewrite first_rename_app. destruct (first_rename (concat l1)) as [u|] eqn:E1.
      - exfalso. rewrite concat_app in Hc. cbn [concat] in Hc. rewrite !count_renames_app in Hc.
        apply first_rename_count in E1. apply first_rename_count in Hv. lia.
      - rewrite first_rename_app, Hv. reflexivity. }
    apply Hesc. exact Hr. Qed.

Lemma item_skip_true it : has_skip it = true -> existsb group_skip_seen (it_attrs it) = true ->
  snd (field_attrs (map group_string (it_attrs it))) = true.
Proof. intros _ H. unfold field_attrs. rewrite field_attrs_go_spec. cbn [snd orb]. rewrite existsb_map.
  apply existsb_exists in H as [g [Hin Hg]]. apply existsb_exists. exists g. split; [exact Hin|]. apply field_skip_seen. exact Hg. Qed.
Lemma item_skip_false it : has_skip it = false -> existsb group_skip_text (it_attrs it) = false ->
  snd (field_attrs (map group_string (it_attrs it))) = false.
Proof. intros Hs H. unfold field_attrs. rewrite field_attrs_go_spec. cbn [snd orb]. rewrite existsb_map.
  destruct (existsb (fun x => field_skip (group_string x)) (it_attrs it)) eqn:E; [|reflexivity].
  apply existsb_exists in E as [g [Hin Hg]]. unfold has_skip in Hs.
  rewrite (field_skip_no_skip g (existsb_false_in _ _ Hs g Hin)) in Hg.
  rewrite (existsb_false_in _ _ H g Hin) in Hg. discriminate. Qed.

(* ------------------------------------------------------------------ container attributes *)
Lemma pat_ra_ok : nospace (L "rename_all") = true /\ L "rename_all" <> [] /\ contains (L "rename_all") [","] = false.
Proof. split; [reflexivity|]. split; [discriminate|reflexivity]. Qed.

Lemma rule_value_plain v r : rule_of_str v = Some r -> needs_escape v = false.
Proof. unfold rule_of_str. intros H.
  repeat match type of H with
  | (if str_eqb v ?s then _ else _) = _ => destruct (str_eqb v s) eqn:E; [apply str_eqb_eq in E; subst v; reflexivity|clear E]
  end. discriminate. Qed.

Definition is_ra (m : cmeta) : bool := match m with CRenameAll _ => true | _ => false end.
Lemma first_ra_split g :
  (first_rename_all g = None /\ forall m, In m g -> is_ra m = false) \/
  (exists pre v post, g = pre ++ CRenameAll v :: post /\ first_rename_all g = Some v /\ forall m, In m pre -> is_ra m = false).
Proof. induction g as [|m g IH]; [left; split; [reflexivity|intros m []]|].
  destruct m as [v|n].
  - right. exists [], v, g. split; [reflexivity|]. split; [reflexivity|intros m []].
  - destruct IH as [[Hn Ha]|[pre [v [post [-> [Hf Ha]]]]]].
    + left. split; [exact Hn|]. intros m [<-|Hin]; [reflexivity|auto].
    + right. exists (CFlag n :: pre), v, post. split; [reflexivity|]. split; [exact Hf|]. intros m [<-|Hin]; [reflexivity|auto]. Qed.

Lemma parse_rename_all_group g : forallb cmeta_ok g = true ->
  parse_rename_all (cgroup_string g) = match first_rename_all g with Some v => rule_of_str v | None => None end.
Proof. intros Hok. destruct pat_ra_ok as (Hn & Hp & Hc).
  assert (forall m, In m g -> is_ra m = false -> contains (L "rename_all") (cmeta_text m) = false) as Hfree.
  { intros m Hm Hr. pose proof (proj1 (forallb_forall _ _) Hok m Hm) as H. destruct m as [v|n]; [discriminate|].
    cbn [cmeta_ok] in H. apply andb_true_iff in H as [_ H]. apply negb_true_iff in H. rewrite cmeta_text_flag. exact H. }
  unfold parse_rename_all. fold (after_first (L "rename_all") (cgroup_string g)).
  assert (forall s, match find_sub (L "rename_all") s with
                    | Some (_, r0) => match after_char "=" r0 with
                                      | Some (_, r) => match quoted_value (trim_start r) with Some v => rule_of_str v | None => None end
                                      | None => None end
                    | None => None end =
                    match after_first (L "rename_all") s with
                    | Some r0 => match after_char "=" r0 with
                                 | Some (_, r) => match quoted_value (trim_start r) with Some v => rule_of_str v | None => None end
                                 | None => None end
                    | None => None end) as Hrw.
  { intros s. unfold after_first. destruct (find_sub (L "rename_all") s) as [[a b]|]; reflexivity. }
  rewrite Hrw. clear Hrw. rewrite cgroup_string_join.
  destruct (first_ra_split g) as [[Hnone Ha]|[pre [v [post [-> [Hf Ha]]]]]].
  - rewrite (after_first_join_none _ Hn Hp Hc).
    + rewrite Hnone. reflexivity.
    + intros x Hx. apply in_map_iff in Hx as [m [<- Hm]]. apply (Hfree m Hm). apply Ha. exact Hm.
  - rewrite map_app. cbn [map]. rewrite (after_first_join _ Hn Hp Hc (map cmeta_text pre) _ (KV v) (map cmeta_text post)).
    + rewrite Hf.
      pose proof (proj1 (forallb_forall _ _) Hok (CRenameAll v) (in_or_app _ _ _ (or_intror (in_eq _ _)))) as Hv.
      cbn [cmeta_ok] in Hv. destruct (rule_of_str v) as [r|] eqn:Er; [|discriminate].
      pose proof (kv_value v (tail_text (map cmeta_text post)) (rule_value_plain v r Er)) as Hkv.
      destruct (after_char "=" (KV v ++ tail_text (map cmeta_text post))) as [[x y]|]; [|discriminate].
      rewrite Hkv. exact Er.
    + intros x Hx. apply in_map_iff in Hx as [m [<- Hm]]. apply (Hfree m); [apply in_or_app; left; exact Hm|]. apply Ha. exact Hm.
    + apply cmeta_text_rename_all. Qed.

Lemma first_ra_app a b : first_rename_all (a ++ b) = match first_rename_all a with Some v => Some v | None => first_rename_all b end.
Proof. induction a as [|m a IH]; [reflexivity|]. destruct m; cbn [app first_rename_all]; auto. Qed.
Lemma count_ra_app a b : count_rename_all (a ++ b) = count_rename_all a + count_rename_all b.
Proof. unfold count_rename_all. rewrite filter_app, app_length. reflexivity. Qed.
Lemma first_ra_count g v : first_rename_all g = Some v -> 1 <= count_rename_all g.
Proof. induction g as [|m g IH]; [discriminate|]. destruct m; cbn [first_rename_all]; intros H.
  - unfold count_rename_all. cbn [filter List.length]. lia.
  - apply IH in H. unfold count_rename_all in *. cbn [filter]. exact H. Qed.
Lemma first_ra_valid g v : forallb cmeta_ok g = true -> first_rename_all g = Some v -> exists r, rule_of_str v = Some r.
Proof. induction g as [|m g IH]; [discriminate|]. cbn [forallb]. intros H Hf. apply andb_true_iff in H as [Hm H].
  destruct m as [w|n]; cbn [first_rename_all] in Hf.
  - injection Hf as <-. cbn [cmeta_ok] in Hm. destruct (rule_of_str w) as [r|]; [exists r; reflexivity|discriminate].
  - apply IH; assumption. Qed.

Lemma struct_attrs_groups gs ra : forallb cmeta_ok (concat gs) = true -> count_rename_all (concat gs) <= 1 ->
  struct_attrs_go (map cgroup_string gs) ra =
  match first_rename_all (concat gs) with Some v => rule_of_str v | None => ra end.
Proof. revert ra. induction gs as [|g gs IH]; intros ra Hok Hc; [reflexivity|].
  cbn [concat] in Hok, Hc. rewrite forallb_app in Hok. apply andb_true_iff in Hok as [Hg Hgs]. rewrite count_ra_app in Hc.
  cbn [map struct_attrs_go concat]. rewrite (parse_rename_all_group g Hg). rewrite IH; [|exact Hgs|lia].
  rewrite first_ra_app. destruct (first_rename_all g) as [v|] eqn:Eg.
  - destruct (first_rename_all (concat gs)) as [w|] eqn:Ew.
    + apply first_ra_count in Eg. apply first_ra_count in Ew. lia.
    + destruct (first_ra_valid g v Hg Eg) as [r Hr]. rewrite Hr. reflexivity.
  - reflexivity. Qed.

Lemma struct_attrs_container c : in_domain c = true ->
  struct_attrs (map cgroup_string (c_attrs c)) = container_rule c.
Proof. unfold in_domain. intros H. apply andb_true_iff in H as [H _]. apply andb_true_iff in H as [H Hc]. apply andb_true_iff in H as [_ Hok].
  unfold struct_attrs, container_rule. rewrite struct_attrs_groups; [|exact Hok|apply Nat.leb_le; exact Hc].
  destruct (first_rename_all (concat (c_attrs c))); reflexivity. Qed.

(* ------------------------------------------------------------------ the renaming rules *)
Definition all_bytes : list ascii := map (fun n => ascii_of_nat n) (seq 0 256).
Lemma all_bytes_complete c : In c all_bytes.
Proof. unfold all_bytes. apply in_map_iff. exists (nat_of_ascii c). split; [apply ascii_nat_embedding|].
  apply in_seq. pose proof (nat_ascii_bounded c). lia. Qed.

Definition char_facts (c : ascii) : bool :=
  implb (ident_char c) (negb (is_cont c) && negb (is_cont (upper c)) && negb (is_cont (lower c)))
  && Ascii.eqb (upper (lower c)) (upper c)
  && implb (negb (is_upper c)) (Ascii.eqb (lower c) c)
  && implb (negb (is_lower c)) (Ascii.eqb (upper c) c)
  && implb (ident_start c && negb (is_us c)) (Ascii.eqb (lower (upper c)) (lower c))
  && implb (is_us c) (negb (is_upper c) && negb (is_lower c)).
Lemma char_facts_all : forallb char_facts all_bytes = true.
Proof. vm_compute. reflexivity. Qed.
Lemma char_fact c : char_facts c = true.
Proof. exact (proj1 (forallb_forall _ _) char_facts_all c (all_bytes_complete c)). Qed.

Lemma cf_cont c : ident_char c = true -> is_cont c = false /\ is_cont (upper c) = false /\ is_cont (lower c) = false.
Proof. intros H. pose proof (char_fact c) as F. unfold char_facts in F. rewrite H in F.
  repeat (apply andb_true_iff in F as [F ?]). cbn [implb] in F. repeat (apply andb_true_iff in F as [F ?]).
  repeat split; apply negb_true_iff; assumption. Qed.
Lemma cf_upper_lower c : upper (lower c) = upper c.
Proof. pose proof (char_fact c) as F. unfold char_facts in F. repeat (apply andb_true_iff in F as [F ?]).
  apply Ascii.eqb_eq. assumption. Qed.
Lemma cf_lower_id c : is_upper c = false -> lower c = c.
Proof. intros H. unfold lower. rewrite H. reflexivity. Qed.
Lemma cf_upper_id c : is_lower c = false -> upper c = c.
Proof. intros H. unfold upper. rewrite H. reflexivity. Qed.
Lemma cf_lower_upper c : ident_start c = true -> is_us c = false -> lower (upper c) = lower c.
Proof. intros H1 H2. pose proof (char_fact c) as F. unfold char_facts in F. rewrite H1, H2 in F.
  repeat (apply andb_true_iff in F as [F ?]). apply Ascii.eqb_eq. assumption. Qed.
Lemma cf_us c : is_us c = true -> is_upper c = false /\ is_lower c = false.
Proof. intros H. pose proof (char_fact c) as F. unfold char_facts in F. rewrite H in F.
  repeat (apply andb_true_iff in F as [F ?]). cbn [implb] in *.
  match goal with X : negb (is_upper c) && negb (is_lower c) = true |- _ => apply andb_true_iff in X as [X1 X2] end.
  split; apply negb_true_iff; assumption. Qed.

(* pascal of an identifier holds identifier characters or their upper-case forms only *)
Lemma pascal_head cap s : forallb ident_char s = true ->
  match pascal cap s with [] => True | c :: rest => match rest with r :: _ => is_cont r = false | [] => True end end.
Proof. revert cap. induction s as [|c s IH]; intros cap H; [exact I|].
  cbn [forallb] in H. apply andb_true_iff in H as [Hc H]. cbn [pascal].
  destruct (is_us c); [apply IH; exact H|].
  assert (forall cap', match pascal cap' s with [] => True | r :: _ => is_cont r = false end) as Hnext.
  { clear IH cap. induction s as [|d s IHs]; intros cap'; [exact I|]. cbn [forallb] in H. apply andb_true_iff in H as [Hd H].
    cbn [pascal]. destruct (is_us d); [apply IHs; exact H|]. destruct cap'; [apply (cf_cont d Hd)|apply (cf_cont d Hd)]. }
  destruct cap; exact (Hnext false). Qed.

Lemma pascal_nonempty cap s : existsb (fun c => negb (is_us c)) s = true -> pascal cap s <> [].
Proof. revert cap. induction s as [|c s IH]; intros cap H; [discriminate|]. cbn [existsb] in H. cbn [pascal].
  destruct (is_us c); [apply IH; exact H|]. destruct cap; discriminate. Qed.

Lemma ident_ok_parts s : ident_ok s = true ->
  forallb ident_char s = true /\ existsb (fun c => negb (is_us c)) s = true /\
  match s with c :: _ => ident_start c = true | [] => False end.
Proof. unfold ident_ok. intros H. apply andb_true_iff in H as [H H3]. apply andb_true_iff in H as [H1 H2].
  split; [exact H2|]. split; [exact H3|]. destruct s; [discriminate|exact H1]. Qed.

Lemma apply_field_ok r s : ident_ok s = true -> apply_naming_convention r s = field_rule r s.
Proof. intros H. destruct (ident_ok_parts s H) as (Hc & Hn & _). destruct r; try reflexivity.
  cbn [apply_naming_convention field_rule]. pose proof (pascal_nonempty true s Hn) as Hne.
  unfold camel_guard, lower_first. destruct (pascal true s) as [|c rest]; [congruence|reflexivity]. Qed.

(* compute_variant_name's rule part is serde's variant rule *)
Lemma apply_variant_ok r s : (match r with RCamel => variant_camel s | _ => apply_to_variant r s end) = variant_rule r s.
Proof. destruct r; reflexivity. Qed.

(* where the field rule and the variant rule agree *)
Lemma map_lower_id s : has_upper s = false -> map lower s = s.
Proof. induction s as [|c s IH]; intros H; [reflexivity|]. cbn [has_upper existsb] in H. apply orb_false_iff in H as [Hc H].
  cbn [map]. rewrite (cf_lower_id c Hc). f_equal. apply IH. exact H. Qed.
Lemma snake_go_id first s : has_upper s = false -> snake_go first s = s.
Proof. revert first. induction s as [|c s IH]; intros first H; [reflexivity|]. cbn [has_upper existsb] in H. apply orb_false_iff in H as [Hc H].
  cbn [snake_go]. rewrite Hc, andb_false_r. cbn [app]. rewrite (cf_lower_id c Hc). f_equal. apply IH. exact H. Qed.
Lemma snake_tail s : has_upper (tl s) = false -> snake s = match s with [] => [] | c :: r => lower c :: r end.
Proof. destruct s as [|c r]; [reflexivity|]. cbn [tl]. intros H. unfold snake. cbn [snake_go negb andb app]. rewrite (snake_go_id false r H). reflexivity. Qed.
Lemma map_upper_lower_first s : map upper (match s with [] => [] | c :: r => lower c :: r end) = map upper s.
Proof. destruct s as [|c r]; [reflexivity|]. cbn [map]. rewrite cf_upper_lower. reflexivity. Qed.
Lemma pascal_false_id s : has_us s = false -> pascal false s = s.
Proof. induction s as [|c s IH]; intros H; [reflexivity|]. cbn [has_us existsb] in H. apply orb_false_iff in H as [Hc H].
  cbn [pascal]. rewrite Hc. f_equal. apply IH. exact H. Qed.

Lemma rules_agree r s : ident_ok s = true -> rules_differ r s = false -> field_rule r s = variant_rule r s.
Proof. intros Hok H. destruct (ident_ok_parts s Hok) as (_ & _ & Hst). destruct r; cbn [rules_differ] in H; cbn [field_rule variant_rule].
  - symmetry. apply map_lower_id. exact H.
  - reflexivity.
  - apply orb_false_iff in H as [Hus Hlow]. destruct s as [|c s]; [reflexivity|]. cbn [has_us existsb] in Hus.
    apply orb_false_iff in Hus as [Hc Hus]. cbn [pascal]. rewrite Hc. rewrite (cf_upper_id c Hlow), (pascal_false_id s Hus). reflexivity.
  - destruct s as [|c s]; [reflexivity|]. cbn [has_us existsb] in H. apply orb_false_iff in H as [Hc Hus].
    cbn [pascal]. rewrite Hc. rewrite (pascal_false_id s Hus). cbn [lower_first]. rewrite (cf_lower_upper c Hst Hc). reflexivity.
  - symmetry. apply snake_go_id. exact H.
  - rewrite (snake_tail s H), map_upper_lower_first. reflexivity.
  - unfold snake. rewrite (snake_go_id true s H). reflexivity.
  - rewrite (snake_tail s H), map_upper_lower_first. reflexivity. Qed.
