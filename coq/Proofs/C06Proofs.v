(* C06: the faithful model of Model/C06Serde.v against serde's rules (Spec/C06SerdeRule.v) *)
From Coq Require Import String Ascii.
From Coq Require Import List Arith Lia Bool NArith.
Require Import TT.Model.Str TT.Model.C06Serde TT.Spec.C06SerdeRule TT.Proofs.StrFacts TT.Proofs.C06Strings.
Import ListNotations.
Local Open Scope char_scope.
Local Open Scope list_scope.

Lemma existsb_map {A B} (f : B -> bool) (g : A -> B) l : existsb f (map g l) = existsb (fun x => f (g x)) l.
Proof. induction l as [|x l IH]; [reflexivity|]. cbn [map existsb]. rewrite IH. reflexivity. Qed.
Lemma existsb_false_in {A} (f : A -> bool) l : existsb f l = false -> forall x, In x l -> f x = false.
Proof. intros H x Hin. destruct (f x) eqn:E; [|reflexivity].
  assert (existsb f l = true) as H2 by (apply existsb_exists; exists x; auto). congruence. Qed.
Lemma existsb_concat {A} (f : A -> bool) ls : existsb f (concat ls) = existsb (existsb f) ls.
Proof. induction ls as [|l ls IH]; [reflexivity|]. cbn [concat existsb]. rewrite existsb_app, IH. reflexivity. Qed.

(* ------------------------------------------------------------------ printed texts *)
Lemma meta_tokens_ne m : meta_tokens m <> [].
Proof. destruct m as [v|l| |n [v|]]; discriminate. Qed.
Lemma cmeta_tokens_ne m : cmeta_tokens m <> [].
Proof. destruct m; discriminate. Qed.
Lemma group_string_join g : group_string g = join SEP (map meta_text g).
Proof. unfold group_string, meta_text. apply tok_string_sep. exact meta_tokens_ne. Qed.
Lemma cgroup_string_join g : cgroup_string g = join SEP (map cmeta_text g).
Proof. unfold cgroup_string, cmeta_text. apply tok_string_sep. exact cmeta_tokens_ne. Qed.

(* what follows a rename key: pre = <lit v> post, with pre the empty string or an opening
   parenthesis and a side name *)
Definition KVt (pre v post : str) : str := pre ++ " " :: "=" :: " " :: lit v ++ post.
Definition sd_text (p : bool * str) : str := tok_string (sd_tokens p).
Lemma sd_tokens_ne p : sd_tokens p <> [].
Proof. discriminate. Qed.
Lemma join_cons_tail (x : str) l : join SEP (x :: l) = x ++ tail_text l.
Proof. destruct l; [cbn [join tail_text]; rewrite app_nil_r; reflexivity|reflexivity]. Qed.
Definition ptail (r : list (bool * str)) : str := tail_text (map sd_text r) ++ [")"].
Lemma sd_text_eq b v : sd_text (b, v) = side_name b ++ " " :: "=" :: " " :: lit v.
Proof. unfold sd_text, tok_string. cbn [sd_tokens tok_go tok_text fst snd app]. rewrite app_nil_r. reflexivity. Qed.
Lemma paren_text_cons b v r : paren_text ((b, v) :: r) = "(" :: side_name b ++ " " :: "=" :: " " :: lit v ++ ptail r.
Proof. unfold paren_text, ptail. rewrite (tok_string_sep sd_tokens _ sd_tokens_ne). cbn [map]. rewrite join_cons_tail.
  fold (sd_text (b, v)). rewrite sd_text_eq. f_equal. rewrite <- !app_assoc. cbn [app]. rewrite <- ?app_assoc. reflexivity. Qed.

Definition ppre (b : bool) : str := " " :: "(" :: side_name b.
Lemma meta_text_rename v : meta_text (MRename v) = L "rename" ++ KVt [] v [].
Proof. unfold meta_text, tok_string, KVt. cbn [meta_tokens tok_go tok_text app]. rewrite !app_nil_r. reflexivity. Qed.
Lemma meta_text_renameP b v r : meta_text (MRenameP ((b, v) :: r)) = L "rename" ++ KVt (ppre b) v (ptail r).
Proof. unfold meta_text, tok_string, KVt, ppre. cbn [meta_tokens tok_go tok_text]. rewrite paren_text_cons.
  repeat (rewrite <- app_assoc || rewrite app_nil_r || (progress (cbn [app]))). reflexivity. Qed.
Lemma cmeta_text_rename_all v : cmeta_text (CRenameAll v) = L "rename_all" ++ KVt [] v [].
Proof. unfold cmeta_text, tok_string, KVt. cbn [cmeta_tokens tok_go tok_text app]. rewrite !app_nil_r. reflexivity. Qed.
Lemma cmeta_text_rename_allP b v r : cmeta_text (CRenameAllP ((b, v) :: r)) = L "rename_all" ++ KVt (ppre b) v (ptail r).
Proof. unfold cmeta_text, tok_string, KVt, ppre. cbn [cmeta_tokens tok_go tok_text]. rewrite paren_text_cons.
  repeat (rewrite <- app_assoc || rewrite app_nil_r || (progress (cbn [app]))). reflexivity. Qed.
Lemma meta_text_skip : meta_text MSkip = L "skip".
Proof. reflexivity. Qed.

(* ------------------------------------------------------------------ the value scan after a key *)
Lemma esc_id v : needs_escape v = false -> esc v = v.
Proof. induction v as [|c v IH]; intros H; [reflexivity|]. cbn [needs_escape existsb] in H.
  apply orb_false_iff in H as [Hc H]. apply orb_false_iff in Hc as [Hq Hb].
  cbn [esc]. rewrite Hq, Hb. f_equal. apply IH. exact H. Qed.
Lemma no_quote v : needs_escape v = false -> forallb (fun b => negb (Ascii.eqb b """")) v = true.
Proof. induction v as [|c v IH]; intros H; [reflexivity|]. cbn [needs_escape existsb] in H.
  apply orb_false_iff in H as [Hc H]. apply orb_false_iff in Hc as [Hq Hb].
  cbn [forallb]. rewrite Hq. cbn [negb andb]. apply IH. exact H. Qed.
Lemma quoted_after v Q : needs_escape v = false -> quoted_value (" " :: lit v ++ Q) = Some v.
Proof. intros Hv. unfold quoted_value, lit. cbn [app after_char]. change (Ascii.eqb " " """") with false. change (Ascii.eqb """" """") with true.
  cbv iota. rewrite (esc_id v Hv). rewrite <- app_assoc. cbn [app]. rewrite (after_char_app """" v Q (no_quote v Hv)). reflexivity. Qed.

(* what written_value does with the text found after the key *)
Definition finish (rest : str) : option str :=
  match strip1 "(" rest with
  | Some group =>
      match find_key (L "serialize") (cut_paren group) with
      | Some r => match strip1 "=" r with Some x => quoted_value x | None => None end
      | None => None end
  | None => match strip1 "=" rest with Some x => quoted_value x | None => None end
  end.
Lemma written_value_finish tokens key : written_value tokens key = match find_key key tokens with Some rest => finish rest | None => None end.
Proof. reflexivity. Qed.

Lemma finish_eq v Q : needs_escape v = false -> finish ("=" :: " " :: lit v ++ Q) = Some v.
Proof. intros Hv. unfold finish. cbn [strip1]. change (Ascii.eqb "=" "(") with false. change (Ascii.eqb "=" "=") with true. cbv iota.
  apply quoted_after. exact Hv. Qed.

Definition key_ok (key : str) : Prop := nospace key = true /\ key <> [] /\ forall z, starts key ("," :: z) = false.
Lemma key_ser_ok : key_ok (L "serialize").
Proof. split; [reflexivity|]. split; [discriminate|intros z; reflexivity]. Qed.
Lemma key_rename_ok : key_ok (L "rename").
Proof. split; [reflexivity|]. split; [discriminate|intros z; reflexivity]. Qed.
Lemma key_ra_ok : key_ok (L "rename_all").
Proof. split; [reflexivity|]. split; [discriminate|intros z; reflexivity]. Qed.

(* the entries between the parentheses *)
Definition entries (l : list (bool * str)) : str := join SEP (map sd_text l).
Lemma paren_text_entries l : paren_text l = "(" :: entries l ++ [")"].
Proof. unfold paren_text, entries. rewrite (tok_string_sep sd_tokens _ sd_tokens_ne). reflexivity. Qed.

Lemma lit_no_paren v : has_paren v = false -> forallb (fun b => negb (Ascii.eqb b ")")) (lit v) = true.
Proof. intros H. unfold lit. cbn [forallb]. change (Ascii.eqb """" ")") with false. cbn [negb andb]. rewrite forallb_app. cbn [forallb].
  change (Ascii.eqb """" ")") with false. cbn [negb andb]. rewrite andb_true_r.
  induction v as [|c v IH]; [reflexivity|]. cbn [has_paren existsb] in H. apply orb_false_iff in H as [Hc H]. cbn [esc].
  destruct (Ascii.eqb c """"); [cbn [forallb]; change (Ascii.eqb "\" ")") with false; change (Ascii.eqb """" ")") with false; cbn [negb andb]; apply IH; exact H|].
  destruct (Ascii.eqb c "\"); [cbn [forallb]; change (Ascii.eqb "\" ")") with false; cbn [negb andb]; apply IH; exact H|].
  cbn [forallb]. rewrite Hc. cbn [negb andb]. apply IH. exact H. Qed.
Lemma sd_text_no_paren b v : has_paren v = false -> forallb (fun c => negb (Ascii.eqb c ")")) (sd_text (b, v)) = true.
Proof. intros H. rewrite sd_text_eq. rewrite forallb_app. cbn [forallb]. rewrite (lit_no_paren v H).
  destruct b; reflexivity. Qed.

(* scanning the entries for the serialize key *)
Lemma scan_ser_entry v : key_scan (L "serialize") false (sd_text (true, v)) = Some ("=" :: " " :: lit v).
Proof. rewrite sd_text_eq. destruct key_ser_ok as (Hn & Hp & Hc). cbn [side_name].
  rewrite (key_scan_here (L "serialize") Hn Hp Hc (" " :: "=" :: " " :: lit v) eq_refl). reflexivity. Qed.
Lemma scan_de_entry w : key_occurs (L "serialize") (lit w) = false -> key_scan (L "serialize") false (sd_text (false, w)) = None.
Proof. intros H. rewrite sd_text_eq. cbn [side_name]. unfold key_occurs, find_key in H.
  change (key_scan (L "serialize") false (L "deserialize" ++ " " :: "=" :: " " :: lit w)) with (key_scan (L "serialize") false (lit w)).
  destruct (key_scan (L "serialize") false (lit w)); [discriminate|reflexivity]. Qed.

Lemma finish_paren l Q : sd_ok l = true -> p_bad l = false ->
  (forall v, ser_of l = Some v -> needs_escape v = false) ->
  finish ("(" :: entries l ++ ")" :: Q) = ser_of l.
Proof. intros Hok Hbad Hesc. destruct key_ser_ok as (Hn & Hp & Hc). unfold finish. cbn [strip1]. change (Ascii.eqb "(" "(") with true. cbv iota.
  assert (forall p, In p l -> has_paren (snd p) = false /\ (fst p = false -> key_occurs (L "serialize") (lit (snd p)) = false)) as Hp_ok.
  { intros p Hin. pose proof (existsb_false_in _ _ Hbad p Hin) as H. cbn beta in H. apply orb_false_iff in H as [H1 H2].
    split; [exact H1|]. intros Hf. rewrite Hf in H2. exact H2. }
  assert (cut_paren (entries l ++ ")" :: Q) = entries l) as Hcut.
  { unfold cut_paren. rewrite (after_char_app ")" (entries l) Q); [reflexivity|]. unfold entries.
    destruct l as [|[b1 v1] [|[b2 v2] [|x y]]]; try discriminate.
    - cbn [map join]. apply sd_text_no_paren. apply (Hp_ok (b1, v1)). left. reflexivity.
    - cbn [map]. rewrite join_cons_cons. cbn [app join]. rewrite forallb_app. cbn [forallb].
      rewrite (sd_text_no_paren b1 v1), (sd_text_no_paren b2 v2); [reflexivity| |]; [apply (Hp_ok (b2, v2)); right; left; reflexivity|apply (Hp_ok (b1, v1)); left; reflexivity]. }
  rewrite Hcut. unfold find_key, entries.
  destruct l as [|[b1 v1] [|[b2 v2] [|x y]]]; try discriminate.
  - cbn [map join]. destruct b1; cbn [ser_of].
    + rewrite scan_ser_entry. cbn [strip1]. change (Ascii.eqb "=" "=") with true. cbv iota.
      pose proof (quoted_after v1 [] (Hesc v1 eq_refl)) as Hq. rewrite app_nil_r in Hq. exact Hq.
    + rewrite scan_de_entry; [reflexivity|]. apply (Hp_ok (false, v1)); [left; reflexivity|reflexivity].
  - cbn [map]. rewrite join_cons_cons. cbn [app join]. rewrite (key_scan_sep (L "serialize") Hn Hp Hc).
    cbn [sd_ok] in Hok. destruct b1; cbn [ser_of].
    + rewrite scan_ser_entry. cbn [app strip1]. change (Ascii.eqb "=" "=") with true. cbv iota.
      apply quoted_after. apply Hesc. reflexivity.
    + rewrite scan_de_entry by (apply (Hp_ok (false, v1)); [left; reflexivity|reflexivity]).
      destruct b2; [|discriminate]. rewrite scan_ser_entry. cbn [strip1]. change (Ascii.eqb "=" "=") with true. cbv iota.
      pose proof (quoted_after v2 [] (Hesc v2 eq_refl)) as Hq. rewrite app_nil_r in Hq. exact Hq. Qed.

(* ------------------------------------------------------------------ parse_rename on one attribute *)
Definition rename_free (m : meta) : Prop := is_rename m = false -> key_occurs (L "rename") (meta_text m) = false.

Lemma first_rename_one m : first_rename [m] = match m with MRename v => Some v | MRenameP l => ser_of l | _ => None end.
Proof. destruct m as [v|l| |n o]; try reflexivity. cbn [first_rename]. destruct (ser_of l); reflexivity. Qed.

(* the text of a rename meta: the key is found at its start and the rest yields the serialize name *)
Lemma rename_scan m : is_rename m = true -> other_ok m = true ->
  (match m with MRenameP l => p_bad l = false | _ => True end) ->
  (forall v, first_rename [m] = Some v -> needs_escape v = false) ->
  exists r, key_scan (L "rename") false (meta_text m) = Some r /\ forall Q, finish (r ++ Q) = first_rename [m].
Proof. destruct key_rename_ok as (Hn & Hp & Hc). destruct m as [v|l| |n o]; try discriminate; intros _ Hok Hbad Hesc.
  - exists ("=" :: " " :: lit v). split.
    + rewrite meta_text_rename. unfold KVt. cbn [app]. rewrite app_nil_r. apply (key_scan_here (L "rename") Hn Hp Hc (" " :: "=" :: " " :: lit v) eq_refl).
    + intros Q. cbn [app]. apply finish_eq. apply Hesc. reflexivity.
  - exists ("(" :: entries l ++ [")"]). split.
    + unfold meta_text, tok_string. cbn [meta_tokens tok_go tok_text app]. rewrite app_nil_r, paren_text_entries.
      apply (key_scan_here (L "rename") Hn Hp Hc (" " :: "(" :: entries l ++ [")"]) eq_refl).
    + intros Q. rewrite first_rename_one. cbn [app]. rewrite <- app_assoc. cbn [app]. apply finish_paren; [exact Hok|exact Hbad|].
      intros v Hv. apply Hesc. rewrite first_rename_one. exact Hv. Qed.

Lemma rename_split g :
  (forall m, In m g -> is_rename m = false) \/
  (exists pre m post, g = pre ++ m :: post /\ is_rename m = true /\ forall x, In x pre -> is_rename x = false).
Proof. induction g as [|m g IH]; [left; intros m []|]. destruct (is_rename m) eqn:Er.
  - right. exists [], m, g. split; [reflexivity|]. split; [exact Er|intros x []].
  - destruct IH as [Ha|[pre [m' [post [-> [Hr Ha]]]]]].
    + left. intros x [<-|Hin]; [exact Er|auto].
    + right. exists (m :: pre), m', post. split; [reflexivity|]. split; [exact Hr|]. intros x [<-|Hin]; [exact Er|auto]. Qed.
Lemma first_rename_none g : (forall m, In m g -> is_rename m = false) -> first_rename g = None.
Proof. induction g as [|m g IH]; intros H; [reflexivity|]. pose proof (H m (or_introl eq_refl)) as Hm.
  destruct m as [v|l| |n o]; try discriminate; cbn [first_rename]; apply IH; intros x Hx; apply H; right; exact Hx. Qed.
Lemma first_rename_app a b : first_rename (a ++ b) = match first_rename a with Some v => Some v | None => first_rename b end.
Proof. induction a as [|m a IH]; [reflexivity|]. destruct m as [v|l| |n o]; cbn [app first_rename]; auto.
  destruct (ser_of l); auto. Qed.
Lemma count_renames_app a b : count_renames (a ++ b) = count_renames a + count_renames b.
Proof. unfold count_renames. rewrite filter_app, app_length. reflexivity. Qed.
Lemma count_zero_none g : count_renames g = 0 -> forall m, In m g -> is_rename m = false.
Proof. induction g as [|x g IH]; intros H m Hin; [destruct Hin|]. unfold count_renames in *. cbn [filter] in H.
  destruct (is_rename x) eqn:Ex; [discriminate|]. destruct Hin as [<-|Hin]; [exact Ex|apply IH; assumption]. Qed.
Lemma count_one m : is_rename m = true -> count_renames [m] = 1.
Proof. intros H. unfold count_renames. cbn [filter]. rewrite H. reflexivity. Qed.

(* the scanner returns the serialize name of the rename meta of the attribute *)
Lemma parse_rename_group g :
  forallb other_ok g = true -> count_renames g <= 1 ->
  (forall m, In m g -> rename_free m) ->
  (forall l, In (MRenameP l) g -> p_bad l = false) ->
  (forall v, first_rename g = Some v -> needs_escape v = false) ->
  parse_rename (group_string g) = first_rename g.
Proof. intros Hok Hcnt Hfree Hbad Hesc. destruct key_rename_ok as (Hn & Hp & Hc).
  unfold parse_rename. rewrite written_value_finish, group_string_join. unfold find_key.
  destruct (rename_split g) as [Ha|[pre [m [post [Hg [Hr Ha]]]]]].
  - rewrite (key_scan_join_none _ Hn Hp Hc).
    + symmetry. apply first_rename_none. exact Ha.
    + intros x Hx. apply in_map_iff in Hx as [m [<- Hm]]. pose proof (Hfree m Hm (Ha m Hm)) as H. unfold key_occurs, find_key in H.
      destruct (key_scan (L "rename") false (meta_text m)); [discriminate|reflexivity].
  - subst g. assert (In m (pre ++ m :: post)) as Hin by (apply in_or_app; right; left; reflexivity).
    assert (first_rename (pre ++ m :: post) = first_rename [m]) as Hfm.
    { rewrite first_rename_app, (first_rename_none pre Ha). change (m :: post) with ([m] ++ post). rewrite first_rename_app.
      destruct (first_rename [m]); [reflexivity|]. apply first_rename_none. apply count_zero_none.
      rewrite count_renames_app in Hcnt. change (m :: post) with ([m] ++ post) in Hcnt. rewrite count_renames_app, (count_one m Hr) in Hcnt. lia. }
    destruct (rename_scan m Hr (proj1 (forallb_forall _ _) Hok m Hin)) as (r & Hscan & Hfin).
    + destruct m; try exact I. apply Hbad. exact Hin.
    + intros v Hv. apply Hesc. rewrite Hfm. exact Hv.
    + rewrite map_app. cbn [map]. rewrite (key_scan_join _ Hn Hp Hc (map meta_text pre) _ r (map meta_text post)).
      * rewrite Hfin. symmetry. exact Hfm.
      * intros x Hx. apply in_map_iff in Hx as [m0 [<- Hm]].
        pose proof (Hfree m0 (in_or_app _ _ _ (or_introl Hm)) (Ha m0 Hm)) as H. unfold key_occurs, find_key in H.
        destruct (key_scan (L "rename") false (meta_text m0)); [discriminate|reflexivity].
      * exact Hscan. Qed.

(* ------------------------------------------------------------------ the skip test on one attribute *)
Lemma pat_skip_ok : nospace (L "skip") = true /\ L "skip" <> [] /\ contains (L "skip") [","] = false.
Proof. split; [reflexivity|]. split; [discriminate|reflexivity]. Qed.
Lemma pat_skipser_ok : nospace (L "skip_serializing") = true /\ L "skip_serializing" <> [] /\ contains (L "skip_serializing") [","] = false.
Proof. split; [reflexivity|]. split; [discriminate|reflexivity]. Qed.

Definition skip_in (m : meta) : bool := contains (L "skip") (meta_text m).
Definition skipser_in (m : meta) : bool := contains (L "skip_serializing") (meta_text m).
Lemma field_skip_group g : field_skip (group_string g) = existsb skip_in g && negb (existsb skipser_in g).
Proof. unfold field_skip. rewrite group_string_join.
  destruct pat_skip_ok as (Hn & Hp & Hc). destruct pat_skipser_ok as (Hn2 & Hp2 & Hc2).
  rewrite (contains_join _ Hn Hp Hc), (contains_join _ Hn2 Hp2 Hc2), !existsb_map. reflexivity. Qed.

Lemma field_skip_seen g : group_skip_seen g = true -> field_skip (group_string g) = true.
Proof. unfold group_skip_seen. intros H. apply andb_true_iff in H as [Hs Hn]. rewrite field_skip_group.
  fold skipser_in in Hn. rewrite Hn, andb_true_r. apply existsb_exists in Hs as [m [Hin Hm]].
  apply existsb_exists. exists m. split; [exact Hin|]. destruct m; try discriminate. reflexivity. Qed.
Lemma field_skip_no_skip g : existsb is_mskip g = false -> field_skip (group_string g) = group_skip_text g.
Proof. intros H. rewrite field_skip_group. unfold group_skip_text. rewrite H. reflexivity. Qed.

(* ------------------------------------------------------------------ folds over the attributes of an item *)
Fixpoint last_rename (gs : list str) (rn : option str) : option str :=
  match gs with [] => rn | ts :: r => last_rename r (match parse_rename ts with Some v => Some v | None => rn end) end.
Lemma field_attrs_go_spec gs rn sk : field_attrs_go gs rn sk = (last_rename gs rn, sk || existsb field_skip gs).
Proof. revert rn sk. induction gs as [|ts gs IH]; intros rn sk; cbn [field_attrs_go last_rename existsb].
  - rewrite orb_false_r. reflexivity.
  - rewrite IH. f_equal. destruct (field_skip ts), sk; reflexivity. Qed.

Lemma first_rename_count g v : first_rename g = Some v -> 1 <= count_renames g.
Proof. induction g as [|m g IH]; [discriminate|]. destruct m as [w|l| |n o]; cbn [first_rename]; intros H;
  unfold count_renames in *; cbn [filter is_rename List.length]; try lia; apply IH in H; exact H. Qed.

Lemma last_rename_groups gs rn :
  (forall g, In g gs -> parse_rename (group_string g) = first_rename g) ->
  count_renames (concat gs) <= 1 ->
  last_rename (map group_string gs) rn = match first_rename (concat gs) with Some v => Some v | None => rn end.
Proof. revert rn. induction gs as [|g gs IH]; intros rn Hp Hc; [reflexivity|].
  cbn [map last_rename concat]. rewrite (Hp g (or_introl eq_refl)).
  cbn [concat] in Hc. rewrite count_renames_app in Hc.
  rewrite IH; [|intros g' Hg'; apply Hp; right; exact Hg'|lia].
  rewrite first_rename_app. destruct (first_rename g) as [v|] eqn:Eg; [|reflexivity].
  destruct (first_rename (concat gs)) as [w|] eqn:Ew; [|reflexivity].
  apply first_rename_count in Eg. apply first_rename_count in Ew. lia. Qed.

(* per-item facts delivered by the domain and the complement of the classes *)
Definition item_rename_free (it : item) : Prop := forall m, In m (concat (it_attrs it)) -> rename_free m.

Lemma forallb_concat_in {A} (f : A -> bool) gs g : forallb f (concat gs) = true -> In g gs -> forallb f g = true.
Proof. intros H Hg. apply forallb_forall. intros x Hx. apply (proj1 (forallb_forall _ _) H). apply in_concat. exists g. split; assumption. Qed.

Lemma item_rename it :
  forallb other_ok (concat (it_attrs it)) = true ->
  item_rename_free it ->
  (forall l, In (MRenameP l) (concat (it_attrs it)) -> p_bad l = false) ->
  (forall v, rename_of it = Some v -> needs_escape v = false) ->
  count_renames (concat (it_attrs it)) <= 1 ->
  fst (field_attrs (map group_string (it_attrs it))) = rename_of it.
Proof. intros Hok Hfree Hbad Hesc Hc. unfold field_attrs. rewrite field_attrs_go_spec. cbn [fst].
  rewrite last_rename_groups; [unfold rename_of; destruct (first_rename (concat (it_attrs it))); reflexivity| |exact Hc].
  intros g Hg.
  assert (count_renames g <= 1) as Hcg.
  { apply in_split in Hg as [l1 [l2 Hl]]. rewrite Hl in Hc. rewrite concat_app in Hc. cbn [concat] in Hc. rewrite !count_renames_app in Hc. lia. }
  apply parse_rename_group; [apply (forallb_concat_in _ _ _ Hok Hg)|exact Hcg| | |].
  - intros m Hm. apply Hfree. apply in_concat. exists g. split; assumption.
  - intros l Hl. apply Hbad. apply in_concat. exists g. split; assumption.
  - intros v Hv.
    (* the rename of g is the only rename of the item *)
    assert (rename_of it = Some v) as Hr.
    { unfold rename_of. apply in_split in Hg as [l1 [l2 Hl]]. rewrite Hl in *. rewrite concat_app. cbn [concat].
      rewrite first_rename_app. destruct (first_rename (concat l1)) as [u|] eqn:E1.
      - exfalso. rewrite concat_app in Hc. cbn [concat] in Hc. rewrite !count_renames_app in Hc.
        apply first_rename_count in E1. apply first_rename_count in Hv. lia.
      - rewrite first_rename_app, Hv. reflexivity. }
    apply Hesc. exact Hr. Qed.

Lemma item_skip_true it : has_skip it = true -> existsb group_skip_seen (it_attrs it) = true ->
  snd (field_attrs (map group_string (it_attrs it))) = true.
Proof. intros _ H. unfold field_attrs. rewrite field_attrs_go_spec. cbn [snd orb]. rewrite existsb_map.
  apply existsb_exists in H as [g [Hin Hg]]. apply existsb_exists. exists g. split; [exact Hin|]. apply field_skip_seen. exact Hg. Qed.
Lemma item_skip_false it : has_skip it = false -> existsb group_skip_text (it_attrs it) = false ->
  snd (field_attrs (map group_string (it_attrs it))) = false.
Proof. intros Hs H. unfold field_attrs. rewrite field_attrs_go_spec. cbn [snd orb]. rewrite existsb_map.
  destruct (existsb (fun x => field_skip (group_string x)) (it_attrs it)) eqn:E; [|reflexivity].
  apply existsb_exists in E as [g [Hin Hg]]. unfold has_skip in Hs.
  rewrite (field_skip_no_skip g (existsb_false_in _ _ Hs g Hin)) in Hg.
  rewrite (existsb_false_in _ _ H g Hin) in Hg. discriminate. Qed.

(* ------------------------------------------------------------------ container attributes *)
Lemma rule_value_plain v : valid_rule v = true ->
  needs_escape v = false /\ has_paren v = false /\ key_occurs (L "serialize") (lit v) = false.
Proof. unfold valid_rule, rule_of_str. intros H.
  repeat match type of H with
  | match (if str_eqb v ?s then _ else _) with _ => _ end = _ => destruct (str_eqb v s) eqn:E; [apply str_eqb_eq in E; subst v; repeat split; reflexivity|clear E]
  end. discriminate. Qed.

Definition ra_free (m : cmeta) : Prop := is_ra m = false -> key_occurs (L "rename_all") (cmeta_text m) = false.

Lemma first_ra_one m : first_rename_all [m] = match m with CRenameAll v => Some v | CRenameAllP l => ser_of l | _ => None end.
Proof. destruct m as [v|l|n|n w]; try reflexivity. cbn [first_rename_all]. destruct (ser_of l); reflexivity. Qed.

Lemma ser_of_in l v : ser_of l = Some v -> In (true, v) l.
Proof. induction l as [|[b w] l IH]; [discriminate|]. destruct b; cbn [ser_of]; intros H; [injection H as <-; left; reflexivity|right; apply IH; exact H]. Qed.

Lemma ra_scan m : is_ra m = true -> cmeta_ok m = true ->
  exists r, key_scan (L "rename_all") false (cmeta_text m) = Some r /\ forall Q, finish (r ++ Q) = first_rename_all [m].
Proof. destruct key_ra_ok as (Hn & Hp & Hc). destruct m as [v|l|n|n w]; try discriminate; intros _ Hok.
  - exists ("=" :: " " :: lit v). split.
    + rewrite cmeta_text_rename_all. unfold KVt. cbn [app]. rewrite app_nil_r. apply (key_scan_here (L "rename_all") Hn Hp Hc (" " :: "=" :: " " :: lit v) eq_refl).
    + intros Q. cbn [app]. apply finish_eq. apply (rule_value_plain v Hok).
  - cbn [cmeta_ok] in Hok. apply andb_true_iff in Hok as [Hsd Hv]. exists ("(" :: entries l ++ [")"]). split.
    + unfold cmeta_text, tok_string. cbn [cmeta_tokens tok_go tok_text app]. rewrite app_nil_r, paren_text_entries.
      apply (key_scan_here (L "rename_all") Hn Hp Hc (" " :: "(" :: entries l ++ [")"]) eq_refl).
    + intros Q. rewrite first_ra_one. cbn [app]. rewrite <- app_assoc. cbn [app]. apply finish_paren; [exact Hsd| |].
      * unfold p_bad. destruct (existsb _ l) eqn:E; [|reflexivity]. apply existsb_exists in E as [p [Hin Hp']].
        destruct (rule_value_plain (snd p) (proj1 (forallb_forall _ _) Hv p Hin)) as (_ & H2 & H3). rewrite H2, H3 in Hp'.
        destruct (fst p); discriminate.
      * intros v Hsv. apply ser_of_in in Hsv. apply (rule_value_plain v (proj1 (forallb_forall _ _) Hv (true, v) Hsv)). Qed.

Lemma ra_split g :
  (forall m, In m g -> is_ra m = false) \/
  (exists pre m post, g = pre ++ m :: post /\ is_ra m = true /\ forall x, In x pre -> is_ra x = false).
Proof. induction g as [|m g IH]; [left; intros m []|]. destruct (is_ra m) eqn:Er.
  - right. exists [], m, g. split; [reflexivity|]. split; [exact Er|intros x []].
  - destruct IH as [Ha|[pre [m' [post [-> [Hr Ha]]]]]].
    + left. intros x [<-|Hin]; [exact Er|auto].
    + right. exists (m :: pre), m', post. split; [reflexivity|]. split; [exact Hr|]. intros x [<-|Hin]; [exact Er|auto]. Qed.
Lemma first_ra_none g : (forall m, In m g -> is_ra m = false) -> first_rename_all g = None.
Proof. induction g as [|m g IH]; intros H; [reflexivity|]. pose proof (H m (or_introl eq_refl)) as Hm.
  destruct m as [v|l|n|n w]; try discriminate; cbn [first_rename_all]; apply IH; intros x Hx; apply H; right; exact Hx. Qed.
Lemma first_ra_app a b : first_rename_all (a ++ b) = match first_rename_all a with Some v => Some v | None => first_rename_all b end.
Proof. induction a as [|m a IH]; [reflexivity|]. destruct m as [v|l|n|n w]; cbn [app first_rename_all]; auto.
  destruct (ser_of l); auto. Qed.
Lemma count_ra_app a b : count_rename_all (a ++ b) = count_rename_all a + count_rename_all b.
Proof. unfold count_rename_all. rewrite filter_app, app_length. reflexivity. Qed.
Lemma count_ra_zero_none g : count_rename_all g = 0 -> forall m, In m g -> is_ra m = false.
Proof. induction g as [|x g IH]; intros H m Hin; [destruct Hin|]. unfold count_rename_all in *. cbn [filter] in H.
  destruct (is_ra x) eqn:Ex; [discriminate|]. destruct Hin as [<-|Hin]; [exact Ex|apply IH; assumption]. Qed.
Lemma first_ra_count g v : first_rename_all g = Some v -> 1 <= count_rename_all g.
Proof. induction g as [|m g IH]; [discriminate|]. destruct m as [w|l|n|n w]; cbn [first_rename_all]; intros H;
  unfold count_rename_all in *; cbn [filter is_ra List.length]; try lia; apply IH in H; exact H. Qed.
Lemma first_ra_valid g v : forallb cmeta_ok g = true -> first_rename_all g = Some v -> valid_rule v = true.
Proof. induction g as [|m g IH]; [discriminate|]. cbn [forallb]. intros H Hf. apply andb_true_iff in H as [Hm H].
  destruct m as [w|l|n|n w]; cbn [first_rename_all] in Hf; try (apply IH; assumption).
  - injection Hf as <-. exact Hm.
  - cbn [cmeta_ok] in Hm. apply andb_true_iff in Hm as [_ Hv]. destruct (ser_of l) as [x|] eqn:Es; [|apply IH; assumption].
    injection Hf as <-. apply ser_of_in in Es. exact (proj1 (forallb_forall _ _) Hv (true, x) Es). Qed.

Lemma parse_rename_all_group g : forallb cmeta_ok g = true -> count_rename_all g <= 1 -> (forall m, In m g -> ra_free m) ->
  parse_rename_all (cgroup_string g) = match first_rename_all g with Some v => rule_of_str v | None => None end.
Proof. intros Hok Hcnt Hfree. destruct key_ra_ok as (Hn & Hp & Hc).
  unfold parse_rename_all. rewrite written_value_finish, cgroup_string_join. unfold find_key.
  destruct (ra_split g) as [Ha|[pre [m [post [Hg [Hr Ha]]]]]].
  - rewrite (key_scan_join_none _ Hn Hp Hc).
    + rewrite (first_ra_none g Ha). reflexivity.
    + intros x Hx. apply in_map_iff in Hx as [m [<- Hm]]. pose proof (Hfree m Hm (Ha m Hm)) as H. unfold key_occurs, find_key in H.
      destruct (key_scan (L "rename_all") false (cmeta_text m)); [discriminate|reflexivity].
  - subst g. assert (In m (pre ++ m :: post)) as Hin by (apply in_or_app; right; left; reflexivity).
    assert (first_rename_all (pre ++ m :: post) = first_rename_all [m]) as Hfm.
    { rewrite first_ra_app, (first_ra_none pre Ha). change (m :: post) with ([m] ++ post). rewrite first_ra_app.
      destruct (first_rename_all [m]); [reflexivity|]. apply first_ra_none. apply count_ra_zero_none.
      rewrite count_ra_app in Hcnt. change (m :: post) with ([m] ++ post) in Hcnt. rewrite count_ra_app in Hcnt.
      assert (count_rename_all [m] = 1) as H1 by (unfold count_rename_all; cbn [filter]; rewrite Hr; reflexivity). lia. }
    destruct (ra_scan m Hr (proj1 (forallb_forall _ _) Hok m Hin)) as (r & Hscan & Hfin).
    rewrite map_app. cbn [map]. rewrite (key_scan_join _ Hn Hp Hc (map cmeta_text pre) _ r (map cmeta_text post)).
    + rewrite Hfin, Hfm. reflexivity.
    + intros x Hx. apply in_map_iff in Hx as [m0 [<- Hm]].
      pose proof (Hfree m0 (in_or_app _ _ _ (or_introl Hm)) (Ha m0 Hm)) as H. unfold key_occurs, find_key in H.
      destruct (key_scan (L "rename_all") false (cmeta_text m0)); [discriminate|reflexivity].
    + exact Hscan. Qed.

Lemma struct_attrs_groups gs ra : forallb cmeta_ok (concat gs) = true -> (forall m, In m (concat gs) -> ra_free m) ->
  count_rename_all (concat gs) <= 1 ->
  struct_attrs_go (map cgroup_string gs) ra =
  match first_rename_all (concat gs) with Some v => rule_of_str v | None => ra end.
Proof. revert ra. induction gs as [|g gs IH]; intros ra Hok Hfree Hc; [reflexivity|].
  cbn [concat] in Hok, Hc, Hfree. rewrite forallb_app in Hok. apply andb_true_iff in Hok as [Hg Hgs]. rewrite count_ra_app in Hc.
  cbn [map struct_attrs_go concat]. rewrite (parse_rename_all_group g Hg); [|lia|intros m Hm; apply Hfree; apply in_or_app; left; exact Hm].
  rewrite IH; [|exact Hgs|intros m Hm; apply Hfree; apply in_or_app; right; exact Hm|lia].
  rewrite first_ra_app. destruct (first_rename_all g) as [v|] eqn:Eg.
  - destruct (first_rename_all (concat gs)) as [w|] eqn:Ew.
    + apply first_ra_count in Eg. apply first_ra_count in Ew. lia.
    + pose proof (first_ra_valid g v Hg Eg) as Hr. unfold valid_rule in Hr. destruct (rule_of_str v); [reflexivity|discriminate].
  - reflexivity. Qed.

Lemma struct_attrs_container c : in_domain c = true -> kf_rename_text c = false ->
  struct_attrs (map cgroup_string (c_attrs c)) = container_rule c.
Proof. unfold in_domain. intros H Htext. apply andb_true_iff in H as [H _]. unfold in_domain0 in H. apply andb_true_iff in H as [H _]. apply andb_true_iff in H as [H Hc]. apply andb_true_iff in H as [_ Hok].
  unfold struct_attrs, container_rule. rewrite struct_attrs_groups; [|exact Hok| |apply Nat.leb_le; exact Hc].
  - destruct (first_rename_all (concat (c_attrs c))); reflexivity.
  - intros m Hm Hr. unfold kf_rename_text in Htext. apply orb_false_iff in Htext as [_ Htext].
    pose proof (existsb_false_in _ _ Htext m Hm) as H1. cbn beta in H1. rewrite Hr in H1. cbn [negb andb] in H1. exact H1. Qed.

(* ------------------------------------------------------------------ the renaming rules *)
Definition all_bytes : list ascii := map (fun n => ascii_of_nat n) (seq 0 256).
Lemma all_bytes_complete c : In c all_bytes.
Proof. unfold all_bytes. apply in_map_iff. exists (nat_of_ascii c). split; [apply ascii_nat_embedding|].
  apply in_seq. pose proof (nat_ascii_bounded c). lia. Qed.

Definition char_facts (c : ascii) : bool :=
  implb (ident_char c) (negb (is_cont c) && negb (is_cont (upper c)) && negb (is_cont (lower c)))
  && Ascii.eqb (upper (lower c)) (upper c)
  && implb (negb (is_upper c)) (Ascii.eqb (lower c) c)
  && implb (negb (is_lower c)) (Ascii.eqb (upper c) c)
  && implb (ident_start c && negb (is_us c)) (Ascii.eqb (lower (upper c)) (lower c))
  && implb (is_us c) (negb (is_upper c) && negb (is_lower c)).
Lemma char_facts_all : forallb char_facts all_bytes = true.
Proof. vm_compute. reflexivity. Qed.
Lemma char_fact c : char_facts c = true.
Proof. exact (proj1 (forallb_forall _ _) char_facts_all c (all_bytes_complete c)). Qed.

Lemma cf_cont c : ident_char c = true -> is_cont c = false /\ is_cont (upper c) = false /\ is_cont (lower c) = false.
Proof. intros H. pose proof (char_fact c) as F. unfold char_facts in F. rewrite H in F.
  repeat (apply andb_true_iff in F as [F ?]). cbn [implb] in F. repeat (apply andb_true_iff in F as [F ?]).
  repeat split; apply negb_true_iff; assumption. Qed.
Lemma cf_upper_lower c : upper (lower c) = upper c.
Proof. pose proof (char_fact c) as F. unfold char_facts in F. repeat (apply andb_true_iff in F as [F ?]).
  apply Ascii.eqb_eq. assumption. Qed.
Lemma cf_lower_id c : is_upper c = false -> lower c = c.
Proof. intros H. unfold lower. rewrite H. reflexivity. Qed.
Lemma cf_upper_id c : is_lower c = false -> upper c = c.
Proof. intros H. unfold upper. rewrite H. reflexivity. Qed.
Lemma cf_lower_upper c : ident_start c = true -> is_us c = false -> lower (upper c) = lower c.
Proof. intros H1 H2. pose proof (char_fact c) as F. unfold char_facts in F. rewrite H1, H2 in F.
  repeat (apply andb_true_iff in F as [F ?]). apply Ascii.eqb_eq. assumption. Qed.
Lemma cf_us c : is_us c = true -> is_upper c = false /\ is_lower c = false.
Proof. intros H. pose proof (char_fact c) as F. unfold char_facts in F. rewrite H in F.
  repeat (apply andb_true_iff in F as [F ?]). cbn [implb] in *.
  match goal with X : negb (is_upper c) && negb (is_lower c) = true |- _ => apply andb_true_iff in X as [X1 X2] end.
  split; apply negb_true_iff; assumption. Qed.

(* pascal of an identifier holds identifier characters or their upper-case forms only *)
Lemma pascal_head cap s : forallb ident_char s = true ->
  match pascal cap s with [] => True | c :: rest => match rest with r :: _ => is_cont r = false | [] => True end end.
Proof. revert cap. induction s as [|c s IH]; intros cap H; [exact I|].
  cbn [forallb] in H. apply andb_true_iff in H as [Hc H]. cbn [pascal].
  destruct (is_us c); [apply IH; exact H|].
  assert (forall cap', match pascal cap' s with [] => True | r :: _ => is_cont r = false end) as Hnext.
  { clear IH cap. induction s as [|d s IHs]; intros cap'; [exact I|]. cbn [forallb] in H. apply andb_true_iff in H as [Hd H].
    cbn [pascal]. destruct (is_us d); [apply IHs; exact H|]. destruct cap'; [apply (cf_cont d Hd)|apply (cf_cont d Hd)]. }
  destruct cap; exact (Hnext false). Qed.

Lemma pascal_nonempty cap s : existsb (fun c => negb (is_us c)) s = true -> pascal cap s <> [].
Proof. revert cap. induction s as [|c s IH]; intros cap H; [discriminate|]. cbn [existsb] in H. cbn [pascal].
  destruct (is_us c); [apply IH; exact H|]. destruct cap; discriminate. Qed.

Lemma ident_ok_parts s : ident_ok s = true ->
  forallb ident_char s = true /\ existsb (fun c => negb (is_us c)) s = true /\
  match s with c :: _ => ident_start c = true | [] => False end.
Proof. unfold ident_ok. intros H. apply andb_true_iff in H as [H H3]. apply andb_true_iff in H as [H1 H2].
  split; [exact H2|]. split; [exact H3|]. destruct s; [discriminate|exact H1]. Qed.

Lemma ident_ok_uident s : ident_ok s = true -> uident_ok s = true.
Proof. unfold ident_ok, uident_ok. intros H. apply andb_true_iff in H as [H H3]. apply andb_true_iff in H as [H1 H2].
  rewrite H3, andb_true_r. apply andb_true_iff. split.
  - destruct s as [|c s]; [discriminate|]. unfold uident_start. rewrite H1. reflexivity.
  - clear H1 H3. induction s as [|c s IH]; [reflexivity|]. cbn [forallb] in *. apply andb_true_iff in H2 as [Hc H2].
    rewrite (IH H2), andb_true_r. unfold uident_char. rewrite Hc. reflexivity. Qed.
(* only the non-underscore character matters: the statement holds for every UTF-8 identifier *)
Lemma apply_field_ok r s : uident_ok s = true -> apply_naming_convention r s = field_rule r s.
Proof. intros H. assert (existsb (fun c => negb (is_us c)) s = true) as Hn.
  { unfold uident_ok in H. apply andb_true_iff in H as [_ H]. exact H. }
  destruct r; try reflexivity.
  cbn [apply_naming_convention field_rule]. pose proof (pascal_nonempty true s Hn) as Hne.
  unfold camel_guard, lower_first. destruct (pascal true s) as [|c rest]; [congruence|reflexivity]. Qed.

(* compute_variant_name's rule part is serde's variant rule *)
Lemma apply_variant_ok r s : (match r with RCamel => variant_camel s | _ => apply_to_variant r s end) = variant_rule r s.
Proof. destruct r; reflexivity. Qed.

(* where the field rule and the variant rule agree *)
Lemma map_lower_id s : has_upper s = false -> map lower s = s.
Proof. induction s as [|c s IH]; intros H; [reflexivity|]. cbn [has_upper existsb] in H. apply orb_false_iff in H as [Hc H].
  cbn [map]. rewrite (cf_lower_id c Hc). f_equal. apply IH. exact H. Qed.
Lemma snake_go_id first s : has_upper s = false -> snake_go first s = s.
Proof. revert first. induction s as [|c s IH]; intros first H; [reflexivity|]. cbn [has_upper existsb] in H. apply orb_false_iff in H as [Hc H].
  cbn [snake_go]. rewrite Hc, andb_false_r. cbn [app]. rewrite (cf_lower_id c Hc). f_equal. apply IH. exact H. Qed.
Lemma snake_tail s : has_upper (tl s) = false -> snake s = match s with [] => [] | c :: r => lower c :: r end.
Proof. destruct s as [|c r]; [reflexivity|]. cbn [tl]. intros H. unfold snake. cbn [snake_go negb andb app]. rewrite (snake_go_id false r H). reflexivity. Qed.
Lemma map_upper_lower_first s : map upper (match s with [] => [] | c :: r => lower c :: r end) = map upper s.
Proof. destruct s as [|c r]; [reflexivity|]. cbn [map]. rewrite cf_upper_lower. reflexivity. Qed.
Lemma pascal_false_id s : has_us s = false -> pascal false s = s.
Proof. induction s as [|c s IH]; intros H; [reflexivity|]. cbn [has_us existsb] in H. apply orb_false_iff in H as [Hc H].
  cbn [pascal]. rewrite Hc. f_equal. apply IH. exact H. Qed.

Lemma rules_agree r s : ident_ok s = true -> rules_differ r s = false -> field_rule r s = variant_rule r s.
Proof. intros Hok H. destruct (ident_ok_parts s Hok) as (_ & _ & Hst). destruct r; cbn [rules_differ] in H; cbn [field_rule variant_rule].
  - symmetry. apply map_lower_id. exact H.
  - reflexivity.
  - apply orb_false_iff in H as [Hus Hlow]. destruct s as [|c s]; [reflexivity|]. cbn [has_us existsb] in Hus.
    apply orb_false_iff in Hus as [Hc Hus]. cbn [pascal]. rewrite Hc. rewrite (cf_upper_id c Hlow), (pascal_false_id s Hus). reflexivity.
  - destruct s as [|c s]; [reflexivity|]. cbn [has_us existsb] in H. apply orb_false_iff in H as [Hc Hus].
    cbn [pascal]. rewrite Hc. rewrite (pascal_false_id s Hus). cbn [lower_first]. rewrite (cf_lower_upper c Hst Hc). reflexivity.
  - symmetry. apply snake_go_id. exact H.
  - rewrite (snake_tail s H), map_upper_lower_first. reflexivity.
  - unfold snake. rewrite (snake_go_id true s H). reflexivity.
  - rewrite (snake_tail s H), map_upper_lower_first. reflexivity. Qed.
