(* C15 - isolation of files that fail to read or parse, and termination of the whole analysis
   model (load loop + resolve_types_lazily + type ordering), for arbitrary syn-level walkers. *)
From Coq Require Import List Arith Bool Lia.
Require Import TT.Model.Base TT.Model.Topo TT.Model.C07Worklist TT.Model.C15Project.
Require Import TT.Proofs.TopoProofs TT.Proofs.WorklistSpike.
Import ListNotations.

Section Project.
Context {path name AST cmd ev def : Type} {EN : EqDec name}.
Variable cmds_of : path -> AST -> list cmd.
Variable events_of : path -> AST -> list ev.
Variable names_of : path -> AST -> list name.
Variable defs_of : AST -> list name.
Variable extract_type : AST -> name -> option def.
Variable deps_of : def -> list name.
Variable arrange : list (path * AST) -> list (path * AST).

Local Notation entry := (@entry path AST).
Local Notation load := (@load path AST).
Local Notation analysis := (analysis cmds_of events_of names_of defs_of extract_type deps_of arrange).
Local Notation analyze_cache := (analyze_cache cmds_of events_of names_of defs_of extract_type deps_of arrange).

(* ---- the load loop ---- *)
Definition cache_of (es : list entry) := option_map fst (load es).
Definition reports_of (es : list entry) := option_map snd (load es).
Definition no_walk_error (es : list entry) : bool :=
  forallb (fun e => match e with WalkErr => false | _ => true end) es.

Lemma load_app_bad (pre post : list entry) (e : entry) : is_bad e = true ->
  match load (pre ++ post) with
  | None => load (pre ++ e :: post) = None
  | Some (c, reps) => exists r1 r2, reps = r1 ++ r2 /\ load (pre ++ e :: post) = Some (c, r1 ++ report_of e ++ r2)
  end.
Proof. intros Hb. induction pre as [|x pre IH]; cbn [app].
  - destruct e as [|p|p [a| |]]; try discriminate; cbn [load]; destruct (load post) as [[c reps]|]; auto;
      exists [], reps; auto.
  - destruct x as [|p|p c0]; cbn [load]; auto.
    destruct (load (pre ++ post)) as [[c reps]|].
    + destruct IH as (r1 & r2 & -> & ->).
      destruct c0; [exists r1, r2; auto | exists (FailedToParse p :: r1), r2; auto | exists (FailedToRead p :: r1), r2; auto].
    + rewrite IH. reflexivity. Qed.

(* the cache is that of the run without the failing files; their reports are all there, in walk order *)
Lemma load_filter : forall es : list entry,
  cache_of es = cache_of (filter (fun e => negb (is_bad e)) es) /\
  (forall c reps, load es = Some (c, reps) -> reps = flat_map report_of es).
Proof. induction es as [|e es [IH1 IH2]]; [split; [reflexivity|intros c reps H; injection H as <- <-; reflexivity]|].
  unfold cache_of in *. destruct e as [|p|p [a| |]]; cbn [filter is_bad negb load flat_map report_of app].
  - split; [reflexivity|discriminate].
  - split; [exact IH1|exact IH2].
  - destruct (load es) as [[c reps]|]; destruct (load (filter _ es)) as [[c' reps']|]; cbn [option_map fst] in *; try discriminate.
    + split; [injection IH1 as ->; reflexivity|]. intros c0 r0 H. injection H as <- <-. eapply IH2; reflexivity.
    + split; [reflexivity|discriminate].
  - destruct (load es) as [[c reps]|]; cbn [option_map fst] in *.
    + split; [exact IH1|]. intros c0 r0 H. injection H as <- <-. f_equal. eapply IH2; reflexivity.
    + split; [exact IH1|discriminate].
  - destruct (load es) as [[c reps]|]; cbn [option_map fst] in *.
    + split; [exact IH1|]. intros c0 r0 H. injection H as <- <-. f_equal. eapply IH2; reflexivity.
    + split; [exact IH1|discriminate]. Qed.

Lemma load_total : forall es : list entry, no_walk_error es = true -> exists c reps, load es = Some (c, reps).
Proof. induction es as [|e es IH]; intros H; [eexists; eexists; reflexivity|]. cbn [no_walk_error forallb] in H.
  apply andb_true_iff in H as [He H]. destruct (IH H) as (c & reps & E).
  destruct e as [|p|p [a| |]]; try discriminate; cbn [load]; rewrite E; eauto. Qed.

(* ---- isolation ---- *)
Theorem isolated (pre post : list entry) (e : entry) : is_bad e = true ->
  generated (analysis (pre ++ e :: post)) = generated (analysis (pre ++ post)) /\
  (forall r reps, analysis (pre ++ e :: post) = RunOk r reps -> forall x, In x (report_of e) -> In x reps).
Proof. intros Hb. pose proof (load_app_bad pre post e Hb) as H. unfold analysis.
  destruct (load (pre ++ post)) as [[c reps]|].
  - destruct H as (r1 & r2 & -> & ->). split.
    + destruct (analyze_cache c); reflexivity.
    + intros r reps' Hr x Hx. destruct (analyze_cache c); [|discriminate]. injection Hr as <- <-.
      apply in_or_app. right. apply in_or_app. left. exact Hx.
  - rewrite H. split; [reflexivity|discriminate]. Qed.

Theorem isolated_all (es : list entry) :
  generated (analysis es) = generated (analysis (filter (fun e => negb (is_bad e)) es)) /\
  (forall r reps, analysis es = RunOk r reps -> reps = flat_map report_of es).
Proof. destruct (load_filter es) as [H1 H2]. unfold analysis, cache_of in *.
  destruct (load es) as [[c reps]|]; destruct (load (filter _ es)) as [[c' reps']|]; cbn [option_map fst] in H1; try discriminate.
  - injection H1 as ->. split; [destruct (analyze_cache c'); reflexivity|].
    intros r reps0 Hr. destruct (analyze_cache c'); [|discriminate]. injection Hr as <- <-. eapply H2; reflexivity.
  - split; [reflexivity|discriminate]. Qed.

(* ---- termination of everything after the load loop ---- *)
Section Idx.
Variable idx : list (name * AST).
Local Notation defined := (defined extract_type idx).
Local Notation succ := (succ extract_type deps_of idx).
Local Notation pushok := (pushok idx).

Lemma defined_pushok n : defined n = true -> pushok n = true.
Proof. unfold C15Project.defined, resolved_def, C15Project.pushok. destruct (lookup idx n); [intros _; reflexivity|discriminate]. Qed.
Lemma lookup_in n a : lookup idx n = Some a -> In n (map fst idx).
Proof. unfold lookup. destruct (find _ (rev idx)) as [x|] eqn:E; [|discriminate]. intros _.
  apply find_some in E as [Hin Hx]. destruct (eq_dec (fst x) n) as [<-|]; [|discriminate].
  apply in_map, in_rev. exact Hin. Qed.
Lemma defined_in_index n : defined n = true -> In n (index_names idx).
Proof. unfold C15Project.defined, resolved_def, index_names. destruct (lookup idx n) as [a|] eqn:E; [|discriminate].
  intros _. apply nodup_In. eapply lookup_in; eauto. Qed.

Lemma resolve_total rs : work eq_dec succ defined pushok (resolve_fuel extract_type deps_of idx rs) rs [] <> None.
Proof. apply (work_total name eq_dec succ defined pushok (index_names idx) (NoDup_nodup _ _) defined_in_index).
  unfold pot, resolve_fuel. apply Nat.lt_succ_r. apply Nat.add_le_mono_l.
  apply Nat.eq_le_incl. f_equal. Qed.
End Idx.

Lemma analyze_cache_total c : exists r, analyze_cache c = Some r.
Proof. unfold C15Project.analyze_cache. cbv zeta.
  destruct (work _ _ _ _ _ _ _) as [structs|] eqn:E; [|exfalso; eapply resolve_total; eauto].
  destruct (topo_total (map (fun n => (n, succ extract_type deps_of (index defs_of (arrange c)) n)) structs) structs) as [order ->].
  eauto. Qed.

Theorem total_pipeline (es : list entry) : no_walk_error es = true -> exists r reps, analysis es = RunOk r reps.
Proof. intros H. destruct (load_total es H) as (c & reps & E). unfold analysis. rewrite E.
  destruct (analyze_cache_total c) as [r ->]. eauto. Qed.
Theorem never_out_of_fuel (es : list entry) : analysis es <> RunOutOfFuel.
Proof. unfold analysis. destruct (load es) as [[c reps]|]; [|discriminate].
  destruct (analyze_cache_total c) as [r ->]. discriminate. Qed.
End Project.
