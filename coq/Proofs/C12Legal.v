(* C12: on in-domain projects every documented site has a legal event name *)
From Coq Require Import String Ascii List Arith Lia Bool.
Require Import TT.Model.Str TT.Spec.TsLex TT.Spec.TsModule TT.Spec.TsObs TT.Model.Pipeline TT.Model.Events TT.Spec.C12Spec.
Require Import TT.Proofs.StrFacts TT.Proofs.C12Proofs TT.Proofs.C12Exact.
Import ListNotations.
Local Open Scope list_scope.

Lemma emit_call_args m args n p : emit_call m args = Some (n, p) ->
  is_emit_name m = true /\ emit_args m args = Some (XLit (LStr n), p).
Proof.
  unfold emit_call, is_emit_name, emit_args.
  destruct (str_eqb m (L "emit")) eqn:E1.
  - apply str_eqb_eq in E1. subst m. replace (str_eqb (L "emit") (L "emit_to")) with false by (vm_compute; reflexivity).
    destruct args as [|a0 [|a1 rest]]; try discriminate.
    + destruct a0 as [| | |l0| | | | | | | | | | | | |]; try discriminate. destruct l0; discriminate.
    + destruct a0 as [| | |l0| | | | | | | | | | | | |]; try discriminate. destruct l0; try discriminate.
      intro H. inversion H. subst. split; reflexivity.
  - destruct (str_eqb m (L "emit_to")) eqn:E2; [|discriminate].
    destruct args as [|a0 [|a1 [|a2 rest]]]; try discriminate.
    + destruct a1 as [| | |l0| | | | | | | | | | | | |]; try discriminate. destruct l0; discriminate.
    + destruct a1 as [| | |l0| | | | | | | | | | | | |]; try discriminate. destruct l0; try discriminate.
      intro H. inversion H. subst. split; reflexivity.
Qed.

Definition legal_e (e : expr) : Prop :=
  dom_expr e = true -> forall env sy s, In s (fst (sites_expr e env sy)) -> legal_event_name (s_name s) = true.
Definition legal_s (st : stmt) : Prop :=
  dom_stmt dom_expr st = true -> forall env sy s, In s (fst (fst (sites_stmt sites_expr st env sy))) -> legal_event_name (s_name s) = true.

Lemma legal_stmts ss : Forall legal_s ss -> forallb (dom_stmt dom_expr) ss = true -> forall env sy s,
  In s (fst (sites_stmts sites_expr ss env sy)) -> legal_event_name (s_name s) = true.
Proof.
  induction 1 as [|st r Hs _ IH]; intros Hb env sy s Hin; [destruct Hin|].
  cbn [forallb] in Hb. apply andb_true_iff in Hb. destruct Hb as [H1 H2].
  cbn [sites_stmts] in Hin. specialize (Hs H1 env sy).
  destruct (sites_stmt sites_expr st env sy) as [[a env1] s1]. cbn [fst] in Hs.
  specialize (IH H2 env1 s1). destruct (sites_stmts sites_expr r env1 s1) as [b s2]. cbn [fst] in *.
  apply in_app_or in Hin. destruct Hin as [Hin|Hin]; [apply Hs, Hin|apply IH, Hin].
Qed.
Lemma legal_list es : Forall legal_e es -> forallb dom_expr es = true -> forall env sy s,
  In s (fst (sites_list sites_expr es env sy)) -> legal_event_name (s_name s) = true.
Proof.
  induction 1 as [|x r Hx _ IH]; intros Hb env sy s Hin; [destruct Hin|].
  cbn [forallb] in Hb. apply andb_true_iff in Hb. destruct Hb as [H1 H2].
  cbn [sites_list] in Hin. specialize (Hx H1 env sy). destruct (sites_expr x env sy) as [a s1]. cbn [fst] in Hx.
  specialize (IH H2 env s1). destruct (sites_list sites_expr r env s1) as [b s2]. cbn [fst] in *.
  apply in_app_or in Hin. destruct Hin as [Hin|Hin]; [apply Hx, Hin|apply IH, Hin].
Qed.

Lemma sites_legal : forall e, legal_e e.
Proof.
  apply (expr_nind legal_e legal_s); unfold legal_e, legal_s.
  - intros r m args IHr _ H env sy s Hin. cbn [dom_expr] in H.
    apply andb_true_iff in H. destruct H as [H Ha]. apply andb_true_iff in H. destruct H as [Hm Hr].
    cbn [sites_expr] in Hin. specialize (IHr Hr env sy).
    destruct (sites_expr r env sy) as [a s1]. cbn [fst] in *. apply in_app_or in Hin. destruct Hin as [Hin|Hin]; [|apply IHr, Hin].
    destruct (doc_receiver r); [|destruct Hin].
    destruct (emit_call m args) as [[n p]|] eqn:Hc; [|destruct Hin]. destruct Hin as [<-|[]]. cbn [s_name].
    destruct (emit_call_args m args n p Hc) as [Hem Hargs]. rewrite Hem, Hargs in Hm.
    apply andb_true_iff in Hm. exact (proj2 Hm).
  - intros ? ? ? ? ? []. - intros ? ? ? ? ? ? ? []. - intros ? ? ? ? ? []. - intros ? ? ? ? ? [].
  - intros ? ? ? ? ? ? []. - intros ? ? ? ? ? ? ? ? []. - intros ? ? ? ? ? ? [].
  - intros ss IH H env sy s Hin. cbn [dom_expr] in H. eapply legal_stmts; eauto.
  - intros th x IHt IHx H env sy s Hin. cbn [dom_expr] in H. apply andb_true_iff in H. destruct H as [H1 H2]. cbn [sites_expr] in Hin.
    pose proof (legal_stmts th IHt H1 env sy) as Ht. destruct (sites_stmts sites_expr th env sy) as [a s1]. cbn [fst] in *.
    specialize (IHx H2 env s1). destruct (sites_expr x env s1) as [b s2]. cbn [fst] in *.
    apply in_app_or in Hin. destruct Hin as [Hin|Hin]; [apply Ht, Hin|apply IHx, Hin].
  - intros th IHt H env sy s Hin. cbn [dom_expr] in H. apply andb_true_iff in H. destruct H as [H1 _]. cbn [sites_expr] in Hin.
    pose proof (legal_stmts th IHt H1 env sy) as Ht. destruct (sites_stmts sites_expr th env sy) as [a s1]. cbn [fst] in *. apply Ht, Hin.
  - intros arms IH H env sy s Hin. cbn [dom_expr] in H. eapply legal_list; eauto.
  - intros ss IH H env sy s Hin. cbn [dom_expr] in H. eapply legal_stmts; eauto.
  - intros ss IH H env sy s Hin. cbn [dom_expr] in H. eapply legal_stmts; eauto.
  - intros ss IH H env sy s Hin. cbn [dom_expr] in H. eapply legal_stmts; eauto.
  - intros e IH H env sy s Hin. cbn [dom_expr] in H. eapply IH; eauto.
  - intros e IH H env sy s Hin. cbn [dom_expr] in H. eapply IH; eauto.
  - intros ? ? ? ? [].
  - intros e IH H env sy s Hin. cbn [dom_stmt] in H. cbn [sites_stmt] in Hin. specialize (IH H env sy). destruct (sites_expr e env sy) as [a s1]. cbn [fst] in *. apply IH, Hin.
  - intros p x IH H env sy s Hin. cbn [dom_stmt] in H. cbn [sites_stmt] in Hin. specialize (IH H env (bind_local p (Some x) sy)).
    destruct (sites_expr x env (bind_local p (Some x) sy)) as [a s1]. cbn [fst] in *. apply IH, Hin.
  - intros p H env sy s []. - intros H env sy s [].
Qed.

Theorem project_sites_legal : forall p, in_domain p = true -> forall s, In s (project_sites p) -> legal_event_name (s_name s) = true.
Proof.
  intros p H s Hin. unfold project_sites in Hin. apply in_flat_map in Hin. destruct Hin as [f [Hf Hin]].
  apply in_flat_map in Hin. destruct Hin as [d [Hd Hin]]. unfold fn_sites in Hin.
  unfold in_domain in H. rewrite forallb_forall in H. specialize (H f Hf). rewrite forallb_forall in H. specialize (H d Hd).
  exact (sites_legal (XBlock (fd_body d)) H _ _ s Hin).
Qed.
