(* C13: proofs about the order skeleton (Model/C13Order.v). *)
From Coq Require Import List Arith Lia Bool Permutation.
Require Import TT.Model.Base TT.Model.Topo TT.Model.C13Order TT.Spec.C13Rel.
Require Import TT.Proofs.TopoProofs TT.Proofs.C13SortInv.
Import ListNotations.

(* ---------------- small list facts ---------------- *)
Lemma flat_map_flat_map {A B C} (f : B -> list C) (g : A -> list B) l :
  flat_map f (flat_map g l) = flat_map (fun x => flat_map f (g x)) l.
Proof. induction l as [|a l IH]; cbn [flat_map]; auto. rewrite flat_map_app, IH. reflexivity. Qed.

Lemma find_unique {A} (f : A -> bool) l d :
  (forall x y, In x l -> In y l -> f x = true -> f y = true -> x = y) -> In d l -> f d = true -> find f l = Some d.
Proof. induction l as [|a l IH]; intros Hu Hin Hf. contradiction. cbn [find]. destruct (f a) eqn:E.
  - f_equal. apply Hu; auto. left; auto.
  - destruct Hin as [->|Hin]; [congruence|]. apply IH; auto. intros; apply Hu; auto; right; auto. Qed.
Lemma find_none_conv {A} (f : A -> bool) l : (forall x, In x l -> f x = false) -> find f l = None.
Proof. induction l as [|a l IH]; intros H; cbn [find]; auto. rewrite (H a) by (left; auto). apply IH. intros; apply H; right; auto. Qed.
Lemma NoDup_map_inj_in {A B} (g : A -> B) l x y : NoDup (map g l) -> In x l -> In y l -> g x = g y -> x = y.
Proof. induction l as [|a l IH]; intros Hn Hx Hy E. contradiction. cbn [map] in Hn. inversion Hn as [|? ? Hna Hn']; subst.
  destruct Hx as [->|Hx], Hy as [->|Hy]; auto.
  - exfalso. apply Hna. rewrite E. apply in_map; auto.
  - exfalso. apply Hna. rewrite <- E. apply in_map; auto. Qed.
Lemma NoDup_app_disj {A} (l l' : list A) : NoDup l -> NoDup l' -> (forall x, In x l -> ~ In x l') -> NoDup (l ++ l').
Proof. induction l as [|a l IH]; intros H1 H2 Hd; cbn [app]; auto. inversion H1; subst. constructor.
  - intros Hin. apply in_app_or in Hin as [Hin|Hin]; auto. apply (Hd a); auto. left; auto.
  - apply IH; auto. intros x Hx. apply Hd. right; auto. Qed.
Lemma perm_short_eq {A} (u l l' : list A) : length u < 2 -> Permutation l u -> Permutation l' u -> l = l'.
Proof. intros Hu H1 H2. destruct u as [|a [|b u]]; cbn [length] in Hu; try lia.
  - apply Permutation_sym, Permutation_nil in H1, H2. subst; auto.
  - apply Permutation_sym, Permutation_length_1_inv in H1, H2. subst; auto. Qed.
Lemma filter_length_mono {A} (f g : A -> bool) l : (forall a, f a = true -> g a = true) -> length (filter f l) <= length (filter g l).
Proof. intros H. induction l as [|a l IH]; cbn [filter]; auto. destruct (f a) eqn:E.
  - rewrite (H a E). cbn [length]. lia. - destruct (g a); cbn [length]; lia. Qed.
Lemma has_dup_NoDup l : has_dup l = false -> NoDup l.
Proof. induction l as [|a l IH]; cbn [has_dup]; intros H. constructor. apply orb_false_iff in H as [H1 H2].
  constructor; auto. apply memb_false in H1; auto. Qed.
Definition eqset {A} (l l' : list A) := forall x, In x l <-> In x l'.
Lemma perm_eqset {A} (l l' : list A) : Permutation l l' -> eqset l l'.
Proof. intros H x; split; apply Permutation_in; auto. apply Permutation_sym; auto. Qed.

(* ---------------- the file loop ---------------- *)
Lemma files_perm w p : Permutation (files_in_order w p) p.
Proof. apply order_by_perm. Qed.
Lemma all_cmds_items p : all_cmds p = flat_map item_cmds (all_items p).
Proof. unfold all_cmds, all_items, file_cmds. symmetry. apply flat_map_flat_map. Qed.
Lemma all_events_items p : all_events p = flat_map item_events (all_items p).
Proof. unfold all_events, all_items, file_events. symmetry. apply flat_map_flat_map. Qed.
Lemma all_types_items p : all_types p = flat_map item_types (all_items p).
Proof. unfold all_types, all_items, file_types. symmetry. apply flat_map_flat_map. Qed.
Lemma commands_perm w p : Permutation (commands w p) (all_cmds p).
Proof. apply Permutation_flat_map, files_perm. Qed.
Lemma events_perm w p : Permutation (events w p) (all_events p).
Proof. apply Permutation_flat_map, files_perm. Qed.
Lemma index_perm w p : Permutation (index w p) (all_types p).
Proof. apply Permutation_flat_map, files_perm. Qed.

(* ---------------- the index ---------------- *)
Lemma lookup_perm idx idx' n : NoDup (map t_name idx) -> Permutation idx idx' -> lookup idx n = lookup idx' n.
Proof. intros Hn Hp. unfold lookup. set (f := fun d => Nat.eqb (t_name d) n).
  assert (Hn' : NoDup (map t_name idx')) by (eapply Permutation_NoDup; [apply Permutation_map; exact Hp|exact Hn]).
  destruct (find f (rev idx)) as [d|] eqn:E.
  - apply find_some in E as [Hin Hf]. symmetry. apply find_unique; auto.
    + intros x y Hx Hy Fx Fy. apply (NoDup_map_inj_in t_name idx'); auto; try (apply in_rev; auto).
      unfold f in Fx, Fy. apply Nat.eqb_eq in Fx, Fy. congruence.
    + apply in_rev. rewrite rev_involutive. eapply Permutation_in; [exact Hp|]. apply in_rev; auto.
  - symmetry. apply find_none_conv. intros x Hx. apply (find_none _ _ E). apply in_rev. rewrite rev_involutive.
    eapply Permutation_in; [apply Permutation_sym; exact Hp|]. apply in_rev in Hx. exact Hx. Qed.

Lemma lookup_none idx n : existsb (fun d => Nat.eqb (t_name d) n) idx = false -> lookup idx n = None.
Proof. intros H. unfold lookup. apply find_none_conv. intros x Hx. apply in_rev in Hx.
  destruct (Nat.eqb (t_name x) n) eqn:E; auto. rewrite <- H. symmetry. apply existsb_exists. exists x; auto. Qed.
Lemma deps_map_assoc (E : name -> list name) l n :
  deps (map (fun d => (t_name d, E (t_name d))) l) n = if existsb (fun d => Nat.eqb (t_name d) n) l then E n else [].
Proof. induction l as [|a l IH]; cbn [map deps existsb]; auto. destruct (eq_dec n (t_name a)) as [->|Hne].
  - rewrite Nat.eqb_refl. reflexivity.
  - rewrite IH. replace (Nat.eqb (t_name a) n) with false; [reflexivity|]. symmetry. apply Nat.eqb_neq. auto. Qed.
Lemma deps_dep_graph idx n : deps (dep_graph idx) n = succs idx n.
Proof. unfold dep_graph. rewrite deps_map_assoc. destruct (existsb _ idx) eqn:E; auto.
  unfold succs. rewrite lookup_none; auto. Qed.

Lemma reach_ext (g g' : Topo.graph name) :
  (forall n x, In x (deps g n) <-> In x (deps g' n)) -> forall a b, reach g a b -> reach g' a b.
Proof. intros H a b R. induction R as [a|a b c He R IH]. constructor. econstructor; eauto. unfold edge in *. apply H; auto. Qed.

Lemma reach_list_spec g roots :
  NoDup (reach_list g roots) /\ forall n, In n (reach_list g roots) <-> exists r, In r roots /\ reach g r n.
Proof. unfold reach_list. destruct (topo_total g roots) as [out E]. rewrite E.
  destruct (topo_correct _ _ _ _ E) as (H1 & H2 & _). split; auto. Qed.

(* ---------------- the used set ---------------- *)
Definition Rch (idx : list tdef) (roots : list name) (n : name) : Prop :=
  defined idx n = true /\ exists r, In r roots /\ reach (dep_graph idx) r n.

Lemma from_cmds_in idx roots n : In n (filter (defined idx) (reach_list (dep_graph idx) roots)) <-> Rch idx roots n.
Proof. rewrite filter_In. destruct (reach_list_spec (dep_graph idx) roots) as [_ H]. rewrite H. unfold Rch. tauto. Qed.

Lemma used_in idx p n : In n (used idx p) <-> Rch idx (cmd_roots p ++ ev_roots p) n.
Proof. unfold used. apply from_cmds_in. Qed.

Lemma used_NoDup idx p : NoDup (used idx p).
Proof. unfold used. apply NoDup_filter. apply reach_list_spec. Qed.

Lemma Rch_ext idx idx' roots roots' n :
  (forall m, lookup idx m = lookup idx' m) -> eqset roots roots' -> Rch idx roots n -> Rch idx' roots' n.
Proof. intros Hl Hr [Hd (r & Hr1 & Hr2)]. split.
  - unfold defined in *. rewrite <- Hl. exact Hd.
  - exists r. split; [apply Hr; auto|]. eapply reach_ext; [|exact Hr2].
    intros m x. rewrite !deps_dep_graph. unfold succs. rewrite Hl. tauto. Qed.

Lemma used_perm idx idx' p p' :
  (forall m, lookup idx m = lookup idx' m) -> eqset (cmd_roots p) (cmd_roots p') -> eqset (ev_roots p) (ev_roots p') ->
  Permutation (used idx p) (used idx' p').
Proof. intros Hl Hc He. apply NoDup_Permutation; try apply used_NoDup. intros n. rewrite !used_in.
  assert (Hr : eqset (cmd_roots p ++ ev_roots p) (cmd_roots p' ++ ev_roots p')).
  { intros x. rewrite !in_app_iff. rewrite (Hc x), (He x). tauto. }
  split; intros H.
  - eapply Rch_ext; eauto.
  - eapply Rch_ext; [| |exact H]. intros; symmetry; auto. intros x; symmetry; apply Hr. Qed.

Lemma zod_order_perm w idx p : Permutation (zod_order w idx p) (used idx p).
Proof. apply NoDup_Permutation.
  - unfold zod_order. apply NoDup_filter. apply reach_list_spec.
  - apply used_NoDup.
  - intros n. unfold zod_order. rewrite filter_In. rewrite memb_true.
    destruct (reach_list_spec (zod_graph w idx p) (order_by ident (w_req w) (used idx p))) as [_ H]. rewrite H.
    split; [tauto|]. intros Hn. split; auto. exists n. split; [|constructor].
    eapply Permutation_in; [apply Permutation_sym, order_by_perm|exact Hn]. Qed.

(* ---------------- declarations ---------------- *)
Lemma type_decls_plain_perm idx idx' ns ns' :
  (forall m, lookup idx m = lookup idx' m) -> Permutation ns ns' ->
  Permutation (type_decls_plain idx ns) (type_decls_plain idx' ns').
Proof. intros Hl Hp. unfold type_decls_plain. eapply perm_trans; [apply Permutation_flat_map; exact Hp|].
  erewrite flat_map_ext; [apply Permutation_refl|]. intros a. cbv beta. rewrite Hl. reflexivity. Qed.
Lemma type_decls_zod_perm idx idx' ns ns' :
  (forall m, lookup idx m = lookup idx' m) -> Permutation ns ns' ->
  Permutation (type_decls_zod idx ns) (type_decls_zod idx' ns').
Proof. intros Hl Hp. unfold type_decls_zod. eapply perm_trans; [apply Permutation_flat_map; exact Hp|].
  erewrite flat_map_ext; [apply Permutation_refl|]. intros a. cbv beta. rewrite Hl. reflexivity. Qed.

(* ---------------- listeners: one per event name, first emit site wins ---------------- *)
Definition consistent (es : list ev) : Prop :=
  forall a b, In a es -> In b es -> e_name a = e_name b -> e_pay a = e_pay b.

Lemma dupevent_consistent p : kf_dupevent p = false -> consistent (all_events p).
Proof. unfold kf_dupevent, all_events. intros H a b Ha Hb E.
  destruct (Nat.eqb (e_pay a) (e_pay b)) eqn:Ep; [apply Nat.eqb_eq; auto|]. exfalso.
  match type of H with ?L = false => assert (X : L = true) end; [|rewrite X in H; discriminate].
  apply existsb_exists. exists a. split; auto. apply existsb_exists. exists b. split; auto.
  rewrite E, Nat.eqb_refl, Ep. reflexivity. Qed.

Lemma dedup_incl es : forall seen e, In e (dedup_events seen es) -> In e es /\ ~ In (e_name e) seen.
Proof. induction es as [|a es IH]; intros seen e; cbn [dedup_events]. contradiction.
  destruct (memb (e_name a) seen) eqn:M.
  - intros H. apply IH in H as [H1 H2]. split; auto. right; auto.
  - intros [<-|H]. split; [left; auto|]. apply memb_false; auto.
    apply IH in H as [H1 H2]. split; [right; auto|]. intros Hs. apply H2. right; auto. Qed.
Lemma dedup_names_NoDup es : forall seen, NoDup (map e_name (dedup_events seen es)).
Proof. induction es as [|a es IH]; intros seen; cbn [dedup_events]. constructor.
  destruct (memb (e_name a) seen); [apply IH|]. cbn [map]. constructor; [|apply IH].
  intros Hin. apply in_map_iff in Hin as (e & E & He). apply dedup_incl in He as [_ Hn]. apply Hn. left. auto. Qed.
Lemma dedup_covers es : forall seen e, In e es -> ~ In (e_name e) seen ->
  exists e0, In e0 (dedup_events seen es) /\ e_name e0 = e_name e.
Proof. induction es as [|a es IH]; intros seen e Hin Hs. contradiction. cbn [dedup_events].
  destruct (memb (e_name a) seen) eqn:M.
  - destruct Hin as [->|Hin]. apply memb_true in M. contradiction. apply IH; auto.
  - destruct Hin as [->|Hin]. exists e. split; [left|]; auto.
    destruct (Nat.eq_dec (e_name e) (e_name a)) as [E|E]. exists a. split; [left; auto|auto].
    destruct (IH (e_name a :: seen) e Hin) as (e0 & H0 & E0). intros [H|H]; [congruence|auto].
    exists e0. split; [right|]; auto. Qed.

Definition decl_event (d : decl) : name := match d with DListener e _ => e | _ => 0 end.
Lemma listeners_NoDup es : NoDup (map listener_decl (dedup_events [] es)).
Proof. apply (NoDup_map_inv decl_event). rewrite map_map. apply (dedup_names_NoDup es []). Qed.
Lemma listeners_incl es es' d : consistent es -> eqset es es' ->
  In d (map listener_decl (dedup_events [] es)) -> In d (map listener_decl (dedup_events [] es')).
Proof. intros Hc Hs Hd. apply in_map_iff in Hd as (e & <- & He). apply dedup_incl in He as [He _].
  destruct (dedup_covers es' [] e) as (e0 & H0 & E0). apply Hs; auto. intros [].
  apply in_map_iff. exists e0. split; auto. unfold listener_decl. rewrite E0. f_equal.
  apply Hc; auto. apply Hs. apply dedup_incl in H0 as [H0 _]. exact H0. Qed.
Lemma listeners_perm es es' : consistent es -> Permutation es es' ->
  Permutation (map listener_decl (dedup_events [] es)) (map listener_decl (dedup_events [] es')).
Proof. intros Hc Hp. assert (Hs : eqset es es') by (apply perm_eqset; auto).
  apply NoDup_Permutation; try apply listeners_NoDup. intros d. split.
  - apply listeners_incl; auto.
  - apply listeners_incl. intros a b Ha Hb. apply Hc; apply Hs; auto. intros x; symmetry; apply Hs. Qed.

Lemma events_file_perm es es' : consistent es -> Permutation es es' ->
  opt_perm (match es with [] => None | e :: l => Some (map listener_decl (dedup_events [] (e :: l))) end)
           (match es' with [] => None | e :: l => Some (map listener_decl (dedup_events [] (e :: l))) end) /\
  (match es with [] => @nil decl | _ => [DReexport 2] end) = (match es' with [] => [] | _ => [DReexport 2] end).
Proof. intros Hc H. destruct es as [|e es], es' as [|e' es'].
  - split; cbn; auto. - apply Permutation_nil in H. discriminate.
  - apply Permutation_sym, Permutation_nil in H. discriminate.
  - split; [|reflexivity]. cbn [opt_perm]. apply listeners_perm; auto. Qed.

(* ---------------- C13_move / C13_set_independent ---------------- *)
(* the pipeline as a function of the orders it is handed *)
Theorem raw_perm : forall p p',
  Permutation (all_cmds p) (all_cmds p') -> Permutation (all_events p) (all_events p') ->
  Permutation (all_types p) (all_types p') -> kf_dupdef p = false -> kf_dupevent p = false ->
  forall zod w w', out_perm (gen_raw zod w p) (gen_raw zod w' p').
Proof.
  intros p p' Hpc Hpe Hpt Hd Hde zod w w'.
  assert (Hc : Permutation (commands w p) (commands w' p')).
  { eapply perm_trans; [apply commands_perm|]. eapply perm_trans; [|apply Permutation_sym, commands_perm]. exact Hpc. }
  assert (He : Permutation (events w p) (events w' p')).
  { eapply perm_trans; [apply events_perm|]. eapply perm_trans; [|apply Permutation_sym, events_perm]. exact Hpe. }
  assert (Hi : Permutation (index w p) (index w' p')).
  { eapply perm_trans; [apply index_perm|]. eapply perm_trans; [|apply Permutation_sym, index_perm]. exact Hpt. }
  assert (Hn : NoDup (map t_name (index w p))).
  { eapply Permutation_NoDup; [apply Permutation_map, Permutation_sym, index_perm|]. apply has_dup_NoDup. exact Hd. }
  assert (Hl : forall m, lookup (index w p) m = lookup (index w' p') m) by (intros; apply lookup_perm; auto).
  assert (Hcr : eqset (cmd_roots p) (cmd_roots p')).
  { apply perm_eqset. unfold cmd_roots. apply Permutation_flat_map. exact Hpc. }
  assert (Her : eqset (ev_roots p) (ev_roots p')).
  { apply perm_eqset. unfold ev_roots. apply Permutation_flat_map. exact Hpe. }
  assert (Hu : Permutation (used (index w p) p) (used (index w' p') p')) by (apply used_perm; auto).
  assert (Hcons : consistent (events w p)).
  { intros a b Ha Hb. apply (dupevent_consistent p Hde).
    - eapply Permutation_in; [apply events_perm|exact Ha].
    - eapply Permutation_in; [apply events_perm|exact Hb]. }
  unfold gen_raw. destruct (commands w p) as [|c cs] eqn:E1, (commands w' p') as [|c' cs'] eqn:E2.
  - exact I. - apply Permutation_nil in Hc. discriminate.
  - apply Permutation_sym, Permutation_nil in Hc. discriminate.
  - cbn [out_perm o_types o_commands o_events o_index]. unfold types_file, commands_file, events_file, index_file.
    rewrite E1, E2. destruct (events_file_perm _ _ Hcons He) as [Hev Hix]. repeat split.
    + destruct zod.
      * apply Permutation_app; [|apply Permutation_app; apply Permutation_flat_map; exact Hc].
        apply type_decls_zod_perm; auto. eapply perm_trans; [apply zod_order_perm|].
        eapply perm_trans; [exact Hu|]. apply Permutation_sym, zod_order_perm.
      * apply Permutation_app; [|apply Permutation_flat_map; exact Hc].
        apply type_decls_plain_perm; auto. eapply perm_trans; [apply order_by_perm|].
        eapply perm_trans; [exact Hu|]. apply Permutation_sym, order_by_perm.
    + apply Permutation_app_head. apply Permutation_map. exact Hc.
    + exact Hev.
    + f_equal. exact Hix.
Qed.

Theorem move_perm : forall p p', Permutation (all_items p) (all_items p') -> kf_dupdef p = false -> kf_dupevent p = false ->
  forall zod w w', out_perm (gen zod w p) (gen zod w' p').
Proof. intros p p' Hp Hd He zod w w'. unfold gen. apply raw_perm; auto.
  - rewrite !all_cmds_items. apply Permutation_flat_map; auto.
  - rewrite !all_events_items. apply Permutation_flat_map; auto.
  - rewrite !all_types_items. apply Permutation_flat_map; auto. Qed.
