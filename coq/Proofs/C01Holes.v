(* C01: hole lemmas. For each hole class of the chunk model (Model/C01Emit.v): when the text the
   generator puts into the hole belongs to the class, in terms of the project. *)
From Coq Require Import String Ascii.
From Coq Require Import List Arith Bool Lia NArith.
Require Import TT.Model.Str TT.Model.TypeParse TT.Model.Pipeline.
Require Import TT.Spec.TsLex TT.Spec.TsModule TT.Spec.TsObs TT.Spec.C01Wf TT.Model.C01Emit.
Import ListNotations.
Local Open Scope list_scope.

(* ---------------------------------------------------------------- character facts (256-case sweeps) *)
Ltac sweep c := destruct c as [[] [] [] [] [] [] [] []]; vm_compute; try reflexivity; try congruence; auto.

Definition ascii_letter (c : ascii) : bool := lowerp c || upperp c.
Definition ascii_idc (c : ascii) : bool := ascii_letter c || is_digit c || is_us c.
(* a Rust identifier that starts with an ASCII letter: [A-Za-z][A-Za-z0-9_]* *)
Definition plain_ident (s : str) : bool :=
  match s with c :: r => ascii_letter c && forallb ascii_idc r | [] => false end.

Lemma letter_id_start c : ascii_letter c = true -> is_id_start c = true.
Proof. sweep c. Qed.
Lemma idc_id_char c : ascii_idc c = true -> is_id_char c = true.
Proof. sweep c. Qed.
Lemma up_letter c : ascii_letter c = true -> ascii_letter (up c) = true.
Proof. sweep c. Qed.
Lemma low_letter c : ascii_letter c = true -> ascii_letter (low c) = true.
Proof. sweep c. Qed.
Lemma up_idc c : ascii_idc c = true -> ascii_idc (up c) = true.
Proof. sweep c. Qed.
Lemma letter_not_us c : ascii_letter c = true -> is_us c = false.
Proof. sweep c. Qed.
Lemma letter_idc c : ascii_letter c = true -> ascii_idc c = true.
Proof. sweep c. Qed.

(* ---------------------------------------------------------------- naming keeps identifiers *)
Lemma pascal_idc : forall s cap, forallb ascii_idc s = true -> forallb ascii_idc (pascal cap s) = true.
Proof. induction s as [|c s IH]; intros cap H; [reflexivity|].
  cbn [forallb] in H. apply andb_true_iff in H as [Hc Hs]. cbn [pascal].
  destruct (is_us c); [apply IH; exact Hs|].
  destruct cap; cbn [forallb]; rewrite (IH _ Hs), ?andb_true_r; [apply up_idc|]; exact Hc. Qed.

Lemma pascal_plain s : plain_ident s = true -> plain_ident (pascal true s) = true.
Proof. destruct s as [|c s]; [discriminate|]. cbn [plain_ident]. intros H. apply andb_true_iff in H as [Hc Hs].
  cbn [pascal]. rewrite (letter_not_us _ Hc). cbn [plain_ident]. rewrite (up_letter _ Hc). cbn [andb].
  apply pascal_idc. exact Hs. Qed.

Lemma camel_plain s : plain_ident s = true -> plain_ident (camel s) = true.
Proof. intros H. apply pascal_plain in H. unfold camel. destruct (pascal true s) as [|c r]; [discriminate|].
  cbn [plain_ident] in *. apply andb_true_iff in H as [Hc Hr]. rewrite (low_letter _ Hc), Hr. reflexivity. Qed.

Lemma camel2_plain s : plain_ident s = true -> plain_ident (camel2 s) = true.
Proof. intros H. apply pascal_plain in H. unfold camel2. destruct (pascal true s) as [|c r]; [discriminate|].
  cbn [plain_ident] in *. apply andb_true_iff in H as [Hc Hr]. rewrite (low_letter _ Hc), Hr. reflexivity. Qed.

Lemma map_up_plain s : plain_ident s = true -> plain_ident (map up s) = true.
Proof. destruct s as [|c s]; [discriminate|]. cbn [plain_ident map]. intros H. apply andb_true_iff in H as [Hc Hs].
  rewrite (up_letter _ Hc). cbn [andb]. rewrite forallb_forall in *. intros x Hx. apply in_map_iff in Hx as [y [<- Hy]].
  apply up_idc, Hs, Hy. Qed.

Lemma plain_is_identifier s : plain_ident s = true -> is_ts_identifier s = true.
Proof. destruct s as [|c s]; [discriminate|]. cbn [plain_ident is_ts_identifier]. intros H. apply andb_true_iff in H as [Hc Hs].
  rewrite (letter_id_start _ Hc). cbn [andb]. rewrite forallb_forall in *. intros x Hx. apply idc_id_char, Hs, Hx. Qed.

(* ASCII strings pass the Unicode table tests trivially *)
Definition ascii_byte (c : ascii) : bool := (bN c <? 128)%N.
Lemma uni_ascii ps pc : forall s first, forallb ascii_byte s = true -> uni_walk ps pc first s = true.
Proof. induction s as [|c s IH]; intros first H; [reflexivity|]. cbn [forallb] in H. apply andb_true_iff in H as [Hc Hs].
  cbn [uni_walk]. unfold ascii_byte in Hc. rewrite Hc. apply IH, Hs. Qed.
Lemma idc_ascii c : ascii_idc c = true -> ascii_byte c = true.
Proof. sweep c. Qed.
Lemma plain_ascii s : plain_ident s = true -> forallb ascii_byte s = true.
Proof. destruct s as [|c s]; [discriminate|]. cbn [plain_ident forallb]. intros H. apply andb_true_iff in H as [Hc Hs].
  rewrite (idc_ascii _ (letter_idc _ Hc)). cbn [andb]. rewrite forallb_forall in *. intros x Hx. apply idc_ascii, Hs, Hx. Qed.
Lemma plain_is_ident_name s : plain_ident s = true -> is_ident_name s = true.
Proof. intros H. unfold is_ident_name, uni_ok. rewrite (plain_is_identifier _ H), (uni_ascii _ _ _ _ (plain_ascii _ H)). reflexivity. Qed.
Lemma plain_rust_ident s : plain_ident s = true -> rust_ident_name s = true.
Proof. intros H. unfold rust_ident_name. rewrite (plain_is_identifier _ H), (uni_ascii _ _ _ _ (plain_ascii _ H)). reflexivity. Qed.

Definition kebab_rule (r : rule) : bool := match r with RKebab | RScreamingKebab => true | _ => false end.

Lemma apply_rule_plain r s : kebab_rule r = false -> plain_ident s = true -> plain_ident (apply_rule r s) = true.
Proof. destruct r; cbn [kebab_rule apply_rule]; intros Hk H; try discriminate; auto using pascal_plain, camel2_plain, map_up_plain. Qed.

(* ---------------------------------------------------------------- key holes *)
(* the effective rule of a field / parameter *)
Definition eff_rule (rename_all : option rule) (dflt : str) : rule :=
  match rename_all with Some r => r | None => default_rule dflt end.
Definition holes_ok (cs : list chunk) : bool := forallb (fun h => hole_ok (fst h) (snd h)) (holes cs).
(* without an explicit rename and with a non-kebab convention, identifiers stay identifiers *)
Lemma key_hole_no_rename name rename_all dflt :
  plain_ident name = true -> kebab_rule (eff_rule rename_all dflt) = false ->
  hole_ok HKey (serialized name None rename_all dflt) = true.
Proof. intros Hn Hk. cbn [hole_ok]. unfold key_text_ok, serialized.
  assert (plain_ident (apply_rule (eff_rule rename_all dflt) name) = true) as H by (apply apply_rule_plain; assumption).
  unfold eff_rule in H. destruct rename_all; rewrite (plain_is_ident_name _ H); reflexivity. Qed.

Lemma key_bare_no_rename name rename_all dflt :
  plain_ident name = true -> kebab_rule (eff_rule rename_all dflt) = false ->
  key_chunk (serialized name None rename_all dflt) = Hole HKey (serialized name None rename_all dflt).
Proof. intros Hn Hk. unfold key_chunk, serialized.
  assert (plain_ident (apply_rule (eff_rule rename_all dflt) name) = true) as H by (apply apply_rule_plain; assumption).
  unfold eff_rule in H. destruct rename_all; rewrite (plain_rust_ident _ H); reflexivity. Qed.

(* ---------------------------------------------------------------- function-name holes *)
Definition kf_reserved_fn (name : str) : bool :=
  is_reserved (camel2 name) || str_eqb (camel2 name) (L "eval") || str_eqb (camel2 name) (L "arguments").

Lemma fn_hole name : plain_ident name = true -> kf_reserved_fn name = false -> hole_ok HFn (camel2 name) = true.
Proof. intros Hn Hk. cbn [hole_ok]. unfold is_binding_name, kf_reserved_fn in *.
  rewrite (plain_is_ident_name _ (camel2_plain _ Hn)).
  apply orb_false_iff in Hk as [Hk Ha]. apply orb_false_iff in Hk as [Hr He]. rewrite Hr, He, Ha. reflexivity. Qed.

Lemma tyname_hole name suffix :
  plain_ident name = true -> forallb ascii_idc suffix = true -> is_reserved (pascal true name ++ suffix) = false ->
  str_eqb (pascal true name ++ suffix) (L "eval") = false -> str_eqb (pascal true name ++ suffix) (L "arguments") = false ->
  hole_ok HTyName (pascal true name ++ suffix) = true.
Proof. intros Hn Hs Hr He Ha. cbn [hole_ok]. unfold is_binding_name. rewrite Hr, He, Ha.
  assert (plain_ident (pascal true name ++ suffix) = true) as H.
  { pose proof (pascal_plain _ Hn) as Hp. destruct (pascal true name) as [|c r]; [discriminate|].
    cbn [plain_ident app] in *. apply andb_true_iff in Hp as [Hc Hr']. rewrite Hc, forallb_app, Hr', Hs. reflexivity. }
  rewrite (plain_is_ident_name _ H). reflexivity. Qed.

Lemma fn_hole_refuted :
  hole_ok HFn (camel2 (L "delete")) = false /\ hole_ok HFn (camel2 (unraw (L "r#in"))) = false /\
  hole_ok HFn (camel2 (L "_2fa")) = false.
Proof. vm_compute. repeat split. Qed.
(* raw identifiers are read without their prefix since the repair of C01-raw-ident *)
Lemma fn_hole_raw_witness : camel2 (unraw (L "r#match")) = L "match" /\ hole_ok HFn (camel2 (unraw (L "r#match"))) = true.
Proof. vm_compute. split; reflexivity. Qed.

(* listener names (repaired: every character that is not ASCII alphanumeric becomes an underscore before
   PascalCase): legal binding names for EVERY event name *)
Lemma other_idc c : (ascii_alnum (us_of_other c) || is_us (us_of_other c)) = true.
Proof. sweep c. Qed.
Lemma alnum_keep c : (ascii_alnum c || is_us c) = true -> is_us c = false -> is_id_char c = true /\ is_id_char (up c) = true.
Proof. sweep c. Qed.
Lemma pascal_alnum : forall s cap, forallb (fun c => ascii_alnum c || is_us c) s = true -> forallb is_id_char (pascal cap s) = true.
Proof. induction s as [|c s IH]; intros cap H; [reflexivity|].
  cbn [forallb] in H. apply andb_true_iff in H as [Hc Hs]. cbn [pascal].
  destruct (is_us c) eqn:Hu; [apply IH; exact Hs|].
  assert ((ascii_alnum c || is_us c) = true) as Hc' by (rewrite Hu; exact Hc).
  destruct (alnum_keep c Hc' Hu) as [H1 H2].
  destruct cap; cbn [forallb]; rewrite (IH _ Hs), ?andb_true_r; assumption. Qed.
Lemma starts_on x : starts (L "on") ("o"%char :: "n"%char :: x) = true.
Proof. reflexivity. Qed.
Lemma str_eqb_eq a b : str_eqb a b = true -> a = b.
Proof. unfold str_eqb. destruct (list_eq_dec ascii_dec a b); [auto|discriminate]. Qed.
Lemma on_not_reserved x : is_reserved ("o"%char :: "n"%char :: x) = false.
Proof. destruct (is_reserved ("o"%char :: "n"%char :: x)) eqn:E; [|reflexivity]. unfold is_reserved in E.
  apply existsb_exists in E as [w [Hin Heq]]. apply str_eqb_eq in Heq.
  assert (forallb (fun w => negb (starts (L "on") (L w))) reserved_words = true) as HF by (vm_compute; reflexivity).
  rewrite forallb_forall in HF. specialize (HF w Hin). rewrite <- Heq, starts_on in HF. discriminate. Qed.
Lemma on_not_word x (w : string) : starts (L "on") (L w) = false -> str_eqb ("o"%char :: "n"%char :: x) (L w) = false.
Proof. intros Hw. destruct (str_eqb ("o"%char :: "n"%char :: x) (L w)) eqn:E; [|reflexivity].
  apply str_eqb_eq in E. rewrite <- E, starts_on in Hw. discriminate. Qed.
Lemma alnum_ascii c : (ascii_alnum c || is_us c) = true -> is_us c = false -> ascii_byte c = true /\ ascii_byte (up c) = true.
Proof. sweep c. Qed.
Lemma pascal_ascii : forall s cap, forallb (fun c => ascii_alnum c || is_us c) s = true -> forallb ascii_byte (pascal cap s) = true.
Proof. induction s as [|c s IH]; intros cap H; [reflexivity|].
  cbn [forallb] in H. apply andb_true_iff in H as [Hc Hs]. cbn [pascal].
  destruct (is_us c) eqn:Hu; [apply IH; exact Hs|].
  assert ((ascii_alnum c || is_us c) = true) as Hc' by (rewrite Hu; exact Hc).
  destruct (alnum_ascii c Hc' Hu) as [H1 H2].
  destruct cap; cbn [forallb]; rewrite (IH _ Hs), ?andb_true_r; assumption. Qed.
Lemma event_fn_hole name : hole_ok HFn (event_fn name) = true.
Proof. cbn [hole_ok]. unfold event_fn, is_binding_name. change (L "on" ++ ?x) with ("o"%char :: "n"%char :: x).
  rewrite on_not_reserved. rewrite !on_not_word by reflexivity.
  cbn [negb andb]. rewrite !andb_true_r.
  assert (forallb (fun c => ascii_alnum c || is_us c) (map us_of_other name) = true) as HA.
  { rewrite forallb_forall. intros c Hc. apply in_map_iff in Hc as [y [<- _]]. apply other_idc. }
  unfold is_ident_name, uni_ok. apply andb_true_iff. split.
  - cbn [is_ts_identifier]. change (is_id_start "o"%char) with true. cbn [andb forallb].
    change (is_id_char "n"%char) with true. cbn [andb]. apply pascal_alnum. exact HA.
  - apply uni_ascii. cbn [forallb]. change (ascii_byte "o"%char) with true. change (ascii_byte "n"%char) with true. cbn [andb].
    apply pascal_ascii. exact HA. Qed.
Lemma event_fn_example : event_fn (L "user:created/now") = L "onUserCreatedNow" /\ event_fn (L "app://ready") = L "onAppReady".
Proof. vm_compute. split; reflexivity. Qed.

(* ---------------------------------------------------------------- string-literal holes *)
Definition body_char_ok (q c : ascii) : bool := negb (is_line_term c) && negb (Ascii.eqb c q) && negb (Ascii.eqb c "\"%char).
Lemma str_body_plain q s : forallb (body_char_ok q) s = true -> str_body_ok q s = true.
Proof. induction s as [|c s IH]; [reflexivity|]. cbn [forallb]. intros H. apply andb_true_iff in H as [Hc Hs].
  unfold body_char_ok in Hc. apply andb_true_iff in Hc as [Hc Hb]. apply andb_true_iff in Hc as [Hl Hq].
  cbn [str_body_ok]. destruct (is_line_term c); [discriminate|]. destruct (Ascii.eqb c q); [discriminate|].
  destruct (Ascii.eqb c "\"%char); [discriminate|]. apply IH, Hs. Qed.

Lemma idc_body_char q c : ascii_idc c = true -> (Ascii.eqb q "'"%char || Ascii.eqb q """"%char) = true -> body_char_ok q c = true.
Proof. intros Hc Hq. unfold body_char_ok.
  assert (is_line_term c = false) as -> by (revert Hc; sweep c).
  assert (Ascii.eqb c "\"%char = false) as -> by (revert Hc; sweep c).
  apply orb_true_iff in Hq as [Hq|Hq]; apply Ascii.eqb_eq in Hq; subst q; revert Hc; sweep c. Qed.

(* command names inside invoke('..') *)
Lemma str_hole_ident name : plain_ident name = true -> hole_ok (HStr SQ) name = true.
Proof. intros H. cbn [hole_ok]. apply str_body_plain. destruct name as [|c r]; [discriminate|].
  cbn [plain_ident] in H. apply andb_true_iff in H as [Hc Hr]. cbn [forallb].
  rewrite (idc_body_char SQ c (letter_idc _ Hc) eq_refl). cbn [andb].
  rewrite forallb_forall in *. intros x Hx. apply idc_body_char; [apply Hr, Hx|reflexivity]. Qed.

(* event names inside listen('..'): Tauri's alphabet *)
Definition event_char (c : ascii) : bool := ascii_idc c || existsb (Ascii.eqb c) (L "-/:").
Lemma event_body_char c : event_char c = true -> body_char_ok SQ c = true.
Proof. sweep c. Qed.
Lemma str_hole_event name : forallb event_char name = true -> hole_ok (HStr SQ) name = true.
Proof. intros H. cbn [hole_ok]. apply str_body_plain. rewrite forallb_forall in *. intros x Hx. apply event_body_char, H, Hx. Qed.

(* validator messages: the body escape_js_string prints is well formed, whatever the message *)
Lemma str_body_esc1 c rest : str_body_ok DQ (esc1 c ++ rest) = str_body_ok DQ rest.
Proof. unfold esc1.
  destruct (Ascii.eqb c "\"%char) eqn:Hbs; [reflexivity|].
  destruct (Ascii.eqb c DQ) eqn:Hdq; [reflexivity|].
  destruct (nat_of_ascii c =? 10)%nat eqn:H10; [reflexivity|].
  destruct (nat_of_ascii c =? 13)%nat eqn:H13; [reflexivity|].
  destruct (nat_of_ascii c =? 9)%nat eqn:H9; [reflexivity|].
  cbn [app str_body_ok]. unfold is_line_term, n_of. rewrite H10, H13. cbn [orb]. rewrite Hdq, Hbs. reflexivity. Qed.
Lemma str_hole_message m : hole_ok (HStr DQ) (escape_js m) = true.
Proof. cbn [hole_ok]. unfold escape_js. induction m as [|c m IH]; [reflexivity|].
  cbn [flat_map]. rewrite str_body_esc1. exact IH. Qed.

(* enum literals go through the same escaping since the repair of C01-literal-backslash: the old witness
   (variant rename with a double quote, scanned as the letter a followed by a backslash) now gives a well-formed literal *)
Lemma str_hole_enum_witness :
  escape_js (scanned (L "a""b")) = L "a\\" /\ hole_ok (HStr DQ) (escape_js (scanned (L "a""b"))) = true.
Proof. vm_compute. split; reflexivity. Qed.

(* property keys (ts_key filter, after the repair of C01-key-other-number): whatever the filter prints bare is an
   ECMAScript identifier name, so for EVERY byte string the printed key is an identifier name or a well-formed
   double-quoted literal; likewise the member access *)
Lemma uni_walk_mono ps pc ps' pc' :
  (forall cp, ps cp = true -> ps' cp = true) -> (forall cp, pc cp = true -> pc' cp = true) ->
  forall n s first, List.length s <= n -> uni_walk ps pc first s = true -> uni_walk ps' pc' first s = true.
Proof. intros Hs Hc. induction n as [|n IH]; intros s first Hn H.
  - destruct s; [reflexivity|cbn in Hn; lia].
  - destruct s as [|a r]; [reflexivity|]. cbn [uni_walk] in *. cbn [List.length] in Hn.
    assert (forall cp, (if first then ps cp else pc cp) = true -> (if first then ps' cp else pc' cp) = true) as Hok
      by (intros cp; destruct first; auto).
    destruct (bN a <? 128)%N; [apply IH; [lia|exact H]|].
    destruct (bN a <? 194)%N; [discriminate|].
    destruct (bN a <? 224)%N.
    { destruct r as [|b r']; [discriminate|]. apply andb_true_iff in H as [H H3]. apply andb_true_iff in H as [H1 H2].
      rewrite H1, (Hok _ H2). cbn [andb]. apply IH; [cbn [List.length] in Hn; lia|exact H3]. }
    destruct (bN a <? 240)%N.
    { destruct r as [|b [|c r']]; try discriminate. apply andb_true_iff in H as [H H4]. apply andb_true_iff in H as [H H3].
      apply andb_true_iff in H as [H1 H2]. rewrite H1, H2, (Hok _ H3). cbn [andb]. apply IH; [cbn [List.length] in Hn; lia|exact H4]. }
    destruct r as [|b [|c [|d r']]]; try discriminate. apply andb_true_iff in H as [H H5]. apply andb_true_iff in H as [H H4].
    apply andb_true_iff in H as [H H3]. apply andb_true_iff in H as [H1 H2]. rewrite H1, H2, H3, (Hok _ H4). cbn [andb].
    apply IH; [cbn [List.length] in Hn; lia|exact H5]. Qed.
Lemma rust_alnum_continue cp : rust_alnum_cp cp = true -> id_continue_cp cp = true.
Proof. unfold rust_alnum_cp, id_continue_cp. intros H. apply orb_true_iff in H as [H|H]; [rewrite H; reflexivity|].
  apply orb_true_iff. right. unfold in_ranges in *. apply existsb_exists in H as [r [Hin Hr]]. apply existsb_exists.
  exists r. split; [|exact Hr]. destruct Hin as [<-|[]]. unfold id_continue_extra. cbn [In]. auto 10. Qed.
Lemma rust_ident_is_ident k : rust_ident_name k = true -> is_ident_name k = true.
Proof. unfold rust_ident_name, is_ident_name, uni_ok. intros H. apply andb_true_iff in H as [H1 H2]. rewrite H1. cbn [andb].
  apply (uni_walk_mono rust_alpha_cp rust_alnum_cp id_start_cp id_continue_cp) with (n := List.length k); auto.
  apply rust_alnum_continue. Qed.
Lemma key_chunk_ok k : holes_ok [key_chunk k] = true.
Proof. unfold holes_ok, key_chunk. destruct (rust_ident_name k) eqn:E; cbn [holes flat_map app forallb fst snd].
  - cbn [hole_ok]. unfold key_text_ok. rewrite (rust_ident_is_ident _ E). reflexivity.
  - rewrite str_hole_message. reflexivity. Qed.
Lemma member_access_ok k : holes_ok (member_access k) = true.
Proof. unfold holes_ok, member_access. destruct (rust_ident_name k) eqn:E; cbn [holes flat_map app forallb fst snd F].
  - cbn [hole_ok]. unfold key_text_ok. rewrite (rust_ident_is_ident _ E). reflexivity.
  - rewrite str_hole_message. reflexivity. Qed.
(* the old witness of C01-key-other-number: the rename m followed by SUPERSCRIPT TWO (bytes C2 B2) is quoted now;
   a decimal digit of another script after a letter is quoted as well (more than necessary, always valid) *)
Definition m_squared : str := ["m"%char; ascii_of_nat 194; ascii_of_nat 178].
Lemma key_chunk_number_witness :
  key_chunk m_squared = Hole (HStr DQ) m_squared /\ holes_ok [key_chunk m_squared] = true /\ hole_ok HKey m_squared = false.
Proof. vm_compute. repeat split. Qed.
Lemma key_chunk_witnesses :
  key_chunk (serialized (L "full_name") (Some (scanned (L "full-name"))) None (L "snake_case")) = Hole (HStr DQ) (L "full-name") /\
  key_chunk (serialized (L "first_name") None (Some RKebab) (L "snake_case")) = Hole (HStr DQ) (L "first-name") /\
  key_chunk (serialized (unraw (L "r#type")) None None (L "camelCase")) = Hole HKey (L "type") /\
  member_access (L "on-event") = [F "["; Hole (HStr DQ) (L "on-event"); F "]"].
Proof. vm_compute. repeat split. Qed.

(* ---------------------------------------------------------------- type holes: witnesses of the recorded classes *)
Definition g0 : c_cfg := {| g_zod := false; g_param_case := L "camelCase"; g_field_case := L "snake_case"; g_mappings := [] |}.
Lemma type_hole_refuted :
  let r2 := QPath [] (L "Result") true [QPath [L "crate"; L "models"] (L "User") false []; T0 "String"] in
  let c2 := {| cc_name := L "f"; cc_serde := []; cc_params := []; cc_ret := Some r2 |} in
  ret_text g0 c2 = L "types.crate::models::User" /\ hole_ok HType (ret_text g0 c2) = false.
Proof. vm_compute. repeat split. Qed.
(* repaired (top-level comma splitting, recursive array prefix): the old witnesses of C01-half-generic and
   C01-prefix-tuple now give well-formed type text *)
Lemma type_hole_witnesses :
  let r1 := QPath [] (L "Result") true [QPath [] (L "HashMap") true [T0 "String"; T0 "User"]; T0 "String"] in
  let r3 := QPath [] (L "Vec") true [QTuple [T0 "String"; T0 "i32"]] in
  let c1 := {| cc_name := L "f"; cc_serde := []; cc_params := []; cc_ret := Some r1 |} in
  let c3 := {| cc_name := L "f"; cc_serde := []; cc_params := []; cc_ret := Some r3 |} in
  ret_text g0 c1 = L "Record<string, User>" /\ hole_ok HType (ret_text g0 c1) = true /\
  ret_text g0 c3 = L "[string, number][]" /\ hole_ok HType (ret_text g0 c3) = true /\
  hole_ok HZ (field_schema g0 {| cf_name := L "pair"; cf_ty := QTuple [T2 "HashMap" (T0 "String") (T0 "i32"); T0 "bool"]; cf_serde := []; cf_val := None |}) = true.
Proof. vm_compute. repeat split. Qed.
Lemma type_hole_example :
  hole_ok HType (ts_text g0 (T2 "HashMap" (T0 "String") (T1 "Vec" (T1 "Option" (T0 "User"))))) = true /\
  hole_ok HZ (param_schema g0 (T2 "HashMap" (T0 "String") (T1 "Vec" (T1 "Option" (T0 "User"))))) = true.
Proof. vm_compute. split; reflexivity. Qed.
