(* C05 / C18: the run-time oracle c05_ok is exactly the Prop-level statement
   "what a reader of the site observes is the expected type" (reflection of tsty_eqb). *)
From Coq Require Import String Ascii.
From Coq Require Import List Arith Lia Bool.
Require Import TT.Model.Str TT.Proofs.StrFacts TT.Model.TypeParse TT.Spec.TsType TT.Model.Render TT.Proofs.RenderProofs.
Require Import TT.Model.C05Emit TT.Spec.C05Spec.
Import ListNotations.

Lemma list_eqb_str : forall l1 l2, list_eqb str_eqb l1 l2 = true <-> l1 = l2.
Proof. induction l1 as [|x l1 IH]; destruct l2 as [|y l2]; cbn [list_eqb]; split; intros H; try discriminate; auto.
  - apply andb_true_iff in H as [H1 H2]. apply str_eqb_eq in H1. apply IH in H2. congruence.
  - inversion H; subst. rewrite str_eqb_refl. apply andb_true_iff. split; [reflexivity|apply IH; reflexivity]. Qed.

Definition golist : list tsty -> list tsty -> bool :=
  fix go (l1 l2 : list tsty) : bool :=
    match l1, l2 with [], [] => true | x :: l1', y :: l2' => tsty_eqb x y && go l1' l2' | _, _ => false end.
Lemma golist_eq l1 : Forall (fun x => forall y, tsty_eqb x y = true <-> x = y) l1 ->
  forall l2, golist l1 l2 = true <-> l1 = l2.
Proof. induction 1 as [|x l1 Hx Hl IH]; destruct l2 as [|y l2]; cbn [golist]; split; intros H; try discriminate; auto.
  - apply andb_true_iff in H as [H1 H2]. apply Hx in H1. apply IH in H2. congruence.
  - inversion H; subst. apply andb_true_iff. split; [apply Hx; reflexivity | apply IH; reflexivity]. Qed.

Lemma tsty_eqb_eq : forall a b, tsty_eqb a b = true <-> a = b.
Proof.
  induction a as [h tl|h tl a args IHa IHargs|u IH|l IH|a b0 more IHa IHb IHm] using tsty_ind'; intros b; destruct b;
    cbn [tsty_eqb]; fold golist; split; intros H; try discriminate.
  - apply andb_true_iff in H as [H1 H2]. apply str_eqb_eq in H1. apply list_eqb_str in H2. congruence.
  - inversion H; subst. rewrite str_eqb_refl. apply andb_true_iff. split; [reflexivity|apply list_eqb_str; reflexivity].
  - repeat (apply andb_true_iff in H as [H ?]). apply str_eqb_eq in H.
    match goal with H1 : list_eqb _ _ _ = true |- _ => apply list_eqb_str in H1 end.
    match goal with H1 : tsty_eqb a _ = true |- _ => apply IHa in H1 end.
    match goal with H1 : golist _ _ = true |- _ => apply (golist_eq _ IHargs) in H1 end. congruence.
  - inversion H; subst. rewrite str_eqb_refl. repeat (apply andb_true_iff; split); auto.
    + apply list_eqb_str; reflexivity. + apply IHa; reflexivity. + apply (golist_eq _ IHargs); reflexivity.
  - apply IH in H. congruence.
  - inversion H; subst. apply IH; reflexivity.
  - apply (golist_eq _ IH) in H. congruence.
  - inversion H; subst. apply (golist_eq _ IH); reflexivity.
  - repeat (apply andb_true_iff in H as [H ?]). apply IHa in H.
    match goal with H1 : tsty_eqb b0 _ = true |- _ => apply IHb in H1 end.
    match goal with H1 : golist _ _ = true |- _ => apply (golist_eq _ IHm) in H1 end. congruence.
  - inversion H; subst. repeat (apply andb_true_iff; split).
    + apply IHa; reflexivity. + apply IHb; reflexivity. + apply (golist_eq _ IHm); reflexivity.
Qed.

Theorem c05_oracle_exact s md m t text :
  c05_ok s md m t text = true <-> observe (site_is_type s md) text = Some (expected s m t).
Proof. unfold c05_ok, opt_tsty_eqb. destruct (observe (site_is_type s md) text) as [x|]; split; intros H; try discriminate.
  - apply tsty_eqb_eq in H. congruence.
  - inversion H; subst. apply tsty_eqb_eq. reflexivity. Qed.
