(* C12, string level, part 2: the specification lexer reads the token stream module_toks from the
   text the model prints for events.ts (character level, fuel included). *)
From Coq Require Import String Ascii List Arith Lia Bool.
Require Import TT.Model.Str TT.Spec.TsLex TT.Spec.TsModule TT.Spec.TsObs TT.Model.Pipeline TT.Model.PipelineZod TT.Model.Events TT.Spec.C12Spec.
Require Import TT.Proofs.StrFacts TT.Proofs.C12Proofs TT.Proofs.C12Parse.
Import ListNotations.
Local Open Scope list_scope.

(* s lexes to ts in front of any continuation r satisfying C, with enough fuel, leaving enough fuel *)
Definition LXS (s : str) (ts : list tk) (C : str -> Prop) : Prop :=
  forall r f, C r -> List.length (s ++ r) < f -> exists f', List.length r < f' /\ lexm f (s ++ r) = ts ++ lexm f' r.
Definition Cany (r : str) : Prop := True.
Definition Cnid (r : str) : Prop := match r with [] => True | c :: _ => is_id_char c = false end.
Definition Cids (r : str) : Prop := match r with [] => False | c :: _ => is_id_start c = true end.

Lemma LXS_app s1 t1 C1 s2 t2 C2 : LXS s1 t1 C1 -> LXS s2 t2 C2 -> (forall r, C2 r -> C1 (s2 ++ r)) -> LXS (s1 ++ s2) (t1 ++ t2) C2.
Proof.
  intros H1 H2 Hc r f Hr Hf. rewrite <- app_assoc in *.
  destruct (H1 (s2 ++ r) f (Hc r Hr) Hf) as [f1 [Hf1 E1]].
  destruct (H2 r f1 Hr Hf1) as [f2 [Hf2 E2]]. exists f2. split; [exact Hf2|]. rewrite E1, E2, app_assoc. reflexivity.
Qed.
Lemma LXS_weaken s t (C C' : str -> Prop) : LXS s t C -> (forall r, C' r -> C r) -> LXS s t C'.
Proof. intros H Hc r f Hr Hf. apply H; auto. Qed.
Lemma closed_seg k w ts : k <= List.length w ->
  (forall r f0, lexm (k + f0) (w ++ r) = ts ++ lexm f0 r) -> LXS w ts Cany.
Proof.
  intros Hk H r f _ Hf. rewrite app_length in Hf. exists (f - k). split; [lia|].
  replace f with (k + (f - k)) at 1 by lia. apply H.
Qed.

(* ---- identifiers ---- *)
Lemma span_id n r : forallb is_id_char n = true -> Cnid r -> span is_id_char (n ++ r) = (n, r).
Proof.
  induction n as [|c n' IH]; intros Hn Hr.
  - destruct r as [|c r']; [reflexivity|]. unfold Cnid in Hr. change (span is_id_char ([] ++ c :: r')) with (if is_id_char c then let '(a, b) := span is_id_char r' in (c :: a, b) else ([], c :: r')). rewrite Hr. reflexivity.
  - cbn [forallb] in Hn. apply andb_true_iff in Hn. destruct Hn as [Hc Hn]. change (span is_id_char ((c :: n') ++ r)) with (if is_id_char c then let '(a, b) := span is_id_char (n' ++ r) in (c :: a, b) else ([], c :: n' ++ r)). rewrite Hc, IH by assumption. reflexivity.
Qed.
Lemma id_start_lex c : is_id_start c = true -> is_ws c = false /\ Ascii.eqb c "/" = false.
Proof. destruct c as [b0 b1 b2 b3 b4 b5 b6 b7]; destruct b0, b1, b2, b3, b4, b5, b6, b7; vm_compute; intro H; try discriminate H; auto. Qed.
Lemma lex_ident n r f : is_ts_identifier n = true -> Cnid r -> lexm (S f) (n ++ r) = KId n :: lexm f r.
Proof.
  intros Hid Hr. destruct n as [|c n']; [discriminate|]. cbn [is_ts_identifier] in Hid. apply andb_true_iff in Hid. destruct Hid as [Hc Hn].
  destruct (id_start_lex c Hc) as [H1 H2].
  change ((c :: n') ++ r) with (c :: (n' ++ r)). cbn [lexm]. rewrite H1, H2. cbn [andb]. rewrite Hc.
  change (c :: n' ++ r) with ((c :: n') ++ r). rewrite span_id; [reflexivity| |exact Hr].
  cbn [forallb]. unfold is_id_char at 1. rewrite Hc. exact Hn.
Qed.
Lemma LXS_ident n : is_ts_identifier n = true -> LXS n [KId n] Cnid.
Proof.
  intros Hid r f Hr Hf. destruct f as [|f]; [lia|]. exists f. split.
  - rewrite app_length in Hf. destruct n; [discriminate|]. cbn [List.length] in Hf. lia.
  - rewrite lex_ident; [reflexivity|exact Hid|exact Hr].
Qed.

(* ---- "<" in front of an identifier ---- *)
Lemma id_start_lt c : is_id_start c = true -> Ascii.eqb "="%char c = false /\ Ascii.eqb "<"%char c = false.
Proof. destruct c as [b0 b1 b2 b3 b4 b5 b6 b7]; destruct b0, b1, b2, b3, b4, b5, b6, b7; vm_compute; intro H; try discriminate H; auto. Qed.
Ltac eval_head c :=
  repeat match goal with |- context [Ascii.eqb ?a c] =>
    first [change (Ascii.eqb a c) with false | change (Ascii.eqb a c) with true] end.
Lemma try_lt c r : Ascii.eqb "="%char c = false -> Ascii.eqb "<"%char c = false -> try_punct ("<"%char :: c :: r) = Some (["<"%char], c :: r).
Proof.
  intros E1 E2. unfold try_punct, puncts3, puncts2, puncts1. cbn [find L list_ascii_of_string starts].
  eval_head "<"%char. cbn [andb]. rewrite E1, E2. cbn [andb skipn existsb orb]. eval_head "<"%char. reflexivity.
Qed.
Lemma lex_lt c r f : is_id_start c = true -> lexm (S f) ("<"%char :: c :: r) = KP ["<"%char] :: lexm f (c :: r).
Proof.
  intros Hc. destruct (id_start_lt c Hc) as [E1 E2]. cbn [lexm].
  change (is_ws "<"%char) with false. change (Ascii.eqb "<"%char "/"%char) with false. cbn [andb].
  change (is_id_start "<"%char) with false. change (is_digit "<"%char) with false.
  change (Ascii.eqb "<"%char """"%char) with false. change (Ascii.eqb "<"%char "'"%char) with false. cbn [orb].
  change (Ascii.eqb "<"%char "`"%char) with false. rewrite (try_lt c r E1 E2). reflexivity.
Qed.
Lemma LXS_lt : LXS ["<"%char] [P "<"] Cids.
Proof.
  intros r f Hr Hf. destruct r as [|c r]; [destruct Hr|]. destruct f as [|f]; [cbn in Hf; lia|]. exists f. split; [cbn in Hf; cbn; lia|].
  change (["<"%char] ++ c :: r) with ("<"%char :: c :: r). rewrite (lex_lt c r f Hr). reflexivity.
Qed.

(* ---- concrete pieces of the template ---- *)
Definition A1 : str := cat [T "/**"; NL; T " * Listen for '"].
Definition A2 : str := cat [T "' events"; NL; T " * @param handler - Callback function to handle the event"; NL;
                            T " * @returns Promise that resolves to an unlisten function"; NL; T " */"; NL].
Definition SB : str := T "export async function ".
Definition SC : str := cat [T "("; NL; T "  handler: (payload: "].
Definition SD : str := cat [T ") => void"; NL; T "): Promise<UnlistenFn> {"; NL; T "  return "].
Definition E1 : str := T ">(".
Definition E2 : str := cat [T ", (event) => {"; NL; T "    handler(event.payload);"; NL; T "  });"; NL; T "}"; NL; NL].
Definition HDR : str := cat [T "import { listen, type UnlistenFn, type Event } from '@tauri-apps/api/event';"; NL; T "import * as types from './types';"; NL; NL].

Ltac closed k := apply (closed_seg k); [vm_compute; lia|intros r f0; vm_compute; reflexivity].
Lemma LXS_SB : LXS SB [I "export"; I "async"; I "function"] Cany. Proof. closed 6. Qed.
Lemma LXS_SC : LXS SC [P "("; I "handler"; P ":"; P "("; I "payload"; P ":"] Cany. Proof. closed 11. Qed.
Lemma LXS_SD : LXS SD [P ")"; P "=>"; I "void"; P ")"; P ":"; I "Promise"; P "<"; I "UnlistenFn"; P ">"; P "{"; I "return"] Cany.
Proof. closed 20. Qed.
Lemma LXS_E2 : LXS E2 [P ","; P "("; I "event"; P ")"; P "=>"; P "{"; I "handler"; P "("; I "event"; P "."; I "payload"; P ")"; P ";"; P "}"; P ")"; P ";"; P "}"] Cany.
Proof. closed 31. Qed.
Lemma LXS_HDR : LXS HDR header_toks Cany. Proof. closed 37. Qed.
Lemma LXS_E1 : LXS E1 [P ">"; P "("] Cany. Proof. closed 2. Qed.

(* ---- the event name inside a single-quoted literal and inside the doc comment ---- *)
Definition SQc : ascii := "'"%char.
Definition ev_char (c : ascii) : bool :=
  negb (Ascii.eqb c SQc) && negb (n_of c =? 10) && negb (Ascii.eqb c "\"%char) && negb (Ascii.eqb c "*"%char).
Definition ev_ok (s : str) : bool := forallb ev_char s.
Lemma scan_str_ok : forall ev acc r, ev_ok ev = true -> scan_str SQc (ev ++ SQc :: r) acc = Some (rev acc ++ ev, r).
Proof.
  induction ev as [|c ev IH]; intros acc r H.
  - cbn [app scan_str]. change (Ascii.eqb SQc SQc) with true. rewrite app_nil_r. reflexivity.
  - cbn [ev_ok forallb] in H. apply andb_true_iff in H. destruct H as [Hc Hev]. unfold ev_char in Hc.
    apply andb_true_iff in Hc. destruct Hc as [Hc H4]. apply andb_true_iff in Hc. destruct Hc as [Hc H3]. apply andb_true_iff in Hc. destruct Hc as [H1 H2].
    apply negb_true_iff in H1, H2, H3.
    change ((c :: ev) ++ SQc :: r) with (c :: (ev ++ SQc :: r)). cbn [scan_str]. rewrite H1, H2, H3.
    rewrite (IH (c :: acc) r Hev). cbn [rev]. rewrite <- app_assoc. reflexivity.
Qed.
Lemma LXS_str ev : ev_ok ev = true -> LXS (SQc :: ev ++ [SQc]) [KStr SQc ev] Cany.
Proof.
  intros H r f _ Hf. destruct f as [|f]; [cbn in Hf; lia|]. exists f. split.
  - cbn [app List.length] in Hf. rewrite !app_length in Hf. cbn [List.length] in Hf. lia.
  - change ((SQc :: ev ++ [SQc]) ++ r) with (SQc :: ((ev ++ [SQc]) ++ r)). rewrite <- app_assoc. change ([SQc] ++ r) with (SQc :: r). cbn [lexm].
    change (is_ws SQc) with false. change (Ascii.eqb SQc "/"%char) with false. cbn [andb].
    change (is_id_start SQc) with false. change (is_digit SQc) with false.
    change (Ascii.eqb SQc """"%char || Ascii.eqb SQc "'"%char) with true. cbv iota.
    rewrite (scan_str_ok ev [] r H). reflexivity.
Qed.

Lemma skip_block_ne c r : Ascii.eqb c "*"%char = false -> skip_block (c :: r) = skip_block r.
Proof. destruct c as [b0 b1 b2 b3 b4 b5 b6 b7]; destruct b0, b1, b2, b3, b4, b5, b6, b7; intro H; try discriminate H; reflexivity. Qed.
Lemma skip_block_ev : forall ev y, ev_ok ev = true -> skip_block (ev ++ y) = skip_block y.
Proof.
  induction ev as [|c ev IH]; intros y H; [reflexivity|].
  cbn [ev_ok forallb] in H. apply andb_true_iff in H. destruct H as [Hc Hev]. unfold ev_char in Hc.
  apply andb_true_iff in Hc. destruct Hc as [_ H4]. apply negb_true_iff in H4.
  change ((c :: ev) ++ y) with (c :: (ev ++ y)). rewrite (skip_block_ne c _ H4). apply IH, Hev.
Qed.
Definition A1tail : str := skipn 2 A1.
Lemma sb_pre x : skip_block (skipn 1 (("*"%char :: skipn 1 A1tail) ++ x)) = skip_block (skipn 1 A1tail ++ x) -> True. Proof. trivial. Qed.
Lemma sb_A1 x : skip_block (skipn 1 A1tail ++ x) = skip_block x.
Proof. vm_compute. reflexivity. Qed.
Lemma sb_A2 r : skip_block (A2 ++ r) = Some (NL ++ r).
Proof. vm_compute. reflexivity. Qed.
Lemma LXS_comment ev : ev_ok ev = true -> LXS (A1 ++ ev ++ A2) [] Cany.
Proof.
  intros H r f _ Hf. destruct f as [|[|f]]; [cbn in Hf; lia| rewrite !app_length in Hf; assert (HA : 2 <= List.length A1) by (vm_compute; lia); lia|]. exists f. split.
  - rewrite !app_length in Hf. assert (HA : 2 <= List.length A1) by (vm_compute; lia). lia.
  - change (A1 ++ ev ++ A2) with ("/"%char :: "*"%char :: (A1tail ++ ev ++ A2)).
    change (("/"%char :: "*"%char :: A1tail ++ ev ++ A2) ++ r) with ("/"%char :: "*"%char :: ((A1tail ++ ev ++ A2) ++ r)).
    rewrite <- !app_assoc. cbn [lexm].
    change (is_ws "/"%char) with false. change (Ascii.eqb "/"%char "/"%char) with true.
    change (starts (L "/") ("*"%char :: A1tail ++ ev ++ A2 ++ r)) with false.
    change (starts (L "*") ("*"%char :: A1tail ++ ev ++ A2 ++ r)) with true. cbn [andb]. cbv iota.
    change (skipn 1 ("*"%char :: A1tail ++ ev ++ A2 ++ r)) with (A1tail ++ ev ++ A2 ++ r).
    change (A1tail ++ ev ++ A2 ++ r) with ("*"%char :: (skipn 1 A1tail ++ ev ++ A2 ++ r)).
    assert (E : skip_block ("*"%char :: skipn 1 A1tail ++ ev ++ A2 ++ r) = skip_block (skipn 1 A1tail ++ ev ++ A2 ++ r)) by reflexivity.
    rewrite E, sb_A1, (skip_block_ev ev _ H), sb_A2. reflexivity.
Qed.

(* ---- the payload type text ---- *)
Lemma id_start_dot c : is_id_start c = true -> Ascii.eqb "."%char c = false.
Proof. destruct c as [b0 b1 b2 b3 b4 b5 b6 b7]; destruct b0, b1, b2, b3, b4, b5, b6, b7; vm_compute; intro H; try discriminate H; auto. Qed.
Lemma try_dot c r : Ascii.eqb "."%char c = false -> try_punct ("."%char :: c :: r) = Some (["."%char], c :: r).
Proof.
  intros E1. unfold try_punct, puncts3, puncts2, puncts1. cbn [find L list_ascii_of_string starts].
  eval_head "."%char. cbn [andb]. rewrite E1. cbn [andb skipn existsb orb]. eval_head "."%char. reflexivity.
Qed.
Lemma lex_dot c r f : is_id_start c = true -> lexm (S f) ("."%char :: c :: r) = KP ["."%char] :: lexm f (c :: r).
Proof.
  intros Hc. pose proof (id_start_dot c Hc) as E1. cbn [lexm].
  change (is_ws "."%char) with false. change (Ascii.eqb "."%char "/"%char) with false. cbn [andb].
  change (is_id_start "."%char) with false. change (is_digit "."%char) with false.
  change (Ascii.eqb "."%char """"%char) with false. change (Ascii.eqb "."%char "'"%char) with false. cbn [orb].
  change (Ascii.eqb "."%char "`"%char) with false. rewrite (try_dot c r E1). reflexivity.
Qed.
Lemma LXS_dot : LXS ["."%char] [P "."] Cids.
Proof.
  intros r f Hr Hf. destruct r as [|c r]; [destruct Hr|]. destruct f as [|f]; [cbn in Hf; lia|]. exists f. split; [cbn in Hf; cbn; lia|].
  change (["."%char] ++ c :: r) with ("."%char :: c :: r). rewrite (lex_dot c r f Hr). reflexivity.
Qed.
Lemma ident_head n r : is_ts_identifier n = true -> Cids (n ++ r).
Proof. destruct n as [|c n']; [discriminate|]. cbn [is_ts_identifier]. intro H. apply andb_true_iff in H. exact (proj1 H). Qed.
Lemma pty_head t r : pty_ok t = true -> Cids (pty_text t ++ r).
Proof.
  intro H. destruct (pty_prim_cases t H) as [[p [-> Hp]]|[n [-> _]]].
  - cbn [map In] in Hp. repeat (destruct Hp as [<-|Hp]; [reflexivity|]). destruct Hp.
  - reflexivity.
Qed.
Lemma LXS_pty t : pty_ok t = true -> LXS (pty_text t) (pty_toks t) Cnid.
Proof.
  intro H. destruct (pty_prim_cases t H) as [[p [-> Hp]]|[n [-> [Hn _]]]].
  - apply LXS_ident. cbn [map In] in Hp. repeat (destruct Hp as [<-|Hp]; [reflexivity|]). destruct Hp.
  - change (pty_text (PCustom n)) with (L "types" ++ ["."%char] ++ n).
    change (pty_toks (PCustom n)) with ([KId (L "types")] ++ [P "."] ++ [KId n]).
    apply (LXS_app _ _ Cnid); [apply LXS_ident; reflexivity| |intros r _; reflexivity].
    apply (LXS_app _ _ Cids); [apply LXS_dot|apply LXS_ident, Hn|intros r _; apply ident_head, Hn].
Qed.

(* ---- one listener, the whole module ---- *)
Definition ltext (name ev : str) (t : pty) : str :=
  (A1 ++ ev ++ A2) ++ SB ++ name ++ SC ++ pty_text t ++ SD ++ L "listen" ++ ["<"%char] ++ pty_text t ++ E1 ++ (SQc :: ev ++ [SQc]) ++ E2.
Lemma LXS_listener name ev t : is_ts_identifier name = true -> ev_ok ev = true -> pty_ok t = true ->
  LXS (ltext name ev t) (listener_toks name ev t) Cany.
Proof.
  intros Hn He Ht. unfold ltext.
  assert (ET : listener_toks name ev t =
     [] ++ [I "export"; I "async"; I "function"] ++ [KId name] ++ [P "("; I "handler"; P ":"; P "("; I "payload"; P ":"] ++ pty_toks t ++
     [P ")"; P "=>"; I "void"; P ")"; P ":"; I "Promise"; P "<"; I "UnlistenFn"; P ">"; P "{"; I "return"] ++ [I "listen"] ++ [P "<"] ++ pty_toks t ++
     [P ">"; P "("] ++ [KStr SQc ev] ++
     [P ","; P "("; I "event"; P ")"; P "=>"; P "{"; I "handler"; P "("; I "event"; P "."; I "payload"; P ")"; P ";"; P "}"; P ")"; P ";"; P "}"]).
  { destruct t; reflexivity. }
  rewrite ET.
  apply (LXS_app _ _ Cany); [apply LXS_comment, He| |intros; exact Logic.I].
  apply (LXS_app _ _ Cany); [apply LXS_SB| |intros; exact Logic.I].
  apply (LXS_app _ _ Cnid); [apply LXS_ident, Hn| |intros r _; reflexivity].
  apply (LXS_app _ _ Cany); [apply LXS_SC| |intros; exact Logic.I].
  apply (LXS_app _ _ Cnid); [apply LXS_pty, Ht| |intros r _; reflexivity].
  apply (LXS_app _ _ Cany); [apply LXS_SD| |intros; exact Logic.I].
  apply (LXS_app _ _ Cnid); [apply LXS_ident; reflexivity| |intros r _; reflexivity].
  apply (LXS_app _ _ Cids); [apply LXS_lt| |intros r _; rewrite <- app_assoc; apply pty_head, Ht].
  apply (LXS_app _ _ Cnid); [apply LXS_pty, Ht| |intros r _; reflexivity].
  apply (LXS_app _ _ Cany); [apply LXS_E1| |intros; exact Logic.I].
  apply (LXS_app _ _ Cany); [apply LXS_str, He|apply LXS_E2|intros; exact Logic.I].
Qed.

Lemma starts_split : forall p s, starts p s = true -> s = p ++ skipn (List.length p) s.
Proof.
  induction p as [|a p IH]; intros s H; [reflexivity|]. destruct s as [|b s]; [discriminate H|].
  cbn [starts] in H. apply andb_true_iff in H. destruct H as [Hab Hp]. apply Ascii.eqb_eq in Hab. subst b.
  change ((a :: p) ++ skipn (List.length (a :: p)) (a :: s)) with (a :: (p ++ skipn (List.length p) s)). f_equal. apply IH, Hp.
Qed.
Lemma pty_text_of x : pty_text (pty_of_text x) = x.
Proof.
  unfold pty_of_text. destruct (starts (L "types.") x) eqn:E; [|reflexivity].
  cbn [pty_text]. symmetry. exact (starts_split (L "types.") x E).
Qed.
Lemma listener_text_eq e : listener_text e = ltext (listener_name (fst e)) (fst e) (pty_of_text (payload_ts (snd e))).
Proof.
  unfold ltext. rewrite pty_text_of. unfold listener_text. cbv zeta.
  generalize (listener_name (fst e)) (payload_ts (snd e)) (fst e). intros name t ev.
  unfold A1, A2, SB, SC, SD, E1, E2, cat, SQc, T, L, NL. simpl. rewrite <- ?app_assoc. simpl. rewrite ?app_nil_r. reflexivity.
Qed.

Definition lrec_lex_ok (r : lrec) : Prop := is_ts_identifier (r_name r) = true /\ ev_ok (r_ev r) = true /\ pty_ok (r_ty r) = true.
Lemma LXS_listeners : forall rs, Forall lrec_lex_ok rs ->
  LXS (concat (map (fun r => ltext (r_name r) (r_ev r) (r_ty r)) rs)) (flat_map rec_toks rs) Cany.
Proof.
  induction 1 as [|r rs [Hn [He Ht]] _ IH].
  - intros r f _ Hf. exists f. split; [exact Hf|reflexivity].
  - cbn [map concat flat_map]. apply (LXS_app _ _ Cany); [apply LXS_listener; assumption|exact IH|intros; exact Logic.I].
Qed.
Lemma name_char_ev c : name_char c = true -> ev_char c = true.
Proof. destruct c as [b0 b1 b2 b3 b4 b5 b6 b7]; destruct b0, b1, b2, b3, b4, b5, b6, b7; vm_compute; intro H; try discriminate H; reflexivity. Qed.
Lemma legal_name_ev n : legal_event_name n = true -> ev_ok n = true.
Proof.
  unfold legal_event_name, ev_ok. intro H. apply andb_true_iff in H. destruct H as [_ H].
  rewrite forallb_forall in *. intros c Hc. apply name_char_ev, H, Hc.
Qed.
Lemma dedup_first_incl : forall (l : evs) e, In e (dedup_first l) -> In e l.
Proof.
  induction l as [|x r IH]; intros e H; [exact H|]. cbn [dedup_first] in H. destruct H as [<-|H]; [left; reflexivity|].
  apply filter_In in H. right. apply IH, (proj1 H).
Qed.

(* the character-level step: for every event list with legal names whose payload texts have the two
   shapes, the specification lexer reads exactly module_toks from the text the model prints *)
Theorem lex_statement_holds : lex_statement.
Proof.
  intros l Hnames Hok. unfold lex_module, events_text, module_toks.
  assert (Ecat : cat (map listener_text (dedup_first l)) =
                 concat (map (fun r => ltext (r_name r) (r_ev r) (r_ty r)) (model_recs l))).
  { unfold cat, model_recs. rewrite map_map. f_equal. apply map_ext. intro e. cbn [r_name r_ev r_ty]. apply listener_text_eq. }
  change (cat [T "import { listen, type UnlistenFn, type Event } from '@tauri-apps/api/event';"; NL; T "import * as types from './types';"; NL; NL]) with HDR.
  rewrite Ecat.
  assert (HF : Forall lrec_lex_ok (model_recs l)).
  { apply Forall_forall. intros r Hr. unfold model_recs in Hr. apply in_map_iff in Hr. destruct Hr as [e [<- He]].
    split; [|split]; cbn [r_name r_ev r_ty].
    - pose proof (listener_name_legal (fst e)) as Hl. unfold is_legal_binding_name in Hl. apply andb_true_iff in Hl. exact (proj1 Hl).
    - apply legal_name_ev, Hnames, (dedup_first_incl l e He).
    - rewrite forallb_forall in Hok. specialize (Hok _ (in_map _ _ _ He)). exact Hok. }
  pose proof (LXS_app _ _ Cany _ _ Cany LXS_HDR (LXS_listeners _ HF) (fun _ _ => Logic.I)) as H.
  destruct (H [] (S (List.length (HDR ++ concat (map (fun r => ltext (r_name r) (r_ev r) (r_ty r)) (model_recs l))))) Logic.I) as [f' [Hf' E]].
  { rewrite app_nil_r. lia. }
  rewrite app_nil_r in E. rewrite E. destruct f' as [|f'']; [cbn in Hf'; lia|]. cbn [lexm]. rewrite app_nil_r. reflexivity.
Qed.

(* text -> items -> records: the model's events.ts parses back to exactly the listener records *)
Theorem events_text_parses : forall l : evs,
  (forall e, In e l -> legal_event_name (fst e) = true) -> forallb rec_ok (model_recs l) = true ->
  parse_module (events_text l) = Some (header_items ++ map rec_item (model_recs l)) /\
  option_map lsts (parse_module (events_text l)) = Some (map rec_lst (model_recs l)).
Proof.
  intros l Hn Hok. assert (E : parse_module (events_text l) = Some (header_items ++ map rec_item (model_recs l))).
  { unfold parse_module. rewrite (lex_statement_holds l Hn Hok), no_err_module. apply parse_module_toks, Hok. }
  split; [exact E|]. rewrite E. cbn [option_map]. rewrite (lsts_module _ Hok). reflexivity.
Qed.
