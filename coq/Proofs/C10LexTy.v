(* C10 deepening, TypeScript side, character level: the specification lexer (TT.Spec.TsLex) reads the
   canonical tokens [pr (ts_ty_of m t)] from the string the plain renderer prints, for every
   in-domain TypeStructure; together with the round trip of C10ParseTy this gives
   parse_ty (plain m t) = Some (ts_ty_of m t)  for all types whose nesting fits the parser's budget. *)
From Coq Require Import String Ascii.
From Coq Require Import List Arith Lia Bool.
Require Import TT.Model.Str TT.Proofs.StrFacts TT.Model.TypeParse TT.Spec.TsLex TT.Spec.TsModule TT.Spec.TsObs.
Require Import TT.Spec.C10Shape TT.Model.C10Zod TT.Spec.C10Check TT.Proofs.C10Proofs TT.Proofs.C10ParseTy.
Import ListNotations.
Local Open Scope char_scope.
Local Open Scope list_scope.

(* ---- characters ---- *)
Definition follow (c : ascii) : bool := existsb (Ascii.eqb c) [" "; ","; "]"; ">"; "["].
Definition noeq (r : str) : Prop := Forall (fun c => c <> "=") r.
Definition okf (r : str) : Prop := match r with [] => True | c :: _ => follow c = true end.

Lemma follow_cases c : follow c = true -> c = " " \/ c = "," \/ c = "]" \/ c = ">" \/ c = "[".
Proof.
  unfold follow. cbn [existsb]. intros H. repeat (apply orb_true_iff in H; destruct H as [H|H]);
    try (apply Ascii.eqb_eq in H; subst; tauto). discriminate.
Qed.
Lemma follow_not_id c : follow c = true -> is_id_char c = false.
Proof. intros H. destruct (follow_cases c H) as [->|[->|[->|[->| ->]]]]; reflexivity. Qed.

Lemma id_start_facts c : is_id_start c = true ->
  is_ws c = false /\ Ascii.eqb c "/" = false /\ is_digit c = false /\ Ascii.eqb c """" = false /\
  Ascii.eqb c "'" = false /\ Ascii.eqb c "`" = false /\ c <> "=".
Proof.
  intros H.
  assert (Hn : forall d, is_id_start d = false -> c <> d) by (intros d Hd ->; congruence).
  repeat split; try (apply Ascii.eqb_neq; apply Hn; reflexivity); try (apply Hn; reflexivity).
  - destruct (is_ws c) eqn:E; [|reflexivity]. exfalso. unfold is_ws, is_id_start, n_of in *.
    repeat (apply orb_true_iff in E; destruct E as [E|E]); apply Nat.eqb_eq in E;
      repeat (apply orb_true_iff in H; destruct H as [H|H]); try (apply andb_true_iff in H; destruct H as [H1 H2]; apply Nat.leb_le in H1, H2; lia);
      try (apply Nat.eqb_eq in H; lia); try (apply Nat.leb_le in H; lia).
  - destruct (is_digit c) eqn:E; [|reflexivity]. exfalso. unfold is_digit, is_id_start, n_of in *.
    apply andb_true_iff in E. destruct E as [A B]. apply Nat.leb_le in A, B.
    repeat (apply orb_true_iff in H; destruct H as [H|H]); try (apply andb_true_iff in H; destruct H as [H1 H2]; apply Nat.leb_le in H1, H2; lia);
      try (apply Nat.eqb_eq in H; lia); try (apply Nat.leb_le in H; lia).
Qed.

Lemma span_id n r : forallb is_id_char n = true -> match r with [] => True | c :: _ => is_id_char c = false end ->
  span is_id_char (n ++ r) = (n, r).
Proof.
  induction n as [|c n' IH]; intros Hn Hr.
  - cbn [app]. destruct r as [|c r']; [reflexivity|]. cbn [span]. rewrite Hr. reflexivity.
  - cbn [forallb] in Hn. apply andb_true_iff in Hn. destruct Hn as [Hc Hn]. cbn [app span]. rewrite Hc, IH by assumption. reflexivity.
Qed.

(* one identifier *)
Lemma lex_ident n r f : is_ts_identifier n = true -> match r with [] => True | c :: _ => is_id_char c = false end ->
  lexm (S f) (n ++ r) = KId n :: lexm f r.
Proof.
  intros Hid Hr. destruct n as [|c n']; [discriminate|]. cbn [is_ts_identifier] in Hid. apply andb_true_iff in Hid. destruct Hid as [Hc Hn].
  destruct (id_start_facts c Hc) as [H1 [H2 _]].
  cbn [app lexm]. rewrite H1, H2. cbn [andb]. rewrite Hc.
  change (c :: n' ++ r) with ((c :: n') ++ r). rewrite span_id; [reflexivity| |exact Hr].
  cbn [forallb]. unfold is_id_char at 1. rewrite Hc. exact Hn.
Qed.

(* one punctuator character *)
Lemma lex_punct c r f : is_ws c = false -> Ascii.eqb c "/" = false -> is_id_start c = false -> is_digit c = false ->
  Ascii.eqb c """" = false -> Ascii.eqb c "'" = false -> Ascii.eqb c "`" = false ->
  try_punct (c :: r) = Some ([c], r) -> lexm (S f) (c :: r) = KP [c] :: lexm f r.
Proof. intros H1 H2 H3 H4 H5 H6 H7 H8. cbn [lexm]. rewrite H1, H2, H3, H4, H5, H6, H7, H8. reflexivity. Qed.

Lemma lex_space r f : lexm (S f) (" " :: r) = lexm f r. Proof. reflexivity. Qed.
Lemma lex_lbr r f : lexm (S f) ("[" :: r) = kp "[" :: lexm f r. Proof. apply lex_punct; reflexivity. Qed.
Lemma lex_rbr r f : lexm (S f) ("]" :: r) = kp "]" :: lexm f r. Proof. apply lex_punct; reflexivity. Qed.
Lemma lex_comma r f : lexm (S f) ("," :: r) = kp "," :: lexm f r. Proof. apply lex_punct; reflexivity. Qed.
Lemma lex_bar_sp r f : lexm (S f) ("|" :: " " :: r) = kp "|" :: lexm f (" " :: r). Proof. apply lex_punct; reflexivity. Qed.
Ltac eval_head c :=
  repeat match goal with |- context [Ascii.eqb ?a c] =>
    first [change (Ascii.eqb a c) with false | change (Ascii.eqb a c) with true] end.
Lemma try_lt c r : Ascii.eqb "=" c = false -> Ascii.eqb "<" c = false -> try_punct ("<" :: c :: r) = Some (["<"], c :: r).
Proof.
  intros E1 E2. unfold try_punct, puncts3, puncts2, puncts1. cbn [find L list_ascii_of_string starts].
  eval_head "<". cbn [andb]. rewrite E1, E2. cbn [andb skipn existsb orb]. eval_head "<". reflexivity.
Qed.
Lemma lex_lt c r f : is_id_start c = true -> lexm (S f) ("<" :: c :: r) = kp "<" :: lexm f (c :: r).
Proof.
  intros Hc. apply lex_punct; try reflexivity. destruct (id_start_facts c Hc) as [_ [_ [_ [_ [_ [_ Hne]]]]]].
  apply try_lt; apply Ascii.eqb_neq; [congruence|intros <-; discriminate].
Qed.
Lemma try_gt r : noeq r -> try_punct (">" :: r) = Some ([">"], r).
Proof.
  intros Hr. unfold try_punct, puncts3, puncts2, puncts1.
  destruct r as [|x r2].
  - reflexivity.
  - inversion Hr as [|? ? Hx Hr2]; subst.
    assert (Ascii.eqb "=" x = false) as E1 by (apply Ascii.eqb_neq; congruence).
    destruct r2 as [|y r3].
    + cbn [find L list_ascii_of_string starts]. eval_head ">". cbn [andb]. rewrite E1. cbn [andb].
      destruct (Ascii.eqb ">" x); cbn [andb skipn existsb orb]; eval_head ">"; reflexivity.
    + inversion Hr2 as [|? ? Hy _]; subst.
      assert (Ascii.eqb "=" y = false) as E2 by (apply Ascii.eqb_neq; congruence).
      cbn [find L list_ascii_of_string starts]. eval_head ">". cbn [andb]. rewrite E1, E2. cbn [andb].
      destruct (Ascii.eqb ">" x); cbn [andb skipn existsb orb]; eval_head ">"; reflexivity.
Qed.
Lemma lex_gt r f : noeq r -> lexm (S f) (">" :: r) = kp ">" :: lexm f r.
Proof. intros Hr. apply lex_punct; try reflexivity. apply try_gt; exact Hr. Qed.

Lemma join_cons_ne (sep x : str) (l : list str) : l <> [] -> join sep (x :: l) = x ++ sep ++ join sep l.
Proof. destruct l; [congruence|reflexivity]. Qed.

(* ---- token printer facts ---- *)
Lemma sepk_snoc (s : tk) (l : list (list tk)) x : l <> [] -> sepk s (l ++ [x]) = sepk s l ++ s :: x.
Proof.
  induction l as [|a r IH]; [congruence|]. intros _. destruct r as [|b r'].
  - reflexivity.
  - change (sepk s ((a :: b :: r') ++ [x])) with (a ++ s :: sepk s ((b :: r') ++ [x])). rewrite IH by discriminate.
    change (sepk s (a :: b :: r')) with (a ++ s :: sepk s (b :: r')). rewrite <- app_assoc. reflexivity.
Qed.
Lemma map_last_snoc {A} (g : A -> A) l x : map_last g (l ++ [x]) = l ++ [g x].
Proof. induction l as [|a r IH]; [reflexivity|]. cbn [app map_last]. rewrite IH. destruct (r ++ [x]) eqn:E; [destruct r; discriminate|reflexivity]. Qed.
Lemma pr_union_last l x : l <> [] -> sepk (kp "|") (map pr (l ++ [TyArr x])) = sepk (kp "|") (map pr (l ++ [x])) ++ [kp "["; kp "]"].
Proof. intros Hl. rewrite !map_app. cbn [map]. rewrite !sepk_snoc by (destruct l; [congruence|discriminate]). cbn [pr]. rewrite <- app_assoc. reflexivity. Qed.

Lemma pr_arr_of x : nf x -> pr (arr_of x) = pr x ++ [kp "["; kp "]"].
Proof.
  destruct x as [p args|y|l|l|s|p|ps r|ms ix]; try reflexivity. intros [Hlen _]. cbn [arr_of pr].
  destruct (exists_last (l := l)) as [l' [z ->]]; [destruct l; [cbn in Hlen; lia|discriminate]|].
  rewrite map_last_snoc. destruct l' as [|a l'']; [rewrite app_length in Hlen; cbn in Hlen; lia|].
  apply pr_union_last. discriminate.
Qed.
Lemma pr_opt_of x : nf x -> pr (opt_of x) = pr x ++ [kp "|"; KId (L "null")].
Proof.
  destruct x as [p args|y|l|l|s|p|ps r|ms ix]; try reflexivity. intros [Hlen _]. cbn [opt_of pr].
  rewrite map_app. cbn [map]. rewrite sepk_snoc by (destruct l; [cbn in Hlen; lia|discriminate]). reflexivity.
Qed.

(* ---- the trees are normal forms ---- *)
Lemma idn_prim p : in_names p prim_names = true -> idn p.
Proof. intros H. apply prim_names_shape in H. destruct H as [->|[->|[->| ->]]]; split; reflexivity. Qed.
Lemma idn_name n : name_ok n = true -> idn n.
Proof.
  unfold name_ok. destruct n as [|c r]; [discriminate|]. intros H. apply andb_true_iff in H. destruct H as [H H2].
  split; [exact H|]. apply negb_true_iff in H2. unfold in_names, taken_names in H2. cbn [existsb] in H2.
  repeat (apply orb_false_iff in H2; destruct H2 as [? H2]). assumption.
Qed.

Section WithMap.
  Variable m : mapping.
  Hypothesis Hm : map_ok m = true.

  Lemma idn_cname n : name_ok n = true -> idn (cname m n).
  Proof.
    intros Hn. unfold cname. destruct (lookup m n) as [x|] eqn:E; [|apply idn_name; exact Hn].
    destruct (lookup_target m Hm _ _ E) as [->|[->| ->]]; split; reflexivity.
  Qed.

  Lemma post_arr_of x : post_level (arr_of x) = true \/ exists l, arr_of x = TyUnion l.
  Proof. destruct x; cbn; eauto. Qed.

  Lemma nf_map_last l : Forall (fun x => nf x /\ post_level x = true) l ->
    Forall (fun x => nf x /\ post_level x = true) (map_last TyArr l).
  Proof.
    induction 1 as [|a r Ha Hr IH]; [constructor|]. destruct r as [|b r']; cbn [map_last].
    - constructor; [|constructor]. cbn [nf post_level]. tauto.
    - constructor; assumption.
  Qed.
  Lemma map_last_len {A} (g : A -> A) l : List.length (map_last g l) = List.length l.
  Proof. induction l as [|a r IH]; [reflexivity|]. destruct r; [reflexivity|]. cbn [map_last List.length] in *. rewrite IH. reflexivity. Qed.

  (* every tree is a normal form; a tree that is not a union is postfix level *)
  Lemma nf_ts : forall t, dom t = true -> nf (ts_ty_of m t) /\ (is_union (ts_ty_of m t) = false -> post_level (ts_ty_of m t) = true).
  Proof.
    induction t as [p|u IH|k v IHk IHv|u IH|l IH|u IH|u IH|n] using ts_ind2; cbn [dom ts_ty_of]; intros Hd.
    - split; [|reflexivity]. cbn [nf]. split; [apply idn_prim; exact Hd|exact I].
    - destruct (IH Hd) as [Hn Hp]. destruct (ts_ty_of m u) as [p args|y|l|l|s|p|ps r|ms ix] eqn:E; cbn [arr_of];
        try (split; [cbn [nf]; split; [exact Hn|apply Hp; reflexivity]|reflexivity]).
      split; [|discriminate]. destruct Hn as [Hl Hg]. cbn [nf]. rewrite map_last_len. split; [exact Hl|].
      apply nfp_list_Forall. apply nf_map_last. apply nfp_list_Forall. exact Hg.
    - apply andb_true_iff in Hd. destruct Hd as [Hk Hv]. destruct (key_ok_dom _ Hk) as [Hk1 _].
      split; [|reflexivity]. cbn [nf]. split; [split; reflexivity|]. split; [apply IHk; exact Hk1|]. split; [apply IHv; exact Hv|exact I].
    - destruct (IH Hd) as [Hn Hp]. destruct (ts_ty_of m u) as [p args|y|l|l|s|p|ps r|ms ix] eqn:E; cbn [arr_of];
        try (split; [cbn [nf]; split; [exact Hn|apply Hp; reflexivity]|reflexivity]).
      split; [|discriminate]. destruct Hn as [Hl Hg]. cbn [nf]. rewrite map_last_len. split; [exact Hl|].
      apply nfp_list_Forall. apply nf_map_last. apply nfp_list_Forall. exact Hg.
    - destruct l as [|a l']; [split; [cbn [nf]; split; [split; reflexivity|exact I]|reflexivity]|].
      split; [|reflexivity]. cbn [nf]. split; [discriminate|]. apply nf_list_Forall.
      apply Forall_forall. intros x Hx. apply in_map_iff in Hx. destruct Hx as [y [<- Hy]].
      rewrite Forall_forall in IH. apply IH; [exact Hy|]. rewrite forallb_forall in Hd. apply Hd; exact Hy.
    - destruct (IH Hd) as [Hn Hp]. split; [|destruct (ts_ty_of m u); discriminate].
      assert (Hnull : nf null_ty /\ post_level null_ty = true) by (split; [cbn [nf null_ty]; split; [split; reflexivity|exact I]|reflexivity]).
      destruct (ts_ty_of m u) as [p args|y|l|l|s|p|ps r|ms ix] eqn:E; cbn [opt_of];
        try (cbn [nf]; split; [cbn; lia|]; split; [split; [exact Hn|apply Hp; reflexivity]|]; split; [exact Hnull|exact I]).
      destruct Hn as [Hl Hg]. cbn [nf]. split; [rewrite app_length; lia|]. apply nfp_list_Forall. apply Forall_app. split; [apply nfp_list_Forall; exact Hg|].
      constructor; [exact Hnull|constructor].
    - apply IH; exact Hd.
    - rewrite custom_ty_prim by exact Hm. split; [|reflexivity]. cbn [nf]. split; [apply idn_cname; exact Hd|exact I].
  Qed.

  (* ---- no equals sign in rendered text ---- *)
  Lemma noeq_app a b : noeq a -> noeq b -> noeq (a ++ b).
  Proof. intros Ha Hb. apply Forall_app. tauto. Qed.
  Lemma noeq_ident n : is_ts_identifier n = true -> noeq n.
  Proof.
    destruct n as [|c r]; [discriminate|]. cbn [is_ts_identifier]. intros H. apply andb_true_iff in H. destruct H as [Hc Hr].
    constructor; [apply (id_start_facts c Hc)|]. apply Forall_forall. intros x Hx. rewrite forallb_forall in Hr. specialize (Hr x Hx).
    intros ->. discriminate.
  Qed.
  Lemma noeq_join l : Forall noeq l -> noeq (join (L ", ") l).
  Proof.
    induction 1 as [|a r Ha Hr IH]; [constructor|]. destruct r as [|b r']; [exact Ha|].
    rewrite join_cons2. apply noeq_app; [exact Ha|]. apply noeq_app; [repeat constructor; discriminate|exact IH].
  Qed.
  Lemma noeq_plain : forall t, dom t = true -> noeq (plain m t).
  Proof.
    induction t as [p|u IH|k v IHk IHv|u IH|l IH|u IH|u IH|n] using ts_ind2; cbn [dom plain]; intros Hd.
    - apply noeq_ident. apply (idn_prim p Hd).
    - apply noeq_app; [apply IH; exact Hd|repeat constructor; discriminate].
    - apply andb_true_iff in Hd. destruct Hd as [Hk Hv]. destruct (key_ok_dom _ Hk) as [Hk1 _].
      repeat apply noeq_app; try (repeat constructor; discriminate); auto.
    - apply noeq_app; [apply IH; exact Hd|repeat constructor; discriminate].
    - destruct l as [|a l']; [repeat constructor; discriminate|].
      repeat apply noeq_app; try (repeat constructor; discriminate). apply noeq_join.
      apply Forall_forall. intros x Hx. apply in_map_iff in Hx. destruct Hx as [y [<- Hy]].
      rewrite Forall_forall in IH. apply IH; [exact Hy|]. rewrite forallb_forall in Hd. apply Hd; exact Hy.
    - apply noeq_app; [apply IH; exact Hd|repeat constructor; discriminate].
    - apply IH; exact Hd.
    - apply noeq_ident. apply (idn_cname n Hd).
  Qed.

  (* ---- lexing the rendered text ---- *)
  Definition LX (s : str) (ts : list tk) : Prop :=
    forall r f, okf r -> noeq r -> List.length (s ++ r) < f ->
    exists f', List.length r < f' /\ lexm f (s ++ r) = ts ++ lexm f' r.

  Lemma okf_bnd r : okf r -> match r with [] => True | c :: _ => is_id_char c = false end.
  Proof. destruct r; [tauto|]. apply follow_not_id. Qed.

  Lemma LX_ident n : idn n -> LX n [KId n].
  Proof.
    intros [Hid _] r f Hr _ Hf. destruct f as [|f]; [lia|]. exists f. split.
    - rewrite app_length in Hf. destruct n; [discriminate|]. cbn [List.length] in Hf. lia.
    - rewrite lex_ident; [reflexivity|exact Hid|apply okf_bnd; exact Hr].
  Qed.

  Lemma plain_head : forall t, dom t = true -> exists c s, plain m t = c :: s /\ (is_id_start c = true \/ c = "[").
  Proof.
    induction t as [p|u IH|k v IHk IHv|u IH|l IH|u IH|u IH|n] using ts_ind2; cbn [dom plain]; intros Hd.
    - destruct (idn_prim p Hd) as [Hi _]. destruct p as [|c s]; [discriminate|]. cbn in Hi. apply andb_true_iff in Hi. exists c, s. tauto.
    - destruct (IH Hd) as [c [s [E H]]]. rewrite E. exists c, (s ++ L "[]"). tauto.
    - exists "R", (L "ecord<" ++ plain m k ++ L ", " ++ plain m v ++ L ">"). split; [reflexivity|left; reflexivity].
    - destruct (IH Hd) as [c [s [E H]]]. rewrite E. exists c, (s ++ L "[]"). tauto.
    - destruct l as [|a l']; [exists "v", (L "oid"); split; [reflexivity|left; reflexivity]|].
      eexists; eexists; split; [reflexivity|right; reflexivity].
    - destruct (IH Hd) as [c [s [E H]]]. rewrite E. exists c, (s ++ L " | null"). tauto.
    - apply IH; exact Hd.
    - destruct (idn_cname n Hd) as [Hi _]. fold (cname m n). destruct (cname m n) as [|c s]; [discriminate|]. cbn in Hi. apply andb_true_iff in Hi. exists c, s. tauto.
  Qed.

  Lemma LX_plain : forall t, dom t = true -> LX (plain m t) (pr (ts_ty_of m t)).
  Proof.
    induction t as [p|u IH|k v IHk IHv|u IH|l IH|u IH|u IH|n] using ts_ind2; cbn [dom]; intros Hd.
    - apply LX_ident. apply idn_prim; exact Hd.
    - (* array *)
      intros r f Hr Hq Hf. cbn [plain ts_ty_of] in *. rewrite pr_arr_of by (apply nf_ts; exact Hd).
      rewrite <- ?app_assoc in *. cbn [L list_ascii_of_string app] in *.
      destruct (IH Hd ("[" :: "]" :: r) f) as [f1 [Hf1 E1]]; [reflexivity|repeat constructor; try discriminate; exact Hq|rewrite app_length in *; cbn [List.length] in *; lia|].
      rewrite E1. destruct f1 as [|[|f2]]; try (cbn [List.length] in Hf1; lia).
      exists f2. split; [cbn [List.length] in Hf1; lia|]. rewrite lex_lbr, lex_rbr. rewrite <- app_assoc. reflexivity.
    - (* map *)
      apply andb_true_iff in Hd. destruct Hd as [Hk Hv]. destruct (key_ok_dom _ Hk) as [Hk1 _].
      intros r f Hr Hq Hf. cbn [plain ts_ty_of] in *.
      assert (pr (TyRef [L "Record"] [ts_ty_of m k; ts_ty_of m v]) =
              KId (L "Record") :: kp "<" :: pr (ts_ty_of m k) ++ kp "," :: pr (ts_ty_of m v) ++ [kp ">"]) as -> by (cbn [pr map sepk]; rewrite <- app_assoc; reflexivity).
      change (L "Record<") with (L "Record" ++ ["<"]) in *. change (L ", ") with [","; " "] in *. change (L ">") with [">"] in *.
      rewrite <- ?app_assoc in *. cbn [app] in *.
      assert (Hlen : List.length (plain m k) + (List.length (plain m v) + List.length r) + 10 < f).
      { rewrite !app_length in Hf. cbn [List.length] in Hf. rewrite !app_length in Hf. cbn [List.length] in Hf. rewrite !app_length in Hf. cbn [List.length L list_ascii_of_string] in Hf. lia. }
      clear Hf. destruct f as [|f]; [lia|]. rewrite (lex_ident (L "Record")); [|reflexivity|reflexivity].
      destruct (plain_head k Hk1) as [c [s [Ek Hc]]].
      assert (Hcs : is_id_start c = true).
      { destruct Hc as [Hc| ->]; [exact Hc|]. destruct k as [p| | | | | | |]; try discriminate. cbn [plain] in Ek. subst p.
        cbn [dom] in Hk1. apply in_names_cases in Hk1. destruct Hk1 as [x [Hin Hx]]. cbn in Hin.
        destruct Hin as [<-|[<-|[<-|[<-|[]]]]]; discriminate. }
      destruct f as [|f]; [lia|].
      rewrite Ek. cbn [app]. rewrite lex_lt by exact Hcs. rewrite (app_comm_cons s _ c), <- Ek.
      assert (Hqv : noeq (plain m v ++ ">" :: r)) by (apply noeq_app; [apply noeq_plain; exact Hv|constructor; [discriminate|exact Hq]]).
      destruct (IHk Hk1 ("," :: " " :: plain m v ++ ">" :: r) f) as [f1 [Hf1 E1]];
        [reflexivity|constructor; [discriminate|constructor; [discriminate|exact Hqv]]|rewrite app_length; cbn [List.length]; rewrite app_length; cbn [List.length]; lia|].
      rewrite E1. cbn [List.length] in Hf1. rewrite app_length in Hf1. cbn [List.length] in Hf1.
      destruct f1 as [|[|f2]]; try lia.
      rewrite lex_comma, lex_space.
      destruct (IHv Hv (">" :: r) f2) as [f3 [Hf3 E3]]; [reflexivity|constructor; [discriminate|exact Hq]|rewrite app_length; cbn [List.length]; lia|].
      rewrite E3. cbn [List.length] in Hf3. destruct f3 as [|f4]; [lia|]. rewrite lex_gt by exact Hq.
      exists f4. split; [lia|]. cbn [app]. rewrite <- !app_assoc. cbn [app]. rewrite <- !app_assoc. reflexivity.
    - (* set *)
      intros r f Hr Hq Hf. cbn [plain ts_ty_of] in *. rewrite pr_arr_of by (apply nf_ts; exact Hd).
      rewrite <- ?app_assoc in *. cbn [L list_ascii_of_string app] in *.
      destruct (IH Hd ("[" :: "]" :: r) f) as [f1 [Hf1 E1]]; [reflexivity|repeat constructor; try discriminate; exact Hq|rewrite app_length in *; cbn [List.length] in *; lia|].
      rewrite E1. destruct f1 as [|[|f2]]; try (cbn [List.length] in Hf1; lia).
      exists f2. split; [cbn [List.length] in Hf1; lia|]. rewrite lex_lbr, lex_rbr. rewrite <- app_assoc. reflexivity.
    - (* tuple *)
      destruct l as [|a l']; [apply LX_ident; split; reflexivity|].
      intros r f Hr Hq Hf. remember (a :: l') as l0 eqn:El.
      assert (plain m (TTuple l0) = "[" :: join (L ", ") (map (plain m) l0) ++ L "]") as Epl by (subst; reflexivity).
      rewrite Epl in Hf |- *.
      assert (pr (ts_ty_of m (TTuple l0)) = kp "[" :: sepk (kp ",") (map pr (map (ts_ty_of m) l0)) ++ [kp "]"]) as -> by (subst; reflexivity).
      assert (Hlen : List.length (join (L ", ") (map (plain m) l0)) + S (List.length r) < f - 1 /\ 0 < f).
      { cbn [app List.length] in Hf. rewrite !app_length in Hf. cbn [List.length L list_ascii_of_string] in Hf |- *. split; lia. }
      clear Hf. destruct Hlen as [Hf Hf0].
      cbn [app] in *. destruct f as [|f]; [lia|]. rewrite lex_lbr. rewrite <- app_assoc.
      replace (S f - 1) with f in Hf by lia.
      assert (HL : forall l, l <> [] -> Forall (fun t => dom t = true -> LX (plain m t) (pr (ts_ty_of m t))) l -> forallb dom l = true ->
                  forall f, List.length (join (L ", ") (map (plain m) l)) + S (List.length r) < f ->
                  exists f', List.length r < f' /\
                    lexm f (join (L ", ") (map (plain m) l) ++ "]" :: r) = sepk (kp ",") (map pr (map (ts_ty_of m) l)) ++ kp "]" :: lexm f' r).
      { clear - Hr Hq Hm. induction l as [|x l IHl]; [congruence|]. intros _ HF Hdl f Hf. inversion HF as [|? ? Hx HFl]; subst.
        cbn [forallb] in Hdl. apply andb_true_iff in Hdl. destruct Hdl as [Hdx Hdl]. destruct l as [|y l''].
        - cbn [map join sepk] in *. destruct (Hx Hdx ("]" :: r) f) as [f1 [Hf1 E1]]; [reflexivity|constructor; [discriminate|exact Hq]|rewrite app_length; cbn [List.length]; lia|].
          rewrite E1. destruct f1 as [|f2]; [cbn [List.length] in Hf1; lia|]. rewrite lex_rbr. exists f2. split; [cbn [List.length] in Hf1; lia|reflexivity].
        - change (map (plain m) (x :: y :: l'')) with (plain m x :: map (plain m) (y :: l'')) in Hf |- *. rewrite join_cons_ne in Hf |- * by discriminate.
          change (sepk (kp ",") (map pr (map (ts_ty_of m) (x :: y :: l'')))) with
                 (pr (ts_ty_of m x) ++ kp "," :: sepk (kp ",") (map pr (map (ts_ty_of m) (y :: l'')))).
          rewrite <- !app_assoc. rewrite !app_length in Hf. cbn [L list_ascii_of_string List.length app] in *.
          assert (Hqr : noeq (join [","; " "] (map (plain m) (y :: l'')) ++ "]" :: r)).
          { apply noeq_app; [|constructor; [discriminate|exact Hq]]. apply noeq_join. apply Forall_forall. intros z Hz.
            apply in_map_iff in Hz. destruct Hz as [w [<- Hw]]. apply noeq_plain. rewrite forallb_forall in Hdl. apply Hdl; exact Hw. }
          destruct (Hx Hdx ("," :: " " :: join [","; " "] (map (plain m) (y :: l'')) ++ "]" :: r) f) as [f1 [Hf1 E1]];
            [reflexivity|constructor; [discriminate|constructor; [discriminate|exact Hqr]]|rewrite app_length; cbn [List.length]; rewrite app_length; cbn [List.length]; lia|].
          rewrite E1. cbn [List.length] in Hf1. rewrite app_length in Hf1. cbn [List.length] in Hf1.
          destruct f1 as [|[|f2]]; try lia. rewrite lex_comma, lex_space.
          destruct (IHl ltac:(discriminate) HFl Hdl f2) as [f3 [Hf3 E3]]; [cbn [L list_ascii_of_string]; lia|].
          cbn [L list_ascii_of_string] in E3. rewrite E3. exists f3. split; [exact Hf3|]. rewrite <- app_assoc. reflexivity. }
      destruct (HL l0 ltac:(subst; discriminate) IH Hd f) as [f' [Hf' E']]; [exact Hf|].
      cbn [L list_ascii_of_string app] in E' |- *. rewrite E'. exists f'. split; [exact Hf'|]. rewrite <- app_assoc. reflexivity.
    - (* option *)
      intros r f Hr Hq Hf. cbn [plain ts_ty_of] in *. rewrite pr_opt_of by (apply nf_ts; exact Hd).
      rewrite <- ?app_assoc in *. cbn [L list_ascii_of_string app] in *.
      destruct (IH Hd (" " :: "|" :: " " :: "n" :: "u" :: "l" :: "l" :: r) f) as [f1 [Hf1 E1]];
        [reflexivity|repeat (constructor; [discriminate|]); exact Hq|rewrite app_length in *; cbn [List.length] in *; lia|].
      rewrite E1. cbn [List.length] in Hf1. destruct f1 as [|[|[|[|f2]]]]; try lia.
      rewrite lex_space, lex_bar_sp, lex_space.
      change ("n" :: "u" :: "l" :: "l" :: r) with (L "null" ++ r). rewrite lex_ident; [|reflexivity|apply okf_bnd; exact Hr].
      exists f2. split; [lia|]. rewrite <- app_assoc. reflexivity.
    - cbn [plain ts_ty_of]. apply IH; exact Hd.
    - cbn [plain ts_ty_of]. rewrite custom_ty_prim by exact Hm. fold (cname m n). apply LX_ident. apply idn_cname; exact Hd.
  Qed.

  Lemma has_err_pr : forall t, has_err (pr t) = false.
  Proof.
    assert (Hs : forall (s : tk) (l : list (list tk)), has_err [s] = false -> Forall (fun x => has_err x = false) l -> has_err (sepk s l) = false).
    { intros s l Hs. induction 1 as [|a r Ha Hr IH]; [reflexivity|]. destruct r as [|b r']; [exact Ha|].
      change (sepk s (a :: b :: r')) with (a ++ s :: sepk s (b :: r')). unfold has_err in *. rewrite existsb_app. rewrite Ha. cbn [existsb orb] in *.
      rewrite orb_false_r in Hs. rewrite Hs. exact IH. }
    induction t as [p args IH|x IH|l IH|l IH|s|p|ps r|ms ix] using ty_ind2; try reflexivity.
    - destruct p as [|n [|? ?]]; try reflexivity. destruct args as [|a args']; [reflexivity|].
      remember (a :: args') as args. assert (pr (TyRef [n] args) = KId n :: kp "<" :: sepk (kp ",") (map pr args) ++ [kp ">"]) as -> by (subst; reflexivity).
      unfold has_err in *. cbn [existsb orb]. rewrite existsb_app. cbn [existsb]. rewrite !orb_false_r.
      apply (Hs (kp ",") (map pr args)); [reflexivity|]. apply Forall_forall. intros y Hy. apply in_map_iff in Hy. destruct Hy as [z [<- Hz]].
      rewrite Forall_forall in IH. apply IH; exact Hz.
    - cbn [pr]. unfold has_err in *. rewrite existsb_app, IH. reflexivity.
    - cbn [pr]. unfold has_err in *. cbn [existsb orb]. rewrite existsb_app. cbn [existsb]. rewrite !orb_false_r.
      apply (Hs (kp ",") (map pr l)); [reflexivity|]. apply Forall_forall. intros y Hy. apply in_map_iff in Hy. destruct Hy as [z [<- Hz]].
      rewrite Forall_forall in IH. apply IH; exact Hz.
    - cbn [pr]. apply (Hs (kp "|") (map pr l)); [reflexivity|]. apply Forall_forall. intros y Hy. apply in_map_iff in Hy. destruct Hy as [z [<- Hz]].
      rewrite Forall_forall in IH. apply IH; exact Hz.
  Qed.

  (* the string-level link for the plain renderer *)
  Theorem parse_plain : forall t, dom t = true -> nest (ts_ty_of m t) < TYF ->
    parse_ty (plain m t) = Some (ts_ty_of m t).
  Proof.
    intros t Hd Hn. unfold parse_ty, lex_module.
    destruct (LX_plain t Hd [] (S (List.length (plain m t)))) as [f' [Hf' E]]; [exact I|constructor|rewrite app_nil_r; lia|].
    rewrite app_nil_r in E. rewrite E. destruct f' as [|f'']; [cbn in Hf'; lia|]. cbn [lexm]. rewrite app_nil_r.
    rewrite has_err_pr. rewrite ptype_pr; [reflexivity|apply nf_ts; exact Hd|exact Hn].
  Qed.
End WithMap.
