(* C07: the three readers of a printed type agree on well-behaved names (type level):
   for a type of the documented language (ty_ok) outside the comma classes, the harvester finds exactly
   the leaf names, and parse_type_structure followed by collect_referenced_types finds exactly the
   success-arm names - for names that pass the harvester's final test and are not container heads. *)
From Coq Require Import String Ascii.
From Coq Require Import List Arith Lia Bool.
Require Import TT.Model.Base TT.Model.Str TT.Proofs.StrFacts TT.Model.C07TypeParse TT.Proofs.C07TypeParseProofs TT.Model.C07Harvest TT.Proofs.C07HarvestProofs.
Require Import TT.Model.C07Worklist TT.Model.C07Reach TT.Spec.C07Spec.
Import ListNotations.
Local Open Scope list_scope.

(* ---------- nested induction on cty ---------- *)
Section CtyInd.
  Variable P : cty -> Prop.
  Hypothesis HP : forall segs n angle args, Forall P args -> P (CPath segs n angle args).
  Hypothesis HR : forall t, P t -> P (CRef t).
  Hypothesis HT : forall ts, Forall P ts -> P (CTuple ts).
  Fixpoint cty_ind' (t : cty) : P t :=
    match t with
    | CPath segs n angle args => HP segs n angle args ((fix go l : Forall P l := match l with [] => Forall_nil _ | x :: l' => Forall_cons _ (cty_ind' x) (go l') end) args)
    | CRef t => HR t (cty_ind' t)
    | CTuple ts => HT ts ((fix go l : Forall P l := match l with [] => Forall_nil _ | x :: l' => Forall_cons _ (cty_ind' x) (go l') end) ts)
    end.
End CtyInd.

(* ---------- identifiers ---------- *)
Lemma ident_char_plain c : ident_char c = true -> plain c.
Proof. unfold plain. destruct c as [[] [] [] [] [] [] [] []]; vm_compute; intros; congruence. Qed.
Lemma is_ident_ident n : is_ident n = true -> ident n.
Proof. unfold is_ident, ident. destruct n as [|c r]; [discriminate|]. intros H. apply andb_true_iff in H as [H _]. apply andb_true_iff in H as [_ H].
  split; [discriminate|]. rewrite forallb_forall in H. apply Forall_forall. intros x Hx. apply ident_char_plain. auto. Qed.

Lemma one_of_in s l : one_of s l = true -> exists x, In x l /\ s = L x.
Proof. unfold one_of. intros H. apply existsb_exists in H as (x & Hx & He). exists x. split; auto. apply str_eqb_eq; auto. Qed.

Local Open Scope string_scope.
Lemma unary5 n : one_of n ["Option"; "Vec"; "HashSet"; "BTreeSet"; "Result"] = true ->
  one_of n known_heads = true /\ one_of n map_names = false /\ (one_of n unary_names = true \/ is_name n "Result" = true).
Proof. intros H. apply one_of_in in H as (x & Hx & ->). simpl in Hx.
  repeat (destruct Hx as [<-|Hx]; [vm_compute; auto|]). contradiction. Qed.
Lemma map2 n : one_of n ["HashMap"; "BTreeMap"] = true ->
  one_of n known_heads = true /\ one_of n unary_names = false /\ is_name n "Result" = false /\ one_of n map_names = true.
Proof. intros H. apply one_of_in in H as (x & Hx & ->). simpl in Hx.
  repeat (destruct Hx as [<-|Hx]; [vm_compute; auto|]). contradiction. Qed.
Lemma result_facts n : is_name n "Result" = true ->
  one_of n known_heads = true /\ one_of n unary_names = false /\ one_of n map_names = false.
Proof. unfold is_name. intros H. apply str_eqb_eq in H. subst n. vm_compute. auto. Qed.
Local Close Scope string_scope.

Lemma join_single (sep x : str) : join sep [x] = x. Proof. reflexivity. Qed.

Lemma wf_path n args : ident n -> arity_ok n args -> Forall wf args -> wf (RPath n args).
Proof. intros H1 H2 H3. simpl. split; auto. split; auto. apply wf_list; auto. Qed.
Lemma hk_path n a rest : one_of n known_heads = true -> Forall heads_known (a :: rest) -> heads_known (RPath n (a :: rest)).
Proof. intros H1 H2. simpl. split; auto. apply (proj2 (hk_list (a :: rest))); auto. Qed.
Lemma wf_tuple l : Forall wf l -> wf (RTuple l).
Proof. intros H. simpl. apply wf_list; auto. Qed.
Lemma hk_tuple l : Forall heads_known l -> heads_known (RTuple l).
Proof. intros H. simpl. apply hk_list; auto. Qed.

(* ---------- ty_ok gives the well-formedness the string lemmas need ---------- *)
Lemma ty_ok_wf : forall q, ty_ok q = true -> wf (rty_of q) /\ heads_known (rty_of q).
Proof.
  induction q as [segs n angle args IH|t IH|ts IH] using cty_ind'; intros H.
  - cbn [ty_ok] in H. repeat (apply andb_true_iff in H as [H ?]).
    destruct segs; [|discriminate]. cbn [rty_of app]. rewrite join_single.
    assert (Hargs : Forall (fun a => wf (rty_of a) /\ heads_known (rty_of a)) args).
    { rewrite forallb_forall in H1. rewrite Forall_forall in *. intros a Ha. apply IH; auto. }
    assert (Hwl : Forall wf (map rty_of args)).
    { apply Forall_forall. intros x Hx. apply in_map_iff in Hx as (a & <- & Ha). rewrite Forall_forall in Hargs. apply Hargs; auto. }
    assert (Hkl : Forall heads_known (map rty_of args)).
    { apply Forall_forall. intros x Hx. apply in_map_iff in Hx as (a & <- & Ha). rewrite Forall_forall in Hargs. apply Hargs; auto. }
    pose proof (is_ident_ident _ H3) as Hid.
    destruct args as [|a [|b [|c rest]]].
    + simpl. repeat split; auto; try apply Hid; intros; simpl; auto; lia.
    + destruct (unary5 _ H0) as (Hk & Hm & Hu).
      split; [apply wf_path; auto|apply hk_path; auto].
      unfold arity_ok. split; [intros; simpl; lia|]. split; [intros Hc; congruence|intros; simpl; lia].
    + apply orb_true_iff in H0 as [H0|H0].
      * apply andb_true_iff in H0 as [H0 Hmk]. apply negb_true_iff in Hmk. destruct (map2 _ H0) as (Hk & Hu & Hr & Hm).
        split; [apply wf_path; auto|apply hk_path; auto].
        unfold arity_ok. split; [intros Hc; congruence|]. split; [intros _; right; exists (rty_of a), (rty_of b); split; auto|intros Hc; congruence].
      * destruct (result_facts _ H0) as (Hk & Hu & Hm).
        split; [apply wf_path; auto|apply hk_path; auto].
        unfold arity_ok. split; [intros Hc; congruence|]. split; [intros Hc; congruence|intros; simpl; lia].
    + discriminate.
  - cbn [ty_ok rty_of] in *. simpl. apply IH; auto.
  - cbn [ty_ok rty_of] in *. rewrite forallb_forall in H.
    assert (Hargs : Forall (fun a => wf (rty_of a) /\ heads_known (rty_of a)) ts).
    { rewrite Forall_forall in *. intros a Ha. apply IH; auto. }
    split; [apply wf_tuple|apply hk_tuple]; apply Forall_forall; intros x Hx; apply in_map_iff in Hx as (a & <- & Ha);
      rewrite Forall_forall in Hargs; apply Hargs; auto.
Qed.

(* ---------- the fuel used by the two entry points suffices ---------- *)
Lemma join_len (sep : str) : forall (l : list str) x, In x l -> List.length x <= List.length (join sep l).
Proof. induction l as [|a l IH]; intros x Hx; [contradiction|].
  destruct l as [|b l].
  - destruct Hx as [<-|[]]. rewrite join_one. lia.
  - rewrite join_cons2, !app_length. destruct Hx as [<-|Hx]; [lia|]. specialize (IH x Hx). lia. Qed.
Lemma fold_max_le (l : list rty) m : (forall x, In x l -> height x <= m) ->
  fold_right (fun x m => Nat.max (height x) m) 0 l <= m.
Proof. induction l as [|a l IH]; intros H; simpl; [lia|]. apply Nat.max_lub; [apply H; left; auto|apply IH; intros; apply H; right; auto]. Qed.

Lemma height_le_len : forall t, wf t -> height t <= List.length (tts t).
Proof.
  induction t as [n args IH|t IH|l IH] using rty_ind'; intros Hw.
  - simpl in Hw. destruct Hw as ((Hne & _) & _ & Ha). apply wf_list in Ha.
    destruct args as [|a rest].
    + rewrite tts_path_nil. simpl. destruct n; [congruence|simpl; lia].
    + rewrite tts_path_cons. set (J := join (L ", ") (map tts (a :: rest))).
      assert (Hm : fold_right (fun x m => Nat.max (height x) m) 0 (a :: rest) <= List.length J).
      { apply fold_max_le. intros x Hx. rewrite Forall_forall in IH, Ha. specialize (IH x Hx (Ha x Hx)).
        pose proof (join_len (L ", ") (map tts (a :: rest)) (tts x) (in_map tts _ _ Hx)). fold J in H. lia. }
      cbn [height]. rewrite app_length. cbn [List.length]. rewrite app_length. cbn [List.length]. lia.
  - rewrite tts_ref. cbn [height List.length]. simpl in Hw. specialize (IH Hw). lia.
  - simpl in Hw. apply wf_list in Hw. destruct l as [|a rest].
    + rewrite tts_unit. simpl. lia.
    + rewrite tts_tuple. set (J := join (L ", ") (map tts (a :: rest))).
      assert (Hm : fold_right (fun x m => Nat.max (height x) m) 0 (a :: rest) <= List.length J).
      { apply fold_max_le. intros x Hx. rewrite Forall_forall in IH, Hw. specialize (IH x Hx (Hw x Hx)).
        pose proof (join_len (L ", ") (map tts (a :: rest)) (tts x) (in_map tts _ _ Hx)). fold J in H. lia. }
      cbn [height List.length]. rewrite app_length. cbn [List.length]. lia.
Qed.

(* ---------- names that pass the final test and are not container heads ---------- *)
Definition good (y : str) : Prop := custom_name y = true /\ one_of y known_heads = false.

Lemma in_flat_map_map {A B} (f : B -> list str) (g : A -> B) (h : A -> list str) (l : list A) y :
  Forall (fun a => In y (f (g a)) <-> In y (h a)) l -> (In y (flat_map f (map g l)) <-> In y (flat_map h l)).
Proof. induction 1 as [|a l Ha Hl IH]; simpl; [tauto|]. rewrite !in_app_iff. tauto. Qed.

Lemma head_of_args q : ty_ok q = true -> match q with
  | CPath _ n _ (_ :: _) => one_of n known_heads = true | _ => True end.
Proof. destruct q as [segs n angle args| |]; auto. destruct args as [|a rest]; auto. intros H.
  destruct (ty_ok_wf _ H) as [_ Hk]. cbn [rty_of map] in Hk. simpl in Hk. destruct segs; [|cbn [ty_ok] in H; discriminate].
  cbn [app] in Hk. rewrite join_single in Hk. apply Hk. Qed.

Lemma names_leaf y : good y -> forall q, ty_ok q = true -> (In y (names (rty_of q)) <-> In y (leaf_names q)).
Proof.
  intros [Hc Hh]. induction q as [segs n angle args IH|t IH|ts IH] using cty_ind'; intros H.
  - pose proof (head_of_args _ H) as Hhead. cbn [ty_ok] in H. repeat (apply andb_true_iff in H as [H ?]).
    destruct segs; [|discriminate]. cbn [rty_of app leaf_names]. rewrite join_single.
    assert (Hargs : Forall (fun a => In y (names (rty_of a)) <-> In y (leaf_names a)) args).
    { rewrite forallb_forall in H1. rewrite Forall_forall in *. intros a Ha. apply IH; auto. }
    destruct args as [|a rest].
    + cbn [map names flat_map]. destruct (custom_name n) eqn:E; simpl; [tauto|].
      split; [tauto|]. intros [->|[]]. congruence.
    + cbn [map]. rewrite names_path_cons. change (rty_of a :: map rty_of rest) with (map rty_of (a :: rest)).
      rewrite (in_flat_map_map names rty_of leaf_names (a :: rest) y Hargs). simpl.
      split; auto. intros [->|Hx]; auto. congruence.
  - cbn [ty_ok rty_of leaf_names names] in *. apply IH; auto.
  - cbn [ty_ok rty_of leaf_names names] in *. rewrite forallb_forall in H.
    apply in_flat_map_map. rewrite Forall_forall in *. intros a Ha. apply IH; auto.
Qed.

(* ---------- TypeStructure names = success-arm names ---------- *)
Local Open Scope string_scope.
Lemma prim_not_custom y : custom_name y = true -> prim_of y = None.
Proof. unfold custom_name. destruct y as [|c r]; [discriminate|]. intros H.
  apply andb_true_iff in H as [H _]. apply andb_true_iff in H as [H _]. apply andb_true_iff in H as [H _].
  apply negb_true_iff in H. unfold prim_of.
  assert (Hsub : forall l, (forall x, In x l -> In x type_set) -> one_of (c :: r) l = false).
  { intros l Hl. destruct (one_of (c :: r) l) eqn:E; auto. apply one_of_in in E as (x & Hx & Ex).
    assert (one_of (c :: r) type_set = true); [|congruence].
    unfold one_of. apply existsb_exists. exists x. split; [apply Hl; auto|]. rewrite Ex. apply str_eqb_refl. }
  rewrite !Hsub; auto; intros x Hx; simpl in Hx; simpl;
    repeat (destruct Hx as [<-|Hx]; [tauto|]); contradiction.
Qed.
Local Close Scope string_scope.

Ltac eval_names :=
  repeat match goal with
  | |- context [is_name (L ?a) ?b] => let v := eval vm_compute in (is_name (L a) b) in change (is_name (L a) b) with v
  | |- context [str_eqb (L ?a) (L ?b)] => let v := eval vm_compute in (str_eqb (L a) (L b)) in change (str_eqb (L a) (L b)) with v
  end.

Lemma ts_ok y : good y -> forall q, ty_ok q = true -> (In y (ts_names (sem (rty_of q))) <-> In y (ok_names q)).
Proof.
  intros [Hc Hh]. pose proof (prim_not_custom y Hc) as Hprim.
  assert (Hres : y <> L "Result"). { intros ->. vm_compute in Hh. discriminate. }
  induction q as [segs n angle args IH|t IH|ts IH] using cty_ind'; intros H.
  - cbn [ty_ok] in H. repeat (apply andb_true_iff in H as [H ?]).
    destruct segs; [|discriminate]. cbn [rty_of app ok_names]. rewrite join_single.
    assert (Hargs : Forall (fun a => In y (ts_names (sem (rty_of a))) <-> In y (ok_names a)) args).
    { rewrite forallb_forall in H1. rewrite Forall_forall in *. intros a Ha. apply IH; auto. }
    destruct args as [|a [|b [|c rest]]].
    + cbn [map sem flat_map]. destruct (str_eqb n (L "Result")) eqn:ER.
      * apply str_eqb_eq in ER. subst n. change (prim_of (L "Result")) with (@None str). cbn [ts_names In].
        split; [intros [E|[]]; symmetry in E; contradiction|tauto].
      * destruct (prim_of n) eqn:EP; cbn [ts_names]; simpl.
        -- split; [tauto|]. intros [->|[]]. congruence.
        -- tauto.
    + inversion Hargs as [|? ? Ha _]; subst. cbn [map].
      apply one_of_in in H0 as (x & Hx & ->). simpl in Hx.
      destruct Hx as [<-|[<-|[<-|[<-|[<-|[]]]]]]; rewrite sem_path_cons; eval_names; cbn [orb ts_names flat_map];
        rewrite ?app_nil_r; simpl; try tauto;
        (split; [intros Hy; right; apply Ha; auto|intros [E|Hy]; [subst y; vm_compute in Hh; discriminate|apply Ha; auto]]).
    + inversion Hargs as [|? ? Ha Hr]; subst. inversion Hr as [|? ? Hb _]; subst. cbn [map].
      apply orb_true_iff in H0 as [H0|H0].
      * apply andb_true_iff in H0 as [H0 _]. apply one_of_in in H0 as (x & Hx & ->). simpl in Hx.
        destruct Hx as [<-|[<-|[]]]; rewrite sem_path_cons; eval_names; cbn [orb ts_names flat_map];
          rewrite ?app_nil_r; simpl; rewrite !in_app_iff;
          (split; [intros [Hy|Hy]; right; [left; apply Ha|right; apply Hb]; auto
                  |intros [E|[Hy|Hy]]; [subst y; vm_compute in Hh; discriminate|left; apply Ha; auto|right; apply Hb; auto]]).
      * unfold is_name in H0. apply str_eqb_eq in H0. subst n. rewrite sem_path_cons. eval_names. cbn [ts_names]. exact Ha.
    + discriminate.
  - cbn [ty_ok rty_of ok_names sem] in *. apply IH; auto.
  - cbn [ty_ok rty_of ok_names] in *. rewrite forallb_forall in H.
    assert (Hargs : Forall (fun a => In y (ts_names (sem (rty_of a))) <-> In y (ok_names a)) ts).
    { rewrite Forall_forall in *. intros a Ha. apply IH; auto. }
    destruct ts as [|a rest]; [simpl; tauto|].
    cbn [map]. change (sem (RTuple (rty_of a :: map rty_of rest))) with (TTuple (map sem (rty_of a :: map rty_of rest))).
    cbn [ts_names]. change (rty_of a :: map rty_of rest) with (map rty_of (a :: rest)). rewrite map_map.
    clear IH H. induction Hargs as [|x l Hx Hl IHl]; simpl; [tauto|]. rewrite !in_app_iff. tauto.
Qed.

(* ---------- without Result heads carrying arguments the success-arm names are all the names ---------- *)
Lemma ok_leaf y : good y -> forall q, ty_ok q = true -> has_result2 (rty_of q) = false ->
  (In y (ok_names q) <-> In y (leaf_names q)).
Proof.
  intros [Hc Hh]. assert (Hres : y <> L "Result"). { intros ->. vm_compute in Hh. discriminate. }
  induction q as [segs n angle args IH|t IH|ts IH] using cty_ind'; intros Hok H2.
  - cbn [ty_ok] in Hok. repeat (apply andb_true_iff in Hok as [Hok ?]). destruct segs; [|discriminate].
    cbn [rty_of app has_result2] in H2. rewrite join_single in H2.
    apply orb_false_elim in H2 as [H2a H2b].
    assert (Hargs : Forall (fun a => In y (ok_names a) <-> In y (leaf_names a)) args).
    { rewrite forallb_forall in H0. rewrite Forall_forall in *. intros a Ha. apply IH; auto.
      apply existsb_false_Forall in H2b. rewrite Forall_forall in H2b. apply H2b. apply in_map; auto. }
    assert (Hfm : In y (flat_map ok_names args) <-> In y (flat_map leaf_names args)).
    { clear -Hargs. induction Hargs as [|x l Hx Hl IHl]; simpl; [tauto|]. rewrite !in_app_iff. tauto. }
    cbn [ok_names leaf_names]. destruct (str_eqb n (L "Result")) eqn:ER.
    + apply str_eqb_eq in ER. subst n. destruct args as [|a [|b rest]].
      * simpl. split; [tauto|]. intros [E|[]]. symmetry in E. contradiction.
      * (* one argument (an alias): the success arm is the only arm *)
        inversion Hargs as [|? ? Ha _]; subst. simpl. rewrite app_nil_r.
        split; [intros Hy; right; apply Ha; auto|intros [E|Hy]; [symmetry in E; contradiction|apply Ha; auto]].
      * exfalso. change (is_name (L "Result") "Result") with true in H2a. rewrite map_length in H2a. simpl in H2a. discriminate.
    + simpl. rewrite Hfm. tauto.
  - cbn [ty_ok rty_of has_result2 ok_names leaf_names] in *. apply IH; auto.
  - cbn [ty_ok rty_of has_result2 ok_names leaf_names] in *. rewrite forallb_forall in Hok.
    apply existsb_false_Forall in H2.
    assert (Hargs : Forall (fun a => In y (ok_names a) <-> In y (leaf_names a)) ts).
    { rewrite Forall_forall in *. intros a Ha. apply IH; auto. apply H2. apply in_map; auto. }
    clear -Hargs. induction Hargs as [|x l Hx Hl IHl]; simpl; [tauto|]. rewrite !in_app_iff. tauto.
Qed.

(* ---------- type-level agreement of the readers ---------- *)
Theorem readers_agree q y : ty_ok q = true -> good y ->
  (In y (extract_type_names (tstr q)) <-> In y (leaf_names q)) /\
  (In y (ts_of (tstr q)) <-> In y (ok_names q)).
Proof.
  intros Hok Hg. destruct (ty_ok_wf q Hok) as [Hw Hh]. pose proof (height_le_len _ Hw) as Hlen. split.
  - unfold extract_type_names, tstr.
    assert (Hs : same_set (harvest (S (List.length (tts (rty_of q)))) (tts (rty_of q))) (names (rty_of q))).
    { apply harvest_names; auto. lia. }
    rewrite (Hs y). apply names_leaf; auto.
  - unfold ts_of, parse_type_structure, tstr.
    rewrite (parse_tts_faithful (rty_of q) Hw (S (List.length (tts (rty_of q))))) by lia.
    apply ts_ok; auto.
Qed.
