(* C11, decimal half: the text printed by Display of u64 (show_N) for a digit string denotes the same
   decimal as the digit string itself; hence a declared u64 bound is printed exactly. *)
From Coq Require Import String Ascii List Arith Lia Bool NArith ZArith Decimal DecimalN DecimalFacts DecimalString.
Require Import TT.Model.Str TT.Model.C11Validator TT.Spec.C11Spec.
Import ListNotations.
Local Open Scope char_scope.
Local Open Scope list_scope.

(* ------------------------------------------------------------------ digit characters *)
Lemma is_digit_cases c : is_digit c = true ->
  c = "0" \/ c = "1" \/ c = "2" \/ c = "3" \/ c = "4" \/ c = "5" \/ c = "6" \/ c = "7" \/ c = "8" \/ c = "9".
Proof. destruct c as [[] [] [] [] [] [] [] []]; intro H; vm_compute in H; try discriminate H; clear H;
  repeat (first [left; reflexivity | right]); reflexivity. Qed.
Ltac digit_cases H :=
  destruct (is_digit_cases _ H) as [->|[->|[->|[->|[->|[->|[->|[->|[->| ->]]]]]]]]].

Lemma strip0_cons c r : strip0 (c :: r) = if Ascii.eqb c "0" then strip0 r else c :: r.
Proof. destruct c as [[] [] [] [] [] [] [] []]; reflexivity. Qed.
Lemma strip0_idem : forall d, strip0 (strip0 d) = strip0 d.
Proof. induction d as [|c r IH]; [reflexivity|]. rewrite strip0_cons. destruct (Ascii.eqb c "0") eqn:E; [exact IH|].
  rewrite strip0_cons, E. reflexivity. Qed.
Lemma strip0_digits : forall d, forallb is_digit d = true -> forallb is_digit (strip0 d) = true.
Proof. induction d as [|c r IH]; intro H; [reflexivity|]. rewrite strip0_cons. destruct (Ascii.eqb c "0"); [|exact H].
  cbn [forallb] in H. apply andb_true_iff in H as [_ Hr]. exact (IH Hr). Qed.
Lemma span_digits : forall d, forallb is_digit d = true -> span is_digit d = (d, []).
Proof. induction d as [|c r IH]; intro H; [reflexivity|]. cbn [forallb] in H. apply andb_true_iff in H as [Hc Hr].
  cbn [span]. rewrite Hc, (IH Hr). reflexivity. Qed.

(* ------------------------------------------------------------------ digit strings as Decimal.uint *)
Definition dig (c : ascii) (u : uint) : uint :=
  match c with
  | "0" => D0 u | "1" => D1 u | "2" => D2 u | "3" => D3 u | "4" => D4 u
  | "5" => D5 u | "6" => D6 u | "7" => D7 u | "8" => D8 u | "9" => D9 u
  | _ => D0 u end.
Fixpoint uoc (d : str) : uint := match d with [] => Nil | c :: r => dig c (uoc r) end.
Definition chars (u : uint) : str := list_ascii_of_string (NilEmpty.string_of_uint u).
Local Notation stepf := (fun acc c => (acc * 10 + digit_val c)%N).

Lemma chars_uoc : forall d, forallb is_digit d = true -> chars (uoc d) = d.
Proof. induction d as [|c r IH]; intro H; [reflexivity|]. cbn [forallb] in H. apply andb_true_iff in H as [Hc Hr].
  rewrite <- (IH Hr) at 2. digit_cases Hc; reflexivity. Qed.

Lemma of_uint_acc_fold : forall d acc, forallb is_digit d = true ->
  Npos (Pos.of_uint_acc (uoc d) acc) = fold_left stepf d (Npos acc).
Proof. induction d as [|c r IH]; intros acc H; [reflexivity|].
  cbn [forallb] in H. apply andb_true_iff in H as [Hc Hr]. cbn [fold_left uoc].
  assert (E : exists acc', (forall u, Pos.of_uint_acc (dig c u) acc = Pos.of_uint_acc u acc') /\
                           Npos acc' = (Npos acc * 10 + digit_val c)%N).
  { digit_cases Hc; (eexists; split; [intro u; cbn [dig Pos.of_uint_acc]; reflexivity|]);
      remember (digit_val _) as v eqn:Hv; vm_compute in Hv; subst v; lia. }
  destruct E as [acc' [E1 E2]]. rewrite E1, (IH acc' Hr), E2. reflexivity. Qed.

Lemma of_uint_uoc : forall d, forallb is_digit d = true -> N.of_uint (uoc d) = n_of_digits d.
Proof. induction d as [|c r IH]; intro H; [reflexivity|].
  cbn [forallb] in H. apply andb_true_iff in H as [Hc Hr]. unfold n_of_digits. cbn [fold_left].
  digit_cases Hc; cbn [uoc dig N.of_uint Pos.of_uint].
  1: { replace (0 * 10 + digit_val "0")%N with 0%N by (vm_compute; reflexivity). exact (IH Hr). }
  all: rewrite (of_uint_acc_fold r _ Hr); f_equal; vm_compute; reflexivity. Qed.

Lemma nzhead_uoc : forall d, forallb is_digit d = true -> nzhead (uoc d) = uoc (strip0 d).
Proof. induction d as [|c r IH]; intro H; [reflexivity|].
  cbn [forallb] in H. apply andb_true_iff in H as [Hc Hr].
  digit_cases Hc; cbn [uoc dig nzhead strip0]; [exact (IH Hr) | reflexivity ..]. Qed.

Lemma chars_unorm : forall d, forallb is_digit d = true ->
  chars (unorm (uoc d)) = match strip0 d with [] => L "0" | s => s end.
Proof. intros d H. unfold unorm. rewrite (nzhead_uoc d H). pose proof (strip0_digits d H) as Hs.
  destruct (strip0 d) as [|c r]; [reflexivity|]. pose proof (chars_uoc (c :: r) Hs) as E.
  destruct (uoc (c :: r)); [cbv in E; discriminate E | exact E ..]. Qed.

(* 1. Display of the parsed u64 = the digit string without its leading zeros *)
Theorem show_N_digits : forall d, forallb is_digit d = true ->
  show_N (n_of_digits d) = match strip0 d with [] => L "0" | s => s end.
Proof. intros d H. unfold show_N. fold (chars (N.to_uint (n_of_digits d))).
  rewrite <- (of_uint_uoc d H), DecimalN.Unsigned.to_of. exact (chars_unorm d H). Qed.

(* ------------------------------------------------------------------ dec_of_text on digit strings *)
Definition dec_body (neg : bool) (s1 : str) : option dec :=
  let '(ip, s2) := span is_digit s1 in
  let '(fp, s3) := match s2 with "." :: r => span is_digit r | _ => ([], s2) end in
  if (List.length ip + List.length fp =? 0)%nat then None else
  let base := (- Z.of_nat (List.length fp))%Z in
  match s3 with
  | [] => Some (canon neg (ip ++ fp) base)
  | e :: r =>
      if Ascii.eqb e "e" || Ascii.eqb e "E" then
        let '(eneg, r1) := match r with "-" :: x => (true, x) | "+" :: x => (false, x) | _ => (false, r) end in
        let '(ed, r2) := span is_digit r1 in
        match ed, r2 with
        | _ :: _, [] => let ev := Z.of_N (n_of_digits ed) in
                        Some (canon neg (ip ++ fp) ((if eneg then (- ev) else ev) + base)%Z)
        | _, _ => None end
      else None
  end.
Lemma dec_of_text_nosign c r : is_digit c = true -> dec_of_text (c :: r) = dec_body false (c :: r).
Proof. intro H. digit_cases H; reflexivity. Qed.

(* 2. a non-empty digit string denotes the integer it spells *)
Theorem dec_of_text_digits : forall d, d <> [] -> forallb is_digit d = true ->
  dec_of_text d = Some (canon false d 0%Z).
Proof. intros d Hne H. destruct d as [|c r]; [congruence|].
  pose proof H as H0. cbn [forallb] in H0. apply andb_true_iff in H0 as [Hc _].
  rewrite (dec_of_text_nosign c r Hc). unfold dec_body. rewrite (span_digits _ H).
  cbn [List.length Nat.add Nat.eqb]. rewrite List.app_nil_r. reflexivity. Qed.

Lemma canon_strip0 neg a b e : strip0 a = strip0 b -> canon neg a e = canon neg b e.
Proof. intro H. unfold canon. rewrite H. reflexivity. Qed.

Lemma parse_u64_digit c r : is_digit c = true ->
  parse_u64 (c :: r) =
  if forallb is_digit (c :: r) then
    if (n_of_digits (c :: r) <=? 18446744073709551615)%N then Some (show_N (n_of_digits (c :: r))) else None
  else None.
Proof. intro H. digit_cases H; reflexivity. Qed.

(* 3. the text printed for a declared u64 bound denotes exactly the declared decimal *)
Theorem u64_bound_exact : forall lit, u64_lit (Num false lit) = true ->
  exists t, parse_u64 lit = Some t /\ t = show_N (n_of_digits lit) /\
            dec_of_text t = dec_of_text lit /\ dec_of_text lit = dec_of_num (Num false lit) /\
            dec_of_text lit <> None.
Proof. intros lit H. unfold u64_lit in H.
  apply andb_true_iff in H as [H Hle]. apply andb_true_iff in H as [H Hd]. apply andb_true_iff in H as [_ Hne].
  assert (Hnil : lit <> []). { intro E. subst lit. cbn in Hne. discriminate Hne. }
  exists (show_N (n_of_digits lit)). split.
  { destruct lit as [|c r]; [congruence|]. pose proof Hd as H0. cbn [forallb] in H0. apply andb_true_iff in H0 as [Hc _].
    rewrite (parse_u64_digit c r Hc), Hd, Hle. reflexivity. }
  split; [reflexivity|].
  rewrite (dec_of_text_digits lit Hnil Hd). split; [|split; [cbn [dec_of_num]; rewrite (dec_of_text_digits lit Hnil Hd); reflexivity|discriminate]].
  rewrite (show_N_digits lit Hd). pose proof (strip0_digits lit Hd) as Hs. pose proof (strip0_idem lit) as Hi.
  destruct (strip0 lit) as [|c r] eqn:E.
  - rewrite (dec_of_text_digits (L "0")) by (try discriminate; reflexivity). f_equal. apply canon_strip0. rewrite E. reflexivity.
  - rewrite (dec_of_text_digits (c :: r)) by (try discriminate; exact Hs). f_equal. apply canon_strip0. rewrite E. exact Hi. Qed.

(* ------------------------------------------------------------------ 4. Display of any u64 reads back *)
Lemma chars_digits : forall u, forallb is_digit (chars u) = true.
Proof. induction u as [|u IH|u IH|u IH|u IH|u IH|u IH|u IH|u IH|u IH|u IH]; [reflexivity | exact IH ..]. Qed.
Lemma uoc_chars : forall u, uoc (chars u) = u.
Proof. induction u as [|u IH|u IH|u IH|u IH|u IH|u IH|u IH|u IH|u IH|u IH]; [reflexivity | ..];
  rewrite <- IH at 2; reflexivity. Qed.
Lemma show_N_chars n : show_N n = chars (N.to_uint n).
Proof. reflexivity. Qed.
Lemma show_N_is_digits n : forallb is_digit (show_N n) = true.
Proof. rewrite show_N_chars. apply chars_digits. Qed.
Lemma show_N_nonnil n : show_N n <> [].
Proof. rewrite show_N_chars. rewrite <- (DecimalN.Unsigned.of_to n). rewrite DecimalN.Unsigned.to_of. unfold unorm.
  destruct (nzhead (N.to_uint n)); intro E; cbn [chars NilEmpty.string_of_uint list_ascii_of_string] in E; discriminate E. Qed.
Theorem n_of_digits_show_N : forall n, n_of_digits (show_N n) = n.
Proof. intro n. rewrite <- (of_uint_uoc _ (show_N_is_digits n)). rewrite show_N_chars, uoc_chars.
  apply DecimalN.Unsigned.of_to. Qed.
Theorem show_N_roundtrip : forall n, dec_of_text (show_N n) = Some (canon false (show_N n) 0%Z).
Proof. intro n. apply dec_of_text_digits; [apply show_N_nonnil | apply show_N_is_digits]. Qed.

(* ------------------------------------------------------------------ the value of a non-negative integral dec *)
Definition dec_val_N (x : dec) : option N :=
  if d_neg x then None else if (d_exp x <? 0)%Z then None
  else Some (n_of_digits (d_digits x) * 10 ^ Z.to_N (d_exp x))%N.

Lemma n_of_digits_strip0 : forall s, n_of_digits (strip0 s) = n_of_digits s.
Proof. induction s as [|c r IH]; [reflexivity|]. rewrite strip0_cons. destruct (Ascii.eqb c "0") eqn:E; [|reflexivity].
  apply Ascii.eqb_eq in E. subst c. rewrite IH. reflexivity. Qed.

(* least significant digit first *)
Definition val_rev (t : str) : N := fold_right (fun c acc => (acc * 10 + digit_val c)%N) 0%N t.
Lemma n_of_digits_rev : forall t, n_of_digits (List.rev t) = val_rev t.
Proof. induction t as [|c r IH]; [reflexivity|]. cbn [List.rev]. unfold n_of_digits. rewrite fold_left_app. cbn [fold_left].
  fold (n_of_digits (List.rev r)). rewrite IH. reflexivity. Qed.
Lemma span_app : forall p s, fst (span p s) ++ snd (span p s) = s.
Proof. intros p. induction s as [|c r IH]; [reflexivity|]. cbn [span]. destruct (p c); [|reflexivity].
  destruct (span p r) as [a b]. cbn [fst snd] in *. cbn [List.app]. rewrite IH. reflexivity. Qed.
Lemma val_rev_span : forall t,
  val_rev t = (val_rev (snd (span (Ascii.eqb "0") t)) * 10 ^ N.of_nat (List.length (fst (span (Ascii.eqb "0") t))))%N.
Proof. induction t as [|c r IH]; [reflexivity|]. cbn [span]. destruct (Ascii.eqb "0" c) eqn:E.
  - apply Ascii.eqb_eq in E. subst c. destruct (span (Ascii.eqb "0") r) as [a b]. cbn [fst snd List.length] in *.
    change (val_rev ("0" :: r)) with (val_rev r * 10 + digit_val "0")%N. rewrite IH, Nat2N.inj_succ, N.pow_succ_r'.
    change (digit_val "0") with 0%N. ring.
  - cbn [fst snd List.length]. change (N.of_nat 0) with 0%N. rewrite N.pow_0_r, N.mul_1_r. reflexivity. Qed.

(* canon keeps the value: k trailing zeros are dropped and k is added to the exponent *)
Lemma canon_val : forall s, dec_val_N (canon false s 0) = Some (n_of_digits s).
Proof. intro s. rewrite <- (n_of_digits_strip0 s). unfold canon, count_trail0. cbv zeta. set (d1 := strip0 s).
  set (t := List.rev d1). pose proof (span_app (Ascii.eqb "0") t) as Happ. pose proof (val_rev_span t) as Hval.
  destruct (span (Ascii.eqb "0") t) as [a b]. cbn [fst snd] in *.
  assert (Hd1 : d1 = List.rev b ++ List.rev a).
  { rewrite <- List.rev_app_distr, Happ. unfold t. symmetry. apply List.rev_involutive. }
  assert (Hf : firstn (List.length d1 - List.length a) d1 = List.rev b).
  { rewrite Hd1. rewrite List.app_length, !List.rev_length.
    replace (List.length b + List.length a - List.length a) with (List.length (List.rev b) + 0)
      by (rewrite List.rev_length; lia).
    rewrite List.firstn_app_2. cbn [firstn]. apply List.app_nil_r. }
  rewrite Hf. assert (Ht : n_of_digits d1 = val_rev t).
  { rewrite <- (n_of_digits_rev t). unfold t. rewrite List.rev_involutive. reflexivity. }
  rewrite Ht, Hval, <- (n_of_digits_rev b).
  destruct (List.rev b) as [|c l].
  - change (n_of_digits []) with 0%N. rewrite N.mul_0_l. reflexivity.
  - unfold dec_val_N. cbn [d_neg d_exp d_digits].
    destruct (Z.ltb_spec (0 + Z.of_nat (List.length a)) 0) as [Hlt|_]; [lia|].
    replace (Z.to_N (0 + Z.of_nat (List.length a))) with (N.of_nat (List.length a)) by lia. reflexivity. Qed.

(* the text printed for the u64 n denotes the number n *)
Theorem show_N_value : forall n x, dec_of_text (show_N n) = Some x -> dec_val_N x = Some n.
Proof. intros n x H. rewrite show_N_roundtrip in H. injection H as <-. rewrite canon_val, n_of_digits_show_N. reflexivity. Qed.

Example u64_bound_exact_ex :
  exists t, parse_u64 (L "00120") = Some t /\ t = L "120" /\ dec_of_text t = dec_of_text (L "00120").
Proof. eexists. split; [vm_compute; reflexivity|]. split; vm_compute; reflexivity. Qed.
