(* C05: satisfiability examples that need the enumeration of Proofs/C05Sweep.v (kept out of the
   property file so that re-checking it stays cheap). *)
From Coq Require Import String Ascii.
From Coq Require Import List Arith Bool.
Require Import TT.Model.Str TT.Proofs.StrFacts TT.Model.TypeParse TT.Model.C05Emit TT.Spec.C05Spec TT.Spec.C05Known TT.Proofs.C05Sweep.
Import ListNotations.
Local Open Scope string_scope.

Lemma sweep_premises_example :
  exists t, In t (spines 1) /\ tts t = L "HashMap<String, f64>" /\ kf_C05 SParam MZod [] t = false.
Proof.
  assert (H : existsb (fun x => str_eqb (tts x) (L "HashMap<String, f64>") && negb (kf_C05 SParam MZod [] x)) (spines 1) = true)
    by (vm_compute; reflexivity).
  apply existsb_exists in H. destruct H as (x & Hin & Hp). apply andb_true_iff in Hp as [Hn Hk].
  exists x. split; [exact Hin|]. split; [apply str_eqb_eq; exact Hn | apply negb_true_iff; exact Hk].
Qed.

(* reading of the boolean sweeps, generic in the list (no computation at Qed time) *)
Lemma sweep_spec (f : site -> mode -> rty -> bool) (l : list rty) :
  sweep f l = true -> forall t, In t l -> forall s md, f s md t = true.
Proof.
  unfold sweep. intros H t Ht s md. rewrite forallb_forall in H. specialize (H t Ht).
  rewrite forallb_forall in H. assert (Hs : In s sites_all) by (destruct s; simpl; tauto).
  specialize (H s Hs). rewrite forallb_forall in H.
  assert (Hm : In md modes_all) by (destruct md; simpl; tauto). exact (H md Hm).
Qed.
