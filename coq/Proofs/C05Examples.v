(* C05: satisfiability examples that need the enumeration of Proofs/C05Sweep.v (kept out of the
   property file so that re-checking it stays cheap). *)
From Coq Require Import String Ascii.
From Coq Require Import List Arith Bool.
Require Import TT.Model.Str TT.Proofs.StrFacts TT.Model.TypeParse TT.Model.C05Emit TT.Spec.C05Spec TT.Spec.C05Known TT.Proofs.C05Sweep.
Import ListNotations.
Local Open Scope string_scope.

Lemma sweep_premises_example :
  exists t, In t (spines 2) /\ tts t = L "Vec<HashMap<String, i32>>" /\ kf_C05 SParam MZod [] t = false.
Proof.
  assert (H : existsb (fun x => str_eqb (tts x) (L "Vec<HashMap<String, i32>>") && negb (kf_C05 SParam MZod [] x)) (spines 2) = true)
    by (vm_compute; reflexivity).
  apply existsb_exists in H. destruct H as (x & Hin & Hp). apply andb_true_iff in Hp as [Hn Hk].
  exists x. split; [exact Hin|]. split; [apply str_eqb_eq; exact Hn | apply negb_true_iff; exact Hk].
Qed.
