(* Resolver histories: every resolve_build_order call of every history answers for exactly the
   nodes and dependencies registered so far (model), and the run-time oracle decides that statement. *)
From Coq Require Import List Arith Lia Bool Permutation.
Require Import TT.Model.Base TT.Model.Topo TT.Model.Kahn TT.Model.C20Resolver TT.Spec.P20 TT.Spec.P20Hist.
Require Import TT.Proofs.TopoProofs TT.Proofs.KahnProofs TT.Proofs.Bridge TT.Proofs.C20Extra TT.Proofs.P20Sound TT.Proofs.P20KahnSound.
Import ListNotations.

Section P20HistSound.
Context {node : Type} {ED : EqDec node}.
Local Notation closed := (@KahnProofs.closed node).
Local Notation memb := (@Kahn.memb node ED).

Definition rinv (s : rstate node) : Prop := NoDup (rnodes s) /\ closed (rnodes s) (rdeps s).

Lemma ins_in n x (l : list node) : In x (ins n l) <-> x = n \/ In x l.
Proof.
  unfold ins. destruct (memb n l) eqn:E.
  - apply kmemb_true in E. split; [auto|]. intros [->|H]; assumption.
  - rewrite in_app_iff. cbn [In]. split; [intros [H|[H|[]]]; auto | intros [H|H]; auto].
Qed.

Lemma ins_nodup n (l : list node) : NoDup l -> NoDup (ins n l).
Proof.
  intros H. unfold ins. destruct (memb n l) eqn:E; [exact H|]. apply kmemb_false in E.
  apply NoDup_rev in H. rewrite <- (rev_involutive (l ++ [n])). apply NoDup_rev.
  rewrite rev_app_distr. cbn [rev app]. constructor; [|exact H]. rewrite <- in_rev. exact E.
Qed.

Lemma rinv_init : rinv (@rinit node).
Proof. split; [constructor | intros d []]. Qed.

Lemma rinv_step s o : rinv s -> rinv (rapply s o).
Proof.
  intros [Hnd Hc]. destruct o as [n|a b|]; cbn [rapply rnodes rdeps]; [| |split; assumption].
  - split; [apply ins_nodup; exact Hnd|]. intros d Hd. destruct (Hc d Hd) as [H1 H2].
    split; apply ins_in; right; assumption.
  - split; [apply ins_nodup, ins_nodup; exact Hnd|]. intros d Hd. apply in_app_or in Hd as [Hd|[<-|[]]].
    + destruct (Hc d Hd) as [H1 H2]. split; apply ins_in; right; apply ins_in; right; assumption.
    + cbn [fst snd]. split; apply ins_in; [right; apply ins_in; left; reflexivity | left; reflexivity].
Qed.

(* the statement, per history: at every Resolve the answer is a valid order of everything
   registered so far when the dependencies so far are acyclic, an error otherwise *)
Fixpoint hist_spec (s : rstate node) (ops : list (rop node)) (outs : list (option (list node))) : Prop :=
  match ops with
  | [] => outs = []
  | Resolve :: ops' =>
      match outs with
      | r :: outs' => kahn_spec (rnodes s) (rdeps s) r /\ hist_spec s ops' outs'
      | [] => False
      end
  | o :: ops' => hist_spec (rapply s o) ops' outs
  end.

Theorem hist_ok_b_spec : forall ops s outs, rinv s ->
  (hist_ok_b s ops outs = true <-> hist_spec s ops outs).
Proof.
  induction ops as [|o ops IH]; intros s outs Hinv.
  - cbn [hist_ok_b hist_spec]. destruct outs; split; intros H; try reflexivity; try discriminate.
  - destruct o as [n|a b|].
    + cbn [hist_ok_b hist_spec]. apply IH. apply rinv_step. exact Hinv.
    + cbn [hist_ok_b hist_spec]. apply IH. apply rinv_step. exact Hinv.
    + cbn [hist_ok_b hist_spec]. destruct outs as [|r outs]; [split; [discriminate|tauto]|].
      rewrite andb_true_iff. destruct Hinv as [Hnd Hc].
      rewrite (kahn_ok_b_spec (rnodes s) (rdeps s) r Hnd Hc), (IH s outs (conj Hnd Hc)). tauto.
Qed.

Definition res_opt (r : Kahn.kres node) : option (list node) := match r with Ok l => Some l | _ => None end.

Section WithOrder.
Variable ord : list node -> list node.
Hypothesis ord_perm : forall l, Permutation (ord l) l.

Lemma kahn_spec_ord s : rinv s -> kahn_spec (rnodes s) (rdeps s) (res_opt (kahn (ord (rnodes s)) (rdeps s))).
Proof.
  intros [Hnd Hc].
  assert (Hnd' : NoDup (ord (rnodes s))) by (eapply Permutation_NoDup; [apply Permutation_sym, ord_perm | exact Hnd]).
  assert (Hc' : closed (ord (rnodes s)) (rdeps s)).
  { intros d Hd. destruct (Hc d Hd) as [H1 H2].
    split; (eapply Permutation_in; [apply Permutation_sym, ord_perm | assumption]). }
  pose proof (kahn_passes_oracle (ord (rnodes s)) (rdeps s) Hnd' Hc') as H.
  apply (kahn_ok_b_spec _ _ _ Hnd' Hc') in H. unfold res_opt.
  destruct (kahn (ord (rnodes s)) (rdeps s)) as [l|r|]; cbn [kahn_spec] in *; [|exact H|exact H].
  destruct H as [Ha [Hp Ho]]. split; [exact Ha|]. split; [|exact Ho].
  eapply Permutation_trans; [exact Hp | apply ord_perm].
Qed.

Theorem resolver_history_correct : forall ops s, rinv s ->
  hist_spec s ops (map res_opt (rrun ord s ops)).
Proof.
  induction ops as [|o ops IH]; intros s Hinv; [reflexivity|].
  destruct o as [n|a b|]; cbn [rrun hist_spec map].
  - apply IH, rinv_step, Hinv.
  - apply IH, rinv_step, Hinv.
  - split; [apply kahn_spec_ord; exact Hinv | apply IH; exact Hinv].
Qed.
End WithOrder.
End P20HistSound.

(* ---------- the same, read off a single resolution inside a history ---------- *)
Section P20HistPoint.
Context {node : Type} {ED : EqDec node}.
Local Notation closed := (@KahnProofs.closed node).

Definition deps_of (ops : list (rop node)) : list (Kahn.dep node) :=
  flat_map (fun o => match o with AddDep a b => [(a, b)] | _ => [] end) ops.
Definition mentioned (ops : list (rop node)) : list node :=
  flat_map (fun o => match o with AddNode n => [n] | AddDep a b => [a; b] | Resolve => [] end) ops.
Definition state_after (ops : list (rop node)) (s : rstate node) : rstate node := fold_left rapply ops s.

Lemma state_after_deps : forall ops s, rdeps (state_after ops s) = rdeps s ++ deps_of ops.
Proof.
  induction ops as [|o ops IH]; intros s; cbn [state_after fold_left deps_of flat_map]; [rewrite app_nil_r; reflexivity|].
  fold (state_after ops (rapply s o)). rewrite IH. fold (deps_of ops).
  destruct o as [n|a b|]; cbn [rapply rdeps app]; [reflexivity| rewrite <- app_assoc; reflexivity | reflexivity].
Qed.

Lemma state_after_nodes : forall ops s n,
  In n (rnodes (state_after ops s)) <-> In n (rnodes s) \/ In n (mentioned ops).
Proof.
  induction ops as [|o ops IH]; intros s n; cbn [state_after fold_left mentioned flat_map]; [cbn [In]; tauto|].
  fold (state_after ops (rapply s o)). rewrite IH. fold (mentioned ops). rewrite in_app_iff.
  destruct o as [m|a b|]; cbn [rapply rnodes In].
  - rewrite ins_in. intuition congruence.
  - rewrite !ins_in. intuition congruence.
  - tauto.
Qed.

Lemma rinv_after : forall ops s, rinv s -> rinv (state_after ops s).
Proof.
  induction ops as [|o ops IH]; intros s H; [exact H|]. cbn [state_after fold_left]. apply IH, rinv_step, H.
Qed.

Variable ord : list node -> list node.
Hypothesis ord_perm : forall l, Permutation (ord l) l.

Lemma rrun_app : forall pre s post,
  rrun ord s (pre ++ post) = rrun ord s pre ++ rrun ord (state_after pre s) post.
Proof.
  induction pre as [|o pre IH]; intros s post; [reflexivity|].
  destruct o as [n|a b|]; cbn [app rrun state_after fold_left]; try apply IH.
  cbn [rapply]. f_equal. apply IH.
Qed.

(* the answer given at the resolution that follows the prefix [pre] of any history *)
Theorem resolution_in_history : forall pre post,
  let s := state_after pre rinit in
  let r := kahn (ord (rnodes s)) (rdeps s) in
  rrun ord rinit (pre ++ Resolve :: post) = rrun ord rinit pre ++ r :: rrun ord s post
  /\ rdeps s = deps_of pre
  /\ (forall n, In n (rnodes s) <-> In n (mentioned pre))
  /\ match r with
     | Ok l => Bridge.acyclic (deps_of pre) /\ Permutation l (rnodes s)
               /\ (forall d, In d (deps_of pre) -> KahnProofs.before (snd d) (fst d) l)
     | Cycle _ => ~ Bridge.acyclic (deps_of pre)
     | OutOfFuel => False
     end.
Proof.
  intros pre post s r.
  assert (Hd : rdeps s = deps_of pre) by (unfold s; rewrite state_after_deps; reflexivity).
  split; [rewrite rrun_app; reflexivity|]. split; [exact Hd|]. split.
  - intros n. unfold s. rewrite state_after_nodes. cbn [rinit rnodes In]. tauto.
  - pose proof (kahn_spec_ord ord ord_perm s (rinv_after pre rinit rinv_init)) as H.
    fold r in H. rewrite <- Hd.
    assert (Hnf : r <> OutOfFuel).
    { destruct (rinv_after pre rinit rinv_init) as [Hnd Hc]. fold s in Hnd, Hc. unfold r.
      apply kahn_never_out_of_fuel.
      - eapply Permutation_NoDup; [apply Permutation_sym, ord_perm | exact Hnd].
      - intros d Hd'. destruct (Hc d Hd') as [H1 H2].
        split; (eapply Permutation_in; [apply Permutation_sym, ord_perm | assumption]). }
    destruct r as [l|c|]; cbn [res_opt kahn_spec] in H; [|exact H|congruence].
    destruct H as [Ha [Hp Ho]]. auto.
Qed.
End P20HistPoint.

(* ---------- TypeDependencyGraph histories ---------- *)
Section P20GHistSound.
Context {node : Type} {ED : EqDec node}.
Local Notation graph := (Topo.graph node).

(* the map semantics of the two mutators *)
Lemma deps_gset a f (g : graph) n :
  deps (gset a f g) n = if eq_dec n a then f (deps g a) else deps g n.
Proof.
  induction g as [|[k ds] g IH]; cbn [gset deps].
  - destruct (eq_dec n a) as [->|Hn]; [destruct (eq_dec a a); [reflexivity|congruence] | destruct (eq_dec n a); [congruence|reflexivity]].
  - destruct (eq_dec a k) as [->|Hak]; cbn [deps].
    + destruct (eq_dec n k) as [->|Hnk]; [destruct (eq_dec k k); [reflexivity|congruence]|].
      destruct (eq_dec n k); [congruence|reflexivity].
    + destruct (eq_dec n k) as [->|Hnk].
      * destruct (eq_dec k a); [congruence|reflexivity].
      * rewrite IH. destruct (eq_dec n a) as [->|Hna]; [|reflexivity].
        destruct (eq_dec a k); [congruence|reflexivity].
Qed.

Theorem add_dependency_map (g : graph) a b n x :
  In x (deps (gapply g (GDep a b)) n) <-> (n = a /\ x = b) \/ In x (deps g n).
Proof.
  cbn [gapply]. rewrite deps_gset. destruct (eq_dec n a) as [->|Hn].
  - rewrite ins_in. intuition congruence.
  - intuition congruence.
Qed.

Theorem add_dependencies_map (g : graph) a l n x :
  In x (deps (gapply g (GDeps a l)) n) <-> if eq_dec n a then In x l else In x (deps g n).
Proof.
  cbn [gapply]. rewrite deps_gset. destruct (eq_dec n a); [apply nodup_In | tauto].
Qed.

Definition same_edges (g g' : graph) : Prop := forall a b, In b (deps g a) <-> In b (deps g' a).

Lemma reach_same g g' : same_edges g g' -> forall a b, reach g a b -> reach g' a b.
Proof.
  intros Hs a b H. induction H as [a|a b c He _ IH]; [apply reach_refl|].
  eapply reach_step; [|exact IH]. unfold edge in *. apply Hs. exact He.
Qed.

Lemma topo_spec_same g g' req req' out :
  same_edges g g' -> (forall r, In r req <-> In r req') -> topo_spec g req out -> topo_spec g' req' out.
Proof.
  intros Hs Hr (Hnd & Hex & Hord).
  assert (Hs' : same_edges g' g) by (intros a b; symmetry; apply Hs).
  split; [exact Hnd|]. split.
  - intros n. rewrite Hex. split; intros (r & Hin & Hre); exists r; (split; [apply Hr; exact Hin|]).
    + eapply reach_same; eassumption.
    + eapply reach_same; eassumption.
  - intros u v Hu He Hnr. apply Hord; [exact Hu | unfold edge in *; apply Hs; exact He |].
    intros H. apply Hnr. eapply reach_same; eassumption.
Qed.

Fixpoint ghist_spec (g : graph) (ops : list (gop node)) (outs : list (list node)) : Prop :=
  match ops with
  | [] => outs = []
  | GSort req :: ops' =>
      match outs with
      | out :: outs' => topo_spec g req out /\ ghist_spec g ops' outs'
      | [] => False
      end
  | o :: ops' => ghist_spec (gapply g o) ops' outs
  end.

Theorem ghist_ok_b_spec : forall ops g outs, ghist_ok_b g ops outs = true <-> ghist_spec g ops outs.
Proof.
  induction ops as [|o ops IH]; intros g outs.
  - cbn [ghist_ok_b ghist_spec]. destruct outs; split; intros H; try reflexivity; discriminate.
  - destruct o as [a b|a l|req|a e]; cbn [ghist_ok_b ghist_spec]; [apply IH | apply IH | | apply IH].
    destruct outs as [|out outs]; [split; [discriminate|tauto]|].
    rewrite andb_true_iff, topo_ok_b_spec, IH. tauto.
Qed.

Section WithOrder.
Variable ord : list node -> list node.
Hypothesis ord_perm : forall l, Permutation (ord l) l.

Lemma ord_nil : ord [] = [].
Proof. apply Permutation_nil. apply Permutation_sym. apply ord_perm. Qed.

Lemma deps_gord (g : graph) n : deps (gord ord g) n = ord (deps g n).
Proof.
  induction g as [|[k ds] g IH]; cbn [gord map deps fst snd]; [symmetry; apply ord_nil|].
  destruct (eq_dec n k); [reflexivity | exact IH].
Qed.

Lemma gord_same g : same_edges (gord ord g) g.
Proof.
  intros a b. rewrite deps_gord. split; apply Permutation_in; [apply ord_perm | apply Permutation_sym, ord_perm].
Qed.

Theorem graph_history_correct : forall ops g,
  exists outs, grun ord g ops = map Some outs /\ ghist_spec g ops outs.
Proof.
  induction ops as [|o ops IH]; intros g; [exists []; split; reflexivity|].
  destruct o as [a b|a l|req|a e]; cbn [grun ghist_spec]; [apply IH | apply IH | | apply IH].
  - destruct (IH g) as (outs & E & Hs).
    destruct (topo_total (gord ord g) (ord req)) as (out & Ho).
    exists (out :: outs). cbn [map]. rewrite Ho, E. split; [reflexivity|]. split; [|exact Hs].
    apply (topo_spec_same (gord ord g) g (ord req) req out (gord_same g)).
    + intros r. split; apply Permutation_in; [apply ord_perm | apply Permutation_sym, ord_perm].
    + pose proof (topo_correct _ _ _ _ Ho) as (H1 & H2 & H3). split; [exact H1|]. split; [exact H2 | exact H3].
Qed.
End WithOrder.
End P20GHistSound.
