(* proofs about TT.Spec.TsType *)
From Coq Require Import String Ascii.
Require Import TT.Model.Str TT.Proofs.StrFacts.
From Coq Require Import List Arith Lia Bool.
Import ListNotations.
Local Open Scope list_scope.
Local Open Scope list_scope.
Require Import TT.Spec.TsType.
Lemma stop_post_ndl r : stop_post r -> no_dot_lt r.
Proof. intros [H|[x ->]]; [|exact I]. destruct r as [|[]]; simpl in *; auto. Qed.
Lemma stop_post_na r : stop_post r -> no_arr r.
Proof. intros [H|[x ->]]; [|exact I]. destruct r as [|[]]; simpl in *; auto. Qed.

Lemma nf_list_iff (P : tsty -> Prop) l :
  (fix go l := match l with [] => True | x :: l' => P x /\ go l' end) l <-> Forall P l.
Proof. induction l; simpl; split; intros; auto. constructor; tauto. inversion H; subst; tauto. Qed.

Lemma parse_path_ok tl : forall acc rest, no_dot_lt rest ->
  parse_path acc (flat_map (fun s => [TDot; TId s]) tl ++ rest) = (rev acc ++ tl, rest).
Proof. induction tl as [|s tl IH]; intros acc rest Hr; simpl.
  - rewrite app_nil_r. destruct rest as [|[] rest]; simpl in *; try reflexivity; try contradiction.
  - rewrite IH by auto. simpl. rewrite <- app_assoc. reflexivity. Qed.

(* a type is a chain of n array suffixes over a non-array base *)
Fixpoint arrays (n : nat) (t : tsty) : tsty := match n with 0 => t | S n' => TsArray (arrays n' t) end.
Fixpoint suffixes (n : nat) : list tok := match n with 0 => [] | S n' => TLBr :: TRBr :: suffixes n' end.
Definition is_array (t : tsty) := match t with TsArray _ => true | _ => false end.

Lemma arrays_S n t : arrays n (TsArray t) = TsArray (arrays n t).
Proof. induction n; simpl; congruence. Qed.

Lemma parse_suffix_ok n : forall t rest, no_arr rest ->
  parse_suffix t (suffixes n ++ rest) = (arrays n t, rest).
Proof. induction n as [|n IH]; intros t rest Hr; simpl.
  - destruct rest as [|[] rest]; simpl in *; try reflexivity; try contradiction.
  - rewrite IH by auto. rewrite arrays_S. reflexivity. Qed.

Definition atom (u : tsty) : list tok := if is_union u then TLPar :: pr u ++ [TRPar] else pr u.

Fixpoint strip (t : tsty) : nat * tsty :=
  match t with TsArray u => let '(n, b) := strip u in (S n, b) | _ => (0, t) end.

Lemma suffixes_snoc n : suffixes n ++ [TLBr; TRBr] = suffixes (S n).
Proof. induction n; simpl; auto. simpl in IHn. rewrite IHn. reflexivity. Qed.

Lemma pr_array u : pr (TsArray u) = atom u ++ [TLBr; TRBr].
Proof. reflexivity. Qed.

Lemma pr_array_strip u : pr (TsArray u) = atom (snd (strip u)) ++ suffixes (S (fst (strip u))).
Proof. induction u; try reflexivity.
  rewrite pr_array. unfold atom at 1. simpl is_union. cbv iota. rewrite IHu.
  simpl strip. destruct (strip u) as [n b]. simpl fst. simpl snd.
  rewrite <- app_assoc. rewrite suffixes_snoc. reflexivity. Qed.

Lemma strip_spec u : is_array (snd (strip u)) = false /\ arrays (fst (strip u)) (snd (strip u)) = u
   /\ size (snd (strip u)) <= size u.
Proof. induction u; simpl; try (repeat split; auto; fail).
  destruct (strip u) as [n b]. simpl in *. destruct IHu as (H1 & H2 & H3). repeat split; auto. congruence. Qed.

Definition no_dot (rest : list tok) : Prop := match rest with TDot :: _ => False | _ => True end.
Definition no_lt (rest : list tok) : Prop := match rest with TLt :: _ => False | _ => True end.

Lemma parse_path_ok' tl : forall acc rest, no_dot rest ->
  parse_path acc (flat_map (fun s => [TDot; TId s]) tl ++ rest) = (rev acc ++ tl, rest).
Proof. induction tl as [|s tl IH]; intros acc rest Hr; simpl.
  - rewrite app_nil_r. destruct rest as [|[] rest]; simpl in *; try reflexivity; try contradiction.
  - rewrite IH by auto. simpl. rewrite <- app_assoc. reflexivity. Qed.

Lemma sep_by_cons2 {A} (s : A) x y l : sep_by s (x :: y :: l) = x ++ s :: sep_by s (y :: l).
Proof. reflexivity. Qed.
Lemma sep_by_one {A} (s : A) x : sep_by s [x] = x.
Proof. reflexivity. Qed.

Lemma pr_head t : exists h r, pr t = h :: r /\ h <> TRBr /\ h <> TBar /\ h <> TComma.
Proof. induction t; simpl.
  - eexists; eexists; split; [reflexivity|]. repeat split; discriminate.
  - eexists; eexists; split; [reflexivity|]. repeat split; discriminate.
  - destruct (is_union t).
    + eexists; eexists; split; [reflexivity|]. repeat split; discriminate.
    + destruct IHt as (h & r & -> & Hh). exists h. eexists. split; [reflexivity|]. auto.
  - eexists; eexists; split; [reflexivity|]. repeat split; discriminate.
  - destruct IHt1 as (h & r & -> & Hh). exists h. eexists. split; [reflexivity|]. auto.
Qed.

Lemma pr_len t : 1 <= List.length (pr t).
Proof. destruct (pr_head t) as (h & r & -> & _). simpl. lia. Qed.

Lemma sep_by_len (l : list tsty) : List.length l <= List.length (sep_by TComma (map pr l)).
Proof. induction l as [|x l IH]; [simpl; auto|]. destruct l as [|y l].
  - simpl map. rewrite sep_by_one. pose proof (pr_len x). simpl. lia.
  - change (map pr (x :: y :: l)) with (pr x :: pr y :: map pr l). rewrite sep_by_cons2.
    change (pr y :: map pr l) with (map pr (y :: l)).
    rewrite app_length. pose proof (pr_len x). simpl List.length in *. lia. Qed.

Lemma nf_strip u : nf u -> nf (snd (strip u)).
Proof. induction u; simpl; auto. destruct (strip u) as [n b]. simpl in *. auto. Qed.

Lemma pr_app_eq hd tl a args : pr (TsApp hd tl a args) = TId hd :: (flat_map (fun s => [TDot; TId s]) tl ++ TLt :: sep_by TComma (map pr (a :: args)) ++ [TGt]).
Proof. reflexivity. Qed.
Lemma pr_tuple_eq ts : pr (TsTuple ts) = TLBr :: sep_by TComma (map pr ts) ++ [TRBr].
Proof. reflexivity. Qed.

Section RoundTrip.
  Variable rec : list tok -> R.
  Variable k : nat.
  Hypothesis Good : forall u rest, nf u -> size u < k -> stop rest -> rec (pr u ++ rest) = Some (u, rest).

  Lemma parse_list_ok close c : close c = true -> c <> TComma -> (forall rest, stop (c :: rest)) ->
    forall elems n acc rest, elems <> [] -> Forall (fun e => nf e /\ size e < k) elems ->
    List.length elems <= n ->
    parse_list rec close n (sep_by TComma (map pr elems) ++ c :: rest) acc = Some (rev acc ++ elems, rest).
  Proof. intros Hc Hnc Hstop. induction elems as [|e es IH]; intros n acc rest Hne Hall Hn; [congruence|].
    inversion Hall as [|? ? [Hnf Hsz] Hall']; subst.
    destruct n as [|n]; [simpl in Hn; lia|]. destruct es as [|e' es].
    - simpl map. rewrite sep_by_one. simpl parse_list. rewrite Good by auto.
      destruct c; try congruence; simpl in Hc; try discriminate; rewrite ?Hc; simpl; rewrite <- ?app_assoc; reflexivity.
    - change (map pr (e :: e' :: es)) with (pr e :: pr e' :: map pr es).
      rewrite sep_by_cons2. rewrite <- app_assoc. simpl parse_list.
      rewrite Good by (auto; exact I). change (pr e' :: map pr es) with (map pr (e' :: es)).
      simpl app. rewrite IH; auto. + simpl. rewrite <- app_assoc. reflexivity. + discriminate. + simpl in *; lia.
  Qed.

  Lemma parse_primary_ok b rest : nf b -> is_array b = false -> size b <= k ->
     (is_union b = true -> size b < k) -> no_dot rest -> no_lt rest ->
     parse_primary rec (atom b ++ rest) = Some (b, rest).
  Proof. intros Hnf Hna Hsz Hu Hd Hl. destruct b as [hd tl|hd tl a args|u|ts|a b' more]; try discriminate.
    - unfold atom. simpl is_union. cbv iota. simpl pr. unfold pr_path. simpl app. unfold parse_primary.
      rewrite parse_path_ok' by auto. simpl rev. simpl app.
      destruct rest as [|[] rest]; simpl in *; try reflexivity; contradiction.
    - unfold atom. simpl is_union. cbv iota. rewrite pr_app_eq. 
      change ((TId hd :: (flat_map (fun s => [TDot; TId s]) tl ++ TLt :: sep_by TComma (map pr (a :: args)) ++ [TGt])) ++ rest)
        with (TId hd :: ((flat_map (fun s => [TDot; TId s]) tl ++ TLt :: sep_by TComma (map pr (a :: args)) ++ [TGt]) ++ rest)).
      unfold parse_primary.
      rewrite <- app_assoc. rewrite parse_path_ok' by exact I. simpl rev. cbn [app].
      simpl in Hnf. destruct Hnf as [Hnfa Hnfs]. apply nf_list_iff in Hnfs.
      rewrite <- app_assoc. cbn [app].
      rewrite (parse_list_ok is_gt TGt); auto.
      + discriminate. + intros; exact I. + discriminate.
      + constructor. * split; auto. simpl in Hsz. lia.
        * rewrite Forall_forall in *. intros x Hx. split; auto. simpl in Hsz.
          assert (size x <= list_sum (map size args)).
          { clear -Hx. induction args; simpl in *; [contradiction|]. destruct Hx; subst; [lia|]. specialize (IHargs H). lia. }
          lia.
      + rewrite app_length. pose proof (sep_by_len (a :: args)). simpl List.length in *. lia.
    - (* tuple *)
      unfold atom. simpl is_union. cbv iota. simpl in Hnf. apply nf_list_iff in Hnf.
      destruct ts as [|e es].
      + reflexivity.
      + rewrite pr_tuple_eq.
        destruct (pr_head e) as (h & r & Eh & Hh1 & _).
        assert (Hsep : exists r', sep_by TComma (map pr (e :: es)) = h :: r').
        { destruct es; simpl map. rewrite sep_by_one, Eh; eauto.
          change (map pr (e :: t :: es)) with (pr e :: pr t :: map pr es).
          rewrite sep_by_cons2, Eh. simpl. eauto. }
        destruct Hsep as (r' & Er').
        assert (Hpl : parse_list rec is_rbr (S (List.length ((sep_by TComma (map pr (e :: es)) ++ [TRBr]) ++ rest)))
                       ((sep_by TComma (map pr (e :: es)) ++ [TRBr]) ++ rest) [] = Some (e :: es, rest)).
        { rewrite <- app_assoc. cbn [app]. rewrite (parse_list_ok is_rbr TRBr); auto.
          - discriminate. - intros; exact I. - discriminate.
          - rewrite Forall_forall in *. intros x Hx. split; auto. simpl in Hsz.
            assert (size x <= list_sum (map size (e :: es))).
            { clear -Hx. induction (e :: es); simpl in *; [contradiction|]. destruct Hx; subst; [lia|]. specialize (IHl H). lia. }
            simpl in H. lia.
          - rewrite app_length. pose proof (sep_by_len (e :: es)). simpl List.length in *. lia. }
        change ((TLBr :: sep_by TComma (map pr (e :: es)) ++ [TRBr]) ++ rest)
          with (TLBr :: ((sep_by TComma (map pr (e :: es)) ++ [TRBr]) ++ rest)).
        unfold parse_primary. rewrite Er' in *. cbn [app] in *.
        destruct h; try congruence; rewrite Hpl; reflexivity.
    - (* parenthesised union *)
      unfold atom. simpl is_union. cbv iota.
      change ((TLPar :: pr (TsUnion a b' more) ++ [TRPar]) ++ rest) with (TLPar :: ((pr (TsUnion a b' more) ++ [TRPar]) ++ rest)).
      unfold parse_primary.
      rewrite <- app_assoc. cbn [app]. rewrite Good; auto. exact I.
  Qed.

  Lemma parse_postfix_ok t rest : nf t -> is_union t = false -> size t <= k -> stop_post rest ->
     parse_postfix rec (pr t ++ rest) = Some (t, rest).
  Proof. intros Hnf Hnu Hsz Hr. unfold parse_postfix.
    assert (Hna : no_arr rest) by (apply stop_post_na; auto).
    assert (Hnd : no_dot rest /\ no_lt rest).
    { pose proof (stop_post_ndl _ Hr). destruct rest as [|[] ?]; simpl in *; auto. }
    destruct (is_array t) eqn:Ea.
    - destruct t as [| |u| |]; try discriminate.
      rewrite pr_array_strip. destruct (strip_spec u) as (Hb & Harr & Hsb).
      rewrite <- app_assoc. rewrite parse_primary_ok; auto.
      + rewrite parse_suffix_ok by auto. simpl arrays. rewrite Harr. reflexivity.
      + apply nf_strip; auto.
      + simpl in Hsz. lia.
      + intros _. simpl in Hsz. lia.
      + exact I. + exact I.
    - replace (pr t) with (atom t) by (unfold atom; rewrite Hnu; reflexivity).
      rewrite parse_primary_ok; try tauto; auto.
      + pose proof (parse_suffix_ok 0 t rest Hna) as Hs0. simpl in Hs0. rewrite Hs0. reflexivity.
      + congruence.
  Qed.

  Lemma parse_alts_ok alts : Forall (fun a => nf a /\ is_union a = false /\ size a <= k) alts ->
     forall n acc rest, stop rest -> List.length alts < n ->
     parse_alts rec n (flat_map (fun a => TBar :: pr a) alts ++ rest) acc = Some (rev acc ++ alts, rest).
  Proof. induction 1 as [|a alts (Hnf & Hnu & Hsz) Hall IH]; intros n acc rest Hr Hn.
    - destruct n; [simpl in Hn; lia|]. simpl. rewrite app_nil_r.
      destruct rest as [|[] rest]; simpl in *; try reflexivity; contradiction.
    - destruct n; [simpl in Hn; lia|]. simpl flat_map. simpl app. simpl parse_alts.
      rewrite <- app_assoc. rewrite parse_postfix_ok; auto.
      + rewrite IH; auto. simpl. rewrite <- app_assoc. reflexivity. simpl in Hn; lia.
      + destruct alts; simpl. left; auto. right; eauto.
  Qed.

  Lemma sep_by_flat a l : sep_by TBar (map pr (a :: l)) = pr a ++ flat_map (fun x => TBar :: pr x) l.
  Proof. revert a. induction l as [|b l IH]; intros a. simpl. rewrite app_nil_r; auto.
    change (map pr (a :: b :: l)) with (pr a :: pr b :: map pr l). rewrite sep_by_cons2.
    change (pr b :: map pr l) with (map pr (b :: l)). rewrite IH. reflexivity. Qed.

  Lemma flat_len (l : list tsty) : List.length l <= List.length (flat_map (fun x => TBar :: pr x) l).
  Proof. induction l; simpl; auto. rewrite app_length. lia. Qed.

  Lemma body_ok t rest : nf t -> size t <= k -> stop rest ->
     parse_union_body rec (pr t ++ rest) = Some (t, rest).
  Proof. intros Hnf Hsz Hr. unfold parse_union_body. destruct (is_union t) eqn:Eu.
    - destruct t as [| | | |a b more]; try discriminate.
      simpl in Hnf. destruct Hnf as ((Hnfa & Hua) & (Hnfb & Hub) & Hm). apply nf_list_iff in Hm.
      change (pr (TsUnion a b more)) with (sep_by TBar (map pr (a :: b :: more))).
      rewrite sep_by_flat. rewrite <- app_assoc. simpl in Hsz.
      rewrite parse_postfix_ok; auto; [| lia | right; simpl; eauto].
      rewrite parse_alts_ok; auto.
      + constructor. repeat split; auto; lia.
        rewrite Forall_forall in *. intros x Hx. destruct (Hm x Hx). repeat split; auto.
        assert (size x <= list_sum (map size more)).
        { clear -Hx. induction more; simpl in *; [contradiction|]. destruct Hx; subst; [lia|]. specialize (IHmore H). lia. }
        lia.
      + rewrite app_length. pose proof (flat_len (b :: more)). lia.
    - rewrite parse_postfix_ok; auto; [|left; auto].
      pose proof (parse_alts_ok [] (Forall_nil _) (S (List.length rest)) [] rest Hr) as Ha0.
      simpl flat_map in Ha0. cbn [app rev] in Ha0. rewrite Ha0; [reflexivity|simpl; lia].
  Qed.
End RoundTrip.

Theorem parse_union_ok : forall fuel t rest, nf t -> size t < fuel -> stop rest ->
  parse_union fuel (pr t ++ rest) = Some (t, rest).
Proof. induction fuel as [|f IH]; intros t rest Hnf Hsz Hr; [lia|].
  simpl. apply (body_ok (parse_union f) f); auto. lia. Qed.

