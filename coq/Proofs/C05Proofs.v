(* Proofs for C05 / C18: the domain predicate implies well-formedness, the README-table shape equals
   the shape of the intended structure, mapping substitution, frame, and the soundness theorem for the
   sites whose text is an unqualified TypeScript type. *)
From Coq Require Import String Ascii.
From Coq Require Import List Arith Lia Bool.
Require Import TT.Model.Str TT.Proofs.StrFacts TT.Model.TypeParse TT.Spec.TsType TT.Proofs.TsTypeProofs.
Require Import TT.Model.Render TT.Proofs.RenderProofs TT.Proofs.TypeParseProofs.
Require Import TT.Model.C05Parse TT.Proofs.C05ParseProofs.
Require Import TT.Model.C05Emit TT.Spec.C05Spec TT.Spec.C05Known.
Import ListNotations.
Local Open Scope char_scope.
Local Open Scope list_scope.

(* ---------------- identifiers ---------------- *)
Lemma idc_plain c : is_idc c = true -> plain c.
Proof.
  intros H. unfold plain.
  destruct c as [b0 b1 b2 b3 b4 b5 b6 b7];
    destruct b0, b1, b2, b3, b4, b5, b6, b7; (reflexivity || (vm_compute in H; discriminate H)).
Qed.

Lemma ident_b_spec n : ident_b n = true -> ident n /\ idstr n.
Proof.
  unfold ident_b. intros H. apply andb_true_iff in H as [Hlen Hall].
  assert (Hne : n <> []) by (destruct n; [discriminate Hlen | discriminate]).
  rewrite forallb_forall in Hall.
  split; split; auto; apply Forall_forall; intros c Hc; [apply idc_plain|]; auto.
Qed.

Lemma is_name_eq n s : is_name n s = true -> n = L s.
Proof. unfold is_name. apply str_eqb_eq. Qed.

(* ---------------- mapping tables ---------------- *)
Definition mapping_ok (m : mapping) : Prop := Forall (fun kv => idstr (snd kv)) m.
Lemma lookup_ok m n target : mapping_ok m -> lookup m n = Some target -> idstr target.
Proof. induction 1 as [|[k v] m Hv Hm IH]; simpl; intros H; [discriminate|].
  destruct (str_eqb k n); [inversion H; subst; exact Hv | auto]. Qed.

(* ---------------- rendering with a table = rendering of the substituted structure ---------------- *)
Lemma render_m_msubst m : forall t, render_m m t = render (msubst m t).
Proof.
  induction t as [p|u IH|k v IHk IHv|u IH|l IH|u IH|u IH|n] using ts_ind'; cbn [render_m msubst render]; auto.
  - rewrite IH. reflexivity.
  - rewrite IHk, IHv. reflexivity.
  - rewrite IH. reflexivity.
  - destruct l as [|a l]; [reflexivity|].
    assert (Hm : map (render_m m) (a :: l) = map render (map (msubst m) (a :: l))).
    { clear -IH. induction IH as [|x xs Hx _ IHxs]; [reflexivity|]. cbn [map]. rewrite Hx, IHxs. reflexivity. }
    change (render_m m (TTuple (a :: l))) with (L "[" ++ join (L ", ") (map (render_m m) (a :: l)) ++ L "]").
    change (render (TTuple (map (msubst m) (a :: l))))
      with (L "[" ++ join (L ", ") (map render (map (msubst m) (a :: l))) ++ L "]").
    rewrite Hm. reflexivity.
  - rewrite IH. reflexivity.
  - unfold custom_ts. destruct (lookup m n); reflexivity.
Qed.

Lemma msubst_nil : forall t, msubst [] t = t.
Proof.
  induction t as [p|u IH|k v IHk IHv|u IH|l IH|u IH|u IH|n] using ts_ind'; cbn [msubst lookup]; try congruence.
  f_equal. induction IH as [|x xs Hx _ IHxs]; [reflexivity|]. cbn [map]. rewrite Hx, IHxs. reflexivity.
Qed.

Lemma render_m_nil t : render_m [] t = render t.
Proof. rewrite render_m_msubst, msubst_nil. reflexivity. Qed.

Lemma opt_like_msubst m : forall t, opt_like (msubst m t) = opt_like t.
Proof. induction t using ts_ind'; cbn [msubst opt_like]; auto. destruct (lookup m n); reflexivity. Qed.

Lemma kf_union_msubst m : forall t, kf_union_under_seq (msubst m t) = kf_union_under_seq t.
Proof.
  induction t as [p|u IH|k v IHk IHv|u IH|l IH|u IH|u IH|n] using ts_ind'; cbn [msubst kf_union_under_seq]; auto.
  - rewrite opt_like_msubst, IH. reflexivity.
  - rewrite IHk, IHv. reflexivity.
  - rewrite opt_like_msubst, IH. reflexivity.
  - induction IH as [|x xs Hx _ IHxs]; [reflexivity|]. cbn [map existsb]. rewrite Hx, IHxs. reflexivity.
  - destruct (lookup m n); reflexivity.
Qed.

(* ---------------- frame: names outside the table are untouched, byte for byte ---------------- *)
Fixpoint customs (t : tstruct) : list str :=
  match t with
  | TPrim _ => []
  | TCustom n => [n]
  | TArr u | TSet u | TOpt u | TRes u => customs u
  | TMap k v => customs k ++ customs v
  | TTuple l => flat_map customs l
  end.
Definition unmapped (m : mapping) (t : tstruct) : Prop := forall n, In n (customs t) -> lookup m n = None.

Lemma unmapped_tuple m l : unmapped m (TTuple l) -> Forall (unmapped m) l.
Proof. unfold unmapped. intros H. apply Forall_forall. intros x Hx n Hn. apply H. cbn [customs].
  apply in_flat_map. exists x. auto. Qed.

Lemma frame_all m : forall t, unmapped m t ->
  render_m m t = render_m [] t /\ zvisit m t = zvisit [] t /\ forall k, zbuild m t k = zbuild [] t k.
Proof.
  induction t as [p|u IH|k v IHk IHv|u IH|l IH|u IH|u IH|n] using ts_ind'; intros Hu.
  - repeat split; reflexivity.
  - destruct (IH Hu) as (H1 & H2 & H3). cbn [render_m zvisit zbuild]. rewrite H1, H2. repeat split; auto. intros _. rewrite H3. reflexivity.
  - assert (Hk : unmapped m k) by (intros n Hn; apply Hu; cbn [customs]; apply in_or_app; auto).
    assert (Hv : unmapped m v) by (intros n Hn; apply Hu; cbn [customs]; apply in_or_app; auto).
    destruct (IHk Hk) as (K1 & K2 & K3). destruct (IHv Hv) as (V1 & V2 & V3).
    cbn [render_m zvisit zbuild]. rewrite K1, K2, V1, V2. repeat split; auto. intros _. rewrite K3, V3. reflexivity.
  - destruct (IH Hu) as (H1 & H2 & H3). cbn [render_m zvisit zbuild]. rewrite H1, H2. repeat split; auto. intros _. rewrite H3. reflexivity.
  - apply unmapped_tuple in Hu.
    assert (Hm : map (render_m m) l = map (render_m []) l /\ map (zvisit m) l = map (zvisit []) l /\
                 map (fun x => zbuild m x false) l = map (fun x => zbuild [] x false) l).
    { clear -IH Hu. induction IH as [|x xs Hx _ IHxs]; [repeat split; reflexivity|].
      inversion Hu as [|? ? Hux Huxs]; subst. destruct (Hx Hux) as (A & B & C). destruct (IHxs Huxs) as (A' & B' & C').
      cbn [map]. rewrite A, B, C, A', B', C'. repeat split; reflexivity. }
    destruct Hm as (A & B & C). destruct l as [|a l]; [repeat split; reflexivity|].
    change (render_m m (TTuple (a :: l))) with (L "[" ++ join (L ", ") (map (render_m m) (a :: l)) ++ L "]").
    change (render_m [] (TTuple (a :: l))) with (L "[" ++ join (L ", ") (map (render_m []) (a :: l)) ++ L "]").
    change (zvisit m (TTuple (a :: l))) with (L "z.tuple([" ++ join (L ", ") (map (zvisit m) (a :: l)) ++ L "])").
    change (zvisit [] (TTuple (a :: l))) with (L "z.tuple([" ++ join (L ", ") (map (zvisit []) (a :: l)) ++ L "])").
    rewrite A, B. repeat split; auto. intros k.
    change (zbuild m (TTuple (a :: l)) k) with (L "z.tuple([" ++ join (L ", ") (map (fun x => zbuild m x false) (a :: l)) ++ L "])").
    change (zbuild [] (TTuple (a :: l)) k) with (L "z.tuple([" ++ join (L ", ") (map (fun x => zbuild [] x false) (a :: l)) ++ L "])").
    rewrite C. reflexivity.
  - destruct (IH Hu) as (H1 & H2 & H3). cbn [render_m zvisit zbuild]. rewrite H1, H2. repeat split; auto. intros k. rewrite H3. reflexivity.
  - destruct (IH Hu) as (H1 & H2 & H3). cbn [render_m zvisit zbuild]. rewrite H1, H2. repeat split; auto. intros _. rewrite H3. reflexivity.
  - assert (Hn : lookup m n = None) by (apply Hu; left; reflexivity).
    cbn [render_m zvisit zbuild]. unfold custom_ts, zcustom. rewrite Hn. cbn [lookup]. repeat split; reflexivity.
Qed.

Theorem emit_frame s md m opt t : unmapped m t -> emit_ts s md m opt t = emit_ts s md [] opt t.
Proof. intros Hu. destruct (frame_all m t Hu) as (H1 & H2 & H3).
  destruct s, md; cbn [emit_ts]; rewrite ?H1, ?H3; reflexivity. Qed.

(* ---------------- the domain predicate: well-formed, lexable, and the table agrees ---------------- *)
Lemma arity_ok_nil x : arity_ok x [].
Proof. unfold arity_ok. repeat split; intros; simpl; auto; lia. Qed.

Lemma prim_of_idstr n p : prim_of n = Some p -> idstr p.
Proof. unfold prim_of. intros H.
  repeat match type of H with (if ?c then _ else _) = _ => destruct c end;
  inversion H; subst; split; try discriminate; repeat constructor. Qed.

Lemma not_table n : one_of n table_names = false ->
  is_name n "Option" = false /\ is_name n "Vec" = false /\ is_name n "HashSet" = false /\ is_name n "BTreeSet" = false /\
  is_name n "HashMap" = false /\ is_name n "BTreeMap" = false /\ is_name n "Result" = false.
Proof. unfold one_of, table_names, is_name. cbn [existsb]. intros H.
  repeat (apply orb_false_elim in H as [? H]). repeat split; assumption. Qed.

Lemma not_table_arity n args : one_of n table_names = false -> arity_ok n args.
Proof. intros H. apply not_table in H as (H1 & H2 & H3 & H4 & H5 & H6 & H7). unfold is_name in *.
  unfold arity_ok, one_of, unary_names, map_names, is_name. cbn [existsb].
  rewrite H1, H2, H3, H4, H5, H6, H7. cbn [orb]. repeat split; intros; discriminate. Qed.

Lemma key_ok_multi a : key_ok a = true -> multi a = false.
Proof. destruct a as [n [|x l]|[n [|x l]| |]|]; simpl; intros; try discriminate; reflexivity. Qed.

Ltac names :=
  repeat match goal with
  | |- context [is_name (L ?a) ?b] => let v := eval vm_compute in (is_name (L a) b) in change (is_name (L a) b) with v
  | |- context [one_of (L ?a) ?b] => let v := eval vm_compute in (one_of (L a) b) in change (one_of (L a) b) with v
  end.

Definition facts (m : mapping) (t : rty) : Prop :=
  wf t /\ ts_ok (msubst m (sem t)) /\ rshape m t = shape (msubst m (sem t)).

Lemma facts_unary m (tag : string) a (K : tstruct -> tstruct) (KS : tsty -> tsty) :
  facts m a ->
  ident (L tag) -> arity_ok (L tag) [a] ->
  sem (RPath (L tag) [a]) = K (sem a) ->
  (forall u, msubst m (K u) = K (msubst m u)) -> (forall u, ts_ok (K u) = ts_ok u) ->
  (forall u, shape (K u) = KS (shape u)) -> rshape m (RPath (L tag) [a]) = KS (rshape m a) ->
  facts m (RPath (L tag) [a]).
Proof. intros (Hw & Hok & Hsh) Hid Har Hsem Hms Hts Hshape Hr. unfold facts.
  rewrite Hsem, Hms, Hts, Hshape, Hr, Hsh.
  split; [cbn [wf]; auto | split; [exact Hok | reflexivity]]. Qed.

Lemma dom_m_facts m : mapping_ok m -> forall t, dom_m m t = true -> facts m t.
Proof.
  intros Hm. induction t as [n args IH|t IH|l IH] using rty_ind'; intros Hd.
  - (* path *)
    cbn [dom_m] in Hd. destruct (lookup m (tts (RPath n args))) as [target|] eqn:Hl.
    + (* mapped name, possibly generic *)
      apply andb_true_iff in Hd as [Hd Hargs]. apply andb_true_iff in Hd as [Hd Hnp].
      apply andb_true_iff in Hd as [Hd Hnt]. apply andb_true_iff in Hd as [Hd Hres].
      apply negb_true_iff in Hnt. apply negb_true_iff in Hnp.
      destruct (ident_b_spec _ Hd) as [Hid Hids].
      assert (Hsem : sem (RPath n args) = TCustom (tts (RPath n args))).
      { destruct args as [|a rest].
        - cbn [sem]. unfold prim_of_b in Hnp. destruct (prim_of n); [discriminate|]. reflexivity.
        - rewrite sem_path_cons. apply not_table in Hnt as (H1 & H2 & H3 & H4 & H5 & H6 & H7).
          rewrite H1, H2, H3, H4, H5, H6, H7. reflexivity. }
      assert (Hr : rshape m (RPath n args) = TsName target []).
      { destruct args as [|a [|b [|c rest]]].
        - cbn [rshape]. unfold prim_of_b in Hnp. destruct (prim_of n); [discriminate|].
          unfold named. change (tts (RPath n [])) with n in Hl. rewrite Hl. reflexivity.
        - cbn [rshape]. apply not_table in Hnt as (H1 & H2 & H3 & H4 & H5 & H6 & H7).
          rewrite H1, H2, H3, H4, H7. cbn [orb]. unfold named. rewrite Hl. reflexivity.
        - cbn [rshape]. apply not_table in Hnt as (H1 & H2 & H3 & H4 & H5 & H6 & H7).
          rewrite H5, H6, H7. cbn [orb]. unfold named. rewrite Hl. reflexivity.
        - cbn [rshape]. unfold named. rewrite Hl. reflexivity. }
      unfold facts. rewrite Hsem, Hr. cbn [msubst]. rewrite Hl. cbn [ts_ok shape].
      split; [|split; [eapply lookup_ok; eauto | reflexivity]].
      cbn [wf]. split; [exact Hid|]. split; [apply not_table_arity; exact Hnt|].
      apply wf_list. apply Forall_forall. intros a Ha. rewrite forallb_forall in Hargs. specialize (Hargs a Ha).
      destruct a as [x [|? ?]| |]; try discriminate. cbn [wf]. destruct (ident_b_spec _ Hargs) as [Hx _].
      split; [exact Hx|]. split; [apply arity_ok_nil | exact I].
    + destruct args as [|a [|b [|c rest]]]; [| | |discriminate].
      * (* leaf *)
        apply andb_true_iff in Hd as [Hd Hnt]. apply andb_true_iff in Hd as [Hd Hres].
        apply negb_true_iff in Hnt.
        destruct (ident_b_spec _ Hd) as [Hid Hids]. change (tts (RPath n [])) with n in Hl.
        unfold facts. cbn [sem rshape wf]. split; [split; [exact Hid|split; [apply arity_ok_nil|exact I]]|].
        destruct (prim_of n) as [p|] eqn:Hp; cbn [msubst].
        -- cbn [ts_ok shape]. split; [eapply prim_of_idstr; eauto | reflexivity].
        -- rewrite Hl. cbn [ts_ok shape]. unfold named. rewrite Hl. split; [exact Hids | reflexivity].
      * (* one argument *)
        inversion IH as [|? ? IHa _]; subst.
        apply andb_true_iff in Hd as [Hn Hda]. specialize (IHa Hda).
        repeat (apply orb_true_iff in Hn as [Hn|Hn]); apply is_name_eq in Hn; subst n.
        -- apply (facts_unary m "Option" a TOpt (fun x => union_snoc x null_t)); auto.
           ++ split; [discriminate|repeat constructor].
           ++ unfold arity_ok. names. repeat split; intros; try discriminate; simpl; lia.
        -- apply (facts_unary m "Vec" a TArr TsArray); auto.
           ++ split; [discriminate|repeat constructor].
           ++ unfold arity_ok. names. repeat split; intros; try discriminate; simpl; lia.
        -- apply (facts_unary m "HashSet" a TSet TsArray); auto.
           ++ split; [discriminate|repeat constructor].
           ++ unfold arity_ok. names. repeat split; intros; try discriminate; simpl; lia.
        -- apply (facts_unary m "BTreeSet" a TSet TsArray); auto.
           ++ split; [discriminate|repeat constructor].
           ++ unfold arity_ok. names. repeat split; intros; try discriminate; simpl; lia.
        -- apply (facts_unary m "Result" a TRes (fun x => x)); auto.
           ++ split; [discriminate|repeat constructor].
           ++ unfold arity_ok. names. repeat split; intros; try discriminate; simpl; lia.
      * (* two arguments *)
        inversion IH as [|? ? IHa IH']; subst. inversion IH' as [|? ? IHb _]; subst.
        apply andb_true_iff in Hd as [Hd Hdb]. apply andb_true_iff in Hd as [Hn Hda].
        specialize (IHa Hda). specialize (IHb Hdb).
        destruct IHa as (Hwa & Hoka & Hsa). destruct IHb as (Hwb & Hokb & Hsb).
        apply orb_true_iff in Hn as [Hn|Hn].
        -- apply andb_true_iff in Hn as [Hn Hkey]. apply key_ok_multi in Hkey.
           apply orb_true_iff in Hn as [Hn|Hn]; apply is_name_eq in Hn; subst n; unfold facts;
             rewrite sem_path_cons; names; cbn [orb msubst ts_ok shape rshape wf]; rewrite Hsa, Hsb;
             (split; [split; [split; [discriminate|repeat constructor]|
                       split; [unfold arity_ok; names; repeat split; intros; try discriminate;
                               right; exists a, b; split; [reflexivity|exact Hkey] | tauto]] | split; [tauto|reflexivity]]).
        -- apply is_name_eq in Hn; subst n. unfold facts. rewrite sem_path_cons. names.
           cbn [orb msubst ts_ok shape rshape wf]. rewrite Hsa.
           split; [split; [split; [discriminate|repeat constructor]|
                    split; [unfold arity_ok; names; repeat split; intros; try discriminate; simpl; lia | tauto]]
                  | split; [tauto|reflexivity]].
  - (* reference *)
    cbn [dom_m] in Hd. destruct (IH Hd) as (Hw & Hok & Hs). unfold facts. cbn [sem rshape wf]. auto.
  - (* tuple *)
    cbn [dom_m] in Hd. rewrite forallb_forall in Hd.
    assert (Hall : Forall (facts m) l).
    { apply Forall_forall. intros x Hx. rewrite Forall_forall in IH. apply IH; auto. }
    clear IH Hd. destruct l as [|a l].
    + unfold facts. cbn [sem msubst rshape wf ts_ok shape]. split; [exact I|]. split; [|reflexivity].
      split; [discriminate|repeat constructor].
    + unfold facts. change (sem (RTuple (a :: l))) with (TTuple (map sem (a :: l))).
      change (rshape m (RTuple (a :: l))) with (TsTuple (map (rshape m) (a :: l))).
      change (msubst m (TTuple (map sem (a :: l)))) with (TTuple (map (msubst m) (map sem (a :: l)))).
      split; [|split].
      * change (wf (RTuple (a :: l))) with ((fix go l := match l with [] => True | x :: l' => wf x /\ go l' end) (a :: l)).
        apply wf_list. eapply Forall_impl; [|exact Hall]. intros x (Hw & _). exact Hw.
      * change (ts_ok (TTuple (map (msubst m) (map sem (a :: l)))))
          with ((fix go l := match l with [] => True | x :: l' => ts_ok x /\ go l' end) (map (msubst m) (map sem (a :: l)))).
        apply ts_ok_list. rewrite map_map. apply Forall_map.
        eapply Forall_impl; [|exact Hall]. intros x (_ & Hok & _). exact Hok.
      * change (shape (TTuple (map (msubst m) (map sem (a :: l)))))
          with (TsTuple (map shape (map (msubst m) (map sem (a :: l))))).
        f_equal. rewrite !map_map. apply map_ext_Forall.
        eapply Forall_impl; [|exact Hall]. intros x (_ & _ & Hs). exact Hs.
Qed.

(* ---------------- the domain predicate: no square brackets in names ---------------- *)
Lemma idc_nb c : is_idc c = true -> nb c.
Proof.
  intros H. unfold nb.
  destruct c as [b0 b1 b2 b3 b4 b5 b6 b7];
    destruct b0, b1, b2, b3, b4, b5, b6, b7; (split; reflexivity) || (vm_compute in H; discriminate H).
Qed.
Lemma ident_b_nb n : ident_b n = true -> Forall nb n.
Proof. unfold ident_b. intros H. apply andb_true_iff in H as [_ H]. rewrite forallb_forall in H.
  apply Forall_forall. intros c Hc. apply idc_nb. auto. Qed.
Lemma nb_L (s : string) : forallb is_idc (L s) = true -> Forall nb (L s).
Proof. intros H. rewrite forallb_forall in H. apply Forall_forall. intros c Hc. apply idc_nb. auto. Qed.

Lemma dom_m_nobr m : forall t, dom_m m t = true -> nobr t.
Proof.
  induction t as [n args IH|t IH|l IH] using rty_ind'; intros Hd.
  - cbn [dom_m] in Hd. destruct (lookup m (tts (RPath n args))) as [target|].
    + apply andb_true_iff in Hd as [Hd Hargs]. apply andb_true_iff in Hd as [Hd _].
      apply andb_true_iff in Hd as [Hd _]. apply andb_true_iff in Hd as [Hd _].
      cbn [nobr]. split; [apply ident_b_nb; exact Hd|]. apply nobr_list. apply Forall_forall. intros a Ha.
      rewrite forallb_forall in Hargs. specialize (Hargs a Ha). destruct a as [x [|? ?]| |]; try discriminate.
      cbn [nobr]. split; [apply ident_b_nb; exact Hargs | exact I].
    + destruct args as [|a [|b [|c rest]]]; [| | |discriminate].
      * apply andb_true_iff in Hd as [Hd _]. apply andb_true_iff in Hd as [Hd _].
        cbn [nobr]. split; [apply ident_b_nb; exact Hd | exact I].
      * inversion IH as [|? ? IHa _]; subst. apply andb_true_iff in Hd as [Hn Hda].
        cbn [nobr]. split; [|split; [apply IHa; exact Hda | exact I]].
        repeat (apply orb_true_iff in Hn as [Hn|Hn]); apply is_name_eq in Hn; subst n; apply nb_L; reflexivity.
      * inversion IH as [|? ? IHa IH']; subst. inversion IH' as [|? ? IHb _]; subst.
        apply andb_true_iff in Hd as [Hd Hdb]. apply andb_true_iff in Hd as [Hn Hda].
        cbn [nobr]. split; [|split; [apply IHa; exact Hda | split; [apply IHb; exact Hdb | exact I]]].
        apply orb_true_iff in Hn as [Hn|Hn].
        -- apply andb_true_iff in Hn as [Hn _]. apply orb_true_iff in Hn as [Hn|Hn];
             apply is_name_eq in Hn; subst n; apply nb_L; reflexivity.
        -- apply is_name_eq in Hn; subst n; apply nb_L; reflexivity.
  - cbn [dom_m] in Hd. cbn [nobr]. auto.
  - cbn [dom_m] in Hd. rewrite forallb_forall in Hd.
    change (nobr (RTuple l)) with ((fix go l := match l with [] => True | x :: l' => nobr x /\ go l' end) l).
    apply nobr_list. apply Forall_forall. intros x Hx. rewrite Forall_forall in IH. apply IH; auto.
Qed.

(* ---------------- fuel: the length of the printed type bounds its height ---------------- *)
Lemma join_len_ge sep (l : list str) x : In x l -> List.length x <= List.length (join sep l).
Proof. induction l as [|y l IH]; intros Hin; [destruct Hin|]. destruct l as [|z l].
  - destruct Hin as [->|[]]. rewrite join_one. lia.
  - rewrite join_cons2. rewrite !app_length. destruct Hin as [->|Hin]; [lia|]. specialize (IH Hin). lia. Qed.

Lemma fold_max_le (l : list rty) B : (forall x, In x l -> height x <= B) ->
  fold_right (fun x m => Nat.max (height x) m) 0 l <= B.
Proof. induction l as [|x l IH]; intros H; simpl; [lia|].
  apply Nat.max_lub; [apply H; left; reflexivity | apply IH; intros y Hy; apply H; right; exact Hy]. Qed.

Lemma height_le_len : forall t, wf t -> height t <= List.length (tts t).
Proof.
  induction t as [n args IH|t IH|l IH] using rty_ind'; intros Hw.
  - cbn [wf] in Hw. destruct Hw as ((Hne & _) & _ & Hargs). apply wf_list in Hargs.
    destruct args as [|a args].
    + rewrite tts_path_nil. simpl. destruct n; [congruence|simpl; lia].
    + rewrite tts_path_cons. cbn [height]. rewrite app_length. cbn [List.length]. rewrite app_length. cbn [List.length].
      assert (fold_right (fun x m => Nat.max (height x) m) 0 (a :: args) <= List.length (join (L ", ") (map tts (a :: args)))).
      { apply fold_max_le. intros x Hx. rewrite Forall_forall in IH, Hargs.
        specialize (IH x Hx (Hargs x Hx)). pose proof (join_len_ge (L ", ") (map tts (a :: args)) (tts x) (in_map tts _ _ Hx)). lia. }
      lia.
  - rewrite tts_ref. cbn [height List.length]. cbn [wf] in Hw. specialize (IH Hw). lia.
  - change (wf (RTuple l)) with ((fix go l := match l with [] => True | x :: l' => wf x /\ go l' end) l) in Hw.
    apply wf_list in Hw. destruct l as [|a l].
    + rewrite tts_unit. simpl. lia.
    + rewrite tts_tuple. cbn [height List.length]. rewrite app_length. cbn [List.length].
      assert (fold_right (fun x m => Nat.max (height x) m) 0 (a :: l) <= List.length (join (L ", ") (map tts (a :: l)))).
      { apply fold_max_le. intros x Hx. rewrite Forall_forall in IH, Hw.
        specialize (IH x Hx (Hw x Hx)). pose proof (join_len_ge (L ", ") (map tts (a :: l)) (tts x) (in_map tts _ _ Hx)). lia. }
      lia.
Qed.

(* ---------------- string -> structure, stated on the entry point (repaired parser) ---------------- *)
Theorem parse_faithful t : wf t -> nobr t -> parse_type_structure2 (tts t) = Some (sem t).
Proof. intros Hw Hb. unfold parse_type_structure2. apply parse2_tts_faithful; auto.
  pose proof (height_le_len t Hw). lia. Qed.

(* ---------------- C05 / C18 at the sites whose text is an unqualified TypeScript type ---------------- *)
Definition plain_site (s : site) (md : mode) : bool := site_is_type s md && negb (site_qualified s).

Theorem sound_plain m t : mapping_ok m -> dom_m m t = true -> kf_union_under_seq (sem t) = false ->
  forall s md, plain_site s md = true ->
  exists text, emit_type s md m t = Some text /\ observe (site_is_type s md) text = Some (expected s m t).
Proof.
  intros Hm Hd H3 s md Hs.
  destruct (dom_m_facts m Hm t Hd) as (Hw & Hok & Hsh). pose proof (dom_m_nobr m t Hd) as Hb.
  exists (render_m m (sem t)). unfold emit_type, emit_str. rewrite (parse_faithful t Hw Hb). cbn [option_map].
  assert (Hden : ts_parse_str (render_m m (sem t)) = Some (rshape m t)).
  { rewrite render_m_msubst, Hsh. apply render_denotes; [exact Hok | rewrite kf_union_msubst; exact H3]. }
  destruct s, md; try discriminate Hs; cbn [emit_ts site_is_type observe expected site_qualified]; auto.
Qed.

(* frame at the level of the whole pipeline *)
Theorem frame_type s md m t : wf t -> nobr t ->
  unmapped m (sem t) -> emit_type s md m t = emit_type s md [] t.
Proof. intros Hw Hb Hu. unfold emit_type, emit_str. rewrite (parse_faithful t Hw Hb). cbn [option_map].
  rewrite emit_frame by exact Hu. reflexivity. Qed.

(* frame without any side condition on the parse: whatever structure the parser returns *)
Theorem frame_str s md m opt ty :
  (forall ts, parse_type_structure2 ty = Some ts -> unmapped m ts) ->
  emit_str s md m opt ty = emit_str s md [] opt ty.
Proof. intros H. unfold emit_str. destruct (parse_type_structure2 ty) as [ts|]; [|reflexivity].
  cbn [option_map]. rewrite emit_frame by (apply H; reflexivity). reflexivity. Qed.

(* ---------------- compositionality ---------------- *)
Definition good (m : mapping) (t : rty) : Prop :=
  dom_m m t = true /\ kf_union_under_seq (sem t) = false.

Definition reads (s : site) (md : mode) (m : mapping) (t : rty) : option tsty :=
  match emit_type s md m t with Some text => observe (site_is_type s md) text | None => None end.

Lemma reads_sound m t s md : mapping_ok m -> good m t -> plain_site s md = true ->
  reads s md m t = Some (expected s m t).
Proof. intros Hm (Hd & H3) Hs. unfold reads.
  destruct (sound_plain m t Hm Hd H3 s md Hs) as (text & He & Ho). rewrite He. exact Ho. Qed.

Lemma plain_expected s md m t : plain_site s md = true -> expected s m t = rshape m t.
Proof. unfold plain_site, expected. intros H. apply andb_true_iff in H as [_ H]. apply negb_true_iff in H.
  rewrite H. reflexivity. Qed.

Section Comp.
  Variables (m : mapping) (s : site) (md : mode).
  Hypothesis Hm : mapping_ok m.
  Hypothesis Hs : plain_site s md = true.

  Lemma comp_unary (tag : string) (f : tsty -> tsty) t :
    good m t -> good m (RPath (L tag) [t]) ->
    rshape m (RPath (L tag) [t]) = f (rshape m t) ->
    reads s md m (RPath (L tag) [t]) = option_map f (reads s md m t).
  Proof. intros G G' Hr. rewrite !reads_sound by auto. rewrite !(plain_expected s md) by auto.
    cbn [option_map]. rewrite Hr. reflexivity. Qed.

  Theorem comp_vec t : good m t -> good m (RPath (L "Vec") [t]) ->
    reads s md m (RPath (L "Vec") [t]) = option_map TsArray (reads s md m t).
  Proof. intros G G'. apply comp_unary; auto. Qed.
  Theorem comp_hashset t : good m t -> good m (RPath (L "HashSet") [t]) ->
    reads s md m (RPath (L "HashSet") [t]) = option_map TsArray (reads s md m t).
  Proof. intros G G'. apply comp_unary; auto. Qed.
  Theorem comp_btreeset t : good m t -> good m (RPath (L "BTreeSet") [t]) ->
    reads s md m (RPath (L "BTreeSet") [t]) = option_map TsArray (reads s md m t).
  Proof. intros G G'. apply comp_unary; auto. Qed.
  Theorem comp_option t : good m t -> good m (RPath (L "Option") [t]) ->
    reads s md m (RPath (L "Option") [t]) = option_map (fun x => union_snoc x null_t) (reads s md m t).
  Proof. intros G G'. apply comp_unary; auto. Qed.
  Theorem comp_result1 t : good m t -> good m (RPath (L "Result") [t]) ->
    reads s md m (RPath (L "Result") [t]) = reads s md m t.
  Proof. intros G G'. rewrite (comp_unary "Result" (fun x => x)); auto. destruct (reads s md m t); reflexivity. Qed.
  Theorem comp_ref t : good m t -> good m (RRef t) -> reads s md m (RRef t) = reads s md m t.
  Proof. intros G G'. rewrite !reads_sound by auto. rewrite !(plain_expected s md) by auto. reflexivity. Qed.
  Theorem comp_result2 t e : good m t -> good m (RPath (L "Result") [t; e]) ->
    reads s md m (RPath (L "Result") [t; e]) = reads s md m t.
  Proof. intros G G'. rewrite !reads_sound by auto. rewrite !(plain_expected s md) by auto. reflexivity. Qed.
  Theorem comp_map (tag : string) k v : tag = "HashMap"%string \/ tag = "BTreeMap"%string ->
    good m k -> good m v -> good m (RPath (L tag) [k; v]) ->
    reads s md m (RPath (L tag) [k; v]) =
    match reads s md m k, reads s md m v with
    | Some a, Some b => Some (TsApp (L "Record") [] a [b]) | _, _ => None end.
  Proof. intros Ht Gk Gv G'. rewrite !reads_sound by auto. rewrite !(plain_expected s md) by auto.
    destruct Ht; subst tag; reflexivity. Qed.
  Theorem comp_tuple l : l <> [] -> Forall (good m) l -> good m (RTuple l) ->
    reads s md m (RTuple l) = option_map TsTuple (mapM (reads s md m) l).
  Proof. intros Hne Gl G'. rewrite reads_sound by auto. rewrite (plain_expected s md) by auto.
    assert (Hmm : mapM (reads s md m) l = Some (map (rshape m) l)).
    { clear Hne G'. induction Gl as [|x xs Hx _ IH]; [reflexivity|]. cbn [mapM map].
      rewrite reads_sound by auto. rewrite (plain_expected s md) by auto. rewrite IH. reflexivity. }
    rewrite Hmm. cbn [option_map]. destruct l; [congruence|reflexivity]. Qed.
End Comp.
