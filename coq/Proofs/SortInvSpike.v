(* Order independence by sorting (C13 / C14 repairs). Originally the design spike isort_perm_invariant;
   now stated for the insert / isort of Model/C08Fingerprint.v, with antisymmetry required only on the
   elements of the collection (unique keys), and instantiated with the (file, name) order on commands. *)
From Coq Require Import String Ascii List Arith Lia Bool Permutation Sorted.
Require Import TT.Model.Str TT.Model.C08Fingerprint TT.Proofs.C08FpProofs.
Import ListNotations.

(* Sorting makes the hash input independent of the enumeration order: any two enumerations of the same
   collection sort to the same list, provided the order is total, transitive and antisymmetric on the
   elements of the collection (keys are unique). Stated for the model's insert / isort. *)
Section SortInv.
Variable A : Type.
Variable leb : A -> A -> bool.
Hypothesis leb_total : forall a b, leb a b = true \/ leb b a = true.
Hypothesis leb_trans : forall a b c, leb a b = true -> leb b c = true -> leb a c = true.

Definition le (a b : A) : Prop := leb a b = true.

Lemma insert_perm x l : Permutation (x :: l) (insert leb x l).
Proof. induction l as [|y r IH]; cbn [insert]; auto. destruct (leb x y); auto.
  eapply perm_trans; [apply perm_swap|]. constructor; auto. Qed.
Lemma isort_perm l : Permutation l (isort leb l).
Proof. induction l; cbn [isort]; auto. eapply perm_trans; [|apply insert_perm]. constructor; auto. Qed.

Lemma insert_sorted x l : StronglySorted le l -> StronglySorted le (insert leb x l).
Proof. induction 1 as [|y r Hr IH Hy]; cbn [insert]. repeat constructor.
  destruct (leb x y) eqn:E.
  - constructor. constructor; auto. constructor; auto. rewrite Forall_forall in *. intros z Hz. eapply leb_trans; eauto. apply Hy; auto.
  - constructor; auto. assert (Hyx : le y x) by (destruct (leb_total x y); [congruence|auto]).
    rewrite Forall_forall in *. intros z Hz. apply (Permutation_in _ (Permutation_sym (insert_perm x r))) in Hz.
    destruct Hz as [<-|Hz]; auto. Qed.
Lemma isort_sorted l : StronglySorted le (isort leb l).
Proof. induction l; cbn [isort]. constructor. apply insert_sorted; auto. Qed.

Lemma sorted_perm_unique : forall l l',
  (forall a b, In a l -> In b l -> leb a b = true -> leb b a = true -> a = b) ->
  StronglySorted le l -> StronglySorted le l' -> Permutation l l' -> l = l'.
Proof. induction l as [|x r IH]; intros l' Ha Hs Hs' Hp.
  - apply Permutation_nil in Hp. auto.
  - destruct l' as [|y r']; [apply Permutation_sym, Permutation_nil in Hp; discriminate|].
    inversion Hs as [|? ? Hr Hx]; subst. inversion Hs' as [|? ? Hr' Hy]; subst.
    assert (x = y).
    { assert (Hxin : In x (y :: r')) by (eapply Permutation_in; eauto; left; auto).
      assert (Hyin : In y (x :: r)) by (eapply Permutation_in; [apply Permutation_sym; eauto|left; auto]).
      destruct Hxin as [->|Hxin]; auto. destruct Hyin as [->|Hyin]; auto.
      rewrite Forall_forall in *. apply Ha; [left; auto|right; auto|apply Hx; auto|apply Hy; auto]. }
    subst y. f_equal. apply IH; auto.
    + intros a b Hia Hib. apply Ha; right; auto.
    + eapply Permutation_cons_inv; eauto. Qed.

Theorem isort_perm_invariant l l' :
  (forall a b, In a l -> In b l -> leb a b = true -> leb b a = true -> a = b) ->
  Permutation l l' -> isort leb l = isort leb l'.
Proof. intros Ha Hp. apply sorted_perm_unique; try apply isort_sorted.
  - intros a b Hia Hib. apply Ha; eapply Permutation_in; try apply Permutation_sym, isort_perm; auto.
  - eapply perm_trans; [apply Permutation_sym, isort_perm|]. eapply perm_trans; [exact Hp|]. apply isort_perm. Qed.

(* stability: elements that compare equal keep their relative order, so the result is determined by the
   multiset and by the order inside every class of equal keys *)
Definition same (a b : A) : bool := leb a b && leb b a.

Lemma insert_filter x y : forall l,
  filter (same x) (insert leb y l) = if same x y then y :: filter (same x) l else filter (same x) l.
Proof. induction l as [|z r IH]; cbn [insert filter].
  - destruct (same x y); reflexivity.
  - destruct (leb y z) eqn:E; cbn [filter]; [destruct (same x y); reflexivity|].
    rewrite IH. destruct (same x y) eqn:Exy; [|reflexivity].
    assert (Hz : same x z = false).
    { destruct (same x z) eqn:Exz; [|reflexivity]. unfold same in *.
      apply andb_prop in Exy. apply andb_prop in Exz. destruct Exy as [_ Hyx], Exz as [Hxz _].
      rewrite (leb_trans _ _ _ Hyx Hxz) in E. discriminate. }
    rewrite Hz. reflexivity. Qed.

Lemma isort_filter x : forall l, filter (same x) (isort leb l) = filter (same x) l.
Proof. induction l as [|y r IH]; cbn [isort filter]; [reflexivity|]. rewrite insert_filter, IH. reflexivity. Qed.

Lemma same_refl a : same a a = true.
Proof. unfold same. destruct (leb_total a a) as [H|H]; rewrite H; reflexivity. Qed.

Lemma sorted_stable_unique : forall l l', StronglySorted le l -> StronglySorted le l' -> Permutation l l' ->
  (forall x, filter (same x) l = filter (same x) l') -> l = l'.
Proof. induction l as [|x r IH]; intros l' Hs Hs' Hp Hf.
  - apply Permutation_nil in Hp. auto.
  - destruct l' as [|y r']; [apply Permutation_sym, Permutation_nil in Hp; discriminate|].
    inversion Hs as [|? ? Hr Hx]; subst. inversion Hs' as [|? ? Hr' Hy]; subst.
    assert (Hxy : same x y = true).
    { assert (Hxin : In x (y :: r')) by (eapply Permutation_in; eauto; left; auto).
      assert (Hyin : In y (x :: r)) by (eapply Permutation_in; [apply Permutation_sym; eauto|left; auto]).
      destruct Hxin as [->|Hxin]; [apply same_refl|]. destruct Hyin as [->|Hyin]; [apply same_refl|].
      rewrite Forall_forall in *. unfold same. rewrite (Hx _ Hyin), (Hy _ Hxin). reflexivity. }
    assert (x = y).
    { pose proof (Hf x) as H. cbn [filter] in H. rewrite same_refl, Hxy in H. congruence. }
    subst y. f_equal. apply IH; auto.
    + eapply Permutation_cons_inv; eauto.
    + intros z. pose proof (Hf z) as H. cbn [filter] in H. destruct (same z x); congruence. Qed.

Theorem isort_stable_invariant l l' : Permutation l l' -> (forall x, filter (same x) l = filter (same x) l') ->
  isort leb l = isort leb l'.
Proof. intros Hp Hf. apply sorted_stable_unique; try apply isort_sorted.
  - eapply perm_trans; [apply Permutation_sym, isort_perm|]. eapply perm_trans; [exact Hp|]. apply isort_perm.
  - intros x. rewrite !isort_filter. apply Hf. Qed.
End SortInv.

(* ---- the byte-wise string order ---- *)
Lemma nat_of_ascii_inj a b : nat_of_ascii a = nat_of_ascii b -> a = b.
Proof. intros H. rewrite <- (ascii_nat_embedding a), <- (ascii_nat_embedding b), H. reflexivity. Qed.

Lemma str_leb_total : forall a b, str_leb a b = true \/ str_leb b a = true.
Proof. induction a as [|x a IH]; intros [|y b]; cbn [str_leb]; auto.
  destruct (Nat.ltb_spec (nat_of_ascii x) (nat_of_ascii y)); auto.
  destruct (Nat.ltb_spec (nat_of_ascii y) (nat_of_ascii x)); auto. Qed.

Lemma str_leb_antisym : forall a b, str_leb a b = true -> str_leb b a = true -> a = b.
Proof. induction a as [|x a IH]; intros [|y b]; cbn [str_leb]; try discriminate; auto.
  destruct (Nat.ltb_spec (nat_of_ascii x) (nat_of_ascii y)) as [H1|H1];
  destruct (Nat.ltb_spec (nat_of_ascii y) (nat_of_ascii x)) as [H2|H2]; try discriminate; try lia.
  intros Ha Hb. assert (x = y) by (apply nat_of_ascii_inj; lia). subst. f_equal. auto. Qed.

Lemma str_leb_trans : forall a b c, str_leb a b = true -> str_leb b c = true -> str_leb a c = true.
Proof. induction a as [|x a IH]; intros [|y b] [|z c]; cbn [str_leb]; try discriminate; auto.
  destruct (Nat.ltb_spec (nat_of_ascii x) (nat_of_ascii y)) as [H1|H1];
  destruct (Nat.ltb_spec (nat_of_ascii y) (nat_of_ascii x)) as [H1'|H1']; try discriminate; try lia;
  destruct (Nat.ltb_spec (nat_of_ascii y) (nat_of_ascii z)) as [H2|H2];
  destruct (Nat.ltb_spec (nat_of_ascii z) (nat_of_ascii y)) as [H2'|H2']; try discriminate; try lia;
  destruct (Nat.ltb_spec (nat_of_ascii x) (nat_of_ascii z)) as [H3|H3];
  destruct (Nat.ltb_spec (nat_of_ascii z) (nat_of_ascii x)) as [H3'|H3']; try discriminate; try lia; auto.
  intros; eapply IH; eauto. Qed.

Lemma str_leb_refl a : str_leb a a = true.
Proof. destruct (str_leb_total a a); auto. Qed.

Lemma str_eqb_true (a b : str) : str_eqb a b = true <-> a = b.
Proof. unfold str_eqb. destruct (list_eq_dec ascii_dec a b); split; congruence. Qed.
Lemma str_eqb_false (a b : str) : str_eqb a b = false <-> a <> b.
Proof. unfold str_eqb. destruct (list_eq_dec ascii_dec a b); split; congruence. Qed.

(* ---- the order of the repaired hash_commands: by (file, name) ---- *)
Lemma str_eqb_sym_true (a b : str) : a = b -> str_eqb b a = true.
Proof. intros ->. apply str_eqb_true. reflexivity. Qed.
Lemma str_eqb_sym_false (a b : str) : a <> b -> str_eqb b a = false.
Proof. intros H. apply str_eqb_false. intro E. apply H. symmetry. exact E. Qed.

Lemma nodup_key_inj {A B} (f : A -> B) : forall l, NoDup (map f l) -> forall a b, In a l -> In b l -> f a = f b -> a = b.
Proof. induction l as [|x l IH]; intros Hnd a b Ha Hb E; [destruct Ha|].
  cbn [map] in Hnd. inversion Hnd as [|? ? Hn Hnd']; subst.
  destruct Ha as [->|Ha]; destruct Hb as [->|Hb]; auto.
  - exfalso. apply Hn. rewrite E. apply in_map. exact Hb.
  - exfalso. apply Hn. rewrite <- E. apply in_map. exact Ha. Qed.

(* ---- commands: stable sort by the relative file ---- *)
Lemma cmd_leb_total root (a b : command) : cmd_leb root a b = true \/ cmd_leb root b a = true.
Proof. apply str_leb_total. Qed.
Lemma cmd_leb_trans root (a b c : command) : cmd_leb root a b = true -> cmd_leb root b c = true -> cmd_leb root a c = true.
Proof. apply str_leb_trans. Qed.

(* two commands lie in the same file *)
Definition same_file (root : str) : command -> command -> bool := same command (cmd_leb root).

(* the command part of the fingerprint is the same for two enumerations of the same commands that list the
   commands of every single file in the same (source) order *)
Theorem fp_cmds_order_independent : forall root (a a' : analysis),
  Permutation (a_cmds a) (a_cmds a') ->
  (forall x, filter (same_file root x) (a_cmds a) = filter (same_file root x) (a_cmds a')) ->
  fp_cmds root a = fp_cmds root a'.
Proof. intros root a a' Hp Hf. unfold fp_cmds. f_equal. f_equal.
  apply isort_stable_invariant; [exact (cmd_leb_total root)|exact (cmd_leb_trans root)|exact Hp|exact Hf]. Qed.

(* ---- structs sorted by name ---- *)
Lemma struct_leb_total (a b : struct) : struct_leb a b = true \/ struct_leb b a = true.
Proof. apply str_leb_total. Qed.
Lemma struct_leb_trans (a b c : struct) : struct_leb a b = true -> struct_leb b c = true -> struct_leb a c = true.
Proof. apply str_leb_trans. Qed.

Theorem fp_structs_order_independent : forall root (a a' : analysis),
  NoDup (map s_name (a_structs a)) -> Permutation (a_structs a) (a_structs a') -> fp_structs root a = fp_structs root a'.
Proof. intros root a a' Hnd Hp. unfold fp_structs. f_equal. f_equal.
  apply isort_perm_invariant; [exact struct_leb_total|exact struct_leb_trans| |exact Hp].
  intros x y Hx Hy H1 H2. eapply nodup_key_inj; eauto. apply str_leb_antisym; auto. Qed.

(* ---- two valid schedules enumerate the same files ---- *)
Lemma perm_of_seq w n : is_perm_of_seq w n = true -> Permutation (seq 0 n) w.
Proof. unfold is_perm_of_seq. intros H. apply andb_prop in H. destruct H as [Hl Hf].
  apply Nat.eqb_eq in Hl. apply NoDup_Permutation_bis.
  - apply seq_NoDup.
  - rewrite seq_length. lia.
  - intros i Hi. rewrite forallb_forall in Hf. specialize (Hf i Hi). apply existsb_exists in Hf.
    destruct Hf as (j & Hj & E). apply Nat.eqb_eq in E. subst. exact Hj. Qed.

Lemma analyse_perm (w1 w2 : sched) (p : project) :
  is_perm_of_seq (w_files w1) (length p) = true -> is_perm_of_seq (w_files w2) (length p) = true ->
  Permutation (a_cmds (analyse w1 p)) (a_cmds (analyse w2 p)) /\
  Permutation (a_structs (analyse w1 p)) (a_structs (analyse w2 p)).
Proof. intros H1 H2. apply perm_of_seq in H1. apply perm_of_seq in H2.
  assert (Hp : Permutation (pick empty_file p (w_files w1)) (pick empty_file p (w_files w2))).
  { unfold pick. apply Permutation_map. eapply perm_trans; [apply Permutation_sym; exact H1|exact H2]. }
  unfold analyse. cbn [a_cmds a_structs]. split; apply Permutation_flat_map; exact Hp. Qed.

(* the whole fingerprint is the same under every valid discovery order, for projects whose commands of every
   single file and whose events are discovered in the same order under both (since C13-sort-before-use the files are analysed in sorted path
   order, so the order is in fact unique; events are hashed in discovery order) *)
Theorem fp_order_independent : forall (p : project) (c : config) (w1 w2 : sched),
  valid_sched w1 p c = true -> valid_sched w2 p c = true ->
  (forall x, filter (same_file (g_ppath c) x) (a_cmds (analyse w1 p)) = filter (same_file (g_ppath c) x) (a_cmds (analyse w2 p))) ->
  NoDup (map s_name (a_structs (analyse w1 p))) ->
  u_events (analyse w1 p) = u_events (analyse w2 p) ->
  fp w1 p c = fp w2 p c.
Proof. intros p c w1 w2 V1 V2 Hk Hs He. unfold valid_sched in *.
  apply andb_prop in V1. apply andb_prop in V2. destruct V1 as [V1 _], V2 as [V2 _].
  destruct (analyse_perm w1 w2 p V1 V2) as [Pc Ps]. unfold fp.
  rewrite (fp_cmds_order_independent _ _ _ Pc Hk), (fp_structs_order_independent _ _ _ Hs Ps), He. reflexivity. Qed.

Lemma files_names (p : project) (c : config) (w1 w2 : sched) :
  u_events (analyse w1 p) = u_events (analyse w2 p) -> map fst (files w2 p c) = map fst (files w1 p c).
Proof. intros He. unfold files.
  assert (Hev : has_events (analyse w1 p) = has_events (analyse w2 p)).
  { unfold u_events in He. apply TN_inj in He. unfold has_events.
    destruct (a_events (analyse w1 p)), (a_events (analyse w2 p)); cbn [map] in He; try discriminate; reflexivity. }
  rewrite Hev. destruct (has_events (analyse w2 p)), (g_viz c); reflexivity. Qed.
