From Coq Require Import List Arith Lia Bool Permutation Sorted.
Import ListNotations.

(* Sorting the discovered files / structs / commands makes the output independent of the hash order:
   any two enumerations of the same collection sort to the same list. *)
Section SortInv.
Variable A : Type.
Variable leb : A -> A -> bool.
Hypothesis leb_total : forall a b, leb a b = true \/ leb b a = true.
Hypothesis leb_trans : forall a b c, leb a b = true -> leb b c = true -> leb a c = true.
Hypothesis leb_antisym : forall a b, leb a b = true -> leb b a = true -> a = b.

Fixpoint insert (x : A) (l : list A) : list A :=
  match l with [] => [x] | y :: r => if leb x y then x :: l else y :: insert x r end.
Fixpoint isort (l : list A) : list A := match l with [] => [] | x :: r => insert x (isort r) end.

Definition le (a b : A) : Prop := leb a b = true.

Lemma insert_perm x l : Permutation (x :: l) (insert x l).
Proof. induction l as [|y r IH]; simpl; auto. destruct (leb x y); auto.
  eapply perm_trans; [apply perm_swap|]. constructor; auto. Qed.
Lemma isort_perm l : Permutation l (isort l).
Proof. induction l; simpl; auto. eapply perm_trans; [|apply insert_perm]. constructor; auto. Qed.

Lemma insert_sorted x l : StronglySorted le l -> StronglySorted le (insert x l).
Proof. induction 1 as [|y r Hr IH Hy]; simpl. repeat constructor.
  destruct (leb x y) eqn:E.
  - constructor. constructor; auto. constructor; auto. rewrite Forall_forall in *. intros z Hz. eapply leb_trans; eauto. apply Hy; auto.
  - constructor; auto. assert (Hyx : le y x) by (destruct (leb_total x y); [congruence|auto]).
    rewrite Forall_forall in *. intros z Hz. apply (Permutation_in _ (Permutation_sym (insert_perm x r))) in Hz.
    destruct Hz as [<-|Hz]; auto. Qed.
Lemma isort_sorted l : StronglySorted le (isort l).
Proof. induction l; simpl. constructor. apply insert_sorted; auto. Qed.

(* a sorted list is determined by its elements *)
Lemma sorted_perm_unique : forall l l', StronglySorted le l -> StronglySorted le l' -> Permutation l l' -> l = l'.
Proof. induction l as [|x r IH]; intros l' Hs Hs' Hp.
  - apply Permutation_nil in Hp. auto.
  - destruct l' as [|y r']; [apply Permutation_sym, Permutation_nil in Hp; discriminate|].
    inversion Hs as [|? ? Hr Hx]; subst. inversion Hs' as [|? ? Hr' Hy]; subst.
    assert (x = y).
    { assert (Hxin : In x (y :: r')) by (eapply Permutation_in; eauto; left; auto).
      assert (Hyin : In y (x :: r)) by (eapply Permutation_in; [apply Permutation_sym; eauto|left; auto]).
      destruct Hxin as [->|Hxin]; auto. destruct Hyin as [->|Hyin]; auto.
      rewrite Forall_forall in *. apply leb_antisym; [apply Hx | apply Hy]; auto. }
    subst y. f_equal. apply IH; auto. eapply Permutation_cons_inv; eauto. Qed.

Theorem isort_perm_invariant l l' : Permutation l l' -> isort l = isort l'.
Proof. intros Hp. apply sorted_perm_unique; try apply isort_sorted.
  eapply perm_trans; [apply Permutation_sym, isort_perm|]. eapply perm_trans; [exact Hp|]. apply isort_perm. Qed.
End SortInv.
