(* C06 deepening round 7, string level carried through whole member lists:
   (1) the five sequential replaces of the escape functions are the character-wise map;
   (2) the text of an interface member list, of a z.object property list and of a z.enum array,
       for every list of names, lexes (Spec/TsLex) to the expected tokens, and the specification
       parser (Spec/TsModule p_members / p_props / p_exlist) reads back exactly the names
       (key_text / js_unescape of Spec/C06Keys).
   What a member prints after the colon (a TypeScript type, a Zod expression) is abstract: any text
   that lexes in front of the separator and that the type / expression parser reads as one unit
   (instances: the round trips of Proofs/C10ParseTy.v and Proofs/C10ParseEx.v). *)
From Coq Require Import String Ascii.
From Coq Require Import List Arith Lia Bool.
Require Import TT.Model.Str TT.Proofs.StrFacts TT.Model.C06Print TT.Spec.TsLex TT.Spec.TsModule TT.Spec.C06Keys.
Require Import TT.Proofs.LexFacts TT.Proofs.C06Print.
Import ListNotations.
Local Open Scope char_scope.
Local Open Scope list_scope.

(* ------------------------------------------------------------------ (1) escape as written *)
Lemma flat_map_flat_map {A} (f g : A -> list A) (s : list A) :
  flat_map g (flat_map f s) = flat_map (fun x => flat_map g (f x)) s.
Proof. induction s as [|a s IH]; cbn [flat_map]; auto. rewrite flat_map_app, IH. reflexivity. Qed.

Theorem escape_code_charwise s : escape_js_code s = escape_js s.
Proof. unfold escape_js_code, replace1, escape_js. rewrite !flat_map_flat_map. apply flat_map_ext. intros c.
  unfold esc1.
  destruct (Ascii.eqb_spec c BS) as [->|H1]; [reflexivity|].
  destruct (Ascii.eqb_spec c DQ) as [->|H2]; [reflexivity|].
  destruct (Ascii.eqb_spec c LF) as [->|H3]; [reflexivity|].
  destruct (Ascii.eqb_spec c CR) as [->|H4]; [reflexivity|].
  destruct (Ascii.eqb_spec c TAB) as [->|H5]; [reflexivity|].
  cbn [flat_map app]. rewrite (proj2 (Ascii.eqb_neq c DQ) H2). cbn [flat_map app].
  rewrite (proj2 (Ascii.eqb_neq c LF) H3). cbn [flat_map app]. rewrite (proj2 (Ascii.eqb_neq c CR) H4). cbn [flat_map app].
  rewrite (proj2 (Ascii.eqb_neq c TAB) H5). reflexivity. Qed.
Lemma quoted_is_literal name : quoted_code name = literal_text name.
Proof. unfold quoted_code, literal_text. rewrite escape_code_charwise. reflexivity. Qed.
Lemma ts_key_code_eq bare name : ts_key_code bare name = key_text_of bare name.
Proof. destruct bare; [reflexivity|apply quoted_is_literal]. Qed.

(* ------------------------------------------------------------------ lexing pieces *)
Definition T (_ : str) : Prop := True.
Definition semi_next (r : str) : Prop := exists r', r = ";" :: r'.
Definition comma_next (r : str) : Prop := exists r', r = "," :: r'.

Lemma lexes_literal (P : str -> Prop) name : lexes P (literal_text name) [KStr DQ (escape_js name)].
Proof. intros r f _ Hf. destruct f as [|f]; [lia|]. exists f. split.
  - rewrite app_length in Hf. unfold literal_text in Hf. cbn [List.length] in Hf. lia.
  - destruct (lex_literal f name r) as [H _]. exact H. Qed.
Lemma lexes_cons_ws (P : str -> Prop) c s ts : is_ws c = true -> lexes P s ts -> lexes P (c :: s) ts.
Proof. intros Hc H r f Hr Hf. destruct f as [|f]; [cbn in Hf; lia|]. cbn [app]. rewrite (lex_ws c _ f Hc).
  destruct (H r f Hr) as [f' [Hf' E]]; [cbn [app List.length] in Hf; lia|]. exists f'. split; assumption. Qed.
Lemma lexes_cons_tok (P : str -> Prop) c s t ts :
  (forall f r, lexm (S f) (c :: s ++ r) = t :: lexm f (s ++ r)) -> lexes P s ts -> lexes P (c :: s) (t :: ts).
Proof. intros Hc H r f Hr Hf. destruct f as [|f]; [cbn in Hf; lia|]. cbn [app]. rewrite Hc.
  destruct (H r f Hr) as [f' [Hf' E]]; [cbn [app List.length] in Hf; lia|]. exists f'. split; [assumption|]. rewrite E. reflexivity. Qed.
Lemma lexes_cons_single (P : str -> Prop) c s ts : single c = true -> lexes P s ts -> lexes P (c :: s) (KP [c] :: ts).
Proof. intros Hc. apply lexes_cons_tok. intros f r. apply lex_single. exact Hc. Qed.

Definition key_tok (bare : bool) (name : str) : tk := if bare then KId name else KStr DQ (escape_js name).
Definition key_of (bare : bool) (name : str) : key := if bare then KeyId name else KeyStr (escape_js name).
Lemma ident_of_bytes name : ident_bytes name = true -> ident name = true.
Proof. unfold ident_bytes, ident. destruct name as [|c r]; [discriminate|]. cbn [forallb]. intros H.
  apply andb_true_iff in H as [H1 H2]. apply andb_true_iff in H2 as [_ H2]. rewrite H1, H2. reflexivity. Qed.
Lemma lexes_key bare name : (bare = true -> ident_bytes name = true) -> lexes bnd (ts_key_code bare name) [key_tok bare name].
Proof. intros Hb. destruct bare; cbn [ts_key_code key_tok].
  - apply lexes_ident; [apply ident_of_bytes; apply Hb; reflexivity|auto].
  - rewrite quoted_is_literal. apply lexes_literal. Qed.
Lemma key_text_of_key bare name : key_text (key_of bare name) = name.
Proof. destruct bare; cbn [key_of key_text]; [reflexivity|apply unescape_escape]. Qed.

Lemma lexes_flat {A B} (g : A -> B) (txt : B -> str) (tks : A -> list tk) l :
  Forall (fun x => lexes T (txt (g x)) (tks x)) l -> lexes T (flat_map txt (map g l)) (flat_map tks l).
Proof. induction 1 as [|x l Hx Hl IH]; [apply lexes_nil|]. cbn [map flat_map].
  apply (lexes_app T T); [exact Hx|exact IH|intros; exact I]. Qed.

(* ------------------------------------------------------------------ what a member is read as *)
(* x = (member, tokens of its value text, parsed value) *)
Definition mtoks {V} (x : member * (list tk * V)) : list tk :=
  key_tok (m_bare (fst x)) (m_name (fst x)) :: (if m_opt (fst x) then [P "?"] else []) ++ P ":" :: fst (snd x) ++ [P ";"].
Definition ptoks {V} (x : member * (list tk * V)) : list tk :=
  key_tok (m_bare (fst x)) (m_name (fst x)) :: P ":" :: fst (snd x) ++ [P ","].
Definition key_choice_ok {V} (x : member * (list tk * V)) : Prop :=
  m_bare (fst x) = true -> ident_bytes (m_name (fst x)) = true.

Lemma lexes_member {V} (x : member * (list tk * V)) :
  key_choice_ok x -> lexes semi_next (m_value (fst x)) (fst (snd x)) -> lexes T (member_text (fst x)) (mtoks x).
Proof. intros Hb Hv. unfold member_text, mtoks. cbn [L list_ascii_of_string app].
  apply lexes_cons_ws; [reflexivity|]. apply lexes_cons_ws; [reflexivity|]. apply lexes_cons_ws; [reflexivity|].
  match goal with |- lexes _ _ (?k :: ?r) => change (k :: r) with ([k] ++ r) end.
  apply (lexes_app bnd T); [apply lexes_key; exact Hb| |intros r _; destruct (m_opt (fst x)); reflexivity].
  assert (lexes T (":" :: " " :: m_value (fst x) ++ [";"]) (P ":" :: fst (snd x) ++ [P ";"])) as Hc.
  { apply (lexes_cons_single T ":"); [reflexivity|]. apply lexes_cons_ws; [reflexivity|].
    apply (lexes_app semi_next T); [exact Hv|apply (lexes_single T ";"); reflexivity|intros r _; exists r; reflexivity]. }
  destruct (m_opt (fst x)); cbn [app]; [|exact Hc].
  apply lexes_cons_tok; [intros f r; reflexivity|exact Hc]. Qed.

Lemma lexes_prop {V} (x : member * (list tk * V)) :
  key_choice_ok x -> lexes comma_next (m_value (fst x)) (fst (snd x)) -> lexes T (prop_text (fst x)) (ptoks x).
Proof. intros Hb Hv. unfold prop_text, ptoks. cbn [L list_ascii_of_string app].
  apply lexes_cons_ws; [reflexivity|]. apply lexes_cons_ws; [reflexivity|]. apply lexes_cons_ws; [reflexivity|].
  match goal with |- lexes _ _ (?k :: ?r) => change (k :: r) with ([k] ++ r) end.
  apply (lexes_app bnd T); [apply lexes_key; exact Hb| |intros r _; reflexivity].
  apply (lexes_cons_single T ":"); [reflexivity|]. apply lexes_cons_ws; [reflexivity|].
  apply (lexes_app comma_next T); [exact Hv|apply (lexes_single T ","); reflexivity|intros r _; exists r; reflexivity]. Qed.

(* text -> tokens: the interface body and the z.object body, every member list *)
Theorem lex_interface_body {V} (l : list (member * (list tk * V))) :
  Forall (fun x => key_choice_ok x /\ lexes semi_next (m_value (fst x)) (fst (snd x))) l ->
  lexes T (interface_body (map fst l)) (flat_map mtoks l ++ [P "}"]).
Proof. intros H. unfold interface_body. apply (lexes_app T T); [| |intros; exact I].
  - apply (lexes_flat fst member_text mtoks). eapply Forall_impl; [|exact H]. intros x [Hb Hv]. apply lexes_member; assumption.
  - apply lexes_cons_ws; [reflexivity|]. apply (lexes_single T "}"). reflexivity. Qed.
Theorem lex_zobject_body {V} (l : list (member * (list tk * V))) :
  Forall (fun x => key_choice_ok x /\ lexes comma_next (m_value (fst x)) (fst (snd x))) l ->
  lexes T (zobject_body (map fst l)) (flat_map ptoks l ++ [P "}"; P ")"; P ";"]).
Proof. intros H. unfold zobject_body. apply (lexes_app T T); [| |intros; exact I].
  - apply (lexes_flat fst prop_text ptoks). eapply Forall_impl; [|exact H]. intros x [Hb Hv]. apply lexes_prop; assumption.
  - apply lexes_cons_ws; [reflexivity|]. cbn [L list_ascii_of_string].
    apply (lexes_cons_single T "}"); [reflexivity|]. apply (lexes_cons_single T ")"); [reflexivity|]. apply (lexes_single T ";"). reflexivity. Qed.

(* ------------------------------------------------------------------ tokens -> members *)
Lemma kid_not (s : string) name d r' : ident_bytes name = true -> L s = d :: r' -> is_id_start d = false -> tk_is s (KId name) = false.
Proof. intros H Hs Hd. unfold tk_is. destruct (str_eqb name (L s)) eqn:E; [|reflexivity]. apply str_eqb_eq in E. subst name.
  rewrite Hs in H. unfold ident_bytes in H. apply andb_true_iff in H as [H _]. congruence. Qed.
Lemma key_tok_facts bare name : (bare = true -> ident_bytes name = true) ->
  tk_is "}" (key_tok bare name) = false /\ tk_is ";" (key_tok bare name) = false /\ tk_is "," (key_tok bare name) = false /\
  tk_is "[" (key_tok bare name) = false /\ tk_is "..." (key_tok bare name) = false /\
  key_of_tok (key_tok bare name) = Some (key_of bare name).
Proof. intros Hb. destruct bare; cbn [key_tok key_of key_of_tok]; [|repeat split; reflexivity].
  specialize (Hb eq_refl). repeat split; try (eapply kid_not; [exact Hb|reflexivity|reflexivity]). Qed.

Lemma p_members_key rec n c k r ms ix :
  tk_is "}" c = false -> tk_is ";" c = false -> tk_is "," c = false -> tk_is "[" c = false -> key_of_tok c = Some k ->
  p_members rec (S n) (c :: r) ms ix =
    let '(opt, r2) := match r with q :: r' => if tk_is "?" q then (true, r') else (false, r) | [] => (false, r) end in
    match r2 with
    | col :: r3 => if tk_is ":" col then
                     match rec r3 with Some (t, r4) => p_members rec n r4 ((k, opt, t) :: ms) ix | None => None end
                   else None
    | [] => None end.
Proof. intros H1 H2 H3 H4 Hk. cbn [p_members]. rewrite H1, H2, H3, H4. cbn [orb].
  destruct c; try discriminate; injection Hk as <-; reflexivity. Qed.

Definition mem_of (x : member * (list tk * ty)) : key * bool * ty :=
  (key_of (m_bare (fst x)) (m_name (fst x)), m_opt (fst x), snd (snd x)).
(* the value of x is read by rec as one unit in front of the separator sep *)
Definition reads {V} (rec : list tk -> RT V) (sep : string) (x : member * (list tk * V)) : Prop :=
  forall rest, rec (fst (snd x) ++ P sep :: rest) = Some (snd (snd x), P sep :: rest).

Lemma mtoks_app (x : member * (list tk * ty)) R :
  mtoks x ++ R = key_tok (m_bare (fst x)) (m_name (fst x)) :: (if m_opt (fst x) then [P "?"] else []) ++ P ":" :: fst (snd x) ++ P ";" :: R.
Proof. unfold mtoks. cbn [app]. rewrite <- !app_assoc. cbn [app]. rewrite <- !app_assoc. reflexivity. Qed.

Lemma p_members_step rec n (x : member * (list tk * ty)) R ms ix :
  key_choice_ok x -> reads rec ";" x ->
  p_members rec (S (S n)) (mtoks x ++ R) ms ix = p_members rec n R (mem_of x :: ms) ix.
Proof. intros Hb Hr. rewrite mtoks_app.
  destruct (key_tok_facts (m_bare (fst x)) (m_name (fst x)) Hb) as (H1 & H2 & H3 & H4 & _ & Hk).
  rewrite (p_members_key rec (S n) _ _ _ ms ix H1 H2 H3 H4 Hk). unfold mem_of.
  destruct (m_opt (fst x)); cbn [app].
  - change (tk_is "?" (P "?")) with true. cbv iota. change (tk_is ":" (P ":")) with true. cbv iota.
    rewrite (Hr R). cbn [p_members]. change (tk_is "}" (P ";")) with false. change (tk_is ";" (P ";")) with true. reflexivity.
  - change (tk_is "?" (P ":")) with false. cbv iota. change (tk_is ":" (P ":")) with true. cbv iota.
    rewrite (Hr R). cbn [p_members]. change (tk_is "}" (P ";")) with false. change (tk_is ";" (P ";")) with true. reflexivity. Qed.

Lemma members_read rec : forall (l : list (member * (list tk * ty))) n ms ix rest,
  Forall (fun x => key_choice_ok x /\ reads rec ";" x) l -> 2 * List.length l < n ->
  p_members rec n (flat_map mtoks l ++ P "}" :: rest) ms ix = Some ((rev ms ++ map mem_of l, rev ix), rest).
Proof. induction l as [|x l IH]; intros n ms ix rest HF Hn.
  - destruct n; [cbn in Hn; lia|]. cbn [flat_map app p_members map]. change (tk_is "}" (P "}")) with true. cbv iota. rewrite app_nil_r. reflexivity.
  - inversion HF as [|? ? [Hb Hr] HF']; subst. destruct n as [|[|n]]; try (cbn [List.length] in Hn; lia).
    cbn [flat_map]. rewrite <- app_assoc. rewrite (p_members_step rec n x _ ms ix Hb Hr).
    rewrite (IH n (mem_of x :: ms) ix rest HF') by (cbn [List.length] in Hn; lia).
    cbn [rev map]. rewrite <- app_assoc. reflexivity. Qed.

Lemma flat_len_ge {A} (f : A -> list tk) l : (forall x, 2 <= List.length (f x)) -> 2 * List.length l <= List.length (flat_map f l).
Proof. intros H. induction l as [|x l IH]; [cbn; lia|]. cbn [flat_map List.length]. rewrite app_length. specialize (H x). lia. Qed.
Lemma names_of_mems (l : list (member * (list tk * ty))) :
  map (fun m => key_text (fst (fst m))) (map mem_of l) = map m_name (map fst l).
Proof. induction l as [|x l IH]; [reflexivity|]. cbn [map]. rewrite IH. unfold mem_of at 1. cbn [fst]. rewrite key_text_of_key. reflexivity. Qed.

(* tokens -> members -> keys: what pmembers (the entry the item parser uses after the opening brace)
   returns for the tokens of an interface body, and the keys the reader of Spec/C06Keys takes from it *)
Theorem interface_members_read (l : list (member * (list tk * ty))) rest :
  Forall (fun x => key_choice_ok x /\ reads ptype ";" x) l ->
  pmembers (flat_map mtoks l ++ P "}" :: rest) = Some ((map mem_of l, []), rest) /\
  map (fun m => key_text (fst (fst m))) (map mem_of l) = map m_name (map fst l).
Proof. intros H. split; [|apply names_of_mems]. unfold pmembers.
  rewrite (members_read ptype l _ [] [] rest H); [reflexivity|].
  rewrite app_length. pose proof (flat_len_ge mtoks l) as Hl. cbn [List.length]. 
  assert (forall x : member * (list tk * ty), 2 <= List.length (mtoks x)) as H2.
  { intros x. unfold mtoks. cbn [List.length]. rewrite app_length. cbn [List.length]. lia. }
  specialize (Hl H2). lia. Qed.

(* ------------------------------------------------------------------ the z.object property list *)
Lemma p_props_key rec n c k col r1 acc :
  tk_is "}" c = false -> tk_is "," c = false -> tk_is "..." c = false -> key_of_tok c = Some k -> tk_is ":" col = true ->
  p_props rec (S n) (c :: col :: r1) acc =
    match rec r1 with Some (e, r2) => p_props rec n r2 ((Some k, e) :: acc) | None => None end.
Proof. intros H1 H2 H3 Hk Hc. cbn [p_props]. rewrite H1, H2, H3.
  destruct c; try discriminate; injection Hk as <-; rewrite Hc; reflexivity. Qed.

Definition prop_of (x : member * (list tk * ex)) : option key * ex :=
  (Some (key_of (m_bare (fst x)) (m_name (fst x))), snd (snd x)).
Lemma p_props_step rec n (x : member * (list tk * ex)) R acc :
  key_choice_ok x -> reads rec "," x ->
  p_props rec (S (S n)) (ptoks x ++ R) acc = p_props rec n R (prop_of x :: acc).
Proof. intros Hb Hr. unfold ptoks. cbn [app]. rewrite <- app_assoc. cbn [app].
  destruct (key_tok_facts (m_bare (fst x)) (m_name (fst x)) Hb) as (H1 & _ & H3 & _ & H5 & Hk).
  rewrite (p_props_key rec (S n) _ _ (P ":") _ acc H1 H3 H5 Hk eq_refl).
  rewrite (Hr R). cbn [p_props]. change (tk_is "}" (P ",")) with false. change (tk_is "," (P ",")) with true. reflexivity. Qed.

Lemma props_read rec : forall (l : list (member * (list tk * ex))) n acc rest,
  Forall (fun x => key_choice_ok x /\ reads rec "," x) l -> 2 * List.length l < n ->
  p_props rec n (flat_map ptoks l ++ P "}" :: rest) acc = Some (rev acc ++ map prop_of l, rest).
Proof. induction l as [|x l IH]; intros n acc rest HF Hn.
  - destruct n; [cbn in Hn; lia|]. cbn [flat_map app p_props map]. change (tk_is "}" (P "}")) with true. cbv iota. rewrite app_nil_r. reflexivity.
  - inversion HF as [|? ? [Hb Hr] HF']; subst. destruct n as [|[|n]]; try (cbn [List.length] in Hn; lia).
    cbn [flat_map]. rewrite <- app_assoc. rewrite (p_props_step rec n x _ acc Hb Hr).
    rewrite (IH n (prop_of x :: acc) rest HF') by (cbn [List.length] in Hn; lia).
    cbn [rev map]. rewrite <- app_assoc. reflexivity. Qed.

Lemma names_of_props (l : list (member * (list tk * ex))) :
  mapM (fun p : option key * ex => match fst p with Some k => Some (key_text k) | None => None end) (map prop_of l)
  = Some (map m_name (map fst l)).
Proof. induction l as [|x l IH]; [reflexivity|]. cbn [map mapM]. rewrite IH. unfold prop_of at 1. cbn [fst]. rewrite key_text_of_key. reflexivity. Qed.

(* the object literal as p_atom reads it (fuel = the length of what follows the opening brace) and
   the keys the reader of Spec/C06Keys takes from it *)
Theorem zobject_props_read rec (l : list (member * (list tk * ex))) rest :
  Forall (fun x => key_choice_ok x /\ reads rec "," x) l ->
  p_atom rec (P "{" :: flat_map ptoks l ++ P "}" :: rest) = Some (EObj (map prop_of l), rest) /\
  mapM (fun p : option key * ex => match fst p with Some k => Some (key_text k) | None => None end) (map prop_of l)
  = Some (map m_name (map fst l)).
Proof. intros H. split; [|apply names_of_props]. unfold p_atom. change (tk_is "[" (P "{")) with false. change (tk_is "{" (P "{")) with true. cbv iota.
  rewrite (props_read rec l _ [] rest H); [reflexivity|].
  rewrite app_length. pose proof (flat_len_ge ptoks l) as Hl. cbn [List.length].
  assert (forall x : member * (list tk * ex), 2 <= List.length (ptoks x)) as H2.
  { intros x. unfold ptoks. cbn [List.length]. lia. }
  specialize (Hl H2). lia. Qed.

(* ------------------------------------------------------------------ the z.enum array *)
Fixpoint arr_toks (bodies : list str) : list tk :=
  match bodies with [] => [] | [b] => [KStr DQ b] | b :: r => KStr DQ b :: P "," :: arr_toks r end.
Lemma lex_zenum_list names : lexes T (zenum_list names) (arr_toks (map escape_js names)).
Proof. unfold zenum_list. induction names as [|n l IH]; [apply lexes_nil|]. destruct l as [|n2 l].
  - cbn [map join arr_toks]. rewrite quoted_is_literal. apply lexes_literal.
  - change (join (L ", ") (map quoted_code (n :: n2 :: l))) with (quoted_code n ++ "," :: " " :: join (L ", ") (map quoted_code (n2 :: l))).
    change (arr_toks (map escape_js (n :: n2 :: l))) with ([KStr DQ (escape_js n)] ++ P "," :: arr_toks (map escape_js (n2 :: l))).
    apply (lexes_app T T); [rewrite quoted_is_literal; apply lexes_literal| |intros; exact I].
    apply (lexes_cons_single T ","); [reflexivity|]. apply lexes_cons_ws; [reflexivity|]. exact IH. Qed.

(* rec reads a string literal in front of a comma or a closing bracket as itself *)
Definition reads_lits (rec : list tk -> RT ex) : Prop :=
  forall s c rest, (c = P "," \/ c = P "]") -> rec (KStr DQ s :: c :: rest) = Some (EStr DQ s, c :: rest).
Lemma p_expr_lit f : reads_lits (p_expr (S f)).
Proof. intros s c rest Hc. cbn [p_expr]. unfold p_expr_body. cbn [tk_is orb]. cbv iota. unfold p_atom.
  destruct Hc as [-> | ->]; reflexivity. Qed.

Lemma exlist_lits rec : reads_lits rec -> forall bodies n acc rest, 2 * List.length bodies < n ->
  p_exlist rec "]" n (arr_toks bodies ++ P "]" :: rest) acc = Some (rev acc ++ map (EStr DQ) bodies, rest).
Proof. intros Hrec. induction bodies as [|b l IH]; intros n acc rest Hn.
  - destruct n; [cbn in Hn; lia|]. cbn [arr_toks app p_exlist map]. change (tk_is "]" (P "]")) with true. cbv iota. rewrite app_nil_r. reflexivity.
  - destruct n as [|[|n]]; try (cbn [List.length] in Hn; lia). destruct l as [|b2 l].
    + cbn [arr_toks app p_exlist]. cbn [tk_is]. cbv iota. rewrite (Hrec b (P "]") rest) by (right; reflexivity).
      change (tk_is "]" (P "]")) with true. cbv iota. cbn [rev map]. reflexivity.
    + change (arr_toks (b :: b2 :: l)) with (KStr DQ b :: P "," :: arr_toks (b2 :: l)). cbn [app p_exlist]. cbn [tk_is]. cbv iota.
      rewrite (Hrec b (P ",") _) by (left; reflexivity).
      change (tk_is "]" (P ",")) with false. change (tk_is "," (P ",")) with true. cbv iota.
      rewrite (IH n (EStr DQ b :: acc) rest) by (cbn [List.length] in *; lia).
      cbn [rev map]. rewrite <- app_assoc. reflexivity. Qed.

Lemma mapM_estr bodies :
  mapM (fun x => match x with EStr _ s => Some (js_unescape s) | _ => None end) (map (EStr DQ) bodies) = Some (map js_unescape bodies).
Proof. induction bodies as [|b l IH]; [reflexivity|]. cbn [map mapM]. rewrite IH. reflexivity. Qed.

(* the array literal as p_atom reads it, and the literals the reader takes from it: exactly the names *)
Theorem zenum_array_read rec names rest : reads_lits rec ->
  p_atom rec (P "[" :: arr_toks (map escape_js names) ++ P "]" :: rest) = Some (EArr (map (EStr DQ) (map escape_js names)), rest) /\
  mapM (fun x => match x with EStr _ s => Some (js_unescape s) | _ => None end) (map (EStr DQ) (map escape_js names)) = Some names.
Proof. intros Hrec. split; [|rewrite mapM_estr, map_unescape; reflexivity]. unfold p_atom. change (tk_is "[" (P "[")) with true. cbv iota.
  rewrite (exlist_lits rec Hrec (map escape_js names) _ [] rest); [reflexivity|].
  rewrite app_length. cbn [List.length].
  assert (forall b, 2 * List.length b <= S (List.length (arr_toks b))) as Hl.
  { induction b as [|x [|y b'] IHb]; [cbn; lia|cbn; lia|]. change (arr_toks (x :: y :: b')) with (KStr DQ x :: P "," :: arr_toks (y :: b')).
    cbn [List.length] in *. lia. }
  specialize (Hl (map escape_js names)). lia. Qed.

(* ------------------------------------------------------------------ instances (premises are satisfiable) *)
Definition ex_members : list (member * (list tk * ty)) :=
  [ ({| m_name := L "user-id"; m_bare := false; m_opt := true; m_value := L "string" |}, ([KId (L "string")], TyRef [L "string"] []));
    ({| m_name := L "firstName"; m_bare := true; m_opt := false; m_value := L "number" |}, ([KId (L "number")], TyRef [L "number"] []));
    ({| m_name := L "a""b\c"; m_bare := false; m_opt := false; m_value := L "string" |}, ([KId (L "string")], TyRef [L "string"] [])) ].
Lemma ex_members_ok : Forall (fun x => key_choice_ok x /\ lexes semi_next (m_value (fst x)) (fst (snd x)) /\ reads ptype ";" x) ex_members.
Proof. unfold ex_members. repeat constructor; try (intros _; reflexivity); try discriminate;
  try (apply lexes_ident; [reflexivity|intros r [r' ->]; reflexivity]);
  intros rest; destruct rest as [|[] rest']; reflexivity. Qed.
Definition zstr : list tk := [KId (L "z"); P "."; KId (L "string"); P "("; P ")"].
Definition zstr_ex : ex := ECall (EMember (EId (L "z")) (L "string") false) [] [].
Definition ex_props : list (member * (list tk * ex)) :=
  [ ({| m_name := L "user-id"; m_bare := false; m_opt := false; m_value := L "z.string()" |}, (zstr, zstr_ex));
    ({| m_name := L "firstName"; m_bare := true; m_opt := false; m_value := L "z.string()" |}, (zstr, zstr_ex)) ].
Lemma lexes_zstr : lexes comma_next (L "z.string()") zstr.
Proof. intros r f [r' ->] Hf. exists (f - 5). cbn [app List.length L list_ascii_of_string] in *. split; [lia|].
  replace f with (5 + (f - 5)) at 1 by lia. reflexivity. Qed.
Lemma ex_props_ok : Forall (fun x => key_choice_ok x /\ lexes comma_next (m_value (fst x)) (fst (snd x)) /\ reads (p_expr 62) "," x) ex_props.
Proof. unfold ex_props. repeat constructor; try (intros _; reflexivity); try discriminate; try apply lexes_zstr; intros rest; reflexivity. Qed.
Lemma Forall_and3 {A} (Pa Pb Pc : A -> Prop) l : Forall (fun x => Pa x /\ Pb x /\ Pc x) l ->
  Forall (fun x => Pa x /\ Pb x) l /\ Forall (fun x => Pa x /\ Pc x) l.
Proof. intros H. split; (eapply Forall_impl; [|exact H]); intros x (A1 & A2 & A3); tauto. Qed.
