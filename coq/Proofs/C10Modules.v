(* C10 deepening round 7: the module-level oracle finds nothing on the two modules the model prints
   for a project outside every recorded class (lookup lemmas under NoDup names). *)
From Coq Require Import String Ascii.
From Coq Require Import List Arith Lia Bool.
Require Import TT.Model.Str TT.Proofs.StrFacts TT.Model.TypeParse TT.Spec.TsLex TT.Spec.TsModule TT.Spec.TsObs.
Require Import TT.Spec.C10Shape TT.Model.C10Zod TT.Spec.C10Check TT.Proofs.C10Proofs TT.Proofs.C10Items TT.Proofs.C10Oracle.
Import ListNotations.
Local Open Scope list_scope.

(* ---------------- generic list facts ---------------- *)
Lemma nodup_app_disj {A} (a b : list A) n : NoDup (a ++ b) -> In n a -> In n b -> False.
Proof.
  induction a as [|x r IH]; intros Hn Ha Hb; [destruct Ha|]. cbn [app] in Hn. inversion Hn as [|y l Hx Hr]; subst.
  destruct Ha as [->|Ha]; [apply Hx; apply in_or_app; right; exact Hb|apply IH; assumption].
Qed.
Lemma NoDup_app_remove_l {A} (a b : list A) : NoDup (a ++ b) -> NoDup b.
Proof. induction a as [|x r IH]; intros H; [exact H|]. inversion H; subst. apply IH. assumption. Qed.
Lemma NoDup_app_remove_r {A} (a b : list A) : NoDup (a ++ b) -> NoDup a.
Proof.
  induction a as [|x r IH]; intros H; [constructor|]. inversion H as [|y l Hx Hr]; subst. constructor; [|apply IH; exact Hr].
  intros Hin. apply Hx. apply in_or_app. left. exact Hin.
Qed.
Lemma nodup_flat_inj {A} (f : A -> list str) l : NoDup (flat_map f l) ->
  forall a b n, In a l -> In b l -> In n (f a) -> In n (f b) -> a = b.
Proof.
  induction l as [|x r IH]; intros Hn a b n Ha Hb Hna Hnb; [destruct Ha|]. cbn [flat_map] in Hn.
  destruct Ha as [<-|Ha]; destruct Hb as [<-|Hb]; try reflexivity.
  - exfalso. apply (nodup_app_disj _ _ n Hn Hna). apply in_flat_map. exists b. split; assumption.
  - exfalso. apply (nodup_app_disj _ _ n Hn Hnb). apply in_flat_map. exists a. split; assumption.
  - apply (IH (NoDup_app_remove_l _ _ Hn) a b n); assumption.
Qed.
Lemma find_first_some (P : item -> bool) l x : In x l -> P x = true ->
  (forall y, In y l -> P y = true -> y = x) -> find_nth P 0 l = Some x.
Proof.
  induction l as [|y r IH]; intros Hin Hp Hu; [destruct Hin|]. cbn [find_nth]. destruct (P y) eqn:Ey.
  - rewrite (Hu y (or_introl eq_refl) Ey). reflexivity.
  - destruct Hin as [->|Hin]; [congruence|]. apply IH; [exact Hin|exact Hp|]. intros z Hz. apply Hu. right. exact Hz.
Qed.
Lemma find_none (P : item -> bool) l : (forall y, In y l -> P y = false) -> forall k, find_nth P k l = None.
Proof.
  induction l as [|y r IH]; intros H k; [reflexivity|]. cbn [find_nth]. rewrite (H y (or_introl eq_refl)).
  apply IH. intros z Hz. apply H. right. exact Hz.
Qed.

Lemma count_notin n l : ~ In n l -> count n l = 0.
Proof.
  unfold count. induction l as [|x r IH]; intros H; [reflexivity|]. cbn [filter].
  destruct (str_eqb n x) eqn:E; [apply str_eqb_eq in E; subst; exfalso; apply H; left; reflexivity|].
  apply IH. intros Hr. apply H. right. exact Hr.
Qed.
Lemma occurrences_nodup l : NoDup l -> forall seen, (forall n, In n l -> ~ In n seen) ->
  occurrences seen l = map (fun n => (n, 0)) l.
Proof.
  induction 1 as [|x r Hx Hr IH]; intros seen Hs; [reflexivity|]. cbn [occurrences map].
  rewrite count_notin by (apply Hs; left; reflexivity). f_equal. apply IH. intros n Hn [<-|Hin]; [exact (Hx Hn)|].
  exact (Hs n (or_intror Hn) Hin).
Qed.

Lemma mem_refl_in x l : In x l -> mem x l = true.
Proof. intros H. unfold mem. apply existsb_exists. exists x. split; [exact H|apply str_eqb_refl]. Qed.
Lemma subset_refl l : subset l l = true.
Proof. unfold subset. apply forallb_forall. intros x Hx. apply mem_refl_in; exact Hx. Qed.
Lemma same_names_refl l : same_names l l = true.
Proof. unfold same_names. rewrite subset_refl. reflexivity. Qed.
Lemma minus_refl l : minus l l = [].
Proof.
  unfold minus. assert (forall a, (forall x, In x a -> In x l) -> filter (fun x => negb (mem x l)) a = []) as H.
  { induction a as [|x r IH]; intros Ha; [reflexivity|]. cbn [filter]. rewrite mem_refl_in by (apply Ha; left; reflexivity).
    cbn [negb]. apply IH. intros y Hy. apply Ha. right. exact Hy. }
  apply H. auto.
Qed.
Lemma same_counts_refl l : same_counts l l = true.
Proof. unfold same_counts. apply forallb_forall. intros x _. apply Nat.eqb_refl. Qed.
Lemma same_set_refl l : same_set l l = true.
Proof.
  unfold same_set. assert (forallb (fun x => existsb (str_eqb x) l) l = true) as ->; [|reflexivity].
  apply forallb_forall. intros x Hx. apply existsb_exists. exists x. split; [exact Hx|apply str_eqb_refl].
Qed.

Lemma strip_suffix_app suf x y : strip_suffix suf (x ++ suf) = Some y -> y = x.
Proof.
  unfold strip_suffix. rewrite app_length. replace (List.length x + List.length suf - List.length suf) with (List.length x) by lia.
  destruct (_ && _); [|discriminate]. intros H. inversion H. rewrite firstn_app, Nat.sub_diag, firstn_all. cbn [firstn]. apply app_nil_r.
Qed.
Lemma strip_suffix_nonempty suf x : x <> [] -> strip_suffix suf (x ++ suf) = Some x.
Proof.
  intros Hx. unfold strip_suffix. rewrite app_length. replace (List.length x + List.length suf - List.length suf) with (List.length x) by lia.
  assert (List.length suf <? List.length x + List.length suf = true) as -> by (apply Nat.ltb_lt; destruct x; [congruence|cbn; lia]).
  rewrite skipn_app, Nat.sub_diag, skipn_all. cbn [skipn app]. rewrite str_eqb_refl. cbn [andb].
  rewrite firstn_app, Nat.sub_diag, firstn_all. cbn [firstn]. rewrite app_nil_r. reflexivity.
Qed.
Lemma schema_name_inj a b : schema_name a = schema_name b -> a = b.
Proof. unfold schema_name. apply app_inv_tail. Qed.

(* ---------------- who declares a name ---------------- *)
Definition the_alias (m : mapping) (c : cdef) : item :=
  match c_params c, c_chans c with
  | [], cs => IInterface (params_name c) [] None (map (chan_member m ts_ty_of) cs) [index_sig]
  | _, [] => ITypeAlias (params_name c) [] (infer_of (params_name c))
  | _, cs => IInterface (params_name c) [] (Some (infer_of (params_name c))) (map (chan_member m ts_ty_of) cs) []
  end.
Definition the_iface (m : mapping) (c : cdef) : item :=
  IInterface (params_name c) [] None (map (plain_member m) (c_params c) ++ map (chan_member m ts_ty_of) (c_chans c)) [index_sig].
Definition the_const (m : mapping) (c : cdef) : item :=
  IConst (schema_name (params_name c)) (zcall "object" [EObj (map (zod_param m) (c_params c))]).
Definition type_const (m : mapping) (d : tdef) : item :=
  match d with
  | DStruct s => IConst (schema_name (s_name s)) (zcall "object" [EObj (map (zod_field m) (s_fields s))])
  | DEnum e => IConst (schema_name (e_name e)) (zcall "enum" [EArr (map (fun v => EStr """"%char (esc_js v)) (e_variants e))])
  end.
Definition type_alias (d : tdef) : item := ITypeAlias (tdef_name d) [] (infer_of (tdef_name d)).

Lemma zod_type_items_eq m d : zod_type_items m d = [type_const m d; type_alias d].
Proof. destruct d; reflexivity. Qed.
Lemma plain_param_items_eq m c : plain_param_items m c = if has_params_obj c then [the_iface m c] else [].
Proof. unfold plain_param_items, has_params_obj, the_iface. destruct (c_params c), (c_chans c); reflexivity. Qed.
Lemma zod_alias_eq m c : zod_alias m c = if has_params_obj c then [the_alias m c] else [].
Proof. unfold zod_alias, has_params_obj, the_alias. destruct (c_params c), (c_chans c); reflexivity. Qed.
Lemma zod_param_schema_eq m c : zod_param_schema m c = match c_params c with [] => [] | _ => [the_const m c] end.
Proof. unfold zod_param_schema, the_const. destruct (c_params c); reflexivity. Qed.

Lemma plain_type_item_named m d n : is_type_named n (plain_type_item m d) = str_eqb (tdef_name d) n.
Proof. destruct d; reflexivity. Qed.
Lemma the_alias_named m c n : is_type_named n (the_alias m c) = str_eqb (params_name c) n.
Proof. unfold the_alias. destruct (c_params c), (c_chans c); reflexivity. Qed.
Lemma type_const_named m d s : is_const_named s (type_const m d) = str_eqb (schema_name (tdef_name d)) s.
Proof. destruct d; reflexivity. Qed.
Lemma type_const_not_type m d n : is_type_named n (type_const m d) = false.
Proof. destruct d; reflexivity. Qed.
Lemma the_alias_not_const m c s : is_const_named s (the_alias m c) = false.
Proof. unfold the_alias. destruct (c_params c), (c_chans c); reflexivity. Qed.

Section Proj.
  Variable p : proj.
  Let m := p_map p.
  Hypothesis Hnd : NoDup (type_decls (plain_items p)).

  Lemma nd_parts : NoDup (map tdef_name (p_types p)) /\ NoDup (params_names p).
  Proof. rewrite plain_type_names in Hnd. split; [exact (NoDup_app_remove_r _ _ Hnd)|exact (NoDup_app_remove_l _ _ Hnd)]. Qed.
  Lemma type_name_inj d d' : In d (p_types p) -> In d' (p_types p) -> tdef_name d = tdef_name d' -> d = d'.
  Proof.
    intros H1 H2 E. destruct nd_parts as [Hn _]. rewrite <- flat_map_concat_map in Hn || idtac.
    assert (NoDup (flat_map (fun d => [tdef_name d]) (p_types p))) as Hf.
    { replace (flat_map (fun d => [tdef_name d]) (p_types p)) with (map tdef_name (p_types p)); [exact Hn|].
      clear. induction (p_types p) as [|x r IH]; [reflexivity|]. cbn [map flat_map app]. rewrite IH. reflexivity. }
    apply (nodup_flat_inj _ _ Hf d d' (tdef_name d) H1 H2); [left; reflexivity|left; symmetry; exact E].
  Qed.
  Lemma params_name_inj c c' : In c (p_cmds p) -> In c' (p_cmds p) -> has_params_obj c = true -> has_params_obj c' = true ->
    params_name c = params_name c' -> c = c'.
  Proof.
    intros H1 H2 O1 O2 E. destruct nd_parts as [_ Hn]. unfold params_names in Hn.
    apply (nodup_flat_inj _ _ Hn c c' (params_name c) H1 H2); [rewrite O1; left; reflexivity|rewrite O2; left; symmetry; exact E].
  Qed.
  Lemma type_not_params d c : In d (p_types p) -> In c (p_cmds p) -> has_params_obj c = true -> tdef_name d <> params_name c.
  Proof.
    intros H1 H2 O E. rewrite plain_type_names in Hnd. apply (nodup_app_disj _ _ (tdef_name d) Hnd).
    - apply in_map. exact H1.
    - unfold params_names. apply in_flat_map. exists c. split; [exact H2|]. rewrite O. left. symmetry. exact E.
  Qed.

  (* members of the two item lists *)
  Lemma in_plain y : In y (plain_items p) ->
    (exists d, In d (p_types p) /\ y = plain_type_item m d) \/
    (exists c, In c (p_cmds p) /\ has_params_obj c = true /\ y = the_iface m c).
  Proof.
    unfold plain_items. intros H. apply in_app_or in H. destruct H as [H|H].
    - apply in_map_iff in H. destruct H as [d [<- Hd]]. left. exists d. split; [exact Hd|reflexivity].
    - apply in_flat_map in H. destruct H as [c [Hc Hy]]. fold m in Hy. rewrite plain_param_items_eq in Hy.
      destruct (has_params_obj c) eqn:O; [|destruct Hy]. destruct Hy as [<-|[]]. right. exists c. repeat split; assumption.
  Qed.
  Lemma in_zod y : In y (zod_items p) ->
    (exists d, In d (p_types p) /\ (y = type_const m d \/ y = type_alias d)) \/
    (exists c, In c (p_cmds p) /\ c_params c <> [] /\ y = the_const m c) \/
    (exists c, In c (p_cmds p) /\ has_params_obj c = true /\ y = the_alias m c).
  Proof.
    unfold zod_items. intros H. apply in_app_or in H. destruct H as [H|H]; [|apply in_app_or in H; destruct H as [H|H]].
    - apply in_flat_map in H. destruct H as [d [Hd Hy]]. fold m in Hy. rewrite zod_type_items_eq in Hy. left. exists d. split; [exact Hd|].
      destruct Hy as [<-|[<-|[]]]; [left|right]; reflexivity.
    - apply in_flat_map in H. destruct H as [c [Hc Hy]]. fold m in Hy. rewrite zod_param_schema_eq in Hy. right. left. exists c.
      destruct (c_params c) eqn:E; [destruct Hy|]. destruct Hy as [<-|[]]. repeat split; [exact Hc|discriminate].
    - apply in_flat_map in H. destruct H as [c [Hc Hy]]. fold m in Hy. rewrite zod_alias_eq in Hy. right. right. exists c.
      destruct (has_params_obj c) eqn:O; [|destruct Hy]. destruct Hy as [<-|[]]. repeat split; assumption.
  Qed.
  Lemma plain_in_type d : In d (p_types p) -> In (plain_type_item m d) (plain_items p).
  Proof. intros H. unfold plain_items. apply in_or_app. left. apply in_map. exact H. Qed.
  Lemma plain_in_cmd c : In c (p_cmds p) -> has_params_obj c = true -> In (the_iface m c) (plain_items p).
  Proof.
    intros H O. unfold plain_items. apply in_or_app. right. apply in_flat_map. exists c. split; [exact H|].
    fold m. rewrite plain_param_items_eq, O. left. reflexivity.
  Qed.
  Lemma zod_in_type d : In d (p_types p) -> In (type_const m d) (zod_items p) /\ In (type_alias d) (zod_items p).
  Proof.
    intros H. unfold zod_items. split; apply in_or_app; left; apply in_flat_map; exists d; (split; [exact H|]); fold m;
      rewrite zod_type_items_eq; [left|right; left]; reflexivity.
  Qed.
  Lemma zod_in_const c : In c (p_cmds p) -> c_params c <> [] -> In (the_const m c) (zod_items p).
  Proof.
    intros H O. unfold zod_items. apply in_or_app. right. apply in_or_app. left. apply in_flat_map. exists c. split; [exact H|].
    fold m. rewrite zod_param_schema_eq. destruct (c_params c); [congruence|left; reflexivity].
  Qed.
  Lemma zod_in_alias c : In c (p_cmds p) -> has_params_obj c = true -> In (the_alias m c) (zod_items p).
  Proof.
    intros H O. unfold zod_items. apply in_or_app. right. apply in_or_app. right. apply in_flat_map. exists c. split; [exact H|].
    fold m. rewrite zod_alias_eq, O. left. reflexivity.
  Qed.
  Lemma params_nonempty_obj c : c_params c <> [] -> has_params_obj c = true.
  Proof. unfold has_params_obj. destruct (c_params c); [congruence|reflexivity]. Qed.

  (* ---- lookups, type declarations ---- *)
  Lemma look_plain_type d : In d (p_types p) -> find_nth (is_type_named (tdef_name d)) 0 (plain_items p) = Some (plain_type_item m d).
  Proof.
    intros Hd. apply find_first_some; [apply plain_in_type; exact Hd|rewrite plain_type_item_named; apply str_eqb_refl|].
    intros y Hy Py. apply in_plain in Hy. destruct Hy as [[d' [Hd' ->]]|[c [Hc [O ->]]]].
    - rewrite plain_type_item_named in Py. apply str_eqb_eq in Py. rewrite (type_name_inj d' d Hd' Hd Py). reflexivity.
    - cbn [the_iface is_type_named] in Py. apply str_eqb_eq in Py. exfalso. apply (type_not_params d c Hd Hc O). symmetry. exact Py.
  Qed.
  Lemma look_zod_type_const d : In d (p_types p) ->
    find_nth (is_const_named (tdef_name d ++ L "Schema")) 0 (zod_items p) = Some (type_const m d).
  Proof.
    intros Hd. apply find_first_some; [apply zod_in_type; exact Hd|rewrite type_const_named; apply str_eqb_refl|].
    intros y Hy Py. apply in_zod in Hy. destruct Hy as [[d' [Hd' [->| ->]]]|[[c [Hc [O ->]]]|[c [Hc [O ->]]]]].
    - rewrite type_const_named in Py. apply str_eqb_eq in Py. apply schema_name_inj in Py. rewrite (type_name_inj d' d Hd' Hd Py). reflexivity.
    - discriminate.
    - cbn [the_const is_const_named] in Py. apply str_eqb_eq in Py. apply schema_name_inj in Py. exfalso.
      apply (type_not_params d c Hd Hc (params_nonempty_obj c O)). symmetry. exact Py.
    - rewrite the_alias_not_const in Py. discriminate.
  Qed.
  Lemma look_zod_type_alias d : In d (p_types p) -> find_nth (is_type_named (tdef_name d)) 0 (zod_items p) = Some (type_alias d).
  Proof.
    intros Hd. apply find_first_some; [apply zod_in_type; exact Hd|cbn [type_alias is_type_named]; apply str_eqb_refl|].
    intros y Hy Py. apply in_zod in Hy. destruct Hy as [[d' [Hd' [->| ->]]]|[[c [Hc [O ->]]]|[c [Hc [O ->]]]]].
    - rewrite type_const_not_type in Py. discriminate.
    - cbn [type_alias is_type_named] in Py. apply str_eqb_eq in Py. rewrite (type_name_inj d' d Hd' Hd Py). reflexivity.
    - discriminate.
    - rewrite the_alias_named in Py. apply str_eqb_eq in Py. exfalso. apply (type_not_params d c Hd Hc O). symmetry. exact Py.
  Qed.

  (* ---- lookups, parameter objects ---- *)
  Lemma look_plain_cmd c : In c (p_cmds p) -> has_params_obj c = true ->
    find_nth (is_type_named (params_name c)) 0 (plain_items p) = Some (the_iface m c).
  Proof.
    intros Hc O. apply find_first_some; [apply plain_in_cmd; assumption|cbn [the_iface is_type_named]; apply str_eqb_refl|].
    intros y Hy Py. apply in_plain in Hy. destruct Hy as [[d' [Hd' ->]]|[c' [Hc' [O' ->]]]].
    - rewrite plain_type_item_named in Py. apply str_eqb_eq in Py. exfalso. exact (type_not_params d' c Hd' Hc O Py).
    - cbn [the_iface is_type_named] in Py. apply str_eqb_eq in Py. rewrite (params_name_inj c' c Hc' Hc O' O Py). reflexivity.
  Qed.
  Lemma look_zod_cmd_alias c : In c (p_cmds p) -> has_params_obj c = true ->
    find_nth (is_type_named (params_name c)) 0 (zod_items p) = Some (the_alias m c).
  Proof.
    intros Hc O. apply find_first_some; [apply zod_in_alias; assumption|rewrite the_alias_named; apply str_eqb_refl|].
    intros y Hy Py. apply in_zod in Hy. destruct Hy as [[d' [Hd' [->| ->]]]|[[c' [Hc' [O' ->]]]|[c' [Hc' [O' ->]]]]].
    - rewrite type_const_not_type in Py. discriminate.
    - cbn [type_alias is_type_named] in Py. apply str_eqb_eq in Py. exfalso. exact (type_not_params d' c Hd' Hc O Py).
    - discriminate.
    - rewrite the_alias_named in Py. apply str_eqb_eq in Py. rewrite (params_name_inj c' c Hc' Hc O' O Py). reflexivity.
  Qed.
  Lemma look_zod_cmd_const c : In c (p_cmds p) -> c_params c <> [] ->
    find_nth (is_const_named (params_name c ++ L "Schema")) 0 (zod_items p) = Some (the_const m c).
  Proof.
    intros Hc O. apply find_first_some; [apply zod_in_const; assumption|cbn [the_const is_const_named]; apply str_eqb_refl|].
    intros y Hy Py. apply in_zod in Hy. destruct Hy as [[d' [Hd' [->| ->]]]|[[c' [Hc' [O' ->]]]|[c' [Hc' [O' ->]]]]].
    - rewrite type_const_named in Py. apply str_eqb_eq in Py. apply schema_name_inj in Py. exfalso.
      exact (type_not_params d' c Hd' Hc (params_nonempty_obj c O) Py).
    - discriminate.
    - cbn [the_const is_const_named] in Py. apply str_eqb_eq in Py. apply schema_name_inj in Py.
      rewrite (params_name_inj c' c Hc' Hc (params_nonempty_obj c' O') (params_nonempty_obj c O) Py). reflexivity.
    - rewrite the_alias_not_const in Py. discriminate.
  Qed.
  Lemma look_zod_cmd_noconst c : In c (p_cmds p) -> has_params_obj c = true -> c_params c = [] ->
    find_nth (is_const_named (params_name c ++ L "Schema")) 0 (zod_items p) = None.
  Proof.
    intros Hc O E. apply find_none. intros y Hy. destruct (is_const_named _ y) eqn:Py; [|reflexivity]. exfalso.
    apply in_zod in Hy. destruct Hy as [[d' [Hd' [->| ->]]]|[[c' [Hc' [O' ->]]]|[c' [Hc' [O' ->]]]]].
    - rewrite type_const_named in Py. apply str_eqb_eq in Py. apply schema_name_inj in Py. exact (type_not_params d' c Hd' Hc O Py).
    - discriminate.
    - cbn [the_const is_const_named] in Py. apply str_eqb_eq in Py. apply schema_name_inj in Py.
      rewrite (params_name_inj c' c Hc' Hc (params_nonempty_obj c' O') O Py) in O'. congruence.
    - rewrite the_alias_not_const in Py. discriminate.
  Qed.
End Proj.

(* ---------------- shapes: reflexivity on declaration shapes, keys, enum literals ---------------- *)
Lemma agree_mk_opt_refl n o x : shape_agree x x = true -> shape_agree (mk_opt n o x) (mk_opt n o x) = true.
Proof.
  intros H. destruct x; cbn [mk_opt]; try (destruct (n || o); [cbn [shape_agree]; unfold flags_agree; rewrite !eqb_reflx; cbn [andb orb]|]; exact H).
  cbn [shape_agree] in H |- *. apply andb_true_iff in H. destruct H as [_ H]. rewrite H. unfold flags_agree. rewrite !eqb_reflx. reflexivity.
Qed.
Lemma agree_list_refl l : Forall (fun s => shape_agree s s = true) l -> agree_list l l = true.
Proof. induction 1 as [|x r Hx Hr IH]; [reflexivity|]. cbn [agree_list]. rewrite Hx, IH. reflexivity. Qed.
Lemma prim_shape_refl x s : prim_shape x = Some s -> shape_agree s s = true.
Proof.
  unfold prim_shape. repeat match goal with |- context [if ?c then _ else _] => destruct c end; intros H; inversion H; reflexivity.
Qed.
Lemma agree_tsh_refl m : forall t, shape_agree (tsh m t) (tsh m t) = true.
Proof.
  induction t as [q|u IH|k v IHk IHv|u IH|l IH|u IH|u IH|n] using ts_ind2; cbn [tsh].
  - destruct (prim_shape q) eqn:E; [exact (prim_shape_refl _ _ E)|cbn [shape_agree]; apply str_eqb_refl].
  - exact IH.
  - cbn [shape_agree]. rewrite IHk, IHv. reflexivity.
  - exact IH.
  - destruct l as [|a l']; [reflexivity|]. rewrite agree_tuple_eq. apply agree_list_refl.
    apply Forall_forall. intros s Hs. apply in_map_iff in Hs. destruct Hs as [x [<- Hx]]. rewrite Forall_forall in IH. apply IH; exact Hx.
  - apply agree_mk_opt_refl. exact IH.
  - exact IH.
  - unfold cust_t. destruct (prim_shape _) eqn:E; [exact (prim_shape_refl _ _ E)|cbn [shape_agree]; apply str_eqb_refl].
Qed.

Fixpoint agree_fields (l l' : list (str * shape)) : bool :=
  match l, l' with [], [] => true | a :: r, b :: r' => str_eqb (fst a) (fst b) && shape_agree (snd a) (snd b) && agree_fields r r' | _, _ => false end.
Lemma agree_obj_eq l : forall l', shape_agree (ShObj l) (ShObj l') = agree_fields l l'.
Proof. induction l as [|a r IH]; destruct l' as [|b r']; try reflexivity; cbn [agree_fields]; rewrite <- IH; reflexivity. Qed.
Lemma agree_obj_refl l : Forall (fun f => shape_agree (snd f) (snd f) = true) l -> shape_agree (ShObj l) (ShObj l) = true.
Proof.
  rewrite agree_obj_eq. induction 1 as [|x r Hx Hr IH]; [reflexivity|]. cbn [agree_fields]. rewrite str_eqb_refl, Hx, IH. reflexivity.
Qed.

Lemma field_of_map {A} (kf : A -> str) (g : A -> shape) l x : NoDup (map kf l) -> In x l ->
  field_of (kf x) (map (fun a => (kf a, g a)) l) = Some (g x).
Proof.
  induction l as [|a r IH]; intros Hn Hin; [destruct Hin|]. cbn [map field_of fst snd]. cbn [map] in Hn. inversion Hn as [|y l0 Hx Hr]; subst.
  destruct Hin as [->|Hin]; [rewrite str_eqb_refl; reflexivity|].
  destruct (str_eqb (kf a) (kf x)) eqn:E; [|apply IH; assumption].
  apply str_eqb_eq in E. exfalso. apply Hx. rewrite E. apply in_map. exact Hin.
Qed.
Lemma field_of_none k l : ~ In k (map fst l) -> field_of k l = None.
Proof.
  induction l as [|a r IH]; intros H; [reflexivity|]. cbn [field_of]. destruct (str_eqb (fst a) k) eqn:E.
  - apply str_eqb_eq in E. exfalso. apply H. left. exact E.
  - apply IH. intros Hr. apply H. right. exact Hr.
Qed.
Lemma flat_map_nil {A B} (g : A -> list B) l : (forall x, In x l -> g x = []) -> flat_map g l = [].
Proof. induction l as [|a r IH]; intros H; [reflexivity|]. cbn [flat_map]. rewrite (H a (or_introl eq_refl)), IH; [reflexivity|]. intros x Hx. apply H. right. exact Hx. Qed.

(* one declaration: value members (through the schema) followed by channel members (through the Zod-mode interface) *)
Lemma compare_item_ok (param : bool) (ps : list member) (cs : list (str * tstruct))
    (Z T : member -> shape) (E : str * tstruct -> shape) (extra_sh : option shape) :
  let kf := fun x : member => key_str (m_key x) in
  let kc := fun c : str * tstruct => key_str (fst c) in
  (match extra_sh with Some (ShObj ef) => ef | _ => [] end) = map (fun c => (kc c, E c)) cs ->
  NoDup (map kf ps ++ map kc cs) ->
  (forall x, In x ps -> compare_shapes param (Z x) (T x) = []) ->
  (forall c, In c cs -> shape_agree (E c) (E c) = true) ->
  compare_item extra_sh param (ShObj (map (fun x => (kf x, Z x)) ps))
    (ShObj (map (fun x => (kf x, T x)) ps ++ map (fun c => (kc c, E c)) cs)) = [].
Proof.
  intros kf kc Hex Hn Hps Hcs. unfold compare_item. rewrite Hex.
  assert (map fst (map (fun x => (kf x, Z x)) ps) ++ map fst (map (fun c => (kc c, E c)) cs) = map kf ps ++ map kc cs) as Ek
    by (rewrite !map_map; reflexivity).
  assert (map fst (map (fun x => (kf x, T x)) ps ++ map (fun c => (kc c, E c)) cs) = map kf ps ++ map kc cs) as Et
    by (rewrite map_app, !map_map; reflexivity).
  rewrite Ek, Et, same_names_refl. rewrite app_length, !map_length, app_length, !map_length, Nat.eqb_refl. cbn [andb app].
  apply flat_map_nil. intros f Hf. apply in_app_or in Hf. destruct Hf as [Hf|Hf]; apply in_map_iff in Hf.
  - destruct Hf as [x [<- Hx]]. cbn [fst snd]. rewrite (field_of_map kf Z ps x (NoDup_app_remove_r _ _ Hn) Hx). apply Hps. exact Hx.
  - destruct Hf as [c [<- Hc]]. cbn [fst snd]. rewrite field_of_none.
    + rewrite (field_of_map kc E cs c (NoDup_app_remove_l _ _ Hn) Hc). rewrite Hcs by exact Hc. reflexivity.
    + rewrite map_map. cbn [fst]. intros Hin. apply (nodup_app_disj _ _ (kc c) Hn Hin). apply in_map. exact Hc.
Qed.

(* enum literals *)
Lemma lit_strs_map (q : ascii) l : lit_strs (map (fun v => EStr q v) l) = Some l.
Proof. unfold lit_strs. induction l as [|a r IH]; [reflexivity|]. cbn [map mapM]. rewrite IH. reflexivity. Qed.
Lemma norm_union_lits a b r : norm_union (map (fun v => ShLits [v]) (a :: b :: r)) = ShLits (a :: b :: r).
Proof.
  unfold norm_union.
  assert (forall l, filter (fun s => negb (is_null s)) (map (fun v => ShLits [v]) l) = map (fun v => ShLits [v]) l) as Hf
    by (induction l as [|x l' IH]; [reflexivity|cbn [map filter is_null negb]; rewrite IH; reflexivity]).
  assert (forall l, existsb is_null (map (fun v : str => ShLits [v]) l) = false) as He
    by (induction l as [|x l' IH]; [reflexivity|cbn [map existsb is_null orb]; exact IH]).
  assert (forall l, forallb is_lits (map (fun v : str => ShLits [v]) l) = true) as Hl
    by (induction l as [|x l' IH]; [reflexivity|cbn [map forallb is_lits andb]; exact IH]).
  assert (forall l, flat_map lits_of (map (fun v : str => ShLits [v]) l) = l) as Hm
    by (induction l as [|x l' IH]; [reflexivity|cbn [map flat_map lits_of app]; rewrite IH; reflexivity]).
  rewrite Hf, He. change (map (fun v => ShLits [v]) (a :: b :: r)) with (ShLits [a] :: ShLits [b] :: map (fun v => ShLits [v]) r).
  unfold union_core. change (ShLits [a] :: ShLits [b] :: map (fun v => ShLits [v]) r) with (map (fun v => ShLits [v]) (a :: b :: r)).
  rewrite Hl, Hm. reflexivity.
Qed.
Lemma compare_lits param l : compare_shapes param (ShLits l) (ShLits l) = [].
Proof.
  apply compare_shapes_exact. split; [cbn [shape_agree]; apply same_set_refl|]. intros _. split; [reflexivity|]. split; reflexivity.
Qed.

(* ---------------- premises of the module-level statement ---------------- *)
Definition member_ok (f : member) : Prop := clean (m_ty f) /\ has_opt_t (m_ty f) = false /\ m_opt f = false.
Definition chan_ok (ch : str * tstruct) : Prop := dom (snd ch) = true /\ union_under_seq (snd ch) = false.
Definition tdef_ok (d : tdef) : Prop :=
  match d with
  | DStruct s => Forall member_ok (s_fields s) /\ NoDup (map (fun f => key_str (m_key f)) (s_fields s))
  | DEnum e => e_variants e <> []
  end.
Definition cdef_ok (c : cdef) : Prop :=
  Forall member_ok (c_params c) /\ Forall chan_ok (c_chans c) /\
  NoDup (map (fun f => key_str (m_key f)) (c_params c) ++ map (fun ch : str * tstruct => key_str (fst ch)) (c_chans c)) /\
  c_tname c <> [].
Definition proj_ok (p : proj) : Prop :=
  map_ok (p_map p) = true /\ Forall tdef_ok (p_types p) /\ Forall cdef_ok (p_cmds p) /\ NoDup (type_decls (plain_items p)).

(* the row of one (name, occurrence) in compare_modules, with the reachability flag abstracted *)
Definition item_row (pm zm : list item) (n : str) (k : nat) (b : bool) : str * list tag :=
  match plain_decl_k pm n k with
  | None => (n, [TgParse])
  | Some t =>
      match zod_decl_k zm n k with
      | Some z => (n, add_tags (compare_item (iface_shape_k zm n k) b z t) [])
      | None =>
          match iface_shape_k zm n k with
          | Some zi => (n, if negb (is_params_name n) then [TgNames]
                               else if shape_agree zi t then []
                               else if same_names (keys_of zi) (keys_of t) then [TgShape] else [TgKeys])
          | None => (n, [TgNames]) end
      end
  end.

Section Members2.
  Variable m : mapping.
  Hypothesis Hm : map_ok m = true.

  Lemma compare_clean param t : clean t -> has_opt_t t = false ->
    compare_shapes param (zshape (zex_of m t false)) (tshape (ts_ty_of m t)) = [].
  Proof.
    intros Hc Ho. apply compare_shapes_exact. split; [apply type_agree; assumption|]. intros _. pose proof Hc as [Hd [Hs [Hr Hu]]].
    split; [apply type_json; assumption|]. unfold accepts. rewrite (type_accept m Hm t Hc Ho). split; reflexivity.
  Qed.
  Definition Tm (x : member) : shape := snd (tmember (plain_member m x)).
  Definition Ec (c : str * tstruct) : shape := snd (tmember (chan_member m ts_ty_of c)).
  Lemma field_compare param x : member_ok x -> compare_shapes param (zshape (snd (zod_field m x))) (Tm x) = [].
  Proof.
    intros [Hc [Ho Hf]]. unfold Tm, zod_field, plain_member, tmember. cbn [fst snd]. rewrite Hf, mk_opt_ff. apply compare_clean; assumption.
  Qed.
  Lemma param_compare param x : member_ok x -> compare_shapes param (zshape (snd (zod_param m x))) (Tm x) = [].
  Proof.
    intros [Hc [Ho Hf]]. unfold Tm, zod_param, plain_member, tmember. cbn [fst snd]. rewrite Hf, mk_opt_ff. apply compare_clean; assumption.
  Qed.
  Lemma chan_refl c : chan_ok c -> shape_agree (Ec c) (Ec c) = true.
  Proof.
    intros [Hd Hu]. unfold Ec, chan_member, tmember. cbn [fst snd]. rewrite mk_opt_ff.
    change (tshape (TyRef [L "Channel"] [ts_ty_of m (snd c)])) with (ShApp (L "Channel") [tshape (ts_ty_of m (snd c))]).
    rewrite (tshape_ts m Hm) by assumption. cbn [shape_agree]. rewrite str_eqb_refl, agree_tsh_refl. reflexivity.
  Qed.
  Lemma zobj_shape (f : mapping -> member -> option key * ex) (Hf : forall x, fst (f m x) = Some (mk_key (m_key x))) fs :
    zshape (zcall "object" [EObj (map (f m) fs)]) = ShObj (map (fun x => (key_str (m_key x), zshape (snd (f m x)))) fs).
  Proof.
    change (zcall "object" [EObj (map (f m) fs)]) with (zod_object (map (f m) fs)). rewrite zs_object. f_equal.
    induction fs as [|x r IH]; [reflexivity|]. cbn [map flat_map]. rewrite Hf, IH. reflexivity.
  Qed.
  Lemma members_shape ps cs :
    map tmember (map (plain_member m) ps ++ map (chan_member m ts_ty_of) cs) =
    map (fun x => (key_str (m_key x), Tm x)) ps ++ map (fun c : str * tstruct => (key_str (fst c), Ec c)) cs.
  Proof. rewrite map_app, !map_map. reflexivity. Qed.

  Lemma enum_shapes e : e_variants e <> [] ->
    tshape (match e_variants e with [v] => TyLit (esc_js v) | vs => TyUnion (map (fun v => TyLit (esc_js v)) vs) end) = ShLits (map esc_js (e_variants e)) /\
    zshape (zcall "enum" [EArr (map (fun v => EStr """"%char (esc_js v)) (e_variants e))]) = ShLits (map esc_js (e_variants e)).
  Proof.
    intros Hv. split.
    - destruct (e_variants e) as [|a [|b r]]; [congruence|reflexivity|]. cbn [tshape]. rewrite map_map.
      replace (map (fun x => tshape (TyLit (esc_js x))) (a :: b :: r)) with (map (fun v => ShLits [v]) (map esc_js (a :: b :: r)))
        by (rewrite map_map; reflexivity).
      cbn [map]. apply norm_union_lits.
    - replace (map (fun v => EStr """"%char (esc_js v)) (e_variants e)) with (map (fun v => EStr """"%char v) (map esc_js (e_variants e)))
        by (rewrite map_map; reflexivity).
      change (zshape (zcall "enum" [EArr ?l])) with (match lit_strs l with Some ss => ShLits ss | None => ShBad (L "enum") end).
      rewrite lit_strs_map. reflexivity.
  Qed.
End Members2.

Lemma is_params_name_ok c : c_tname c <> [] -> is_params_name (params_name c) = true.
Proof. intros H. unfold is_params_name, params_name. rewrite strip_suffix_nonempty by exact H. reflexivity. Qed.

Section Rows.
  Variable p : proj.
  Hypothesis Hok : proj_ok p.
  Let m := p_map p.
  Let Hm : map_ok m = true := proj1 Hok.
  Let Hnd : NoDup (type_decls (plain_items p)) := proj2 (proj2 (proj2 Hok)).

  Lemma row_type d b : In d (p_types p) -> snd (item_row (plain_items p) (zod_items p) (tdef_name d) 0 b) = [].
  Proof.
    intros Hd. pose proof Hok as [_ [Ht _]]. rewrite Forall_forall in Ht. specialize (Ht d Hd).
    unfold item_row, plain_decl_k, zod_decl_k, iface_shape_k.
    rewrite (look_plain_type p Hnd d Hd), (look_zod_type_const p Hnd d Hd), (look_zod_type_alias p Hnd d Hd). fold m.
    destruct d as [s|e]; cbn [plain_type_item type_const type_alias snd].
    - destruct Ht as [Hf Hk]. rewrite (zobj_shape m zod_field) by reflexivity.
      pose proof (members_shape m (s_fields s) []) as Em. cbn [map] in Em. rewrite !app_nil_r in Em. rewrite Em.
      pose proof (compare_item_ok b (s_fields s) [] (fun x => zshape (snd (zod_field m x))) (Tm m) (Ec m) None) as Hc.
      cbn zeta in Hc. cbn [map] in Hc. rewrite !app_nil_r in Hc. rewrite Hc; [reflexivity|reflexivity|exact Hk| |intros c []].
      intros x Hx. rewrite Forall_forall in Hf. apply field_compare; [exact Hm|apply Hf; exact Hx].
    - cbn [tdef_ok] in Ht. destruct (enum_shapes e Ht) as [E1 E2]. rewrite E1, E2. unfold compare_item. rewrite compare_lits. reflexivity.
  Qed.

  Lemma row_cmd c b : In c (p_cmds p) -> has_params_obj c = true ->
    snd (item_row (plain_items p) (zod_items p) (params_name c) 0 b) = [].
  Proof.
    intros Hc O. pose proof Hok as [_ [_ [Hcs _]]]. rewrite Forall_forall in Hcs. destruct (Hcs c Hc) as [Hps [Hch [Hk Hn]]].
    unfold item_row, plain_decl_k, zod_decl_k, iface_shape_k.
    rewrite (look_plain_cmd p Hnd c Hc O), (look_zod_cmd_alias p Hnd c Hc O). fold m. cbn [the_iface].
    rewrite members_shape.
    assert (forall x, In x (c_params c) -> compare_shapes b (zshape (snd (zod_param m x))) (Tm m x) = []) as Hpc
      by (intros x Hx; rewrite Forall_forall in Hps; apply param_compare; [exact Hm|apply Hps; exact Hx]).
    assert (forall ch, In ch (c_chans c) -> shape_agree (Ec m ch) (Ec m ch) = true) as Hcc
      by (intros ch Hx; rewrite Forall_forall in Hch; apply chan_refl; [exact Hm|apply Hch; exact Hx]).
    destruct (c_params c) as [|p0 ps] eqn:Ep.
    - (* channels only: an interface in both modes *)
      rewrite (look_zod_cmd_noconst p Hnd c Hc O Ep). unfold the_alias. rewrite Ep.
      rewrite (is_params_name_ok c Hn). cbn [negb snd map app].
      pose proof (members_shape m [] (c_chans c)) as Em. cbn [map app] in Em. rewrite Em.
      rewrite agree_obj_refl; [reflexivity|]. apply Forall_forall. intros f Hf. apply in_map_iff in Hf. destruct Hf as [ch [<- Hx]].
      cbn [snd]. apply Hcc. exact Hx.
    - assert (c_params c <> []) as Hne by (rewrite Ep; discriminate).
      rewrite (look_zod_cmd_const p Hnd c Hc Hne). fold m. cbn [the_const]. rewrite Ep.
      rewrite (zobj_shape m zod_param) by reflexivity. unfold the_alias. rewrite Ep.
      destruct (c_chans c) as [|c0 cs] eqn:Ec0.
      + pose proof (compare_item_ok b (p0 :: ps) [] (fun x => zshape (snd (zod_param m x))) (Tm m) (Ec m) None) as H.
        cbn zeta in H. cbn [snd]. rewrite H; [reflexivity|reflexivity|exact Hk|exact Hpc|intros ch []].
      + pose proof (members_shape m [] (c0 :: cs)) as Em. cbn [map app] in Em. cbn [map] in Em |- *.
        pose proof (compare_item_ok b (p0 :: ps) (c0 :: cs) (fun x => zshape (snd (zod_param m x))) (Tm m) (Ec m)
                      (Some (ShObj (map tmember (map (chan_member m ts_ty_of) (c0 :: cs)))))) as H.
        cbn zeta in H. cbn [snd]. cbn [map] in H. rewrite H; [reflexivity| |exact Hk|exact Hpc|exact Hcc].
        exact Em.
  Qed.
End Rows.

Lemma schema_names_sub p : subset (schema_names (zod_items p)) (type_decls (plain_items p)) = true.
Proof.
  unfold subset. apply forallb_forall. intros x Hx. apply mem_refl_in. unfold schema_names in Hx. rewrite zod_consts in Hx.
  apply in_flat_map in Hx. destruct Hx as [cst [Hc Hs]]. destruct (strip_suffix (L "Schema") cst) as [y|] eqn:E; [|destruct Hs].
  destruct Hs as [<-|[]]. rewrite plain_type_names. unfold schema_consts in Hc. apply in_app_or in Hc. apply in_or_app. destruct Hc as [Hc|Hc].
  - left. apply in_map_iff in Hc. destruct Hc as [d [<- Hd]]. unfold schema_name in E. apply strip_suffix_app in E. subst. apply in_map. exact Hd.
  - right. apply in_flat_map in Hc. destruct Hc as [c [Hc Hin]]. unfold params_names. apply in_flat_map. exists c. split; [exact Hc|].
    destruct (c_params c) eqn:Ep; [destruct Hin|]. destruct Hin as [<-|[]]. unfold schema_name in E. apply strip_suffix_app in E. subst.
    unfold has_params_obj. rewrite Ep. left. reflexivity.
Qed.

(* the module-level statement: nothing is found on the model's two modules *)
Theorem modules_clean p : proj_ok p -> v_tags (compare_modules (plain_items p) (zod_items p)) = [].
Proof.
  intros Hok. pose proof Hok as [_ [_ [_ Hnd]]]. unfold compare_modules. cbn [v_tags]. cbv zeta.
  rewrite names_equal, minus_refl, same_counts_refl, schema_names_sub. cbn [app].
  rewrite flat_map_nil; [reflexivity|]. intros row Hrow. apply in_map_iff in Hrow. destruct Hrow as [[n k] [<- Hnk]].
  rewrite (occurrences_nodup _ Hnd) in Hnk by (intros ? ? []). apply in_map_iff in Hnk. destruct Hnk as [n' [E Hn]]. inversion E; subst n' k. clear E.
  cbn [fst snd]. rewrite plain_type_names in Hn. apply in_app_or in Hn. destruct Hn as [Hn|Hn].
  - apply in_map_iff in Hn. destruct Hn as [d [<- Hd]]. exact (row_type p Hok d _ Hd).
  - unfold params_names in Hn. apply in_flat_map in Hn. destruct Hn as [c [Hc Hin]]. destruct (has_params_obj c) eqn:O; [|destruct Hin].
    destruct Hin as [<-|[]]. exact (row_cmd p Hok c _ Hc O).
Qed.

(* the premises are satisfiable (the clean example project) and each added premise is needed *)
Ltac nodup_tac := vm_compute; repeat (constructor; [let H := fresh in intros H; repeat (destruct H as [H|H]; [discriminate H|]); exact H|]); constructor.
Lemma p_clean_ok : proj_ok p_clean.
Proof.
  split; [reflexivity|]. split; [|split].
  - constructor; [|constructor]. split; [|nodup_tac]. repeat (constructor; [repeat split; reflexivity|]). constructor.
  - constructor; [|constructor]. split; [|split; [|split]].
    + repeat (constructor; [repeat split; reflexivity|]). constructor.
    + repeat (constructor; [repeat split; reflexivity|]). constructor.
    + nodup_tac.
    + discriminate.
  - nodup_tac.
Qed.
Definition p_empty_enum : proj := {| p_types := [DEnum {| e_name := L "Never"; e_variants := [] |}]; p_cmds := []; p_map := [] |}.
Definition p_flag : proj :=
  {| p_types := [DStruct {| s_name := L "S"; s_fields := [{| m_key := L "a"; m_opt := true; m_ty := TPrim (L "string") |}] |}]; p_cmds := []; p_map := [] |}.
Definition p_dupkey : proj :=
  {| p_types := [DStruct {| s_name := L "S"; s_fields := [{| m_key := L "a"; m_opt := false; m_ty := TPrim (L "string") |};
                                                          {| m_key := L "a"; m_opt := false; m_ty := TPrim (L "number") |}] |}]; p_cmds := []; p_map := [] |}.
Lemma premises_needed :
  v_tags (compare_modules (plain_items p_empty_enum) (zod_items p_empty_enum)) = [TgShape] /\
  v_tags (compare_modules (plain_items p_flag) (zod_items p_flag)) = [TgShape] /\
  v_tags (compare_modules (plain_items p_dupkey) (zod_items p_dupkey)) = [TgShape].
Proof. vm_compute. repeat split; reflexivity. Qed.

(* ---------------- the whole verdict is empty: per-item detail and per-key findings ---------------- *)
Lemma filter_nil {A} (g : A -> bool) l : (forall x, In x l -> g x = false) -> filter g l = [].
Proof. induction l as [|a r IH]; intros H; [reflexivity|]. cbn [filter]. rewrite (H a (or_introl eq_refl)). apply IH. intros x Hx. apply H. right. exact Hx. Qed.

Lemma key_findings_ok (n : str) (param : bool) (ps : list member) (cs : list (str * tstruct))
    (Z T : member -> shape) (E : str * tstruct -> shape) :
  let kf := fun x : member => key_str (m_key x) in
  let kc := fun c : str * tstruct => key_str (fst c) in
  NoDup (map kf ps ++ map kc cs) ->
  (forall x, In x ps -> compare_shapes param (Z x) (T x) = []) ->
  key_findings n param (ShObj (map (fun x => (kf x, Z x)) ps))
    (ShObj (map (fun x => (kf x, T x)) ps ++ map (fun c => (kc c, E c)) cs)) = [].
Proof.
  intros kf kc Hn Hps. unfold key_findings. apply flat_map_nil. intros f Hf. apply in_app_or in Hf. destruct Hf as [Hf|Hf]; apply in_map_iff in Hf.
  - destruct Hf as [x [<- Hx]]. cbn [fst snd]. rewrite (field_of_map kf Z ps x (NoDup_app_remove_r _ _ Hn) Hx). rewrite Hps by exact Hx. reflexivity.
  - destruct Hf as [c [<- Hc]]. cbn [fst snd]. rewrite field_of_none; [reflexivity|].
    rewrite map_map. cbn [fst]. intros Hin. apply (nodup_app_disj _ _ (kc c) Hn Hin). apply in_map. exact Hc.
Qed.

Definition key_row (pm zm : list item) (n : str) (k : nat) (b : bool) : list (str * list tag) :=
  match plain_decl_k pm n k, zod_decl_k zm n k with
  | Some t, Some z => key_findings n b z t
  | _, _ => [] end.

Section KeyRows.
  Variable p : proj.
  Hypothesis Hok : proj_ok p.
  Let m := p_map p.
  Let Hm : map_ok m = true := proj1 Hok.
  Let Hnd : NoDup (type_decls (plain_items p)) := proj2 (proj2 (proj2 Hok)).

  Lemma keyrow_type d b : In d (p_types p) -> key_row (plain_items p) (zod_items p) (tdef_name d) 0 b = [].
  Proof.
    intros Hd. pose proof Hok as [_ [Ht _]]. rewrite Forall_forall in Ht. specialize (Ht d Hd).
    unfold key_row, plain_decl_k, zod_decl_k.
    rewrite (look_plain_type p Hnd d Hd), (look_zod_type_const p Hnd d Hd). fold m.
    destruct d as [s|e]; cbn [plain_type_item type_const].
    - destruct Ht as [Hf Hk]. rewrite (zobj_shape m zod_field) by reflexivity.
      pose proof (members_shape m (s_fields s) []) as Em. cbn [map] in Em. rewrite !app_nil_r in Em. rewrite Em.
      pose proof (key_findings_ok (tdef_name (DStruct s)) b (s_fields s) [] (fun x => zshape (snd (zod_field m x))) (Tm m) (Ec m)) as Hc.
      cbn zeta in Hc. cbn [map] in Hc. rewrite !app_nil_r in Hc. apply Hc; [exact Hk|].
      intros x Hx. rewrite Forall_forall in Hf. apply field_compare; [exact Hm|apply Hf; exact Hx].
    - cbn [tdef_ok] in Ht. destruct (enum_shapes e Ht) as [E1 E2]. rewrite E1, E2. reflexivity.
  Qed.

  Lemma keyrow_cmd c b : In c (p_cmds p) -> has_params_obj c = true ->
    key_row (plain_items p) (zod_items p) (params_name c) 0 b = [].
  Proof.
    intros Hc O. pose proof Hok as [_ [_ [Hcs _]]]. rewrite Forall_forall in Hcs. destruct (Hcs c Hc) as [Hps [Hch [Hk Hn]]].
    unfold key_row, plain_decl_k, zod_decl_k.
    rewrite (look_plain_cmd p Hnd c Hc O). fold m. cbn [the_iface]. rewrite members_shape.
    assert (forall x, In x (c_params c) -> compare_shapes b (zshape (snd (zod_param m x))) (Tm m x) = []) as Hpc
      by (intros x Hx; rewrite Forall_forall in Hps; apply param_compare; [exact Hm|apply Hps; exact Hx]).
    destruct (c_params c) as [|p0 ps] eqn:Ep.
    - rewrite (look_zod_cmd_noconst p Hnd c Hc O Ep). reflexivity.
    - assert (c_params c <> []) as Hne by (rewrite Ep; discriminate).
      rewrite (look_zod_cmd_const p Hnd c Hc Hne). fold m. cbn [the_const]. rewrite Ep.
      rewrite (zobj_shape m zod_param) by reflexivity.
      apply (key_findings_ok (params_name c) b (p0 :: ps) (c_chans c) (fun x => zshape (snd (zod_param m x))) (Tm m) (Ec m)); [exact Hk|exact Hpc].
  Qed.
End KeyRows.

Theorem modules_verdict_clean p : proj_ok p ->
  v_tags (compare_modules (plain_items p) (zod_items p)) = [] /\
  v_detail (compare_modules (plain_items p) (zod_items p)) = [] /\
  v_keys (compare_modules (plain_items p) (zod_items p)) = [].
Proof.
  intros Hok. split; [exact (modules_clean p Hok)|]. pose proof Hok as [_ [_ [_ Hnd]]].
  assert (forall n, In n (type_decls (plain_items p)) ->
            (exists d, In d (p_types p) /\ n = tdef_name d) \/ (exists c, In c (p_cmds p) /\ has_params_obj c = true /\ n = params_name c)) as Hcases.
  { intros n Hn. rewrite plain_type_names in Hn. apply in_app_or in Hn. destruct Hn as [Hn|Hn].
    - apply in_map_iff in Hn. destruct Hn as [d [<- Hd]]. left. exists d. split; [exact Hd|reflexivity].
    - unfold params_names in Hn. apply in_flat_map in Hn. destruct Hn as [c [Hc Hin]]. destruct (has_params_obj c) eqn:O; [|destruct Hin].
      destruct Hin as [<-|[]]. right. exists c. repeat split; assumption. }
  unfold compare_modules. cbn [v_detail v_keys]. cbv zeta. rewrite (occurrences_nodup _ Hnd) by (intros ? ? []). split.
  - apply filter_nil. intros row Hrow. apply in_map_iff in Hrow. destruct Hrow as [[n k] [<- Hnk]].
    apply in_map_iff in Hnk. destruct Hnk as [n' [E Hn]]. inversion E; subst n' k. clear E. cbn [fst snd].
    destruct (Hcases n Hn) as [[d [Hd ->]]|[c [Hc [O ->]]]].
    + pose proof (row_type p Hok d (mem (tdef_name d) (param_reachable (zod_items p))) Hd) as H. unfold item_row in H. rewrite H. reflexivity.
    + pose proof (row_cmd p Hok c (mem (params_name c) (param_reachable (zod_items p))) Hc O) as H. unfold item_row in H. rewrite H. reflexivity.
  - apply flat_map_nil. intros [n k] Hnk. apply in_map_iff in Hnk. destruct Hnk as [n' [E Hn]]. inversion E; subst n' k. clear E. cbn [fst snd].
    destruct (Hcases n Hn) as [[d [Hd ->]]|[c [Hc [O ->]]]].
    + exact (keyrow_type p Hok d _ Hd).
    + exact (keyrow_cmd p Hok c _ Hc O).
Qed.
