(* C18 deepening round 7: the relational clause of the oracle (c18_ok: the tokens printed with the table
   are the tokens printed without it in which every mapped name is replaced by its target, no lexing
   error, no mapped name referred to any more; byte equality when no key is mentioned) as a for-all
   theorem at the sites whose text is an unqualified TypeScript type: parameter and field in plain mode,
   channel in both modes. Token part: Proofs/C18TokProofs.v. *)
From Coq Require Import String Ascii.
From Coq Require Import List Arith Lia Bool.
Require Import TT.Model.Str TT.Proofs.StrFacts TT.Model.TypeParse TT.Spec.TsType TT.Model.Render TT.Model.C05Emit.
Require Import TT.Spec.TsLex.
Require Import TT.Spec.C05Spec TT.Spec.C05Known TT.Spec.C18Spec TT.Spec.C18Known.
Require Import TT.Model.C05Parse TT.Proofs.C05ParseProofs.
Require Import TT.Proofs.TypeParseProofs TT.Proofs.RenderProofs TT.Proofs.C05Proofs TT.Proofs.C05ZodProofs.
Require TT.Model.C10Zod TT.Proofs.C18TokProofs.
Import ListNotations.
Local Open Scope list_scope.
Local Open Scope string_scope.

Lemma plain_eq m : forall t, C10Zod.plain m t = render_m m t.
Proof.
  induction t as [p|u IH|k0 v IHk IHv|u IH|l IH|u IH|u IH|n] using ts_ind';
    cbn [C10Zod.plain render_m]; rewrite ?IH, ?IHk, ?IHv; reflexivity.
Qed.

(* every custom name of the structure is one of the names type_to_string prints *)
Lemma customs_sem_names : forall t x, In x (customs (sem t)) -> In x (names_of t).
Proof.
  induction t as [n args IH|t IH|l IH] using rty_ind'; intros x Hx.
  - change (names_of (RPath n args)) with (tts (RPath n args) :: flat_map names_of args).
    destruct args as [|a rest].
    + cbn [sem] in Hx. destruct (prim_of n); cbn [customs] in Hx; [destruct Hx|]. destruct Hx as [<-|[]]. left. reflexivity.
    + inversion IH as [|? ? Ha Hrest]; subst.
      assert (HA : In x (customs (sem a)) -> In x (tts (RPath n (a :: rest)) :: flat_map names_of (a :: rest))).
      { intros H. right. cbn [flat_map]. apply in_or_app. left. apply Ha; exact H. }
      assert (HC : In x (customs (TCustom (tts (RPath n (a :: rest))))) -> In x (tts (RPath n (a :: rest)) :: flat_map names_of (a :: rest))).
      { intros [<-|[]]. left; reflexivity. }
      rewrite sem_path_cons in Hx.
      destruct (is_name n "Option"); [destruct rest; [apply HA|apply HC]; exact Hx|].
      destruct (is_name n "Result"); [apply HA; exact Hx|].
      destruct (is_name n "Vec"); [destruct rest; [apply HA|apply HC]; exact Hx|].
      destruct (is_name n "HashMap" || is_name n "BTreeMap").
      { destruct rest as [|v [|? ?]]; [apply HC; exact Hx| |apply HC; exact Hx].
        cbn [customs] in Hx. apply in_app_or in Hx. destruct Hx as [Hx|Hx]; [apply HA; exact Hx|].
        right. cbn [flat_map]. apply in_or_app. right. apply in_or_app. left. inversion Hrest; subst. auto. }
      destruct (is_name n "HashSet" || is_name n "BTreeSet"); [destruct rest; [apply HA|apply HC]; exact Hx|].
      apply HC; exact Hx.
  - cbn [sem names_of] in *. apply IH; exact Hx.
  - destruct l as [|a l']; [cbn [sem customs] in Hx; destruct Hx|].
    change (sem (RTuple (a :: l'))) with (TTuple (map sem (a :: l'))) in Hx. cbn [customs] in Hx. cbn [names_of].
    apply in_flat_map in Hx. destruct Hx as [ts [Hts Hx]]. apply in_map_iff in Hts. destruct Hts as [u [<- Hu]].
    apply in_flat_map. exists u. split; [exact Hu|]. rewrite Forall_forall in IH. apply IH; assumption.
Qed.
Lemma not_mentioned_unmapped m t : mentions m t = false -> unmapped m (sem t).
Proof.
  intros H n Hn. apply customs_sem_names in Hn. unfold mentions in H.
  destruct (lookup m n) eqn:E; [|reflexivity]. exfalso.
  assert (existsb (fun n => match lookup m n with Some _ => true | None => false end) (names_of t) = true).
  { apply existsb_exists. exists n. rewrite E. auto. }
  congruence.
Qed.

Lemma tk_eqb_refl a : tk_eqb a a = true.
Proof. destruct a; cbn [tk_eqb]; rewrite ?str_eqb_refl, ?Ascii.eqb_refl; reflexivity. Qed.
Lemma tks_eqb_refl l : tks_eqb l l = true.
Proof. induction l as [|a r IH]; [reflexivity|]. cbn [tks_eqb]. rewrite tk_eqb_refl, IH. reflexivity. Qed.

(* the sites whose text is the plain rendering itself (no types. qualification, no Zod schema) *)
Definition unq_site (s : site) (md : mode) : bool :=
  match s, md with SParam, MNone | SField, MNone | SChannel, _ => true | _, _ => false end.

Theorem relational_unq m t s md :
  C18TokProofs.keys_ok m = true -> C10Zod.map_ok m = true -> dom_m m t = true ->
  C10Zod.dom (sem t) = true -> C18TokProofs.noschema m (sem t) = true -> unq_site s md = true ->
  exists w wo, emit_type s md m t = Some w /\ emit_type s md [] t = Some wo /\
    (mentions m t = true -> lex_module w = subst_tokens true m (lex_module wo)) /\
    c18_ok true m t w wo = true.
Proof.
  intros Hk Hmo Hd Hd10 Hns Hs. destruct (map_ok_targets m Hmo) as [Hm Ht].
  destruct (dom_m_facts m Hm t Hd) as (Hw & _ & _). pose proof (dom_m_nobr m t Hd) as Hb.
  assert (Hsite : forall m', emit_type s md m' t = Some (render_m m' (sem t))).
  { intros m'. unfold emit_type, emit_str. rewrite (parse_faithful t Hw Hb). cbn [option_map].
    destruct s, md; try discriminate Hs; reflexivity. }
  exists (render_m m (sem t)), (render_m [] (sem t)). split; [apply Hsite|]. split; [apply Hsite|].
  destruct (C18TokProofs.rel_tokens m (sem t) Hk Hmo Hd10) as [Htok Herr]. rewrite (plain_eq m (sem t)) in Htok, Herr. rewrite (plain_eq [] (sem t)) in Htok.
  split; [intros _; exact Htok|].
  unfold c18_ok. destruct (mentions m t) eqn:Hmen.
  - rewrite Herr, <- Htok, tks_eqb_refl. cbn [negb andb]. apply negb_true_iff.
    apply not_true_is_false. intros H. apply existsb_exists in H. destruct H as [kv [Hin HF]].
    destruct (lookup m (fst kv)) as [tg|] eqn:El; [|discriminate]. apply andb_true_iff in HF as [_ HF].
    rewrite <- plain_eq in HF. rewrite (C18TokProofs.lex_plain m (sem t) Hmo Hd10) in HF.
    rewrite (C18TokProofs.no_refs m (sem t) (fst kv) tg Hk Hmo Hd10) in HF; [discriminate| |rewrite lookup_eq; exact El].
    intros c Hc. unfold C18TokProofs.noschema in Hns. rewrite forallb_forall in Hns. specialize (Hns kv Hin).
    apply negb_true_iff in Hns. intros ->.
    assert (existsb (fun c => str_eqb c (fst kv ++ L "Schema")%list) (customs (sem t)) = true).
    { apply existsb_exists. exists (fst kv ++ L "Schema")%list. split; [exact Hc|apply str_eqb_refl]. }
    exact (Bool.eq_true_false_abs _ H Hns).
  - destruct (frame_all m (sem t) (not_mentioned_unmapped m t Hmen)) as [-> _]. apply str_eqb_refl.
Qed.

(* the substitution lemma of the renderer, on tokens: the text of the substituted structure lexes to the
   table applied to the tokens of the text of the structure itself *)
Theorem render_subst_tokens m ts : C18TokProofs.keys_ok m = true -> C10Zod.map_ok m = true -> C10Zod.dom ts = true ->
  lex_module (render (msubst m ts)) = subst_tokens true m (lex_module (render_m [] ts)) /\ has_err (lex_module (render (msubst m ts))) = false.
Proof.
  intros Hk Hmo Hd. rewrite <- render_m_msubst. rewrite <- (plain_eq m ts), <- (plain_eq [] ts).
  apply C18TokProofs.rel_tokens; assumption.
Qed.
