(* C12UniProofs: the Unicode part of the run-time oracle is vacuous on ASCII identifiers. *)
From Coq Require Import String Ascii.
From Coq Require Import List Arith Bool NArith Lia.
Require Import TT.Model.Str TT.Spec.C01Wf TT.Spec.C12Spec TT.Spec.C12Uni.
Import ListNotations.

Lemma uni_walk_ascii : forall ps pc s first, all_ascii s = true -> uni_walk ps pc first s = true.
Proof.
  intros ps pc s. induction s as [|a r IH]; intros first Hs.
  - reflexivity.
  - unfold all_ascii in Hs. cbn [forallb] in Hs. apply andb_true_iff in Hs. destruct Hs as [Ha Hr].
    cbn [uni_walk]. rewrite Ha. apply IH. exact Hr.
Qed.

Lemma uni_ok12_ascii : forall s, all_ascii s = true -> uni_ok12 s = true.
Proof. intros s Hs. unfold uni_ok12. apply uni_walk_ascii. exact Hs. Qed.

(* the circled letter of the round-7 seed is rejected; a CJK name and an accented name are accepted *)
Example uni_ok_circled_rejected :
  uni_ok12 (L "onGrade" ++ [ascii_of_nat 226; ascii_of_nat 146; ascii_of_nat 182] ++ L "Awarded") = false.
Proof. vm_compute. reflexivity. Qed.
Example uni_ok_cjk_accepted :
  uni_ok12 (L "on" ++ [ascii_of_nat 230; ascii_of_nat 155; ascii_of_nat 180; ascii_of_nat 230; ascii_of_nat 150; ascii_of_nat 176]) = true.
Proof. vm_compute. reflexivity. Qed.
(* Thai KO KAI (U+0E01), outside the table of C01Wf, inside the extended one *)
Example uni_ok_thai_accepted : uni_ok12 (L "on" ++ [ascii_of_nat 224; ascii_of_nat 184; ascii_of_nat 129]) = true.
Proof. vm_compute. reflexivity. Qed.
