(* Proofs about the concrete fingerprint / views and the instantiated run machine. *)
From Coq Require Import String Ascii List Arith Lia Bool.
Require Import TT.Model.Str TT.Model.C08Fingerprint TT.Model.C08Run TT.Proofs.C08RunProofs.
Import ListNotations.

Lemma str_eqb_spec (a b : str) : str_eqb a b = true <-> a = b.
Proof. unfold str_eqb. destruct (list_eq_dec ascii_dec a b); split; congruence. Qed.

(* nested induction principle for trees *)
Section TreeInd.
  Variable P : tree -> Prop.
  Hypothesis HA : forall s, P (TA s).
  Hypothesis HB : forall b, P (TB b).
  Hypothesis HN : forall l, Forall P l -> P (TN l).
  Fixpoint tree_ind' (t : tree) : P t :=
    match t with
    | TA s => HA s
    | TB b => HB b
    | TN l => HN l ((fix go (l : list tree) : Forall P l :=
                       match l with [] => Forall_nil P | x :: r => Forall_cons x (tree_ind' x) (go r) end) l)
    end.
End TreeInd.

Lemma tree_eqb_spec : forall a b, tree_eqb a b = true <-> a = b.
Proof. induction a as [s|x|l IH] using tree_ind'; intros [t|y|m]; cbn [tree_eqb];
    try (split; [discriminate|congruence]).
  - rewrite str_eqb_spec. split; congruence.
  - rewrite Bool.eqb_true_iff. split; congruence.
  - revert m. induction IH as [|x l Hx Hl IHl]; intros [|y m]; try (split; [discriminate|congruence]).
    + split; reflexivity.
    + rewrite andb_true_iff, Hx, IHl. split.
      * intros [-> E]. inversion E. reflexivity.
      * intros E. inversion E. split; reflexivity. Qed.

Lemma tree_eqb_refl a : tree_eqb a a = true.
Proof. apply tree_eqb_spec. reflexivity. Qed.

Lemma fname_eqb_spec : forall a b, fname_eqb a b = true <-> a = b.
Proof. intros [] []; unfold fname_eqb; cbn; split; congruence. Qed.

Lemma files_nodup w p c : NoDup (map fst (files w p c)).
Proof. unfold files. destruct (has_events (analyse w p)), (g_viz c); cbn [map fst app];
    repeat (constructor; [cbn [In]; intuition discriminate|]); constructor. Qed.

Lemma map_eq_transfer {A B C} (f : A -> B) (g : A -> C) :
  (forall x y, f x = f y -> g x = g y) -> forall l l', map f l = map f l' -> map g l = map g l'.
Proof. intros H. induction l as [|x l IH]; intros [|y l'] E; cbn [map] in *; try discriminate; [reflexivity|].
  inversion E. f_equal; auto. Qed.

Lemma topt_inj a b : topt a = topt b -> a = b.
Proof. destruct a, b; cbn; congruence. Qed.

Lemma TN_inj l l' : TN l = TN l' -> l = l'.
Proof. congruence. Qed.
Lemma TA_inj s s' : TA s = TA s' -> s = s'.
Proof. congruence. Qed.
Lemma TB_inj s s' : TB s = TB s' -> s = s'.
Proof. congruence. Qed.
Lemma list3_inj {A} (a b c a' b' c' : A) : [a; b; c] = [a'; b'; c'] -> a = a' /\ b = b' /\ c = c'.
Proof. intros H. inversion H. auto. Qed.
Lemma list1_inj {A} (a a' : A) : [a] = [a'] -> a = a'.
Proof. intros H. inversion H. auto. Qed.
Lemma list4_inj {A} (a b c d a' b' c' d' : A) : [a; b; c; d] = [a'; b'; c'; d'] -> a = a' /\ b = b' /\ c = c' /\ d = d'.
Proof. intros H. inversion H. auto. Qed.
Lemma list7_inj {A} (a b c d e f g a' b' c' d' e' f' g' : A) :
  [a; b; c; d; e; f; g] = [a'; b'; c'; d'; e'; f'; g'] ->
  a = a' /\ b = b' /\ c = c' /\ d = d' /\ e = e' /\ f = f' /\ g = g'.
Proof. intros H. inversion H. repeat split; assumption. Qed.

(* completeness of the class list: whatever reaches the files is either hashed or the one unhashed
   component (command line numbers under visualize_deps) *)
Theorem fp_sound_modulo_unhashed : forall w p c w' p' c',
  fp w p c = fp w' p' c' -> unhashed w p c = unhashed w' p' c' -> files w p c = files w' p' c'.
Proof. intros w p c w' p' c' Hfp Hun. unfold fp in Hfp. unfold unhashed in Hun.
  set (a := analyse w p) in *. set (a' := analyse w' p') in *.
  apply TN_inj, list4_inj in Hfp. destruct Hfp as (Hc & Hs & Hg & U6).
  apply list1_inj in Hun. rename Hun into U8.
  pose proof Hg as Hg'. unfold fp_cfg in Hg'. apply TN_inj, list7_inj in Hg'.
  destruct Hg' as (Hlib & Hpriv & Hmaps & Hpc & Hfc & Hviz & Hpp). apply TA_inj in Hlib. apply TB_inj in Hviz.
  assert (Hev : has_events a = has_events a').
  { unfold u_events in U6. apply TN_inj in U6. unfold has_events.
    destruct (a_events a), (a_events a'); cbn [map] in U6; try discriminate; reflexivity. }
  unfold files. fold a a'.
  rewrite Hc, Hs, Hg, Hlib, U6, U8, Hev, Hviz. reflexivity. Qed.

Notation InvW_c := (InvW project config sched fname tree tree files fp).
Notation up_to_date_c := (up_to_date project config sched fname tree tree files).
Notation sound_hit_c := (sound_hit project config sched fname tree tree tree_eqb files fp has_commands g_force true).

Lemma kf_nil_sound_hit w sg : kf_C08 w sg = [] -> sound_hit_c w sg.
Proof. destruct sg as [st g]. intros Hk g0 Hg Hca Hc Hf Hh. cbn [fst snd] in *. subst g.
  unfold kf_C08 in Hk. rewrite Hc in Hk. unfold effective_force in Hf. cbn [orb] in Hf. rewrite Hf in Hk.
  unfold cache_hit_c in Hk. rewrite Hh in Hk. cbn [negb andb] in Hk.
  destruct g0 as [[w0 p0] c0]. unfold kf_C08_unhashed in Hk. cbn [gfiles_of gfp_of] in *.
  unfold cache_hit in Hh. rewrite Hca in Hh.
  destruct (tree_eqb (fp w0 p0 c0) (fp w (s_src st) (s_cfg st))) eqn:E; [|discriminate].
  apply tree_eqb_spec in E.
  assert (Hfiles : files w0 p0 c0 = files w (s_src st) (s_cfg st)).
  { apply fp_sound_modulo_unhashed; [exact E|]. unfold unhashed. f_equal.
    destruct (tree_eqb (u_lines _ _) (u_lines _ _)) eqn:E8 in Hk; [|discriminate]. apply tree_eqb_spec. exact E8. }
  split; [exact Hfiles|]. rewrite Hfiles. exact Hh. Qed.
