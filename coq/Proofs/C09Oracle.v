(* C07 / C09: reflection of the two run-time oracles (boolean Gallina functions applied to what was read
   from the implementation's files) into the propositions of the property texts. *)
From Coq Require Import String Ascii.
From Coq Require Import List Arith Lia Bool Permutation.
Require Import TT.Model.Base TT.Model.Str TT.Model.C07TypeParse TT.Model.C07Harvest TT.Model.C07Worklist TT.Model.C07Reach.
Require Import TT.Spec.TsObs TT.Spec.C07Spec TT.Spec.C09Spec.
Require Import TT.Proofs.StrFacts TT.Proofs.WorklistSpike TT.Proofs.C07Concrete TT.Proofs.C07Full.
Import ListNotations.

(* ---------------- C07 ---------------- *)
Lemma nodup_has_dup (l : list str) : NoDup l -> has_dup l = false.
Proof. induction 1 as [|x l Hx Hl IH]; simpl; auto. rewrite IH, orb_false_r.
  destruct (existsb (str_eqb x) l) eqn:E; auto. apply existsb_exists in E as (y & Hy & He).
  apply str_eqb_eq in He. subst y. contradiction. Qed.
Lemma nodup_b_iff l : nodup_b l = true <-> NoDup l.
Proof. unfold nodup_b. split; intros H.
  - apply has_dup_nodup. apply negb_true_iff; auto.
  - apply negb_true_iff. apply nodup_has_dup; auto. Qed.
Lemma subset_b_iff a b : subset_b a b = true <-> incl a b.
Proof. unfold subset_b. rewrite forallb_forall. split; intros H x Hx; [apply smemb_true; auto|apply smemb_true; apply H; auto]. Qed.
Lemma same_set_b_iff a b : same_set_b a b = true <-> forall x, In x a <-> In x b.
Proof. unfold same_set_b. rewrite andb_true_iff, !subset_b_iff. split.
  - intros [H1 H2] x. split; auto.
  - intros H. split; intros x Hx; apply H; auto. Qed.

(* what the oracle accepts: the declarations read from types.ts, once each, are exactly the expected names;
   the aliases (Zod mode) are duplicate free and belong to declared types *)
Definition DeclaredExactly (expected : list str) (o : obs) : Prop :=
  NoDup (ob_types o) /\ (forall x, In x (ob_types o) <-> In x expected) /\
  NoDup (ob_aliases o) /\ incl (ob_aliases o) (ob_types o).
Theorem c07_oracle_exact expected o : c07_ok expected o = true <-> DeclaredExactly expected o.
Proof. unfold c07_ok, DeclaredExactly. rewrite !andb_true_iff, !nodup_b_iff, same_set_b_iff, subset_b_iff. tauto. Qed.

(* with the specification's list as expectation: the file declares, exactly once each, precisely the
   reachable serde types of the property text *)
Theorem c07_oracle_spec p o : in_domain p = true -> c07_ok (reachable_spec p) o = true ->
  NoDup (ob_types o) /\ (forall x, In x (ob_types o) <-> SpecReach p x) /\ Permutation (ob_types o) (reachable_spec p).
Proof.
  intros Hdom Hok. apply c07_oracle_exact in Hok as (Hnd & Hin & _ & _).
  destruct (spec_total p (command_roots p ++ event_roots p) Hdom) as (l & El).
  assert (reachable_spec p = l). { unfold reachable_spec, reach_from. unfold reach_from_opt in El. rewrite El. reflexivity. }
  destruct (reachable_spec_exact p l El) as [Hnl Hil]. rewrite H in *.
  split; auto. split; [intros x; rewrite Hin; apply Hil|]. apply NoDup_Permutation; auto.
Qed.

(* ---------------- C09 ---------------- *)
(* evaluating the constants from top to bottom never reads a constant of the module before its definition *)
Definition DeclBeforeUse (cs : list (str * list str)) : Prop :=
  forall k n refs, nth_error cs k = Some (n, refs) -> forall x, In x refs -> In x (map fst cs) ->
    exists j r, j < k /\ nth_error cs j = Some (x, r).
(* no parameter schema is followed by a struct or enum schema *)
Definition ParamsLast (cs : list (str * list str)) : Prop :=
  forall i j a b, i < j -> nth_error cs i = Some a -> nth_error cs j = Some b ->
    is_params (fst a) = true -> is_params (fst b) = true.

Lemma dbu_go_iff all : forall cs seen,
  dbu_go all seen cs = true <->
  (forall k n refs, nth_error cs k = Some (n, refs) -> forall x, In x refs -> In x all ->
     In x seen \/ exists j r, j < k /\ nth_error cs j = Some (x, r)).
Proof.
  induction cs as [|[n refs] cs IH]; intros seen; simpl.
  - split; auto. intros _ k n refs H. destruct k; discriminate.
  - rewrite andb_true_iff, IH, forallb_forall. split.
    + intros [H0 Hr] k n' refs' Hk x Hx Hall. destruct k as [|k]; simpl in Hk.
      * inversion Hk; subst. left. specialize (H0 x Hx). apply orb_true_iff in H0 as [H0|H0].
        -- apply negb_true_iff in H0. apply smemb_true in Hall. congruence.
        -- apply smemb_true; auto.
      * destruct (Hr k n' refs' Hk x Hx Hall) as [[<-|Hs]|(j & r & Hj & Hn)].
        -- right. exists 0, refs. split; [lia|reflexivity].
        -- left; auto.
        -- right. exists (S j), r. split; [lia|exact Hn].
    + intros H. split.
      * intros x Hx. destruct (smemb x all) eqn:Ea; [|reflexivity]. simpl.
        apply smemb_true in Ea. destruct (H 0 n refs eq_refl x Hx Ea) as [Hs|(j & r & Hj & _)]; [apply smemb_true; auto|lia].
      * intros k n' refs' Hk x Hx Hall. destruct (H (S k) n' refs' Hk x Hx Hall) as [Hs|(j & r & Hj & Hn)]; [left; right; auto|].
        destruct j as [|j]; simpl in Hn.
        -- inversion Hn; subst. left. left. reflexivity.
        -- right. exists j, r. split; [lia|exact Hn].
Qed.

Lemma params_last_iff : forall cs seen,
  params_last seen cs = true <->
  ((seen = true -> forall a, In a cs -> is_params (fst a) = true) /\ ParamsLast cs).
Proof.
  induction cs as [|[n refs] cs IH]; intros seen; simpl.
  - split; auto. intros _. split; [intros _ a []|]. intros i j a b _ Hi. destruct i; discriminate.
  - destruct (is_params n) eqn:En.
    + rewrite IH. split.
      * intros [Hall Hpl]. split.
        -- intros _ a [<-|Ha]; auto.
        -- intros i j a b Hij Hi Hj Ha. destruct j as [|j]; [lia|]. simpl in Hj.
           destruct i as [|i]; simpl in Hi.
           ++ apply Hall; auto. eapply nth_error_In; eauto.
           ++ eapply (Hpl i j); eauto. lia.
      * intros [Hall Hpl]. split.
        -- intros _ a Ha. apply In_nth_error in Ha as (j & Hj).
           apply (Hpl 0 (S j) (n, refs) a); auto. lia.
        -- intros i j a b Hij Hi Hj Ha. apply (Hpl (S i) (S j) a b); auto. lia.
    + destruct seen; cbn [negb andb].
      * split; [discriminate|]. intros [Hall _]. specialize (Hall eq_refl (n, refs) (or_introl eq_refl)). simpl in Hall. congruence.
      * rewrite IH. split.
        -- intros [Hall Hpl]. split; [discriminate|].
           intros i j a b Hij Hi Hj Ha. destruct j as [|j]; [lia|]. simpl in Hj.
           destruct i as [|i]; simpl in Hi.
           ++ inversion Hi; subst. simpl in Ha. congruence.
           ++ eapply (Hpl i j); eauto. lia.
        -- intros [_ Hpl]. split; [discriminate|]. intros i j a b Hij Hi Hj Ha. apply (Hpl (S i) (S j) a b); auto. lia.
Qed.

Theorem c09_oracle_exact cs : decl_before_use cs = true <-> DeclBeforeUse cs /\ ParamsLast cs.
Proof.
  unfold decl_before_use. rewrite andb_true_iff, dbu_go_iff, params_last_iff. unfold DeclBeforeUse. split.
  - intros [H1 [_ H2]]. split; auto. intros k n refs Hk x Hx Hall. destruct (H1 k n refs Hk x Hx Hall) as [[]|H]; auto.
  - intros [H1 H2]. split; [|split; [discriminate|auto]]. intros k n refs Hk x Hx Hall. right. eapply H1; eauto.
Qed.
