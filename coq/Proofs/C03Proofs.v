(* C03 - proofs: the component test of the model against the component-wise specification
   (extension test included), the bijection under every file order, isolation of unparsable
   and unreadable files, the two repaired witnesses, and soundness/completeness of the
   multiset comparison of the oracle. *)
From Coq Require Import String Ascii.
From Coq Require Import List Arith Lia Bool Permutation.
Require Import TT.Model.Str TT.Model.Pipeline TT.Model.C03RetType TT.Model.C03Discover TT.Spec.C03Spec.
Require Import TT.Proofs.StrFacts.
Import ListNotations.
Local Open Scope list_scope.

(* ------------------------------------------------------------------ the extension test *)
Lemma ext_rev_len acc r e : ext_rev acc r = Some e -> List.length acc <= List.length e.
Proof. revert acc. induction r as [|c r IH]; intros acc; simpl; [discriminate|].
  destruct (Ascii.eqb c "."%char).
  - destruct r; [discriminate|]. intros [= <-]. lia.
  - intros H. apply IH in H. simpl in H. lia. Qed.

Lemma is_rs_rs_name name : is_rs name = rs_name name.
Proof. unfold is_rs, rs_name, extension. rewrite <- (rev_length name).
  generalize (rev name) as r. clear name. intros r.
  change (rev (L ".rs")) with ["s"%char; "r"%char; "."%char].
  change (L "rs") with ["r"%char; "s"%char].
  destruct r as [|a r]; [reflexivity|]. cbn [ext_rev starts].
  destruct (Ascii.eqb_spec a "."%char) as [->|Ha].
  { destruct r; reflexivity. }
  destruct r as [|b r].
  { cbn [ext_rev starts List.length]. rewrite andb_false_r. reflexivity. }
  cbn [ext_rev starts].
  destruct (Ascii.eqb_spec b "."%char) as [->|Hb].
  { replace (Ascii.eqb "r" ".")%char with false by reflexivity. cbn [andb]. rewrite andb_false_r. cbn [andb].
    destruct r as [|c r]; [reflexivity|].
    rewrite str_eqb_cons. replace (str_eqb [] ["s"%char]) with false by reflexivity. apply andb_false_r. }
  destruct r as [|c r].
  { cbn [ext_rev starts List.length]. rewrite !andb_false_r. reflexivity. }
  cbn [ext_rev starts].
  destruct (Ascii.eqb_spec c "."%char) as [->|Hc].
  { destruct r as [|d r].
    - cbn [List.length]. replace (4 <=? 3) with false by reflexivity. rewrite andb_false_r. reflexivity.
    - rewrite !str_eqb_cons. replace (str_eqb [] []) with true by reflexivity.
      cbn [List.length]. replace (4 <=? S (S (S (S (List.length r))))) with true by reflexivity.
      replace (Ascii.eqb "." ".")%char with true by reflexivity.
      rewrite (Ascii.eqb_sym "s"%char a), (Ascii.eqb_sym "r"%char b).
      destruct (Ascii.eqb a "s"), (Ascii.eqb b "r"); reflexivity. }
  replace (Ascii.eqb "."%char c) with false.
  2:{ symmetry. apply Ascii.eqb_neq. congruence. }
  rewrite !andb_false_r. cbn [andb].
  destruct (ext_rev [c; b; a] r) as [e|] eqn:E; [|reflexivity].
  apply ext_rev_len in E. apply str_eqb_neq. intros ->. cbn [List.length] in E. lia. Qed.

(* ------------------------------------------------------------------ accepted = spec_accept *)
Lemma excluded_same l : existsb excluded_component l = existsb excluded_dir l.
Proof. reflexivity. Qed.

(* no premise: neither the spelling of the root nor the shape of the names matters *)
Lemma accepted_spec_accept root comps : accepted root comps = spec_accept comps.
Proof. unfold accepted, spec_accept, below_root. rewrite is_rs_rs_name, excluded_same. reflexivity. Qed.

(* ------------------------------------------------------------------ induction on trees *)
Section NodeInd.
  Variable P : node -> Prop.
  Hypothesis Hfile : forall name c, P (NFile name c).
  Hypothesis Hdir : forall name ch, Forall P ch -> P (NDir name ch).
  Hypothesis Hlink : forall name t, P (NLink name t).
  Fixpoint node_ind' (n : node) : P n :=
    match n with
    | NFile name c => Hfile name c
    | NDir name ch => Hdir name ch ((fix go (l : list node) : Forall P l :=
                                       match l with [] => Forall_nil P | x :: r => Forall_cons x (node_ind' x) (go r) end) ch)
    | NLink name t => Hlink name t
    end.
End NodeInd.

Lemma spec_files_app a b : spec_files (a ++ b) = spec_files a ++ spec_files b.
Proof. unfold spec_files. apply flat_map_app. Qed.

(* the prologue test of syn::parse_file is the one of the specification, for texts that start
   with at most one byte order mark *)
Lemma trivia_same l : forallb pro_trivia l = forallb pro_is_trivia l.
Proof. induction l as [|x r IH]; [reflexivity|]. cbn [forallb]. rewrite IH. destruct x; reflexivity. Qed.

Lemma accepts_same p items : content_ok (Source p items) = true -> parse_file_accepts p = rust_prologue_ok p.
Proof. unfold parse_file_accepts, rust_prologue_ok, content_ok.
  destruct p as [|x r]; [reflexivity|]. destruct x; cbn [strip_bom]; try (intros _; apply trivia_same).
  destruct r as [|y r2]; [reflexivity|]. destruct y; cbn [strip_bom]; try discriminate; intros _; apply trivia_same. Qed.

Lemma entry_resolve dirs name c : content_ok c = true ->
  spec_entry dirs name c = spec_files [(dirs ++ [name], resolve c)].
Proof. intros Hc. unfold spec_entry, spec_files. cbn [flat_map fst snd]. rewrite app_nil_r.
  unfold spec_accept. rewrite last_last, removelast_last.
  destruct c as [items| | |p items]; cbn [spec_content resolve]; try reflexivity.
  rewrite (accepts_same p items Hc). destruct (rust_prologue_ok p); reflexivity. Qed.

Lemma spec_walk_node n : forall dirs, node_ok n = true -> spec_node dirs n = spec_files (walk_node dirs n).
Proof. induction n as [name c|name ch IH|name t] using node_ind'; intros dirs Hok.
  - cbn [walk_node spec_node]. cbn [node_ok] in Hok. apply andb_true_iff in Hok as [_ Hc].
    apply entry_resolve. exact Hc.
  - cbn [node_ok] in Hok. apply andb_true_iff in Hok as [Hok _]. apply andb_true_iff in Hok as [_ Hch].
    rewrite forallb_forall in Hch.
    cbn [walk_node spec_node]. induction IH as [|x r Hx Hr IHr]; [reflexivity|].
    cbn [flat_map]. rewrite spec_files_app, Hx, IHr.
    + reflexivity.
    + intros y Hy. apply Hch. right. exact Hy.
    + apply Hch. left. reflexivity.
  - cbn [walk_node spec_node]. destruct t as [c| |]; try reflexivity.
    cbn [node_ok] in Hok. apply andb_true_iff in Hok as [_ Hc]. apply entry_resolve. exact Hc. Qed.

Lemma spec_walk l : layout_ok l = true -> annotated_spec l = spec_files (walk l).
Proof. unfold layout_ok, annotated_spec, spec_nodes, walk, walk_nodes. intros H. apply andb_true_iff in H as [H _].
  rewrite forallb_forall in H. induction l as [|x r IH]; [reflexivity|].
  cbn [flat_map]. rewrite spec_files_app, spec_walk_node, IH.
  - reflexivity.
  - intros y Hy. apply H. right. exact Hy.
  - apply H. left. reflexivity. Qed.

(* ------------------------------------------------------------------ attribute test *)
Lemma command_attr_same f : is_tauri_command f = annotated f.
Proof. unfold is_tauri_command, annotated. induction (fn_attrs f) as [|p r IH]; [reflexivity|].
  cbn [existsb]. rewrite IH. f_equal. Qed.

Lemma file_cmds_same items : file_cmds items = top_level_annotated items.
Proof. unfold file_cmds, top_level_annotated. induction items as [|it r IH]; [reflexivity|].
  cbn [flat_map]. rewrite IH. destruct it; reflexivity. Qed.

(* ------------------------------------------------------------------ load *)
Definition cmd_pair (c : cmd) : list str * fn_def := (c_file c, c_fn c).

Lemma load_spec root files : map cmd_pair (analyze_files (load root files)) = spec_files files.
Proof. induction files as [|[p c] r IH]; [reflexivity|].
  cbn [load]. unfold spec_files. cbn [flat_map fst snd]. fold (spec_files r).
  rewrite <- (accepted_spec_accept root p).
  destruct (accepted root p) eqn:Ea.
  - destruct c as [items| | |pp items]; [|exact IH|exact IH|exact IH].
    unfold analyze_files. cbn [flat_map fst snd]. fold (analyze_files (load root r)).
    rewrite map_app, IH. f_equal.
    rewrite map_map. unfold cmd_pair. cbn [c_file c_fn]. rewrite file_cmds_same. reflexivity.
  - rewrite IH. destruct c; reflexivity. Qed.

(* ------------------------------------------------------------------ bijection *)
Definition file_obs (pi : list str * list ritem) : list (str * str) :=
  map (fun f => (unraw (fn_name f), promise_of f)) (file_cmds (snd pi)).

Lemma emit_flat cached : map wobs (emit (analyze_files cached)) = flat_map file_obs cached.
Proof. unfold emit, analyze_files. induction cached as [|pi r IH]; [reflexivity|].
  cbn [flat_map]. rewrite !map_app, IH. f_equal. unfold file_obs. rewrite !map_map. reflexivity. Qed.

(* IdentExt::unraw of the model is the Rust name of the specification *)
Lemma unraw_rust_name s : unraw s = rust_name s.
Proof. unfold unraw, rust_name. change (L "r#") with ["r"%char; "#"%char].
  destruct s as [|a [|b r]]; cbn [starts skipn]; [reflexivity| |].
  - rewrite andb_false_r. reflexivity.
  - rewrite andb_true_r, (Ascii.eqb_sym "r"%char a), (Ascii.eqb_sym "#"%char b). reflexivity. Qed.

Lemma emit_pairs cs : map wobs (emit cs) = map spec_obs (map cmd_pair cs).
Proof. unfold emit. rewrite !map_map. apply map_ext. intros c. unfold wobs, spec_obs, cmd_pair. cbn [w_invoke w_ret fst snd].
  rewrite unraw_rust_name. reflexivity. Qed.

Theorem bijection root l :
  layout_ok l = true ->
  forall files', Permutation files' (cache root l) ->
    Permutation (map wobs (emit (analyze_files files'))) (map spec_obs (annotated_spec l)).
Proof. intros Hok files' Hperm. unfold cache in Hperm.
  rewrite (spec_walk l Hok), <- (load_spec root (walk l)), <- emit_pairs, !emit_flat.
  apply Permutation_flat_map. exact Hperm. Qed.

(* the walk-order run, as the extracted entry point computes it *)
Corollary bijection_walk_order root l :
  layout_ok l = true ->
  map wobs (emit (analyze root l)) = map spec_obs (annotated_spec l).
Proof. intros Hok. unfold analyze, cache. rewrite (spec_walk l Hok), <- (load_spec root (walk l)). apply emit_pairs. Qed.

(* no function without the attribute, no nested function, no function of a skipped file
   has a wrapper: membership reading of the specification *)
Lemma in_spec_files files p f :
  In (p, f) (spec_files files) <->
  exists items, In (p, Parsed items) files /\ spec_accept p = true /\ In (RFn f) items /\ annotated f = true.
Proof. unfold spec_files. rewrite in_flat_map. split.
  - intros ([p' c] & Hin & H). cbn [fst snd] in H. destruct c as [items| | |pp items']; try destruct H.
    destruct (spec_accept p') eqn:Ea; [|destruct H]. apply in_map_iff in H as (f' & [= <- <-] & Hf).
    exists items. split; [exact Hin|]. split; [exact Ea|].
    unfold top_level_annotated in Hf. apply in_flat_map in Hf as (it & Hit & Hf).
    destruct it as [g| | |]; try destruct Hf. destruct (annotated g) eqn:Eg; [|destruct Hf].
    destruct Hf as [->|[]]. split; assumption.
  - intros (items & Hin & Ea & Hf & Hann). exists (p, Parsed items). split; [exact Hin|].
    cbn [fst snd]. rewrite Ea. apply in_map. unfold top_level_annotated. apply in_flat_map.
    exists (RFn f). split; [exact Hf|]. rewrite Hann. left. reflexivity. Qed.

Lemma in_annotated_spec l p f :
  layout_ok l = true ->
  In (p, f) (annotated_spec l) <->
  exists items, In (p, Parsed items) (walk l) /\ spec_accept p = true /\ In (RFn f) items /\ annotated f = true.
Proof. intros Hok. rewrite (spec_walk l Hok). apply in_spec_files. Qed.

(* ------------------------------------------------------------------ unparsable and unreadable files *)
Lemma load_app root a b : load root (a ++ b) = load root a ++ load root b.
Proof. induction a as [|[p c] r IH]; cbn [app load]; [reflexivity|].
  destruct (accepted root p); [|exact IH]. destruct c; [|exact IH|exact IH|exact IH].
  rewrite IH. reflexivity. Qed.

Lemma analyze_files_app a b : analyze_files (a ++ b) = analyze_files a ++ analyze_files b.
Proof. unfold analyze_files. apply flat_map_app. Qed.

Definition analyze_list (root : str) (files : list (list str * content)) : list cmd :=
  analyze_files (load root files).
Definition own_cmds (root : str) (p : list str) (items : list ritem) : list cmd :=
  if accepted root p then map (fun f => {| c_file := p; c_fn := f |}) (file_cmds items) else [].
Definition skipped (c : content) : bool := match c with Parsed _ => false | _ => true end.

Theorem skipped_isolated root pre post p items c :
  skipped c = true ->
  analyze_list root (pre ++ (p, Parsed items) :: post)
    = analyze_list root pre ++ own_cmds root p items ++ analyze_list root post /\
  analyze_list root (pre ++ (p, c) :: post) = analyze_list root pre ++ analyze_list root post.
Proof. intros Hc. unfold analyze_list, own_cmds. rewrite !load_app. cbn [load].
  destruct (accepted root p).
  - split.
    + rewrite !analyze_files_app. unfold analyze_files at 2. cbn [flat_map fst snd]. reflexivity.
    + destruct c; [discriminate| | |]; apply analyze_files_app.
  - split; apply analyze_files_app. Qed.

(* on layouts: turning one parsed file into an unparsable or unreadable one *)
Theorem skipped_isolated_layout root l l' pre post p items c :
  skipped c = true ->
  walk l = pre ++ (p, Parsed items) :: post ->
  walk l' = pre ++ (p, c) :: post ->
  exists a b, analyze root l = a ++ own_cmds root p items ++ b /\ analyze root l' = a ++ b.
Proof. intros Hc Hl Hl'. destruct (skipped_isolated root pre post p items c Hc) as [H1 H2].
  exists (analyze_list root pre), (analyze_list root post).
  change (analyze root l) with (analyze_list root (walk l)).
  change (analyze root l') with (analyze_list root (walk l')).
  rewrite Hl, Hl'. split; assumption. Qed.

(* ------------------------------------------------------------------ the repaired witnesses *)
Definition fn_hello : fn_def :=
  {| fn_name := L "hello"; fn_attrs := [[L "tauri"; L "command"]]; fn_async := false; fn_params := [];
     fn_ret := Some (QPath [] (L "String") false []) |}.
Definition w_root : str := L "/tmp/x/target/proj/src".
Definition w_layout1 : layout := [NFile (L "main.rs") (Parsed [RFn fn_hello])].
Definition w_layout2 : layout :=
  [NFile (L "main.rs") (Parsed [RFn fn_hello]); NDir (L "fixtures") [NFile (L "latin1.rs") NotUtf8]].

(* former C03-1 witness: the root lies below a directory called target *)
Lemma root_fixed :
  layout_ok w_layout1 = true /\
  map wobs (emit (analyze w_root w_layout1)) = [(L "hello", L "Promise<string>")] /\
  map spec_obs (annotated_spec w_layout1) = [(L "hello", L "Promise<string>")].
Proof. vm_compute. repeat split; reflexivity. Qed.

(* former C03-2 witness: a Latin-1 file next to the command *)
Lemma notutf8_fixed :
  layout_ok w_layout2 = true /\
  map wobs (emit (analyze (L "src") w_layout2)) = [(L "hello", L "Promise<string>")] /\
  map spec_obs (annotated_spec w_layout2) = [(L "hello", L "Promise<string>")].
Proof. vm_compute. repeat split; reflexivity. Qed.

(* the spelling of the root no longer decides; target and .git BELOW the root still do *)
Lemma root_spelling :
  map (fun r => map wobs (emit (analyze (L r) w_layout1))) ["target"; "./target"; "target/"; "/a/.git/b"; "x/target/"]%string
    = repeat [(L "hello", L "Promise<string>")] 5 /\
  analyze (L "src") [NDir (L "target") w_layout1; NDir (L "a") [NDir (L ".git") w_layout1]] = [].
Proof. vm_compute. split; reflexivity. Qed.

(* ------------------------------------------------------------------ build-script histories *)
Lemma list_eqb_eq {A} (e : A -> A -> bool) (He : forall x y, e x y = true -> x = y) l1 l2 :
  list_eqb e l1 l2 = true -> l1 = l2.
Proof. revert l2. induction l1 as [|x r IH]; intros [|y r2]; cbn [list_eqb]; try discriminate; [reflexivity|].
  intros H. apply andb_true_iff in H as [H1 H2]. f_equal; [apply He, H1|apply IH, H2]. Qed.

Lemma obs4_eqb_eq a b : obs4_eqb a b = true -> a = b.
Proof. destruct a as [[[n1 p1] r1] a1], b as [[[n2 p2] r2] a2]. unfold obs4_eqb.
  rewrite !andb_true_iff. intros [[[H1 H2] H3] H4].
  apply str_eqb_eq in H1, H2, H3. apply Bool.eqb_prop in H4. subst. reflexivity. Qed.

(* the wrapper of a command is a function of its CommandInfo fields *)
Lemma wobs_of_obs root c1 c2 : cmd_obs root c1 = cmd_obs root c2 ->
  wobs {| w_invoke := unraw (fn_name (c_fn c1)); w_ret := promise_of (c_fn c1) |}
  = wobs {| w_invoke := unraw (fn_name (c_fn c2)); w_ret := promise_of (c_fn c2) |}.
Proof. unfold cmd_obs, wobs, promise_of, rt_ret_ts. cbn [w_invoke w_ret]. intros [= Hn _ Hr _].
  rewrite Hn, Hr. reflexivity. Qed.

Lemma cache_hit_same root p cs : cache_hit root p cs = true -> map wobs (emit p) = map wobs (emit cs).
Proof. unfold cache_hit. intros H. apply (list_eqb_eq _ obs4_eqb_eq) in H.
  revert cs H. induction p as [|c1 r IH]; intros [|c2 r2] H; try discriminate; [reflexivity|].
  cbn [map] in H. pose proof (f_equal (hd (cmd_obs root c1)) H) as H1. pose proof (f_equal (@tl _) H) as H2.
  cbn [hd tl] in H1, H2.
  unfold emit. cbn [map]. f_equal.
  - apply (wobs_of_obs root). exact H1.
  - apply IH. exact H2. Qed.

Lemma build_run_obs root st l :
  map wobs (commands_ts (build_run root st l)) = map wobs (emit (analyze root l)).
Proof. unfold build_run. destruct (analyze root l) as [|c cs] eqn:E; [reflexivity|].
  destruct st as [p|]; [|reflexivity]. destruct (cache_hit root p (c :: cs)) eqn:Eh; [|reflexivity].
  cbn [commands_ts]. apply (cache_hit_same root). exact Eh. Qed.

(* after EVERY run of a history (any previous state of the output directory) *)
Theorem build_history_spec root ls : forall st,
  Forall (fun l => layout_ok l = true) ls ->
  map (map wobs) (build_history root st ls) = map (fun l => map spec_obs (annotated_spec l)) ls.
Proof. induction ls as [|l r IH]; intros st Hok; [reflexivity|].
  inversion Hok as [|? ? Hl Hr]; subst. cbn [build_history map]. f_equal.
  - rewrite build_run_obs. apply bijection_walk_order. exact Hl.
  - apply IH. exact Hr. Qed.

(* ------------------------------------------------------------------ histories over both routes *)
Lemma run_step_obs root s st : stale_step root s st = false ->
  map wobs (commands_ts (run_step root s st)) = map wobs (emit (analyze root (s_tree s))).
Proof. unfold run_step, stale_step. destruct (analyze root (s_tree s)) as [|c cs] eqn:E.
  - destruct (s_route s); [reflexivity|]. destruct st as [[|x p]|]; [reflexivity|discriminate|reflexivity].
  - intros _. destruct (s_force s); [reflexivity|].
    destruct st as [p|]; [|reflexivity]. destruct (cache_hit root p (c :: cs)) eqn:Eh; [|reflexivity].
    cbn [commands_ts]. apply (cache_hit_same root). exact Eh. Qed.

Theorem history_spec root steps : forall st,
  Forall (fun s => layout_ok (s_tree s) = true) steps ->
  kf_cli_stale root st steps = false ->
  map (map wobs) (history root st steps) = map (fun s => map spec_obs (annotated_spec (s_tree s))) steps.
Proof. induction steps as [|s r IH]; intros st Hok Hkf; [reflexivity|].
  inversion Hok as [|? ? Hl Hr]; subst. cbn [kf_cli_stale] in Hkf. apply orb_false_iff in Hkf as [Hk1 Hk2].
  cbn [history map]. f_equal.
  - rewrite (run_step_obs root s st Hk1). apply bijection_walk_order. exact Hl.
  - apply IH; assumption. Qed.

(* the build route alone is never in the class *)
Lemma build_never_stale root steps : forall st,
  forallb (fun s => match s_route s with RBuild => true | RCli => false end) steps = true ->
  kf_cli_stale root st steps = false.
Proof. induction steps as [|s r IH]; intros st H; [reflexivity|].
  cbn [forallb] in H. apply andb_true_iff in H as [H1 H2]. cbn [kf_cli_stale].
  rewrite (IH _ H2), orb_false_r. unfold stale_step. destruct (s_route s); [reflexivity|discriminate]. Qed.

(* C03-3: plain CLI run on a tree with a command, then on the tree without it *)
Definition w_stale_steps : list step :=
  [ {| s_route := RCli; s_force := false; s_tree := w_layout1 |};
    {| s_route := RCli; s_force := false; s_tree := [NFile (L "main.rs") (Parsed [ROther])] |} ].
Lemma cli_stale_refuted :
  Forall (fun s => layout_ok (s_tree s) = true) w_stale_steps /\
  kf_cli_stale (L "src") None w_stale_steps = true /\
  map (map wobs) (history (L "src") None w_stale_steps) = [[(L "hello", L "Promise<string>")]; [(L "hello", L "Promise<string>")]] /\
  map (fun s => map spec_obs (annotated_spec (s_tree s))) w_stale_steps = [[(L "hello", L "Promise<string>")]; []].
Proof. split; [repeat constructor|]. vm_compute. repeat split; reflexivity. Qed.

(* ------------------------------------------------------------------ the oracle *)
Lemma pair_eqb_eq a b : pair_eqb a b = true <-> a = b.
Proof. unfold pair_eqb. rewrite andb_true_iff, !str_eqb_eq. destruct a, b; cbn [fst snd]. split.
  - intros [-> ->]. reflexivity.
  - intros [= -> ->]. split; reflexivity. Qed.

Lemma remove_one_perm x l l' : remove_one x l = Some l' -> Permutation l (x :: l').
Proof. revert l'. induction l as [|y r IH]; intros l'; cbn [remove_one]; [discriminate|].
  destruct (pair_eqb x y) eqn:E.
  - apply pair_eqb_eq in E. subst. intros [= ->]. apply Permutation_refl.
  - destruct (remove_one x r) as [r'|]; [|discriminate]. intros [= <-].
    eapply perm_trans; [apply perm_skip, IH; reflexivity|apply perm_swap]. Qed.

Lemma remove_one_in x l : In x l -> exists l', remove_one x l = Some l'.
Proof. induction l as [|y r IH]; intros Hin; [destruct Hin|]. cbn [remove_one].
  destruct (pair_eqb x y) eqn:E; [eauto|]. destruct Hin as [->|Hin].
  - assert (pair_eqb x x = true) by (apply pair_eqb_eq; reflexivity). congruence.
  - destruct (IH Hin) as (r' & ->). cbn [option_map]. eauto. Qed.

Theorem perm_b_iff a b : perm_b a b = true <-> Permutation a b.
Proof. revert b. induction a as [|x a IH]; intros b; cbn [perm_b].
  - destruct b; split; intros H; try reflexivity; try discriminate.
    + apply Permutation_nil in H. discriminate.
  - split.
    + destruct (remove_one x b) as [b'|] eqn:E; [|discriminate]. intros H. apply IH in H.
      apply remove_one_perm in E. eapply perm_trans; [apply perm_skip, H|]. symmetry. exact E.
    + intros H. assert (In x b) as Hin by (eapply Permutation_in; [exact H|left; reflexivity]).
      destruct (remove_one_in x b Hin) as (b' & E). rewrite E. apply IH.
      apply remove_one_perm in E. apply (Permutation_cons_inv (a := x)).
      eapply perm_trans; [exact H|exact E]. Qed.

Theorem c03_ok_iff expected obs :
  c03_ok expected obs = true <->
  exists ws pairs, obs = Some ws /\ mapM one_invoke ws = Some pairs /\ Permutation pairs expected.
Proof. unfold c03_ok. destruct obs as [ws|].
  - destruct (mapM one_invoke ws) as [pairs|] eqn:E.
    + rewrite perm_b_iff. split.
      * intros H. exists ws, pairs. auto.
      * intros (ws' & pairs' & [= <-] & E' & H). congruence.
    + split; [discriminate|]. intros (ws' & pairs' & [= <-] & E' & _). congruence.
  - split; [discriminate|]. intros (ws' & pairs' & H & _). discriminate. Qed.
