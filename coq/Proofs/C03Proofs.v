(* C03 - proofs: the substring test of the model against the component-wise specification,
   the bijection under every file order, isolation of unparsable files, the refutations,
   and soundness/completeness of the oracle's multiset comparison. *)
From Coq Require Import String Ascii.
From Coq Require Import List Arith Lia Bool Permutation.
Require Import TT.Proofs.DiscoverSpike.
Require Import TT.Model.Str TT.Model.Pipeline TT.Model.C03Discover TT.Spec.C03Spec.
Require Import TT.Proofs.StrFacts.
Import ListNotations.
Local Open Scope list_scope.

(* ------------------------------------------------------------------ contains = occurs *)
Lemma starts_iff p s : starts p s = true <-> exists b, s = p ++ b.
Proof. revert s. induction p as [|a p IH]; intros s; simpl.
  - split; eauto.
  - destruct s as [|c s]; [split; [discriminate|intros (b & E); discriminate]|].
    rewrite andb_true_iff, IH. split.
    + intros (Ha & b & ->). apply Ascii.eqb_eq in Ha. subst. eauto.
    + intros (b & E). inversion E; subst. split; eauto. apply Ascii.eqb_refl. Qed.

Lemma contains_occurs p s : contains p s = true <-> occurs p s.
Proof. induction s as [|c s IH]; simpl.
  - rewrite orb_false_r, starts_iff. split.
    + intros (b & E). exists [], b. exact E.
    + intros (a & b & E). destruct a; simpl in E.
      * eauto.
      * discriminate.
  - rewrite orb_true_iff, starts_iff, IH. split.
    + intros [(b & E)|(a & b & E)].
      * exists [], b. exact E.
      * exists (c :: a), b. simpl. congruence.
    + intros (a & b & E). destruct a as [|x a]; simpl in E.
      * left. eauto.
      * right. inversion E; subst. exists a, b. reflexivity. Qed.

Lemma contains_false p s : contains p s = false <-> ~ occurs p s.
Proof. rewrite <- contains_occurs. destruct (contains p s); split; congruence. Qed.

(* ------------------------------------------------------------------ names *)
Definition sfree (c : str) : Prop := DiscoverSpike.slashfree c.

Lemma slash_free_sound s : slash_free s = true -> sfree s.
Proof. unfold slash_free, sfree, slashfree. intros H Hin. apply negb_true_iff in H.
  assert (existsb (Ascii.eqb C03Discover.slash) s = true) as E.
  { apply existsb_exists. exists DiscoverSpike.slash. split; [exact Hin|apply Ascii.eqb_refl]. }
  congruence. Qed.

Lemma name_ok_sfree s : name_ok s = true -> sfree s.
Proof. unfold name_ok. rewrite !andb_true_iff. intros (((H & _) & _) & _). apply slash_free_sound, H. Qed.

Lemma target_sf : slashfree (L "target").
Proof. intros H. cbv in H. repeat (destruct H as [H|H]; [discriminate|]). exact H. Qed.
Lemma git_sf : slashfree (L ".git").
Proof. intros H. cbv in H. repeat (destruct H as [H|H]; [discriminate|]). exact H. Qed.

(* a directory component equal to d = d occurs in the list without its last element *)
Lemma comp_split (d : str) (comps : list str) :
  (exists pre post, post <> [] /\ comps = pre ++ d :: post) <-> In d (removelast comps).
Proof. split.
  - intros (pre & post & Hne & ->). destruct (exists_last Hne) as (post' & z & ->).
    replace (pre ++ d :: post' ++ [z]) with ((pre ++ d :: post') ++ [z]) by (rewrite <- app_assoc; reflexivity).
    rewrite removelast_last. apply in_or_app. right. left. reflexivity.
  - intros Hin. destruct comps as [|c0 cs]; [destruct Hin|].
    destruct (@exists_last _ (c0 :: cs)) as (body & z & E); [discriminate|].
    rewrite E in *. rewrite removelast_last in Hin. apply in_split in Hin as (pre & post & ->).
    exists pre, (post ++ [z]). split; [destruct post; discriminate|]. rewrite <- app_assoc. reflexivity. Qed.

Lemma existsb_seg (s : string) (l : list str) : existsb (seg_is s) l = true <-> In (L s) l.
Proof. rewrite existsb_exists. split.
  - intros (x & Hin & E). unfold seg_is in E. apply str_eqb_eq in E. subst. exact Hin.
  - intros Hin. exists (L s). split; [exact Hin|]. unfold seg_is. apply str_eqb_refl. Qed.

Lemma existsb_excluded l :
  existsb excluded_dir l = existsb (seg_is "target") l || existsb (seg_is ".git") l.
Proof. induction l as [|x l IH]; [reflexivity|]. simpl. rewrite IH. unfold excluded_dir.
  destruct (seg_is "target" x), (seg_is ".git" x), (existsb (seg_is "target") l), (existsb (seg_is ".git") l); reflexivity. Qed.

(* ------------------------------------------------------------------ the exclusion test *)
Lemma path_string_full root comps : path_string root comps = full_path (norm_root root) comps.
Proof. reflexivity. Qed.

Lemma kf_root_false root : kf_root root = false ->
  ~ occurs (pat (L "target")) (norm_root root ++ [DiscoverSpike.slash]) /\
  ~ occurs (pat (L ".git")) (norm_root root ++ [DiscoverSpike.slash]).
Proof. unfold kf_root. intros H. apply orb_false_iff in H as [H1 H2].
  apply contains_false in H1. apply contains_false in H2. split; assumption. Qed.

Lemma contains_dir (d : string) root comps :
  slashfree (L d) -> Forall slashfree comps ->
  ~ occurs (pat (L d)) (norm_root root ++ [DiscoverSpike.slash]) ->
  contains (pat (L d)) (path_string root comps) = existsb (seg_is d) (removelast comps).
Proof. intros Hd Hsf Hroot.
  destruct (existsb (seg_is d) (removelast comps)) eqn:E.
  - apply contains_occurs. rewrite path_string_full. apply (accepted_spec (L d) Hd _ _ Hsf Hroot).
    apply comp_split. apply existsb_seg. exact E.
  - apply contains_false. intros Hocc. rewrite path_string_full in Hocc.
    apply (accepted_spec (L d) Hd _ _ Hsf Hroot) in Hocc. apply comp_split in Hocc. apply existsb_seg in Hocc. exact (eq_true_false_abs _ Hocc E). Qed.

(* ------------------------------------------------------------------ the extension test *)
Lemma ext_rev_len acc r e : ext_rev acc r = Some e -> List.length acc <= List.length e.
Proof. revert acc. induction r as [|c r IH]; intros acc; simpl; [discriminate|].
  destruct (Ascii.eqb c "."%char).
  - destruct r; [discriminate|]. intros [= <-]. lia.
  - intros H. apply IH in H. simpl in H. lia. Qed.

Lemma is_rs_rs_name name : is_rs name = rs_name name.
Proof. unfold is_rs, rs_name, extension. rewrite <- (rev_length name).
  generalize (rev name) as r. clear name. intros r.
  change (rev (L ".rs")) with ["s"%char; "r"%char; "."%char].
  change (L "rs") with ["r"%char; "s"%char].
  destruct r as [|a r]; [reflexivity|]. cbn [ext_rev starts].
  destruct (Ascii.eqb_spec a "."%char) as [->|Ha].
  { destruct r; reflexivity. }
  destruct r as [|b r].
  { cbn [ext_rev starts List.length]. rewrite andb_false_r. reflexivity. }
  cbn [ext_rev starts].
  destruct (Ascii.eqb_spec b "."%char) as [->|Hb].
  { replace (Ascii.eqb "r" ".")%char with false by reflexivity. cbn [andb]. rewrite andb_false_r. cbn [andb].
    destruct r as [|c r]; [reflexivity|].
    rewrite str_eqb_cons. replace (str_eqb [] ["s"%char]) with false by reflexivity. apply andb_false_r. }
  destruct r as [|c r].
  { cbn [ext_rev starts List.length]. rewrite !andb_false_r. reflexivity. }
  cbn [ext_rev starts].
  destruct (Ascii.eqb_spec c "."%char) as [->|Hc].
  { destruct r as [|d r].
    - cbn [List.length]. replace (4 <=? 3) with false by reflexivity. rewrite andb_false_r. reflexivity.
    - rewrite !str_eqb_cons. replace (str_eqb [] []) with true by reflexivity.
      cbn [List.length]. replace (4 <=? S (S (S (S (List.length r))))) with true by reflexivity.
      replace (Ascii.eqb "." ".")%char with true by reflexivity.
      rewrite (Ascii.eqb_sym "s"%char a), (Ascii.eqb_sym "r"%char b).
      destruct (Ascii.eqb a "s"), (Ascii.eqb b "r"); reflexivity. }
  replace (Ascii.eqb "."%char c) with false.
  2:{ symmetry. apply Ascii.eqb_neq. congruence. }
  rewrite !andb_false_r. cbn [andb].
  destruct (ext_rev [c; b; a] r) as [e|] eqn:E; [|reflexivity].
  apply ext_rev_len in E. apply str_eqb_neq. intros ->. cbn [List.length] in E. lia. Qed.

(* ------------------------------------------------------------------ accepted = spec_accept *)
Lemma accepted_spec_accept root comps :
  kf_root root = false -> Forall slashfree comps ->
  accepted root comps = spec_accept comps.
Proof. intros Hroot Hsf. apply kf_root_false in Hroot as [Ht Hg].
  unfold accepted, spec_accept. rewrite is_rs_rs_name.
  change (L "/target/") with (pat (L "target")). change (L "/.git/") with (pat (L ".git")).
  rewrite (contains_dir "target" root comps target_sf Hsf Ht).
  rewrite (contains_dir ".git" root comps git_sf Hsf Hg).
  rewrite existsb_excluded. rewrite negb_orb, andb_assoc. reflexivity. Qed.

(* ------------------------------------------------------------------ induction on trees *)
Section NodeInd.
  Variable P : node -> Prop.
  Hypothesis Hfile : forall name c, P (NFile name c).
  Hypothesis Hdir : forall name ch, Forall P ch -> P (NDir name ch).
  Fixpoint node_ind' (n : node) : P n :=
    match n with
    | NFile name c => Hfile name c
    | NDir name ch => Hdir name ch ((fix go (l : list node) : Forall P l :=
                                       match l with [] => Forall_nil P | x :: r => Forall_cons x (node_ind' x) (go r) end) ch)
    end.
End NodeInd.

Lemma spec_files_app a b : spec_files (a ++ b) = spec_files a ++ spec_files b.
Proof. unfold spec_files. apply flat_map_app. Qed.

Lemma spec_walk_node n : forall dirs, spec_node dirs n = spec_files (walk_node dirs n).
Proof. induction n as [name c|name ch IH] using node_ind'; intros dirs.
  - cbn [walk_node spec_node]. unfold spec_files. cbn [flat_map fst snd]. rewrite app_nil_r.
    destruct c; try reflexivity.
    unfold spec_accept. rewrite last_last, removelast_last. reflexivity.
  - cbn [walk_node spec_node]. induction IH as [|x r Hx Hr IHr]; [reflexivity|].
    cbn [flat_map]. rewrite spec_files_app, Hx, IHr. reflexivity. Qed.

Lemma spec_walk l : annotated_spec l = spec_files (walk l).
Proof. unfold annotated_spec, spec_nodes, walk, walk_nodes. induction l as [|x r IH]; [reflexivity|].
  cbn [flat_map]. rewrite spec_files_app, spec_walk_node, IH. reflexivity. Qed.

Definition comps_ok (pc : list str * content) : Prop := Forall slashfree (fst pc).

Lemma walk_node_ok n : forall dirs, node_ok n = true -> Forall slashfree dirs -> Forall comps_ok (walk_node dirs n).
Proof. induction n as [name c|name ch IH] using node_ind'; intros dirs Hok Hd.
  - cbn [walk_node]. constructor; [|constructor]. unfold comps_ok. cbn [fst].
    apply Forall_app. split; [exact Hd|]. constructor; [|constructor]. apply name_ok_sfree. exact Hok.
  - cbn [node_ok] in Hok. apply andb_true_iff in Hok as [Hok _]. apply andb_true_iff in Hok as [Hn Hch].
    assert (Forall slashfree (dirs ++ [name])) as Hd'.
    { apply Forall_app. split; [exact Hd|]. constructor; [|constructor]. apply name_ok_sfree. exact Hn. }
    cbn [walk_node]. rewrite forallb_forall in Hch.
    induction IH as [|x r Hx Hr IHr]; [constructor|].
    cbn [flat_map]. apply Forall_app. split.
    + apply Hx; [apply Hch; left; reflexivity|exact Hd'].
    + apply IHr. intros y Hy. apply Hch. right. exact Hy. Qed.

Lemma walk_ok l : layout_ok l = true -> Forall comps_ok (walk l).
Proof. unfold layout_ok, walk, walk_nodes. intros H. apply andb_true_iff in H as [H _].
  rewrite forallb_forall in H. induction l as [|x r IH]; [constructor|].
  cbn [flat_map]. apply Forall_app. split.
  - apply walk_node_ok; [apply H; left; reflexivity|constructor].
  - apply IH. intros y Hy. apply H. right. exact Hy. Qed.

(* ------------------------------------------------------------------ attribute test *)
Lemma command_attr_same f : is_tauri_command f = annotated f.
Proof. unfold is_tauri_command, annotated. induction (fn_attrs f) as [|p r IH]; [reflexivity|].
  cbn [existsb]. rewrite IH. f_equal. Qed.

Lemma file_cmds_same items : file_cmds items = top_level_annotated items.
Proof. unfold file_cmds, top_level_annotated. induction items as [|it r IH]; [reflexivity|].
  cbn [flat_map]. rewrite IH. destruct it; reflexivity. Qed.

(* ------------------------------------------------------------------ load *)
Definition cmd_pair (c : cmd) : list str * fn_def := (c_file c, c_fn c).

Lemma load_spec root files :
  kf_root root = false -> Forall comps_ok files ->
  existsb (fun pc => accepted root (fst pc) && is_notutf8 (snd pc)) files = false ->
  exists cached, load root files = Done cached /\
                 map cmd_pair (analyze_files cached) = spec_files files.
Proof. intros Hroot Hok. induction Hok as [|[p c] r Hp Hr IH]; intros Hkf.
  - exists []. split; reflexivity.
  - cbn [existsb fst snd] in Hkf. apply orb_false_iff in Hkf as [Hk1 Hk2].
    destruct (IH Hk2) as (cached & Hl & Hs).
    unfold comps_ok in Hp. cbn [fst] in Hp.
    pose proof (accepted_spec_accept root p Hroot Hp) as Hacc.
    cbn [load]. unfold spec_files. cbn [flat_map fst snd]. fold (spec_files r).
    destruct (accepted root p) eqn:Ea.
    + destruct c as [items| |].
      * rewrite Hl. exists ((p, items) :: cached). split; [reflexivity|].
        unfold analyze_files. cbn [flat_map fst snd]. fold (analyze_files cached).
        rewrite map_app, Hs, <- Hacc. f_equal.
        rewrite map_map. unfold cmd_pair. cbn [c_file c_fn]. rewrite file_cmds_same. reflexivity.
      * exists cached. split; [exact Hl|]. rewrite Hs. reflexivity.
      * cbn in Hk1. discriminate.
    + exists cached. split; [exact Hl|]. rewrite Hs, <- Hacc.
      destruct c; reflexivity. Qed.

(* ------------------------------------------------------------------ bijection *)
Definition file_obs (pi : list str * list ritem) : list (str * str) :=
  map (fun f => (fn_name f, promise_of f)) (file_cmds (snd pi)).

Lemma emit_flat cached : map wobs (emit (analyze_files cached)) = flat_map file_obs cached.
Proof. unfold emit, analyze_files. induction cached as [|pi r IH]; [reflexivity|].
  cbn [flat_map]. rewrite !map_app, IH. f_equal. unfold file_obs. rewrite !map_map. reflexivity. Qed.

Lemma emit_pairs cs : map wobs (emit cs) = map spec_obs (map cmd_pair cs).
Proof. unfold emit. rewrite !map_map. reflexivity. Qed.

Theorem bijection root l :
  layout_ok l = true -> kf_root root = false -> kf_notutf8 root l = false ->
  exists cached, cache root l = Done cached /\
    forall files', Permutation files' cached ->
      Permutation (map wobs (emit (analyze_files files'))) (map spec_obs (annotated_spec l)).
Proof. intros Hok Hroot Hutf.
  destruct (load_spec root (walk l) Hroot (walk_ok l Hok) Hutf) as (cached & Hl & Hs).
  exists cached. split; [exact Hl|]. intros files' Hperm.
  rewrite spec_walk, <- Hs, <- emit_pairs, !emit_flat.
  apply Permutation_flat_map. exact Hperm. Qed.

(* the walk-order run, as the extracted entry point computes it *)
Corollary bijection_walk_order root l :
  layout_ok l = true -> kf_root root = false -> kf_notutf8 root l = false ->
  exists cs, analyze root l = Done cs /\ map wobs (emit cs) = map spec_obs (annotated_spec l).
Proof. intros Hok Hroot Hutf.
  destruct (load_spec root (walk l) Hroot (walk_ok l Hok) Hutf) as (cached & Hl & Hs).
  exists (analyze_files cached). unfold analyze, cache. rewrite Hl. split; [reflexivity|].
  rewrite spec_walk, <- Hs. apply emit_pairs. Qed.

(* no function without the attribute, no nested function, no function of a skipped file
   has a wrapper: membership reading of the specification *)
Lemma in_spec_files files p f :
  In (p, f) (spec_files files) <->
  exists items, In (p, Parsed items) files /\ spec_accept p = true /\ In (RFn f) items /\ annotated f = true.
Proof. unfold spec_files. rewrite in_flat_map. split.
  - intros ([p' c] & Hin & H). cbn [fst snd] in H. destruct c as [items| |]; try destruct H.
    destruct (spec_accept p') eqn:Ea; [|destruct H]. apply in_map_iff in H as (f' & [= <- <-] & Hf).
    exists items. split; [exact Hin|]. split; [exact Ea|].
    unfold top_level_annotated in Hf. apply in_flat_map in Hf as (it & Hit & Hf).
    destruct it as [g| | |]; try destruct Hf. destruct (annotated g) eqn:Eg; [|destruct Hf].
    destruct Hf as [->|[]]. split; assumption.
  - intros (items & Hin & Ea & Hf & Hann). exists (p, Parsed items). split; [exact Hin|].
    cbn [fst snd]. rewrite Ea. apply in_map. unfold top_level_annotated. apply in_flat_map.
    exists (RFn f). split; [exact Hf|]. rewrite Hann. left. reflexivity. Qed.

Lemma in_annotated_spec l p f :
  In (p, f) (annotated_spec l) <->
  exists items, In (p, Parsed items) (walk l) /\ spec_accept p = true /\ In (RFn f) items /\ annotated f = true.
Proof. rewrite spec_walk. apply in_spec_files. Qed.

(* ------------------------------------------------------------------ unparsable files *)
Definition app_outcome {A} (a b : outcome (list A)) : outcome (list A) :=
  match a, b with Done x, Done y => Done (x ++ y) | _, _ => Failed end.

Lemma load_app root a b : load root (a ++ b) = app_outcome (load root a) (load root b).
Proof. induction a as [|[p c] r IH]; cbn [app load].
  - destruct (load root b); reflexivity.
  - destruct (accepted root p); [|exact IH]. destruct c; [|exact IH|reflexivity].
    rewrite IH. destruct (load root r), (load root b); reflexivity. Qed.

Lemma analyze_files_app a b : analyze_files (a ++ b) = analyze_files a ++ analyze_files b.
Proof. unfold analyze_files. apply flat_map_app. Qed.

Definition analyze_list (root : str) (files : list (list str * content)) : outcome (list cmd) :=
  match load root files with Done c => Done (analyze_files c) | Failed => Failed end.
Definition own_cmds (root : str) (p : list str) (items : list ritem) : list cmd :=
  if accepted root p then map (fun f => {| c_file := p; c_fn := f |}) (file_cmds items) else [].

Theorem unparsable_isolated root pre post p items :
  match analyze_list root pre, analyze_list root post with
  | Done a, Done b =>
      analyze_list root (pre ++ (p, Parsed items) :: post) = Done (a ++ own_cmds root p items ++ b) /\
      analyze_list root (pre ++ (p, Unparsable) :: post) = Done (a ++ b)
  | _, _ =>
      analyze_list root (pre ++ (p, Parsed items) :: post) = Failed /\
      analyze_list root (pre ++ (p, Unparsable) :: post) = Failed
  end.
Proof. unfold analyze_list, own_cmds. rewrite !load_app. cbn [load].
  destruct (load root pre) as [a|], (load root post) as [b|], (accepted root p); cbn [app_outcome];
    try (split; reflexivity).
  - split; [|rewrite analyze_files_app; reflexivity].
    rewrite analyze_files_app. unfold analyze_files at 2. cbn [flat_map fst snd]. reflexivity.
  - split; rewrite analyze_files_app; reflexivity. Qed.

(* on layouts: turning one parsed file into an unparsable one *)
Theorem unparsable_isolated_layout root l l' pre post p items :
  walk l = pre ++ (p, Parsed items) :: post ->
  walk l' = pre ++ (p, Unparsable) :: post ->
  match analyze root l with
  | Done cs => exists a b, cs = a ++ own_cmds root p items ++ b /\ analyze root l' = Done (a ++ b)
  | Failed => analyze root l' = Failed
  end.
Proof. intros Hl Hl'. pose proof (unparsable_isolated root pre post p items) as H.
  change (analyze root l) with (analyze_list root (walk l)).
  change (analyze root l') with (analyze_list root (walk l')).
  rewrite Hl, Hl'. revert H.
  destruct (analyze_list root pre) as [a|]; [destruct (analyze_list root post) as [b|]|];
    intros [-> ->]; eauto. Qed.

(* ------------------------------------------------------------------ refutations *)
Definition fn_hello : fn_def :=
  {| fn_name := L "hello"; fn_attrs := [[L "tauri"; L "command"]]; fn_async := false; fn_params := [];
     fn_ret := Some (QPath [] (L "String") false []) |}.
Definition w_root : str := L "/tmp/x/target/proj/src".
Definition w_layout1 : layout := [NFile (L "main.rs") (Parsed [RFn fn_hello])].
Definition w_layout2 : layout :=
  [NFile (L "main.rs") (Parsed [RFn fn_hello]); NDir (L "fixtures") [NFile (L "latin1.rs") NotUtf8]].

Lemma root_refuted :
  layout_ok w_layout1 = true /\ kf_root w_root = true /\ kf_notutf8 w_root w_layout1 = false /\
  analyze w_root w_layout1 = Done [] /\
  map spec_obs (annotated_spec w_layout1) = [(L "hello", L "Promise<string>")].
Proof. vm_compute. repeat split; reflexivity. Qed.

Lemma notutf8_refuted :
  layout_ok w_layout2 = true /\ kf_root (L "src") = false /\ kf_notutf8 (L "src") w_layout2 = true /\
  analyze (L "src") w_layout2 = Failed /\
  map spec_obs (annotated_spec w_layout2) = [(L "hello", L "Promise<string>")].
Proof. vm_compute. repeat split; reflexivity. Qed.

(* the spelling of the root decides: the same directory named target is fine as "target" *)
Lemma root_spelling :
  kf_root (L "target") = false /\ kf_root (L "./target") = true /\ kf_root (L "target/") = false /\
  map wobs (emit (match analyze (L "target") w_layout1 with Done c => c | Failed => [] end)) = [(L "hello", L "Promise<string>")] /\
  analyze (L "./target") w_layout1 = Done [].
Proof. vm_compute. repeat split; reflexivity. Qed.

(* ------------------------------------------------------------------ the oracle *)
Lemma pair_eqb_eq a b : pair_eqb a b = true <-> a = b.
Proof. unfold pair_eqb. rewrite andb_true_iff, !str_eqb_eq. destruct a, b; cbn [fst snd]. split.
  - intros [-> ->]. reflexivity.
  - intros [= -> ->]. split; reflexivity. Qed.

Lemma remove_one_perm x l l' : remove_one x l = Some l' -> Permutation l (x :: l').
Proof. revert l'. induction l as [|y r IH]; intros l'; cbn [remove_one]; [discriminate|].
  destruct (pair_eqb x y) eqn:E.
  - apply pair_eqb_eq in E. subst. intros [= ->]. apply Permutation_refl.
  - destruct (remove_one x r) as [r'|]; [|discriminate]. intros [= <-].
    eapply perm_trans; [apply perm_skip, IH; reflexivity|apply perm_swap]. Qed.

Lemma remove_one_in x l : In x l -> exists l', remove_one x l = Some l'.
Proof. induction l as [|y r IH]; intros Hin; [destruct Hin|]. cbn [remove_one].
  destruct (pair_eqb x y) eqn:E; [eauto|]. destruct Hin as [->|Hin].
  - assert (pair_eqb x x = true) by (apply pair_eqb_eq; reflexivity). congruence.
  - destruct (IH Hin) as (r' & ->). cbn [option_map]. eauto. Qed.

Theorem perm_b_iff a b : perm_b a b = true <-> Permutation a b.
Proof. revert b. induction a as [|x a IH]; intros b; cbn [perm_b].
  - destruct b; split; intros H; try reflexivity; try discriminate.
    + apply Permutation_nil in H. discriminate.
  - split.
    + destruct (remove_one x b) as [b'|] eqn:E; [|discriminate]. intros H. apply IH in H.
      apply remove_one_perm in E. eapply perm_trans; [apply perm_skip, H|]. symmetry. exact E.
    + intros H. assert (In x b) as Hin by (eapply Permutation_in; [exact H|left; reflexivity]).
      destruct (remove_one_in x b Hin) as (b' & E). rewrite E. apply IH.
      apply remove_one_perm in E. apply (Permutation_cons_inv (a := x)).
      eapply perm_trans; [exact H|exact E]. Qed.

Theorem c03_ok_iff expected obs :
  c03_ok expected obs = true <->
  exists ws pairs, obs = Some ws /\ mapM one_invoke ws = Some pairs /\ Permutation pairs expected.
Proof. unfold c03_ok. destruct obs as [ws|].
  - destruct (mapM one_invoke ws) as [pairs|] eqn:E.
    + rewrite perm_b_iff. split.
      * intros H. exists ws, pairs. auto.
      * intros (ws' & pairs' & [= <-] & E' & H). congruence.
    + split; [discriminate|]. intros (ws' & pairs' & [= <-] & E' & _). congruence.
  - split; [discriminate|]. intros (ws' & pairs' & H & _). discriminate. Qed.
