(* C10 deepening, Zod side, character level: the specification lexer reads the canonical tokens
   [pe (zex_of m t key)] from the string the schema builder prints; with the round trip of C10ParseEx:
   parse_ex (zbuild m t key) = Some (zex_of m t key)  for every in-domain type within the nesting budget. *)
From Coq Require Import String Ascii.
From Coq Require Import List Arith Lia Bool.
Require Import TT.Model.Str TT.Proofs.StrFacts TT.Model.TypeParse TT.Spec.TsLex TT.Spec.TsModule TT.Spec.TsObs.
Require Import TT.Spec.C10Shape TT.Model.C10Zod TT.Spec.C10Check TT.Proofs.C10Proofs TT.Proofs.C10ParseTy TT.Proofs.C10ParseEx.
Require Import TT.Proofs.LexFacts.
Import ListNotations.
Local Open Scope char_scope.
Local Open Scope list_scope.

(* a closed piece of text that the lexer reads in k steps whatever follows *)
Lemma lexes_lit (P : str -> Prop) (s : str) (ts : list tk) (k : nat) :
  k <= List.length s -> (forall r f, lexm (k + f) (s ++ r) = ts ++ lexm f r) -> lexes P s ts.
Proof.
  intros Hk H r f _ Hf. rewrite app_length in Hf. exists (f - k). split; [lia|].
  replace f with (k + (f - k)) at 1 by lia. apply H.
Qed.

Ltac lit k := apply (lexes_lit _ _ _ k); [cbn; lia|intros r f; reflexivity].

Lemma lit_string P : lexes P (L "z.string()") (pe (zcall "string" [])). Proof. lit 5. Qed.
Lemma lit_number P : lexes P (L "z.number()") (pe (zcall "number" [])). Proof. lit 5. Qed.
Lemma lit_boolean P : lexes P (L "z.boolean()") (pe (zcall "boolean" [])). Proof. lit 5. Qed.
Lemma lit_void P : lexes P (L "z.void()") (pe (zcall "void" [])). Proof. lit 5. Qed.
Lemma lit_cnumber P : lexes P (L "z.coerce.number()") (pe (zcoerce "number")). Proof. lit 7. Qed.
Lemma lit_cboolean P : lexes P (L "z.coerce.boolean()") (pe (zcoerce "boolean")). Proof. lit 7. Qed.
Lemma lit_optional P : lexes P (L ".optional()") [kp "."; KId (L "optional"); kp "("; kp ")"]. Proof. lit 4. Qed.
Lemma lit_array P : lexes P (L "z.array(") [KId (L "z"); kp "."; KId (L "array"); kp "("]. Proof. lit 4. Qed.
Lemma lit_set P : lexes P (L "z.set(") [KId (L "z"); kp "."; KId (L "set"); kp "("]. Proof. lit 4. Qed.
Lemma lit_record P : lexes P (L "z.record(") [KId (L "z"); kp "."; KId (L "record"); kp "("]. Proof. lit 4. Qed.
Lemma lit_tuple P : lexes P (L "z.tuple([") [KId (L "z"); kp "."; KId (L "tuple"); kp "("; kp "["]. Proof. lit 5. Qed.
Lemma lit_union P : lexes P (L "z.union([") [KId (L "z"); kp "."; KId (L "union"); kp "("; kp "["]. Proof. lit 5. Qed.
Lemma lit_close P : lexes P (L ")") [kp ")"]. Proof. lit 1. Qed.
Lemma lit_close2 P : lexes P (L "])") [kp "]"; kp ")"]. Proof. lit 2. Qed.
Lemma lit_comma P : lexes P (L ", ") [kp ","]. Proof. lit 2. Qed.
Lemma lit_error P : lexes P (L ", z.object({ error: z.string() })])") (kp "," :: pe error_obj ++ [kp "]"; kp ")"]). Proof. lit 21. Qed.

Definition B : str -> Prop := bnd.
Lemma bnd_cons c r : is_id_char c = false -> bnd (c :: r). Proof. intros H. exact H. Qed.

(* comma separated pieces *)
Lemma lexes_join (ss : list str) (tss : list (list tk)) :
  Forall2 (fun s ts => lexes B s ts) ss tss -> ss <> [] -> lexes B (join (L ", ") ss) (sepk (kp ",") tss).
Proof.
  induction 1 as [|s ts ss' tss' Hs Hr IH]; [congruence|]. intros _. destruct Hr as [|s2 ts2 ss2 tss2 Hs2 Hr2].
  - exact Hs.
  - rewrite join_cons2. change (sepk (kp ",") (ts :: ts2 :: tss2)) with (ts ++ kp "," :: sepk (kp ",") (ts2 :: tss2)).
    apply (lexes_app B B); [exact Hs| |intros r _; reflexivity].
    change (kp "," :: sepk (kp ",") (ts2 :: tss2)) with ([kp ","] ++ sepk (kp ",") (ts2 :: tss2)).
    apply (lexes_app (fun _ => True) B); [apply lit_comma|apply IH; discriminate|intros; exact I].
Qed.

Lemma ident_schema n : name_ok n = true -> ident (n ++ L "Schema") = true.
Proof.
  unfold name_ok, ident. destruct n as [|c r]; [discriminate|]. intros H. apply andb_true_iff in H. destruct H as [H _].
  apply andb_true_iff in H. destruct H as [Hc Hr]. cbn [app]. rewrite Hc, forallb_app, Hr. reflexivity.
Qed.

Section WithMap.
  Variable m : mapping.
  Hypothesis Hm : map_ok m = true.

  Lemma lex_custom n : name_ok n = true -> lexes B (zcustom m n) (pe (zcustom_ex m n)).
  Proof.
    intros Hn. unfold zcustom, zcustom_ex. destruct (lookup m n) as [x|] eqn:E.
    - destruct (lookup_target m Hm _ _ E) as [->|[->| ->]]; cbn [str_eqb]; [apply lit_string|apply lit_number|apply lit_boolean].
    - apply lexes_ident; [apply ident_schema; exact Hn|auto].
  Qed.

  Lemma pe_call1 (name : string) a : pe (zcall name [a]) = [KId (L "z"); kp "."; KId (L name); kp "("] ++ pe a ++ [kp ")"].
  Proof. reflexivity. Qed.
  Lemma pe_call2 (name : string) a b : pe (zcall name [a; b]) = [KId (L "z"); kp "."; KId (L name); kp "("] ++ pe a ++ [kp ","] ++ pe b ++ [kp ")"].
  Proof. cbn [zcall pe map sepk zid app]. rewrite <- !app_assoc. reflexivity. Qed.
  Lemma pe_calll (name : string) l : pe (zcall name [EArr l]) = [KId (L "z"); kp "."; KId (L name); kp "("; kp "["] ++ sepk (kp ",") (map pe l) ++ [kp "]"; kp ")"].
  Proof. cbn [zcall pe map sepk zid app]. rewrite <- !app_assoc. reflexivity. Qed.
  Lemma pe_link e : pe (link e "optional") = pe e ++ [kp "."; KId (L "optional"); kp "("; kp ")"].
  Proof. cbn [link pe map sepk app]. rewrite <- !app_assoc. reflexivity. Qed.

  Ltac bnd_lit := intros r _; reflexivity.

  Lemma LZ : forall t, dom t = true -> forall key, lexes B (zbuild m t key) (pe (zex_of m t key)).
  Proof.
    induction t as [p|u IH|k v IHk IHv|u IH|l IH|u IH|u IH|n] using ts_ind2; cbn [dom]; intros Hd key.
    - apply prim_names_shape in Hd. destruct Hd as [->|[->|[->| ->]]]; cbn [zbuild zex_of str_eqb];
        [apply lit_string|destruct key; [apply lit_number|apply lit_cnumber]|apply lit_cboolean|apply lit_void].
    - cbn [zbuild zex_of]. rewrite pe_call1.
      apply (lexes_app (fun _ => True) B); [apply lit_array| |intros; exact I].
      apply (lexes_app B B); [apply IH; exact Hd|apply lit_close|bnd_lit].
    - apply andb_true_iff in Hd. destruct Hd as [Hk Hv]. destruct (key_ok_dom _ Hk) as [Hk1 _].
      cbn [zbuild zex_of]. rewrite pe_call2.
      apply (lexes_app (fun _ => True) B); [apply lit_record| |intros; exact I].
      apply (lexes_app B B); [apply IHk; exact Hk1| |bnd_lit].
      apply (lexes_app (fun _ => True) B); [apply lit_comma| |intros; exact I].
      apply (lexes_app B B); [apply IHv; exact Hv|apply lit_close|bnd_lit].
    - cbn [zbuild zex_of]. rewrite pe_call1.
      apply (lexes_app (fun _ => True) B); [apply lit_set| |intros; exact I].
      apply (lexes_app B B); [apply IH; exact Hd|apply lit_close|bnd_lit].
    - destruct l as [|a l']; [apply lit_void|].
      remember (a :: l') as l0 eqn:El.
      assert (zbuild m (TTuple l0) key = L "z.tuple([" ++ join (L ", ") (map (fun x => zbuild m x false) l0) ++ L "])") as -> by (subst; reflexivity).
      assert (zex_of m (TTuple l0) key = zcall "tuple" [EArr (map (fun x => zex_of m x false) l0)]) as -> by (subst; reflexivity).
      rewrite pe_calll.
      apply (lexes_app (fun _ => True) B); [apply lit_tuple| |intros; exact I].
      apply (lexes_app B B); [|apply lit_close2|bnd_lit].
      rewrite map_map. apply lexes_join; [|subst; discriminate].
      clear El. induction l0 as [|x r IHr]; [constructor|]. cbn [map]. inversion IH; subst. cbn [forallb] in Hd. apply andb_true_iff in Hd. destruct Hd.
      constructor; [auto|apply IHr; assumption].
    - cbn [zbuild zex_of]. rewrite pe_link. apply (lexes_app B B); [apply IH; exact Hd|apply lit_optional|bnd_lit].
    - cbn [zbuild zex_of]. rewrite pe_calll. cbn [map sepk].
      apply (lexes_app (fun _ => True) B); [apply lit_union| |intros; exact I].
      replace ((pe (zex_of m u false) ++ kp "," :: pe error_obj) ++ [kp "]"; kp ")"]) with (pe (zex_of m u false) ++ kp "," :: pe error_obj ++ [kp "]"; kp ")"])
        by (rewrite <- app_assoc; reflexivity).
      apply (lexes_app B B); [apply IH; exact Hd|apply lit_error|bnd_lit].
    - cbn [zbuild zex_of]. apply lex_custom; exact Hd.
  Qed.

  (* ---- the trees are normal forms of the expression printer ---- *)
  Lemma idx_lit (s : string) : is_ts_identifier (L s) = true -> str_eqb (L s) (L "await") = false -> str_eqb (L s) (L "new") = false -> idx (L s).
  Proof. intros; repeat split; assumption. Qed.
  Lemma nfx_zcall0 (name : string) : is_ts_identifier (L name) = true -> nfx (zcall name []).
  Proof. intros H. cbn [zcall nfx zid chainlike]. repeat split; auto. Qed.
  Lemma nfx_zcall (name : string) args : is_ts_identifier (L name) = true -> Forall nfx args -> nfx (zcall name args).
  Proof. intros H Ha. cbn [zcall nfx zid chainlike]. repeat split; auto. apply nfx_list; exact Ha. Qed.
  Lemma chain_zex t key : chainlike (zex_of m t key) = true.
  Proof.
    destruct t as [p|u|k v|u|l|u|u|n]; cbn [zex_of]; try reflexivity.
    - repeat match goal with |- context [if ?c then _ else _] => destruct c end; reflexivity.
    - destruct l; reflexivity.
    - unfold zcustom_ex. repeat match goal with |- context [match ?c with _ => _ end] => destruct c end; reflexivity.
  Qed.
  Lemma idx_schema n : name_ok n = true -> idx (n ++ L "Schema").
  Proof.
    intros Hn. pose proof (ident_schema n Hn) as Hi. unfold idx. split; [exact Hi|]. split;
      apply str_eqb_neq; intros E; apply (f_equal (@List.length ascii)) in E; rewrite app_length in E; cbn in E; lia.
  Qed.
  Lemma nfx_custom n : name_ok n = true -> nfx (zcustom_ex m n).
  Proof.
    intros Hn. unfold zcustom_ex. destruct (lookup m n) as [x|] eqn:E.
    - destruct (lookup_target m Hm _ _ E) as [->|[->| ->]]; cbn [str_eqb]; apply nfx_zcall0; reflexivity.
    - apply idx_schema; exact Hn.
  Qed.
  Lemma nfx_error : nfx error_obj.
  Proof. cbn. repeat split; reflexivity. Qed.

  Lemma nfx_zex : forall t, dom t = true -> forall key, nfx (zex_of m t key).
  Proof.
    induction t as [p|u IH|k v IHk IHv|u IH|l IH|u IH|u IH|n] using ts_ind2; cbn [dom]; intros Hd key.
    - apply prim_names_shape in Hd. destruct Hd as [->|[->|[->| ->]]].
      + apply (nfx_zcall0 "string"); reflexivity.
      + destruct key; [apply (nfx_zcall0 "number"); reflexivity|]. change (nfx (zcoerce "number")). cbn. repeat split; reflexivity.
      + change (nfx (zcoerce "boolean")). cbn. repeat split; reflexivity.
      + apply (nfx_zcall0 "void"); reflexivity.
    - cbn [zex_of]. apply nfx_zcall; [reflexivity|]. constructor; [apply IH; exact Hd|constructor].
    - apply andb_true_iff in Hd. destruct Hd as [Hk Hv]. destruct (key_ok_dom _ Hk) as [Hk1 _].
      cbn [zex_of]. apply nfx_zcall; [reflexivity|]. constructor; [apply IHk; exact Hk1|]. constructor; [apply IHv; exact Hv|constructor].
    - cbn [zex_of]. apply nfx_zcall; [reflexivity|]. constructor; [apply IH; exact Hd|constructor].
    - destruct l as [|a l']; [apply nfx_zcall0; reflexivity|].
      remember (a :: l') as l0. assert (zex_of m (TTuple l0) key = zcall "tuple" [EArr (map (fun x => zex_of m x false) l0)]) as -> by (subst; reflexivity).
      apply nfx_zcall; [reflexivity|]. constructor; [|constructor]. cbn [nfx]. apply nfx_list. apply Forall_forall. intros x Hx.
      apply in_map_iff in Hx. destruct Hx as [y [<- Hy]]. rewrite Forall_forall in IH. apply IH; [exact Hy|]. rewrite forallb_forall in Hd. apply Hd; exact Hy.
    - cbn [zex_of]. unfold link. cbn [nfx]. split; [reflexivity|]. split; [|exact I]. cbn [nfx]. split; [apply chain_zex|]. split; [apply IH; exact Hd|reflexivity].
    - cbn [zex_of]. apply nfx_zcall; [reflexivity|]. constructor; [|constructor]. cbn [nfx]. split; [apply IH; exact Hd|]. split; [exact nfx_error|exact I].
    - cbn [zex_of]. apply nfx_custom; exact Hd.
  Qed.

  Lemma clean_sepk (s : tk) l : clean_tk s = true -> Forall (fun x => forallb clean_tk x = true) l -> forallb clean_tk (sepk s l) = true.
  Proof.
    intros Hs. induction 1 as [|a r Ha Hr IH]; [reflexivity|]. destruct r as [|b r']; [exact Ha|].
    change (sepk s (a :: b :: r')) with (a ++ s :: sepk s (b :: r')). rewrite forallb_app, Ha. cbn [forallb]. rewrite Hs. exact IH.
  Qed.
  Lemma clean_pe : forall e, forallb clean_tk (pe e) = true.
  Proof.
    induction e as [n|q s|s|s|l IH|ps IH|r n oc IH|f0 targs args IHf IHa|e i|ps b|o e|e] using ex_ind2; try reflexivity.
    - cbn [pe forallb]. rewrite forallb_app. cbn [forallb clean_tk kp andb]. rewrite andb_true_r. apply clean_sepk; [reflexivity|].
      apply Forall_forall. intros x Hx. apply in_map_iff in Hx. destruct Hx as [y [<- Hy]]. rewrite Forall_forall in IH. apply IH; exact Hy.
    - cbn [pe forallb]. rewrite forallb_app. cbn [forallb clean_tk kp andb]. rewrite andb_true_r. apply clean_sepk; [reflexivity|].
      apply Forall_forall. intros x Hx. apply in_map_iff in Hx. destruct Hx as [p [<- Hp]]. rewrite Forall_forall in IH. unfold pprop.
      destruct (fst p) as [[k| |]|]; try reflexivity. cbn [forallb clean_tk kp andb]. apply IH; exact Hp.
    - destruct oc; [reflexivity|]. cbn [pe]. rewrite forallb_app, IH. reflexivity.
    - destruct targs; [|reflexivity]. cbn [pe]. rewrite forallb_app, IHf. cbn [forallb clean_tk kp andb]. rewrite forallb_app. cbn [forallb clean_tk kp andb]. rewrite andb_true_r.
      apply clean_sepk; [reflexivity|]. apply Forall_forall. intros x Hx. apply in_map_iff in Hx. destruct Hx as [y [<- Hy]]. rewrite Forall_forall in IHa. apply IHa; exact Hy.
  Qed.

  (* the string-level link for the schema builder *)
  Theorem parse_build : forall t key, dom t = true -> enest (zex_of m t key) < 64 ->
    parse_ex (zbuild m t key) = Some (zex_of m t key).
  Proof.
    intros t key Hd Hn. unfold parse_ex. rewrite (lexes_module B _ _ (LZ t Hd key) I).
    rewrite has_err_clean by apply clean_pe. rewrite pexpr_pe; [reflexivity|apply nfx_zex; exact Hd|exact Hn].
  Qed.
End WithMap.
