(* C01 entry points of the extracted oracle and model. Written to coq/tt_c01.ml. *)
From Coq Require Extraction ExtrOcamlBasic ExtrOcamlString.
From Coq Require Import List Ascii String.
Require Import TT.Model.Str TT.Model.Pipeline TT.Spec.TsLex TT.Spec.TsModule TT.Spec.TsObs TT.Spec.C01Wf TT.Spec.C01Lines TT.Model.C01Emit.
Import ListNotations.

(* the oracle alone: (accepted? (reasons..)) *)
(* the file text is first normalised for the ECMAScript line terminators U+2028 / U+2029 (Spec/C01Lines.v) *)
Definition c01_oracle (s0 : str) : sx := let s := ls_norm s0 in SL [sx_bool (c01_ok s); SL (map SA (c01_problems s))].

Definition hname (h : hclass) : sx :=
  sa (match h with HFn => "fn" | HTyName => "tyname" | HKey => "key" | HType => "type" | HStr _ => "str" | HZ => "zexpr" end).
Definition sx_bad (h : hclass * str) : sx :=
  SL [sa (match bad_class (fst h) (snd h) with Some c => c | None => "" end); hname (fst h); SA (snd h)].

(* one generated file against the model:
   (oracle-ok (reasons..) corr (leftover real tokens..) ((missing item tokens..)..) ((class hole-class text)..) lex-compositional
    n-real-tokens n-holes-used) *)
Definition c01_file (g : c_cfg) (ss : list c_struct) (cmds : list c_cmd) (evs : list c_event) (f : fname) (real0 : str) : sx :=
  let real := ls_norm real0 in
  let cf := gen_file g ss cmds evs f in
  let rt := lex_module real in
  let '(lft, missing, used) := match_file cf rt in
  let uc := List.concat used in
  SL [sx_bool (c01_ok real); SL (map SA (c01_problems real));
      (* a lexical error ends the real token stream: items after it cannot be compared *)
      sx_bool (match lft, missing with [], [] => true | [], _ => has_err rt | _, _ => false end);
      SL (map sx_tk (firstn 10 lft));
      SL (map (fun m => SL (map sx_tk (firstn 8 (fst m)))) missing);
      SL (map sx_bad (bad_holes uc));
      sx_bool (lex_compositional cf);
      SA (L (if Nat.leb 1 (List.length rt) then "nonempty" else "empty"));
      SL (map (fun h => hname (fst h)) (holes uc))].

(* hole predicate and class, for unit checks of the machinery from python *)
Definition c01_hole (cls : str) (s : str) : sx :=
  let h := if str_eqb cls (L "fn") then HFn else if str_eqb cls (L "tyname") then HTyName else if str_eqb cls (L "key") then HKey
           else if str_eqb cls (L "type") then HType else if str_eqb cls (L "str1") then HStr SQ else if str_eqb cls (L "str2") then HStr DQ else HZ in
  SL [sx_bool (hole_ok h s); sa (match bad_class h s with Some c => c | None => "" end)].

Extraction Language OCaml.
Extraction "tt_c01.ml" c01_oracle c01_file c01_hole.
