(* C19 entry points of the extracted model and of the run-time oracles. *)
From Coq Require Extraction ExtrOcamlBasic ExtrOcamlString.
From Coq Require Import String List Bool.
Require Import TT.Model.C19Config TT.Spec.C19Spec.

(* library level *)
Definition c19_save (c : config) (d : json) : json := save_doc c d.
Definition c19_load (f : fs) (p : string) : lres := from_tauri_config f p.
Definition c19_preserved (before after : json) : bool := preserved_b 40 before after.
Definition c19_roundtrip := roundtrip_lres_b.
Definition c19_kf_plugins_not_object := kf_plugins_not_object.
Definition c19_kf_root_array := kf_root_array.
Definition c19_kf_case_dropped := kf_case_dropped.
Definition c19_normalise := normalise.

(* command line level *)
Definition c19_generate (f : fs) (fl : flags) : result := run_generate f fl.
Definition c19_init (f : fs) (il : iflags) : result := run_init f il.
Definition c19_spec_eff := spec_eff.
Definition c19_spec_invalid (f : fs) (fl : flags) : bool := spec_invalid f (spec_eff f fl).
Definition c19_generate_ok := generate_ok_b.
Definition c19_init_ok := init_ok_b.
Definition c19_kf_file_invalid := kf_file_invalid.
Definition c19_kf_verbose_file_only := kf_verbose_file_only.
Definition c19_kf_init_writes_first := kf_init_writes_first.
Definition c19_init_target := init_target.
Definition c19_fs_get := fs_get.
Definition c19_norm := norm.
Definition c19_kf_number_misread := kf_number_misread.

Extraction Language OCaml.
Extraction "tt_c19.ml" c19_save c19_load c19_preserved c19_roundtrip c19_kf_plugins_not_object
  c19_kf_root_array c19_kf_case_dropped c19_normalise c19_generate c19_init c19_spec_eff
  c19_spec_invalid c19_generate_ok c19_init_ok c19_kf_file_invalid c19_kf_verbose_file_only
  c19_kf_init_writes_first c19_init_target c19_fs_get c19_norm c19_kf_number_misread.
