(* C19 entry points of the extracted model and of the run-time oracles. *)
From Coq Require Extraction ExtrOcamlBasic ExtrOcamlString.
From Coq Require Import String List Bool.
Require Import TT.Model.C19Config TT.Spec.C19Spec.

(* library level *)
Definition c19_save (c : config) (d : json) : option json := save_doc c d.
Definition c19_load (f : fs) (p : string) : lres := from_tauri_config f p.
Definition c19_preserved (before after : json) : bool := preserved_b 40 before after.
Definition c19_roundtrip := roundtrip_lres_b.
Definition c19_lib_ok := lib_ok_b.
Definition c19_saveable := saveable.
Definition c19_normalise := normalise.

(* command line level *)
Definition c19_generate (f : fs) (fl : flags) : result := run_generate f fl.
Definition c19_init (f : fs) (il : iflags) : result := run_init f il.
Definition c19_spec_eff := spec_eff.
Definition c19_spec_invalid (f : fs) (fl : flags) : bool := spec_invalid f (spec_eff f fl).
Definition c19_generate_ok := generate_ok_b.
Definition c19_init_ok := init_ok_b.
Definition c19_init_target := init_target.
Definition c19_fs_get := fs_get.
Definition c19_norm := norm.

(* standalone file and build-script loader *)
Definition c19_flat_json := flat_json.
Definition c19_from_flat := from_flat.
Definition c19_from_file := from_file.
Definition c19_flat_roundtrip := flat_roundtrip_b.
Definition c19_generate_c (f : fs) (fl : flags) (p : string) : result := run_generate_c f fl p.
Definition c19_generate_c_ok := generate_c_ok_b.
Definition c19_spec_eff_c := spec_eff_c.
Definition c19_build (f : fs) : result := run_build_detect f.
Definition c19_build_ok := build_ok_detect_b.
Definition c19_spec_eff_build := spec_eff_build_detect.
Definition c19_build_invalid := build_invalid_detect.
Definition c19_kf_build_fallback := kf_build_fallback_detect.

Definition c19_init_file (f : fs) (il : iflags) (force : bool) : result := run_init_file f il force.
Definition c19_init_file_ok := init_file_ok_b.
Definition c19_validate_ok (f : fs) (c : config) : bool := match validate f c with None => true | Some _ => false end.

Extraction Language OCaml.
Extraction "tt_c19.ml" c19_save c19_load c19_preserved c19_roundtrip c19_lib_ok
  c19_saveable c19_normalise c19_generate c19_init c19_spec_eff
  c19_spec_invalid c19_generate_ok c19_init_ok
  c19_init_target c19_fs_get c19_norm
  c19_flat_json c19_from_flat c19_from_file c19_flat_roundtrip c19_generate_c c19_generate_c_ok c19_spec_eff_c
  c19_build c19_build_ok c19_spec_eff_build c19_build_invalid c19_kf_build_fallback
  c19_init_file c19_init_file_ok c19_validate_ok.
