(* C08 entry points of the extracted model. *)
From Coq Require Extraction ExtrOcamlBasic ExtrOcamlString.
From Coq Require Import List Arith.
Require Import TT.Model.Str TT.Model.C08Fingerprint TT.Model.C08Run TT.Spec.C08TextSpec.

(* a scripted history from the empty output directory; presence = true is the faithful model (outputs_present in both callers) *)
Definition c08_trace (p : project) (c : config) (h : list hstep) : list hobs :=
  trace true (init_state p c, None) h.
(* partition test: do two (schedule, project, configuration) triples have the same fingerprint? *)
Definition c08_fp_eq (w1 : sched) (p1 : project) (c1 : config) (w2 : sched) (p2 : project) (c2 : config) : bool :=
  tree_eqb (fp w1 p1 c1) (fp w2 p2 c2).
Definition c08_files_eq (w1 : sched) (p1 : project) (c1 : config) (w2 : sched) (p2 : project) (c2 : config) : bool :=
  tree_eqb (TN (map snd (files w1 p1 c1))) (TN (map snd (files w2 p2 c2)))
  && Nat.eqb (length (files w1 p1 c1)) (length (files w2 p2 c2)).
Definition c08_oracle (r : cresult) (missing different : list fname) : bool := c08_ok r missing different.
Definition c08_valid_sched := valid_sched.
(* round 7: the text level against the files of the real tool *)
Definition c08_text_check := text_check.
Definition c08_events_check := events_check.

Extraction Language OCaml.
Extraction "tt_c08.ml" c08_trace c08_fp_eq c08_files_eq c08_oracle c08_valid_sched c08_text_check c08_events_check.
