(* C14 entry points of the extracted model. *)
From Coq Require Extraction ExtrOcamlBasic ExtrOcamlString.
From Coq Require Import List Arith Bool.
Require Import TT.Model.Str TT.Model.C08Fingerprint TT.Model.C08Run.

Definition c14_trace (p : project) (c : config) (h : list hstep) : list hobs :=
  trace true (init_state p c, None) h.
(* do two discovery orders give different fingerprints? (never, after the repair: C14_fp_order_independent) *)
Definition c14_order (w1 w2 : sched) (p : project) (c : config) : bool := negb (tree_eqb (fp w1 p c) (fp w2 p c)).
Definition c14_order_files (w1 w2 : sched) (p : project) (c : config) : bool :=
  negb (tree_eqb (fp_cmds nil (analyse w1 p)) (fp_cmds nil (analyse w2 p))).
Definition c14_valid_sched := valid_sched.
(* property predicates on what the implementation did *)
Definition c14_idem_ok (r : cresult) (rewritten : nat) : bool :=
  match r with UpToDate => Nat.eqb rewritten 0 | _ => false end.
Definition c14_force_ok (r : cresult) (all_rewritten : bool) : bool :=
  match r with Success => all_rewritten | _ => false end.

Extraction Language OCaml.
Extraction "tt_c14.ml" c14_trace c14_order c14_order_files c14_valid_sched c14_idem_ok c14_force_ok.
