(* C11 entry points of the extracted model and oracle. *)
From Coq Require Extraction ExtrOcamlBasic ExtrOcamlString.
From Coq Require Import List.
Require Import TT.Model.Str TT.Model.C11Validator TT.Spec.C11Spec.

(* model: one outcome per field of the struct; dispf = parse::<f64> then Display, supplied by the runner *)
Definition c11_model (dispf : str -> option str) (fs : list field) : list (outcome (option vattrs * str)) :=
  struct_chains dispf fs.
(* what the scanners are given: the token string of every attribute *)
Definition c11_tokens (f : field) : list (option (option str)) := map attr_view (f_attrs f).
(* oracle applied to a chain text (the implementation's) *)
Definition c11_ok (f : field) (chain : str) : bool := c11_field_ok f chain.
Definition c11_read (chain : str) : option schema := read_chain chain.
Definition c11_expected (f : field) : option (list cons) := expected f.
Definition c11_domain (f : field) : bool := in_domain f.
Definition c11_kf (dispf : str -> option str) (f : field) : list bool := kf_flags dispf f.

Extraction Language OCaml.
Extraction "tt_c11.ml" c11_model c11_tokens c11_ok c11_read c11_expected c11_domain c11_kf.
