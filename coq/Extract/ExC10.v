(* C10 entry points of the extracted model, specification and class predicates. Written to coq/tt_c10.ml. *)
From Coq Require Extraction ExtrOcamlBasic ExtrOcamlString.
From Coq Require Import List Arith.
Require Import TT.Model.Str TT.Model.TypeParse TT.Spec.TsLex TT.Spec.TsModule TT.Spec.TsObs.
Require Import TT.Spec.C10Shape TT.Model.C10Zod TT.Spec.C10Check.

Definition c10_project (p : proj) (plain_text zod_text : str) : sx := c10_project_sx p plain_text zod_text.
Definition c10_tcase (m : mapping) (t : tstruct) (opt with_enum with_unit : bool) (ct : tstruct) (fk pk ck lit : str) (extra : list cdef) : proj :=
  tcase_proj m t opt with_enum with_unit ct fk pk ck lit extra.
Definition c10_strings (m : mapping) (t : tstruct) : sx := c10_strings_sx m t.
Definition c10_string_oracle (a b c d : str) : sx := c10_string_oracle_sx a b c d.
Definition c10_in_dom (m : mapping) (t : tstruct) : bool := c10_dom m t.
Definition c10_allowed (t : tstruct) : sx := sx_tags (allowed_for_type t).
Definition c10_compare (a b : str) : sx := c10_compare_sx a b.
Definition c10_struct_of_rty (r : rty) : option tstruct := c10_structure r.

Extraction Language OCaml.
Extraction "tt_c10.ml" c10_project c10_tcase c10_strings c10_string_oracle c10_in_dom c10_allowed c10_struct_of_rty c10_compare.
