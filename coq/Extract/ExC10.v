(* C10 entry points of the extracted model, specification and class predicates. Written to coq/tt_c10.ml. *)
From Coq Require Extraction ExtrOcamlBasic ExtrOcamlString.
From Coq Require Import List Arith.
Require Import TT.Model.Str TT.Model.TypeParse TT.Spec.TsLex TT.Spec.TsModule TT.Spec.TsObs.
Require Import TT.Spec.C10Shape TT.Model.C10Zod TT.Spec.C10Check TT.Model.C10ZodText.
Import ListNotations.

Definition c10_project (p : proj) (plain_text zod_text : str) : sx := c10_project_sx p plain_text zod_text.
Definition c10_tcase (m : mapping) (t : tstruct) (opt with_enum with_unit : bool) (ct : tstruct) (fk pk ck lit : str) (extra : list cdef) : proj :=
  tcase_proj m t opt with_enum with_unit ct fk pk ck lit extra.
Definition c10_strings (m : mapping) (t : tstruct) : sx := c10_strings_sx m t.
Definition c10_string_oracle (a b c d : str) : sx := c10_string_oracle_sx a b c d.
Definition c10_in_dom (m : mapping) (t : tstruct) : bool := c10_dom m t.
Definition c10_allowed (t : tstruct) : sx := sx_tags (allowed_for_type t).
Definition c10_compare (a b : str) : sx := c10_compare_sx a b.
Definition c10_struct_of_rty (r : rty) : option tstruct := c10_structure r.

(* text level of the schema constants: (constant name, text of its initialiser) for every struct and every
   command with value parameters, as the two Zod templates print it (Model/C10ZodText.v) *)
Definition c10_schema_texts (p : proj) : sx :=
  SL (flat_map (fun d => match d with
                         | DStruct s => [SL [SA (schema_name (s_name s)); SA (struct_schema_text (p_map p) s)]]
                         | DEnum _ => [] end) (p_types p) ++
      flat_map (fun c => match c_params c with
                         | [] => []
                         | _ => [SL [SA (schema_name (params_name c)); SA (param_schema_text (p_map p) c)]] end) (p_cmds p)).

Extraction Language OCaml.
Extraction "tt_c10.ml" c10_project c10_tcase c10_strings c10_string_oracle c10_in_dom c10_allowed c10_struct_of_rty c10_compare c10_schema_texts.
