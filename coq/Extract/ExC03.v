(* C03 entry points of the extracted model, specification and oracle. *)
From Coq Require Extraction ExtrOcamlBasic ExtrOcamlString.
From Coq Require Import List Arith.
Require Import TT.Model.Str TT.Model.Pipeline TT.Model.C03Discover TT.Spec.C03Spec.
Import ListNotations.

Definition c03_layout_ok (l : layout) : bool := layout_ok l.
(* library level: the CommandInfo list (inside the model the analysis has no Err outcome
   any more: unreadable and unparsable files are skipped) *)
Definition c03_analyze (root : str) (l : layout) : list (str * str * str * bool) :=
  map (cmd_obs root) (analyze root l).
(* commands.ts level: (invoke name, canonical Promise type) per wrapper *)
Definition c03_wrappers (root : str) (l : layout) : list (str * str) :=
  canon_pairs (map wobs (emit (analyze root l))).
(* histories: per run (route, forced, tree), starting from an empty output directory:
   (invoke name, canonical Promise type) per wrapper after the run, and whether the run is in
   the recorded class C03-3 *)
Definition c03_history (root : str) (steps : list (bool * bool * layout)) : list (list (str * str) * bool) :=
  let mk := fun (x : bool * bool * layout) =>
    {| s_route := if fst (fst x) then RCli else RBuild; s_force := snd (fst x); s_tree := snd x |} in
  (fix go (st : option (list cmd)) (l : list step) : list (list (str * str) * bool) :=
     match l with
     | [] => []
     | s :: r => let st' := run_step root s st in
                 (canon_pairs (map wobs (commands_ts st')), stale_step root s st) :: go st' r
     end) None (map mk steps).
Definition c03_spec (l : layout) : list (str * str) := canon_pairs (map spec_obs (annotated_spec l)).
Definition c03_spec_files (l : layout) : list (list str) := map fst (annotated_spec l).
Definition c03_read (ts : str) : option (list wrapper_obs) := read_wrappers ts.
Definition c03_oracle (expected : list (str * str)) (obs : option (list wrapper_obs)) : bool := c03_ok expected obs.
Definition c03_perm (a b : list (str * str)) : bool := perm_b a b.

Extraction Language OCaml.
Extraction "tt_c03.ml" c03_layout_ok c03_history c03_analyze c03_wrappers c03_spec c03_spec_files
  c03_read c03_oracle c03_perm.
