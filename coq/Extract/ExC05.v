(* C05 (and C18) entry points of the extracted model, specification and class predicates. *)
From Coq Require Extraction ExtrOcamlBasic ExtrOcamlString.
From Coq Require Import List Arith.
Require Import TT.Model.C05TypeStr.
Require Import TT.Model.Str TT.Model.TypeParse TT.Model.C05Parse TT.Spec.TsType TT.Model.Render TT.Model.C05Emit.
Require Import TT.Spec.C05Spec TT.Spec.C05Known TT.Proofs.TypeParseProofs.

Definition c05_tts (t : rty) : str := tts t.
Definition c05_parse (s : str) : option tstruct := parse_type_structure2 s.
Definition c05_sem (t : rty) : tstruct := sem t.
Definition c05_is_optional (t : rty) : bool := is_optional t.
Definition c05_emit (s : site) (md : mode) (m : mapping) (t : rty) : option str := emit_type s md m t.
Definition c05_emit_str (s : site) (md : mode) (m : mapping) (opt : bool) (ty : str) : option str := emit_str s md m opt ty.
Definition c05_plain (m : mapping) (ts : tstruct) : str := render_m m ts.
Definition c05_prefix (s : str) : str := add_types_prefix s.
Definition c05_zvisit (m : mapping) (ts : tstruct) : str := zvisit m ts.
Definition c05_zbuild (m : mapping) (ts : tstruct) : str := zbuild m ts false.
Definition c05_observe (s : site) (md : mode) (text : str) : option tsty := observe (site_is_type s md) text.
Definition c05_expected (s : site) (m : mapping) (t : rty) : tsty := expected s m t.
Definition c05_oracle (s : site) (md : mode) (m : mapping) (t : rty) (text : str) : bool := c05_ok s md m t text.
Definition c05_classes (s : site) (md : mode) (m : mapping) (t : rty) : list kclass := classes_of s md m t.
Definition c05_dom (m : mapping) (t : rty) : bool := dom_m m t.
Definition c05_dom_plain (t : rty) : bool := dom_b t.
Definition c05_print (t : tsty) : list tok := pr t.
Definition c05_pr_cmd (t : xty) : str := pr_cmd t.
Definition c05_pr_struct (t : xty) : str := pr_struct t.
Definition c05_pr_chan (t : xty) : str := pr_chan t.

Extraction Language OCaml.
Extraction "tt_c05.ml" c05_tts c05_parse c05_sem c05_is_optional c05_emit c05_emit_str c05_plain c05_prefix
  c05_zvisit c05_zbuild c05_observe c05_expected c05_oracle c05_classes c05_dom c05_dom_plain c05_print
  c05_pr_cmd c05_pr_struct c05_pr_chan.
