(* C13 entry points of the extracted model and oracle. Written to coq/tt_c13.ml. *)
From Coq Require Extraction ExtrOcamlBasic ExtrOcamlString.
From Coq Require Import List Arith.
Require Import TT.Model.Base TT.Model.Str TT.Model.Topo TT.Model.C13Order.
Require Import TT.Spec.TsLex TT.Spec.TsModule TT.Spec.TsObs TT.Spec.C13Spec.
Import ListNotations.

(* the patched pipeline under hash orders w, and the pipeline run directly under w (no sorting: the
   behaviour before C13-sort-before-use, kept to explain a regression in a replay) *)
Definition c13_gen (zod : bool) (w : omega) (p : project) : option output := gen zod w p.
Definition c13_gen_raw (zod : bool) (w : omega) (p : project) : option output := gen_raw zod w p.
Definition c13_viz (w : omega) (p : project) : vizout := viz w p.
(* class flags: dupdef, dupevent *)
Definition c13_classes (p : project) : list bool := [kf_dupdef p; kf_dupevent p].
Definition c13_rel (a b : str) : verdict := rel a b.
Definition c13_labels (s : str) : sx := labels s.

Extraction Language OCaml.
Extraction "tt_c13.ml" c13_gen c13_gen_raw c13_viz c13_classes c13_rel c13_labels.
