(* C13 entry points of the extracted model and oracle. Written to coq/tt_c13.ml. *)
From Coq Require Extraction ExtrOcamlBasic ExtrOcamlString.
From Coq Require Import List Arith.
Require Import TT.Model.Base TT.Model.Str TT.Model.Topo TT.Model.C13Order.
Require Import TT.Spec.TsLex TT.Spec.TsModule TT.Spec.TsObs TT.Spec.C13Spec.
Require TT.Model.Pipeline TT.Model.PipelineZod.
Require Import TT.Model.C13Text.
Import ListNotations.

(* the patched pipeline under hash orders w, and the pipeline run directly under w (no sorting: the
   behaviour before C13-sort-before-use, kept to explain a regression in a replay) *)
Definition c13_gen (zod : bool) (w : omega) (p : project) : option output := gen zod w p.
Definition c13_gen_raw (zod : bool) (w : omega) (p : project) : option output := gen_raw zod w p.
Definition c13_viz (w : omega) (p : project) : vizout := viz w p.
(* class flags: dupdef, dupevent *)
Definition c13_classes (p : project) : list bool := [kf_dupdef p; kf_dupevent p].
Definition c13_rel (a b : str) : verdict := rel a b.
Definition c13_labels (s : str) : sx := labels s.


(* round 7, text level: the order-bearing lines of the two graph files as text (type names from a table:
   id n is the n-th name), the token blocks of a struct / a Params interface in plain types.ts and of a
   wrapper in plain commands.ts (Model/Pipeline.v through Model/C13Text.v), and the tokens of a generated
   file cut into blocks at the keyword export *)
Definition no_struct : Pipeline.struct_def := {| Pipeline.s_name := []; Pipeline.s_serde := []; Pipeline.s_fields := [] |}.
Definition no_fn : Pipeline.fn_def := {| Pipeline.fn_name := []; Pipeline.fn_attrs := []; Pipeline.fn_async := false; Pipeline.fn_params := []; Pipeline.fn_ret := None |}.
Definition c13_viz_text (names : list str) (w : omega) (p : project) : viz_text :=
  viz_text_of {| k_struct := fun _ => no_struct; k_cmd := fun _ => no_fn; k_event := fun _ => []; k_pay := fun _ => [];
                 k_type := fun n => nth (n - 1) names [] |} w p.
(* the blocks of types_blocks / commands_blocks for one output, given the content by tables *)
Definition c13_blocks (structs : list Pipeline.struct_def) (cmds : list Pipeline.fn_def) (o : output) : list (list sx) * list (list sx) :=
  let k := {| k_struct := fun b => nth b structs no_struct; k_cmd := fun c => nth (c - 1) cmds no_fn;
              k_event := fun _ => []; k_pay := fun _ => []; k_type := fun _ => [] |} in
  (map (map sx_tk) (types_blocks k o), map (map sx_tk) (commands_blocks k o)).
Definition c13_text_blocks (structs : list Pipeline.struct_def) (cmds : list Pipeline.fn_def) (zod : bool) (w : omega) (p : project)
  : option (list (list sx) * list (list sx)) :=
  match gen zod w p with Some o => Some (c13_blocks structs cmds o) | None => None end.
(* events.ts as text (Model/Events.v through Model/C13Text.v): event id n is the n-th name, payload id n the
   n-th Rust type (from 0) *)
Definition c13_events_text (evs pays : list str) (w : omega) (p : project) : option str :=
  let k := {| k_struct := fun _ => no_struct; k_cmd := fun _ => no_fn; k_event := fun e => nth (e - 1) evs [];
              k_pay := fun n => nth n pays []; k_type := fun _ => [] |} in
  match gen false w p with Some o => x_events (render_out k false o) | None => None end.
(* Zod mode: per struct of types.ts, in order, the token blocks of its schema text (export const NSchema = ..;
   export type N = ..;) *)
Definition c13_zod_blocks (structs : list Pipeline.struct_def) (w : omega) (p : project) : option (list (list (list sx))) :=
  let k := {| k_struct := fun b => nth b structs no_struct; k_cmd := fun _ => no_fn;
              k_event := fun _ => []; k_pay := fun _ => []; k_type := fun _ => [] |} in
  match gen true w p with
  | Some o => Some (map (fun s => map (map sx_tk) (tl (cut_export [] (lex_module (PipelineZod.struct_schema_text s))))) (o_structs k o))
  | None => None end.
Definition c13_file_blocks (s : str) : list (list sx) := map (map sx_tk) (cut_export [] (lex_module s)).

Extraction Language OCaml.
Extraction "tt_c13.ml" c13_gen c13_gen_raw c13_viz c13_classes c13_rel c13_labels c13_viz_text c13_text_blocks c13_file_blocks c13_events_text c13_zod_blocks.
