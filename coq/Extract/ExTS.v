(* Shared tool (not a property): the specification lexer/parser of generated TypeScript modules
   and the observation layer, extracted so that any check can read generated files back.
   Written to coq/tt_ts.ml. *)
From Coq Require Extraction ExtrOcamlBasic ExtrOcamlString.
From Coq Require Import List Ascii.
Require Import TT.Model.Str TT.Spec.TsLex TT.Spec.TsModule TT.Spec.TsObs.
Import ListNotations.

(* whole module as an s-expression: (items..) wrapped in an option *)
Definition ts_parse_sx (s : str) : sx := sx_module (parse_module s).
Definition ts_tokens_sx (s : str) : sx := SL (map sx_tk (lex_module s)).
(* summary: (parsed? (exports..) (duplicate exports..) (imported names..) (star imports (alias from)..)
   (re-exports..) (consts in order..) (wrappers..) (listeners..)) *)
Definition ts_summary_sx (s : str) : sx :=
  match parse_module s with
  | None => SL [sx_bool false]
  | Some m => SL [sx_bool true; SL (map SA (exports m)); SL (map SA (dups (exports m))); SL (map SA (imported_names m));
                  SL (map (fun p => SL [SA (fst p); SA (snd p)]) (star_imports m)); SL (map SA (reexports m));
                  SL (map SA (const_order m)); SL (map sx_wrapper (wrappers m)); SL (map sx_listener (listeners m))]
  end.

Extraction Language OCaml.
Extraction "tt_ts.ml" ts_parse_sx ts_tokens_sx ts_summary_sx.
