(* C17 entry points of the extracted model. *)
From Coq Require Extraction ExtrOcamlBasic ExtrOcamlString.
From Coq Require Import List Arith Bool.
Require Import TT.Model.Str TT.Model.C08Fingerprint TT.Model.C08Run.
Import ListNotations.

Definition c17_trace (p : project) (c : config) (h : list hstep) : list hobs :=
  trace true (init_state p c, None) h.
(* position of a file in the write plan (None: not written under these inputs) *)
Fixpoint index_of (f : fname) (l : list (fname * tree)) (n : nat) : option nat :=
  match l with [] => None | (g, _) :: r => if fname_eqb f g then Some n else index_of f r (S n) end.
Definition c17_fault_index (w : sched) (p : project) (c : config) (f : option fname) : option nat :=
  match f with
  | Some f => index_of f (files w p c) 0
  | None => Some (length (files w p c))          (* the cache record *)
  end.
(* the property predicate on the implementation's observations:
   binding = the failing write is one of the files of the plan (not the cache record);
   a failed binding write must be reported; a record that vouches for the current inputs after the
   faulty run must sit over current files; the recovery run succeeds and ends like a fresh generation *)
Definition c17_ok (binding : bool) (r_fault : cresult) (vouches_after_fault current_after_fault : bool)
                  (r_rec : cresult) (current_after_rec record_as_fresh : bool) : bool :=
  (if binding then match r_fault with Failure => true | _ => false end else true)
  && (if vouches_after_fault then current_after_fault else true)
  && match r_rec with Success | UpToDate => true | _ => false end
  && current_after_rec && record_as_fresh.

(* "at no point is the record newer than the files it vouches for": a run that reports failure has not written the
   record (C17_fault: s_cache st1 = s_cache st) *)
Definition c17_record_ok (r_fault : cresult) (record_rewritten : bool) : bool :=
  match r_fault with Failure => negb record_rewritten | _ => true end.

Extraction Language OCaml.
Extraction "tt_c17.ml" c17_trace c17_fault_index c17_ok c17_record_ok.
