(* C17 entry points of the extracted model. *)
From Coq Require Extraction ExtrOcamlBasic ExtrOcamlString.
From Coq Require Import List Arith Bool.
Require Import TT.Model.Str TT.Model.C08Fingerprint TT.Model.C08Run TT.Model.C17History TT.Model.C17Trunc.
Import ListNotations.

Definition c17_trace (p : project) (c : config) (h : list hstep) : list hobs :=
  trace true (init_state p c, None) h.
(* position of a file in the write plan (None: not written under these inputs) *)
Fixpoint index_of (f : fname) (l : list (fname * tree)) (n : nat) : option nat :=
  match l with [] => None | (g, _) :: r => if fname_eqb f g then Some n else index_of f r (S n) end.
Definition c17_fault_index (w : sched) (p : project) (c : config) (f : option fname) : option nat :=
  match f with
  | Some f => index_of f (files w p c) 0
  | None => Some (length (files w p c))          (* the cache record *)
  end.
(* the property predicate on the implementation's observations:
   binding = the failing write is one of the files of the plan (not the cache record);
   a failed binding write must be reported; a record that vouches for the current inputs after the
   faulty run must sit over current files; the recovery run succeeds and ends like a fresh generation *)
Definition c17_ok (binding : bool) (r_fault : cresult) (vouches_after_fault current_after_fault : bool)
                  (r_rec : cresult) (current_after_rec record_as_fresh : bool) : bool :=
  (if binding then match r_fault with Failure => true | _ => false end else true)
  && (if vouches_after_fault then current_after_fault else true)
  && match r_rec with Success | UpToDate => true | _ => false end
  && current_after_rec && record_as_fresh.

(* "at no point is the record newer than the files it vouches for": a run that reports failure has not written the
   record (C17_fault: s_cache st1 = s_cache st) *)
Definition c17_record_ok (r_fault : cresult) (record_rewritten : bool) : bool :=
  match r_fault with Failure => negb record_rewritten | _ => true end.

(* ---- faults after the open with the removal succeeding or failing (Model/C17Trunc.v) ----
   the state the model reaches after the steps h (same transitions as trace, observations dropped) *)
Fixpoint c17_state_after (st : cstate) (h : list hstep) : cstate :=
  match h with
  | [] => st
  | HSet p c :: h' => c17_state_after {| s_src := p; s_cfg := c; s_out := s_out st; s_cache := s_cache st |} h'
  | HDelete f :: h' => c17_state_after (step_c true st (Delete _ _ _ _ f)) h'
  | HDropCache :: h' => c17_state_after (step_c true st (DropCache _ _ _ _)) h'
  | HCorrupt f :: h' =>
      c17_state_after {| s_src := s_src st; s_cfg := s_cfg st;
                         s_out := upd fname tree fname_eqb (s_out st) f (Some (TN [TN []])); s_cache := s_cache st |} h'
  | HRun w flag fault :: h' => c17_state_after (snd (run_c true w flag fault st)) h'
  end.

Record post_obs := { po_class : bool;          (* kf_C17_rmfail on the state before the faulty run *)
                     po_fault : cresult;       (* result of the faulty run (run17_c, FPost k n rm_ok) *)
                     po_left : bool;           (* something is left under the name of the file whose write failed *)
                     po_left_complete : bool;  (* ... and it is the complete content *)
                     po_vouches : bool;        (* a non-forced run would answer up to date *)
                     po_recovery : cresult;    (* the next non-forced run, after the steps h2 *)
                     po_current : bool }.      (* everything current after it *)

Definition c17_post (p : project) (c : config) (h : list hstep) (w : sched) (flag : bool) (k n : nat) (rm_ok : bool)
                    (h2 : list hstep) : post_obs :=
  let st := c17_state_after (init_state p c) h in
  let ft := FPost k n rm_ok in
  let r1 := run17_c w flag (Some ft) st in
  let st2 := c17_state_after (snd r1) h2 in
  let r2 := run_c true w false None st2 in
  let tgt := nth_error (files w (s_src st) (s_cfg st)) k in
  {| po_class := kf_C17_rmfail w ft st;
     po_fault := fst r1;
     po_left := match tgt with Some (f, _) => match s_out (snd r1) f with Some _ => true | None => false end | None => false end;
     po_left_complete := match tgt with
                         | Some (f, x) => match s_out (snd r1) f with Some y => tree_eqb x y | None => false end
                         | None => false end;
     po_vouches := cache_hit_c true w st2;
     po_recovery := fst r2;
     po_current := all_current w (snd r2) |}.

Extraction Language OCaml.
Extraction "tt_c17.ml" c17_trace c17_fault_index c17_ok c17_record_ok c17_post.
