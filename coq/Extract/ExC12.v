(* C12 entry points of the extracted model, specification and oracle. Written to coq/tt_c12.ml. *)
From Coq Require Extraction ExtrOcamlBasic ExtrOcamlString.
From Coq Require Import List Ascii String.
Require Import TT.Model.Str TT.Spec.TsLex TT.Spec.TsModule TT.Spec.TsObs TT.Model.Pipeline TT.Model.Events TT.Spec.C12Spec TT.Spec.C12Uni.
Import ListNotations.

(* token stream cut before every `export`: the header chunk, then one chunk per listener *)
Fixpoint chunks_go (cur : list tk) (l : list tk) : list (list tk) :=
  match l with
  | [] => [rev cur]
  | t :: r => if tk_is "export" t then rev cur :: chunks_go [t] r else chunks_go (t :: cur) r
  end.
Definition chunks (s : str) : list (list tk) := chunks_go [] (lex_module s).
Definition sx_chunks (o : option str) : sx :=
  sx_opt (fun s => SL (map (fun c => SL (map sx_tk c)) (chunks s))) o.
Definition sx_evs (l : evs) : sx := SL (map (fun e => SL [SA (fst e); SA (snd e)]) l).
Definition sx_complaints (p : project) (l : list complaint) : sx :=
  SL (map (fun c => SL [SA (fst c); SA (snd c); sx_bool (explained p c)]) l).

(* (in-domain (classes..) (model events per file..) (model: generated chunks reexport)
    (impl: chunks reexport) (complaints about the implementation's files) (complaints about the model's files)
    (spec: (name expected-type)..)) *)
Definition c12_run (p : project) (events_ts index_ts : option str) : sx :=
  let m := generate p in
  let ss := project_sites p in
  let m_index := if o_index_reexports_events m then Some (L "export * from './events';") else Some [] in
  SL [ sx_bool (in_domain p);
       SL (map SA (classes_of p));
       SL (map (fun f => sx_evs (file_events f)) (p_files p));
       SL [sx_bool (o_generated m); sx_chunks (o_events_ts m); sx_bool (o_index_reexports_events m)];
       SL [sx_chunks events_ts; sx_opt sx_bool (reexports_events index_ts)];
       sx_complaints p (oracle_u (p_mappings p) ss events_ts index_ts);   (* oracle_m + ECMAScript identifier code points *)
       sx_complaints p (oracle_m (p_mappings p) ss (o_events_ts m) (if o_generated m then m_index else None));
       SL (map (fun s => SL [SA (s_name s); sx_ty (expected_payload_m (p_mappings p) (s_payload s) (s_env s))]) ss);
       SL (map (fun f => SL (map (fun e => SL [SA (fst e); SA (payload_ts (snd e))]) (map_events (p_mappings p) (file_events f)))) (p_files p)) ].

Extraction Language OCaml.
Extraction "tt_c12.ml" c12_run.
