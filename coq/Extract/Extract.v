(* Extraction of the executable model and the boolean checkers to OCaml.
   Only ExtrOcamlBasic and ExtrOcamlString directives are used. *)
From Coq Require Import List Arith String Ascii.
From Coq Require Extraction ExtrOcamlBasic ExtrOcamlString.
Require Import TT.Model.Base TT.Model.Topo TT.Model.Kahn TT.Spec.P20.
Extraction Language OCaml.

(* C20, nodes are natural numbers *)
Definition c20_topo (g : Topo.graph nat) (req : list nat) : option (list nat) :=
  topo_sort (S (List.length (universe g req))) g req.
Definition c20_topo_ok (g : Topo.graph nat) (req out : list nat) : bool := topo_ok_b g req out.
Definition c20_kahn (order : list nat) (deps : list (nat * nat)) : Kahn.kres nat := kahn order deps.
Definition c20_kahn_ok (ns : list nat) (deps : list (nat * nat)) (res : option (list nat)) : bool :=
  kahn_ok_b ns deps res.

Extraction "tt_model.ml" c20_topo c20_topo_ok c20_kahn c20_kahn_ok.
