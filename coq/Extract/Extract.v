(* Extraction of the executable model and the boolean checkers to OCaml.
   Only the directives of ExtrOcamlBasic and ExtrOcamlString are used.
   Each Ex*.v file defines the entry points of one group of properties;
   the single Extraction command below lists them all. *)
From Coq Require Extraction ExtrOcamlBasic ExtrOcamlString.
Require Import TT.Extract.ExC20.
Extraction Language OCaml.

Extraction "tt_model.ml"
  c20_topo c20_topo_ok c20_kahn c20_kahn_ok.
