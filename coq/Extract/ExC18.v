(* C18 entry points of the extracted model, specification and class predicates. *)
From Coq Require Extraction ExtrOcamlBasic ExtrOcamlString.
From Coq Require Import List Arith.
Require Import TT.Model.Str TT.Model.TypeParse TT.Model.C05Emit TT.Spec.C05Spec TT.Spec.C18Spec TT.Spec.C18Known.
Require Import TT.Model.C18Decl.

Definition c18_tts (t : rty) : str := tts t.
Definition c18_emit (s : site) (md : mode) (m : mapping) (t : rty) : option str := emit_type s md m t.
Definition c18_oracle (s : site) (md : mode) (m : mapping) (t : rty) (with_text without_text : str) : bool :=
  c18_full_ok s md m t with_text without_text.
Definition c18_abs (s : site) (md : mode) (m : mapping) (t : rty) (with_text : str) : bool := c18_abs_ok s md m t with_text.
Definition c18_dom (m : mapping) (t : rty) : bool := dom_m m t.
Definition c18_mentions (m : mapping) (t : rty) : bool := mentions m t.

(* the declaration model: names types.ts exports for project types under a table, the clause, the class C18-4 *)
Definition c18_declared (zod : bool) (m : mapping) (all : list (str * list rty)) (sites : list rty) : list str :=
  declared_ts zod m (mk_all all) (structs_of sites).
Definition c18_decl_oracle (m : mapping) (names : list str) : bool := c18_decl_ok m names.
Definition c18_decl_frame (with_table without_table : list str) : bool := c18_decl_frame_ok with_table without_table.
Definition c18_decl_class (m : mapping) (all : list (str * list rty)) : bool := kf18_own_name_mapped m (mk_all all).

Extraction Language OCaml.
Extraction "tt_c18.ml" c18_tts c18_emit c18_oracle c18_abs c18_dom c18_mentions c18_declared c18_decl_oracle c18_decl_frame c18_decl_class.
