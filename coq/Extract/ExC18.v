(* C18 entry points of the extracted model, specification and class predicates. *)
From Coq Require Extraction ExtrOcamlBasic ExtrOcamlString.
From Coq Require Import List Arith.
Require Import TT.Model.Str TT.Model.TypeParse TT.Model.C05Emit TT.Spec.C05Spec TT.Spec.C18Spec TT.Spec.C18Known.

Definition c18_tts (t : rty) : str := tts t.
Definition c18_emit (s : site) (md : mode) (m : mapping) (t : rty) : option str := emit_type s md m t.
Definition c18_oracle (s : site) (md : mode) (m : mapping) (t : rty) (with_text without_text : str) : bool :=
  c18_full_ok s md m t with_text without_text.
Definition c18_abs (s : site) (md : mode) (m : mapping) (t : rty) (with_text : str) : bool := c18_abs_ok s md m t with_text.
Definition c18_dom (m : mapping) (t : rty) : bool := dom_m m t.
Definition c18_mentions (m : mapping) (t : rty) : bool := mentions m t.

Extraction Language OCaml.
Extraction "tt_c18.ml" c18_tts c18_emit c18_oracle c18_abs c18_dom c18_mentions.
