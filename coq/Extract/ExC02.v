(* C02 entry points of the extracted model and oracle. Written to coq/tt_c02.ml. *)
From Coq Require Extraction ExtrOcamlBasic ExtrOcamlString.
From Coq Require Import List Ascii String.
Require Import TT.Model.Str TT.Model.C07TypeParse TT.Model.Pipeline TT.Spec.TsLex TT.Spec.TsModule TT.Spec.TsObs.
Require Import TT.Spec.C02Closed TT.Model.C02Model TT.Spec.C02Domain TT.Model.C02Reuse.
Import ListNotations.

Definition sx_ref (r : ref) : sx :=
  match r with Bare n => SA n | Qual a x => SA (a ++ L "." ++ x)%list end.
Definition nonbuiltin (r : ref) : bool := match r with Bare n => negb (mem n builtins) | Qual _ _ => true end.
Definition sx_msum (m : msum) : sx :=
  SL [SL (map SA (ms_exports m)); SL (map SA (ms_imports m));
      SL (map (fun p => SL [SA (fst p); SA (snd p)]) (ms_star m)); SL (map SA (ms_reexports m));
      SL (map sx_ref (filter nonbuiltin (ms_refs m)))].
Definition sx_fobs (f : fobs) : sx :=
  match f with Absent => SL [sa "absent"] | Unparsed => SL [sa "unparsed"] | Parsed m => SL [sa "parsed"; sx_msum m] end.
Definition fobs_unresolved (tex : list str) (f : fobs) : sx :=
  match f with Parsed m => SL (map sx_ref (unresolved tex m)) | _ => SL [] end.
Definition fobs_dups (f : fobs) : sx := match f with Parsed m => SL (map SA (dups (ms_exports m))) | _ => SL [] end.

(* (files closed nodup (unresolved per file) (dups per file) index-ambiguous import-decl-conflicts) *)
Definition sx_report (fs : files) : sx :=
  let tex := fobs_exports (f_types fs) in
  SL [SL [sx_fobs (f_types fs); sx_fobs (f_commands fs); sx_fobs (f_events fs); sx_fobs (f_index fs)];
      sx_bool (closed_b fs); sx_bool (nodup_b fs);
      SL [fobs_unresolved tex (f_types fs); fobs_unresolved tex (f_commands fs); fobs_unresolved tex (f_events fs); fobs_unresolved tex (f_index fs)];
      SL [fobs_dups (f_types fs); fobs_dups (f_commands fs); fobs_dups (f_events fs); fobs_dups (f_index fs)];
      SL (map SA (index_ambiguous fs));
      SL (map SA (import_decl_conflicts (f_types fs) ++ import_decl_conflicts (f_commands fs) ++ import_decl_conflicts (f_events fs)))].

(* the oracle on the implementation's files (None = file not written) *)
Definition c02_judge (types commands events index : option str) : sx :=
  sx_report {| f_types := read_file types; f_commands := read_file commands; f_events := read_file events; f_index := read_file index |}.

(* the model: (wf closed_world broken (kf flags) refs_declared report) *)
Definition c02_model (p : proj) (zod : bool) : sx :=
  SL [sx_bool (wf p); sx_bool (closed_world p); sx_bool (broken p);
      SL [sx_bool (kf_prefix p); sx_bool (kf_event_head p); sx_bool (kf_dup_listener p); sx_bool (kf_collision p zod)];
      sx_bool (refs_declared p);
      sx_report (gen p zod);
      SL (map SA (used p)); SL (map SA (discovered p)); sx_bool (dom p)].

(* add_types_prefix on one Rust type string: (text-level result of add_types_prefix2,
   shape-level refs, refs of the parsed text-level result) for the small-scope enumeration *)
Definition c02_atp (rust : str) (real : str) : sx :=
  let t := pts rust in
  let shape := atp_refs [] t in
  let parsed := match ptype (lex_module real) with
                | Some (ty, []) => Some (flat_map (path_ref [L "types"]) (ty_refs ty))
                | _ => None end in
  SL [SA (add_types_prefix2 (render7 t));
      sx_opt (fun l => SL (map sx_ref l)) shape;
      sx_opt (fun l => SL (map sx_ref l)) parsed;
      sx_bool (garbage [] t)].

(* one analyzer reused over the rounds of a history (Model/C02Reuse.v): the class flag of C02-9 and, per
   round, the report of the view of the accumulated state, the decidable premise fresh_ok and the
   sizes of the state *)
Fixpoint reuse_rounds (st : astate) (h : list rinput) (zod : bool) : list sx :=
  match h with
  | [] => []
  | r :: t => let st' := step st r in
              SL [c02_model (view st' (ri_maps r)) zod; sx_bool (fresh_ok st st' (ri_maps r));
                  SL (map (fun e => SA (fst e)) (st_structs st'))] :: reuse_rounds st' t zod
  end.
Definition c02_reuse (h : list rinput) (zod : bool) : sx :=
  SL [sx_bool (kf_reuse_maps h); SL (reuse_rounds st0 h zod)].

Extraction Language OCaml.
Extraction "tt_c02.ml" c02_judge c02_model c02_atp c02_reuse.
