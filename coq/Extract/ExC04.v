(* C04 entry points of the extracted model, specification, class predicates and observation. *)
From Coq Require Extraction ExtrOcamlBasic ExtrOcamlString.
From Coq Require Import List Ascii String.
Require Import TT.Model.Str TT.Spec.TsLex TT.Model.C04Case TT.Model.C04Model TT.Spec.C04TauriCase TT.Spec.C04Obs.
Import ListNotations.

Definition c04_cmd (name : str) (macro : option str) (ps : list (str * cty * ppat)) : cmd :=
  {| c_name := name; c_macro_case := macro;
     c_params := map (fun p => {| p_name := fst (fst p); p_ty := abs_ty (snd (fst p)); p_pat := snd p |}) ps |}.
Definition c04_cfg (default_case : str) : cfg := {| default_case := default_case |}.

Inductive keyres := KPanic | KDangling | KObsErr (e : obs_err) | KKeys (l : list entry).
Definition c04_model (cf : cfg) (zod : bool) (c : cmd) : keyres :=
  match generate cf (if zod then Zod else Plain) c with
  | Panic => KPanic
  | Ok g => match invoke_keys g with Some l => KKeys l | None => KDangling end
  end.
Definition c04_observe (types_ts commands_ts name : str) : keyres :=
  match observe types_ts commands_ts name with
  | ObsErr e => KObsErr e
  | ObsGen g => match invoke_keys g with Some l => KKeys l | None => KDangling end
  end.

Definition c04_keys_ok := keys_ok.
Definition c04_optional_ok := optional_ok.
Definition c04_zod_src_ok := zod_src_ok.
Definition c04_modes_ok := modes_ok.
Definition c04_spec_keys := spec_keys.
Definition c04_dom (cf : cfg) (c : cmd) : bool := cfg_dom cf && cmd_dom c.
(* membership in each recorded class, in the order of known_findings/C04.json *)
Definition c04_classes (cf : cfg) (c : cmd) : list bool :=
  [kf_bare_window c; kf_macro_case cf c; kf_underscore_name cf c; kf_pattern c].
Definition c04_tauri_camel := tauri_camel.
Definition c04_tauri_snake := tauri_snake.

(* project level *)
Definition c04_fn (name : str) (is_command : bool) (macro : option str) (ps : list (str * cty * ppat)) : fn_item :=
  {| f_cmd := c04_cmd name macro ps; f_is_command := is_command |}.
Definition c04_commands (f : file) : list cmd := commands_of f.
Definition c04_cmd_name (c : cmd) : str := c_name c.
Definition c04_model_in (cf : cfg) (zod : bool) (f : file) (c : cmd) : keyres :=
  match generate_in cf (if zod then Zod else Plain) f c with
  | Panic => KPanic
  | Ok g => match invoke_keys g with Some l => KKeys l | None => KDangling end
  end.
Definition c04_project_dom (cf : cfg) (p : project) : bool := cfg_dom cf && project_dom p.

Extraction Language OCaml.
Extraction "tt_c04.ml" c04_cmd c04_cfg c04_model c04_observe c04_keys_ok c04_optional_ok c04_zod_src_ok
  c04_modes_ok c04_spec_keys c04_dom c04_classes c04_tauri_camel c04_tauri_snake
  c04_fn c04_commands c04_cmd_name c04_model_in c04_project_dom.
