(* C06 entry points of the extracted model, specification, classes and the types.ts reader. *)
From Coq Require Extraction ExtrOcamlBasic ExtrOcamlString.
From Coq Require Import List Arith.
Require Import TT.Model.Str TT.Model.C06Serde TT.Spec.C06SerdeRule TT.Spec.C06Keys.

Definition c06_group_string (g : group) : str := group_string g.
Definition c06_cgroup_string (g : list cmeta) : str := cgroup_string g.
Definition c06_model (dfc : str) (c : container) : list str := emitted_keys dfc c.
Definition c06_model_raw (dfc : str) (k : kind) (ctoks : list str) (items : list (str * list str)) : list str :=
  emitted_keys_raw dfc k ctoks items.
Definition c06_spec (c : container) : list str := serde_wire_names c.
Definition c06_oracle (c : container) (observed : list str) : bool := c06_ok c observed.
Definition c06_in_domain (c : container) : bool := in_domain c.
Definition c06_classes (dfc : str) (c : container) : list bool :=
  (kf_skip_text c :: kf_skip_beside c :: kf_rename_escape c :: kf_rename_text c :: kf_config_case dfc c :: nil)%list.
Definition c06_read_keys (n : str) (file : str) : option (list decl_obs) := read_keys n file.

Extraction Language OCaml.
Extraction "tt_c06.ml" c06_group_string c06_cgroup_string c06_model c06_model_raw c06_spec c06_oracle c06_in_domain c06_classes c06_read_keys.
