(* C06 entry points of the extracted model, specification, classes and the types.ts reader. *)
From Coq Require Extraction ExtrOcamlBasic ExtrOcamlString.
From Coq Require Import List Arith.
Require Import TT.Model.Str TT.Model.C06Serde TT.Spec.C06SerdeRule TT.Spec.C06Keys TT.Model.C06Print.

Definition c06_group_string (g : group) : str := group_string g.
Definition c06_cgroup_string (g : list cmeta) : str := cgroup_string g.
Definition c06_model (dfc : str) (c : container) : list str := emitted_keys dfc c.
Definition c06_model_raw (dfc : str) (k : kind) (ctoks : list str) (items : list (str * list str)) : list str :=
  emitted_keys_raw dfc k ctoks items.
Definition c06_spec (c : container) : list str := serde_wire_names c.
Definition c06_oracle (c : container) (observed : list str) : bool := c06_ok c observed.
Definition c06_in_domain (c : container) : bool := in_domain c.
Definition c06_classes (dfc : str) (c : container) : list bool :=
  (kf_skip_text c :: kf_skip_beside c :: kf_rename_escape c :: kf_rename_text c :: kf_config_case dfc c :: nil)%list.
Definition c06_read_keys (n : str) (file : str) : option (list decl_obs) := read_keys n file.

(* deepening round 7: the declaration texts of Model/C06Print.v (compared with the real types.ts on every case) *)
Definition c06_mk_member (x : str * (bool * (bool * str))) : member :=
  {| m_name := fst x; m_bare := fst (snd x); m_opt := fst (snd (snd x)); m_value := snd (snd (snd x)) |}.
Definition c06_interface_text (n : str) (ms : list (str * (bool * (bool * str)))) : str := interface_text n (map c06_mk_member ms).
Definition c06_zobject_text (n : str) (ms : list (str * (bool * (bool * str)))) : str := zobject_text n (map c06_mk_member ms).
Definition c06_alias_text (n : str) (names : list str) : str := alias_text n names.
Definition c06_zenum_text (n : str) (names : list str) : str := zenum_text n names.
Definition c06_lex (s : str) : list TT.Spec.TsLex.tk := TT.Spec.TsLex.lex_module s.

Extraction Language OCaml.
Extraction "tt_c06.ml" c06_group_string c06_cgroup_string c06_model c06_model_raw c06_spec c06_oracle c06_in_domain c06_classes c06_read_keys c06_interface_text c06_zobject_text c06_alias_text c06_zenum_text c06_lex.
