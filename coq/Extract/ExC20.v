(* C20 entry points of the extracted model (nodes are natural numbers). *)
From Coq Require Extraction ExtrOcamlBasic ExtrOcamlString.
From Coq Require Import List Arith.
Require Import TT.Model.Base TT.Model.Topo TT.Model.Kahn TT.Model.C20Resolver TT.Spec.P20 TT.Spec.P20Hist.

Definition c20_topo (g : Topo.graph nat) (req : list nat) : option (list nat) :=
  topo_sort (S (length (universe g req))) g req.
Definition c20_topo_ok (g : Topo.graph nat) (req out : list nat) : bool := topo_ok_b g req out.
Definition c20_kahn (order : list nat) (deps : list (nat * nat)) : Kahn.kres nat := kahn order deps.
Definition c20_kahn_ok (ns : list nat) (deps : list (nat * nat)) (res : option (list nat)) : bool :=
  kahn_ok_b ns deps res.

(* histories: the resolver model enumerates the node set in insertion order (any enumeration gives
   the same Ok/Err, C20_kahn_ok_iff); the graph model traverses sets in ascending numeric order,
   which is the sorted name order of the implementation for the two-digit node names used *)
Fixpoint insert_sorted (x : nat) (l : list nat) : list nat :=
  match l with
  | nil => cons x nil
  | cons y l' => if Nat.leb x y then cons x l else cons y (insert_sorted x l')
  end.
Definition sort_nat (l : list nat) : list nat := fold_right insert_sorted nil l.
Definition c20_hist (ops : list (rop nat)) : list (Kahn.kres nat) := rrun (fun l => l) rinit ops.
Definition c20_hist_ok (ops : list (rop nat)) (outs : list (option (list nat))) : bool := hist_ok_b rinit ops outs.
Definition c20_ghist (ops : list (gop nat)) : list (option (list nat)) := grun sort_nat nil ops.
Definition c20_ghist_ok (ops : list (gop nat)) (outs : list (list nat)) : bool := ghist_ok_b nil ops outs.

(* Extraction of this property's entry points: only the directives of
   ExtrOcamlBasic and ExtrOcamlString are in force. Written to coq/tt_c20.ml. *)
Extraction Language OCaml.
Extraction "tt_c20.ml" c20_topo c20_topo_ok c20_kahn c20_kahn_ok c20_hist c20_hist_ok c20_ghist c20_ghist_ok.
