(* C20 entry points of the extracted model (nodes are natural numbers). *)
From Coq Require Extraction ExtrOcamlBasic ExtrOcamlString.
From Coq Require Import List Arith.
Require Import TT.Model.Base TT.Model.Topo TT.Model.Kahn TT.Spec.P20.

Definition c20_topo (g : Topo.graph nat) (req : list nat) : option (list nat) :=
  topo_sort (S (length (universe g req))) g req.
Definition c20_topo_ok (g : Topo.graph nat) (req out : list nat) : bool := topo_ok_b g req out.
Definition c20_kahn (order : list nat) (deps : list (nat * nat)) : Kahn.kres nat := kahn order deps.
Definition c20_kahn_ok (ns : list nat) (deps : list (nat * nat)) (res : option (list nat)) : bool :=
  kahn_ok_b ns deps res.

(* Extraction of this property's entry points: only the directives of
   ExtrOcamlBasic and ExtrOcamlString are in force. Written to coq/tt_c20.ml. *)
Extraction Language OCaml.
Extraction "tt_c20.ml" c20_topo c20_topo_ok c20_kahn c20_kahn_ok.
