(* C16 entry points of the extracted model. *)
From Coq Require Extraction ExtrOcamlBasic ExtrOcamlString.
From Coq Require Import List Bool.
Require Import TT.Model.Str TT.Model.C16Fs TT.Spec.C16Reserved.
Import ListNotations.

(* a history: for every run its outcome and the file system after it *)
Fixpoint c16_steps (s : fs) (runs : list run) : list (outcome * fs) :=
  match runs with
  | [] => []
  | r :: rest => let '(s', o) := exec r s in (o, s') :: c16_steps s' rest
  end.

(* the oracle on an observed change set, the offending paths, and the name predicates *)
Definition c16_ok (out proj : path) (tgt : option path) (changed new_dirs gone_dirs : list path) : bool :=
  c16_ok_b out proj tgt changed new_dirs gone_dirs.
Definition c16_bad (out proj : path) (tgt : option path) (changed : list path) : list path :=
  c16_offending out proj tgt changed.
Definition c16_reserved_name (n : str) : bool := reserved_name_b n.
Definition c16_is_generated (managed : list str) (n : str) : bool := is_generated_file managed n.
Definition c16_probe_path (out : path) : path := out ++ [n_probe].

(* runner/glue.ml (shared) refers to the extracted type nat; this keeps it in the module *)
Definition c16_depth (p : path) : nat := length p.

Extraction Language OCaml.
Extraction "tt_c16.ml" c16_steps c16_ok c16_bad c16_reserved_name c16_is_generated c16_probe_path c16_depth.
