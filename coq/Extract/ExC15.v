(* C15 entry points of the extracted model. *)
From Coq Require Extraction ExtrOcamlBasic ExtrOcamlString.
From Coq Require Import List Arith Ascii.
Require Import TT.Model.C15Utf8 TT.Model.C15Funs.

Definition c15_utf8 (s : str) : bool := utf8 s.
Definition c15_validator (tokens : str) : outcome vattrs := validator_b tokens.
Definition c15_serde (tokens : str) : outcome sattrs := serde_b tokens.
Definition c15_rule_of_str (s : str) : option rule := rule_of_str s.
Definition c15_parse (s : str) : outcome tstruct := parse_type_structure_b s.
Definition c15_names (s : str) : outcome (list str) := names_b s.
Definition c15_prefix (s : str) : outcome str := prefix_b s.
Definition c15_apply (r : rule) (s : str) : outcome str := naming_b r s.
Definition c15_default_case (configured s : str) : outcome str := default_case_b configured s.
Definition c15_event_fn (s : str) : outcome str := event_fn_b s.
Definition c15_variant (r : rule) (s : str) : outcome str := variant_b r s.
Definition c15_emit_select (emit_to : bool) (n : nat) : outcome (option (nat * nat)) := emit_select emit_to (seq 0 n).
Definition c15_attr_is_command (leading : bool) (segs : list str) : outcome bool := attr_is_command_b leading segs.
Definition c15_tauri_param (segs : list str) : outcome bool := tauri_param_plain_b segs.
(* the property's predicate on an observed outcome: the function returned *)
Definition c15_no_panic {A} (o : outcome A) : bool := returned o.

Extraction Language OCaml.
Extraction "tt_c15.ml" c15_utf8 c15_validator c15_serde c15_rule_of_str c15_parse c15_names c15_prefix
  c15_apply c15_default_case c15_event_fn c15_variant c15_emit_select c15_attr_is_command c15_tauri_param c15_no_panic.
