(* C09 entry points of the extracted model, observation and oracle. Written to coq/tt_c09.ml. *)
From Coq Require Extraction ExtrOcamlBasic ExtrOcamlString.
From Coq Require Import List Arith Ascii.
Require Import TT.Model.Str TT.Model.C07TypeParse TT.Model.C07Harvest TT.Model.C07Reach.
Require Import TT.Spec.TsLex TT.Spec.TsModule TT.Spec.TsObs TT.Spec.C07Spec TT.Spec.C09Spec TT.Model.C09Module TT.Spec.C09ModuleSpec.
Import ListNotations.

Definition sx_names (l : list str) : sx := SL (map SA l).
(* per run: (structs-in-order decl_before_use corr parsed sorted-order-reproduced whole-module-constants-reproduced) *)
Definition c09_run (m : list (str * str)) (p : project) (text : str) : sx :=
  let ob := observe_zod_order text in
  SL [sx_names (c_structs ob); sx_bool (c_ok ob); sx_bool (c09_corr m p ob); sx_bool (c_parsed ob); sx_bool (c09_sorted_order p ob);
      sx_bool (c09_module_corr m p text)].
(* (in_domain spec_acyclic kf_result_alias edges_recorded agree model-order? (run ...)) *)
Definition c09_eval (p : project) (texts : list str) (m : list (str * str)) : sx :=
  SL [sx_bool (in_domain p); sx_bool (spec_acyclic p); sx_bool false;
      sx_bool (edges_recorded_b p && no_params_suffix p); sx_bool (agree_b p);
      sx_opt sx_names (emitted_zod o_default p);
      SL (map (c09_run m p) texts)].

(* large instances: the path-counting acyclicity test of the specification is skipped (the generator builds
   chains, ladders and fans that are acyclic by construction) *)
Definition c09_eval_deep (p : project) (texts : list str) (m : list (str * str)) : sx :=
  SL [sx_bool (in_domain p); sx_bool true; sx_bool false;
      sx_bool (edges_recorded_b p && no_params_suffix p); sx_bool (agree_b p);
      sx_opt sx_names (emitted_zod o_default p);
      SL (map (c09_run m p) texts)].

Extraction Language OCaml.
Definition c07_field_skip (attrs : list str) : bool := field_skip attrs.
Extraction "tt_c09.ml" c09_eval c09_eval_deep c07_field_skip.
