(* C07 entry points of the extracted model, specification, observation and oracle. Written to coq/tt_c07.ml. *)
From Coq Require Extraction ExtrOcamlBasic ExtrOcamlString.
From Coq Require Import List Arith Ascii.
Require Import TT.Model.Str TT.Model.C07TypeParse TT.Model.C07Harvest TT.Model.C07Reach.
Require Import TT.Spec.TsLex TT.Spec.TsModule TT.Spec.TsObs TT.Spec.C07Spec.
Require Import TT.Model.C07Layout TT.Spec.C07LayoutSpec.
Import ListNotations.

Definition sx_names (l : list str) : sx := SL (map SA l).
Definition sx_obs (o : obs) : sx := SL [sx_names (ob_types o); sx_names (ob_aliases o); sx_bool (ob_parsed o)].

(* (in_domain (kf flags: field_result odd_name inline_mod payload_expr)
    spec model? (obs ok corr)plain (obs ok corr)zod (agree_b)) *)
(* pm: the project the model runs on; ps: the project of the specification (the same for c07_eval; for a walk the
   files C03Discover.accepted keeps against those of the property text, equal by C07_layout_scanned_is_spec) *)
Definition c07_eval_on (pm ps : project) (plain zod : str) : sx :=
  let spec := reachable_spec ps in
  let model := C07Reach.declared o_default pm in
  let op := observe_plain plain in
  let oz := observe_zod zod in
  SL [sx_bool (in_domain ps);
      SL [sx_bool (kf_c07_field_result ps); sx_bool (kf_c07_odd_name ps); sx_bool (kf_c07_inline_mod ps);
          sx_bool (kf_c07_payload_expr ps)];
      sx_names spec;
      sx_opt sx_names model;
      SL [sx_obs op; sx_bool (c07_ok spec op); sx_bool (c07_corr model op)];
      SL [sx_obs oz; sx_bool (c07_ok spec oz); sx_bool (c07_corr model oz)];
      (* the decidable premises of C07_exact *)
      SL [sx_bool (agree_b ps)]].
Definition c07_eval (p : project) (plain zod : str) : sx := c07_eval_on p p plain zod.

(* a walk of the source tree (every file written to disk, those below target/ and .git/ included) and the project
   path: the model scans with C03Discover.accepted, the expectation is layout_reachable (C07_layout_oracle_spec);
   appended: the scanned paths, the ignored flags, whether the two projects coincide *)
Definition c07_layout_eval (root : str) (lp : lproject) (plain zod : str) : sx :=
  let pm := scanned root lp in
  let ps := spec_project lp in
  match c07_eval_on pm ps plain zod with
  | SL l => SL (l ++ [sx_names (map fst pm); SL (map (fun f => sx_bool (ignored f)) lp);
                      sx_bool (same_set_b (map fst pm) (map fst ps))])
  | x => x
  end.

(* the harvester alone, for the string-level stream *)
Definition c07_harvest (s : str) : list str := dedup (extract_type_names s).
Definition c07_ts_names (s : str) : list str := dedup (ts_of s).

Extraction Language OCaml.
Definition c07_field_skip (attrs : list str) : bool := field_skip attrs.
Extraction "tt_c07.ml" c07_eval c07_layout_eval c07_harvest c07_ts_names c07_field_skip.
