(* C07 entry points of the extracted model, specification, observation and oracle. Written to coq/tt_c07.ml. *)
From Coq Require Extraction ExtrOcamlBasic ExtrOcamlString.
From Coq Require Import List Arith Ascii.
Require Import TT.Model.Str TT.Model.C07TypeParse TT.Model.C07Harvest TT.Model.C07Reach.
Require Import TT.Spec.TsLex TT.Spec.TsModule TT.Spec.TsObs TT.Spec.C07Spec.
Import ListNotations.

Definition sx_names (l : list str) : sx := SL (map SA l).
Definition sx_obs (o : obs) : sx := SL [sx_names (ob_types o); sx_names (ob_aliases o); sx_bool (ob_parsed o)].

(* (in_domain (kf flags: field_result odd_name inline_mod payload_expr)
    spec model? (obs ok corr)plain (obs ok corr)zod (agree_b)) *)
Definition c07_eval (p : project) (plain zod : str) : sx :=
  let spec := reachable_spec p in
  let model := C07Reach.declared o_default p in
  let op := observe_plain plain in
  let oz := observe_zod zod in
  SL [sx_bool (in_domain p);
      SL [sx_bool (kf_c07_field_result p); sx_bool (kf_c07_odd_name p); sx_bool (kf_c07_inline_mod p);
          sx_bool (kf_c07_payload_expr p)];
      sx_names spec;
      sx_opt sx_names model;
      SL [sx_obs op; sx_bool (c07_ok spec op); sx_bool (c07_corr model op)];
      SL [sx_obs oz; sx_bool (c07_ok spec oz); sx_bool (c07_corr model oz)];
      (* the decidable premises of C07_exact *)
      SL [sx_bool (agree_b p)]].

(* the harvester alone, for the string-level stream *)
Definition c07_harvest (s : str) : list str := dedup (extract_type_names s).
Definition c07_ts_names (s : str) : list str := dedup (ts_of s).

Extraction Language OCaml.
Definition c07_field_skip (attrs : list str) : bool := field_skip attrs.
Extraction "tt_c07.ml" c07_eval c07_harvest c07_ts_names c07_field_skip.
