(* C04 - faithful model of serde-rename-rule 0.2.3 RenameRule::apply_to_field as called by
   NamingContext::apply_naming_convention / compute_parameter_name (template_context.rs), on UTF-8 byte strings.
   Definitions only. The slices pascal[..1] and pascal[1..] of the CamelCase arm are modelled
   with their panics: index 1 out of range (empty string) or not on a character boundary. *)
From Coq Require Import String Ascii.
From Coq Require Import List Arith Bool NArith.
Require Import TT.Model.Str.
Import ListNotations.
Local Open Scope list_scope.
Local Open Scope char_scope.

Definition is_us (c : ascii) : bool := Ascii.eqb c "_".
Definition is_lower (c : ascii) : bool := (97 <=? N_of_ascii c)%N && (N_of_ascii c <=? 122)%N.
Definition is_upper (c : ascii) : bool := (65 <=? N_of_ascii c)%N && (N_of_ascii c <=? 90)%N.
(* char::to_ascii_uppercase / to_ascii_lowercase act on ASCII letters only; every other
   byte (hence every byte of a multi-byte character) is left alone *)
Definition upper (c : ascii) : ascii := if is_lower c then ascii_of_N (N_of_ascii c - 32) else c.
Definition lower (c : ascii) : ascii := if is_upper c then ascii_of_N (N_of_ascii c + 32) else c.

(* PascalCase arm: for ch in field.chars() { if ch == '_' { capitalize = true } else if capitalize
   { push(ch.to_ascii_uppercase()); capitalize = false } else { push(ch) } } *)
Fixpoint pascal (cap : bool) (s : str) : str :=
  match s with
  | [] => []
  | c :: s' => if is_us c then pascal true s'
               else if cap then upper c :: pascal false s' else c :: pascal false s'
  end.

Inductive outcome (A : Type) := Panic | Ok (a : A).
Arguments Panic {A}. Arguments Ok {A} _.

Definition is_cont (b : ascii) : bool := (128 <=? N_of_ascii b)%N && (N_of_ascii b <? 192)%N.
(* CamelCase arm: pascal[..1].to_ascii_lowercase() + &pascal[1..] *)
Definition camel_b (s : str) : outcome str :=
  match pascal true s with
  | [] => Panic                                        (* [..1] out of range *)
  | c :: rest => match rest with
                 | r :: _ => if is_cont r then Panic else Ok (lower c :: rest)   (* 1 is not a char boundary *)
                 | [] => Ok [lower c]
                 end
  end.

(* template_context.rs apply_naming_convention, CamelCase arm (call-site guard added by the repair
   C15-fix-C15-camel-call-site-guard): pascal = PascalCase.apply_to_field(name); if it has a first
   character, that character's to_ascii_lowercase followed by the rest; if it is empty, the name itself.
   On bytes: only an ASCII capital is changed, so a multi-byte first character is left alone. *)
Definition camel_guard (s : str) : str :=
  match pascal true s with
  | [] => s
  | c :: rest => lower c :: rest
  end.

(* the eight rules of RENAME_RULES, in the order of the table *)
Inductive rule := RLower | RUpper | RPascal | RCamel | RSnake | RScreamingSnake | RKebab | RScreamingKebab.

Local Open Scope string_scope.
Definition rule_table : list (string * rule) :=
  [("lowercase", RLower); ("UPPERCASE", RUpper); ("PascalCase", RPascal); ("camelCase", RCamel);
   ("snake_case", RSnake); ("SCREAMING_SNAKE_CASE", RScreamingSnake); ("kebab-case", RKebab);
   ("SCREAMING-KEBAB-CASE", RScreamingKebab)].
Local Close Scope string_scope.
(* RenameRule::from_rename_all_str: exact comparison against the table *)
Definition rule_of_str (s : str) : option rule :=
  match find (fun e => str_eqb s (L (fst e))) rule_table with Some e => Some (snd e) | None => None end.

Definition us_to_dash (c : ascii) : ascii := if is_us c then "-" else c.

Definition apply_rule (r : rule) (s : str) : outcome str :=
  match r with
  | RLower | RSnake => Ok s                                   (* field.into() *)
  | RUpper | RScreamingSnake => Ok (map upper s)              (* to_ascii_uppercase *)
  | RPascal => Ok (pascal true s)
  | RCamel => Ok (camel_guard s)                            (* guarded at the call site; the crate's own arm is camel_b *)
  | RKebab => Ok (map us_to_dash s)                           (* replace('_', "-") *)
  | RScreamingKebab => Ok (map us_to_dash (map upper s))
  end.
