(* C05 / C18: faithful model of everything between a Rust type and the type text that lands in a
   generated module, for the five translation sites and both modes.

   anchors (paths below /repo/src):
     analysis/type_resolver.rs    parse_type_structure (with find_top_level_comma / split_top_level,
                                  repair C05-2-3-top-level-commas)  -> C05Parse.parse2 (imported)
     generators/base/type_visitor.rs  default visit_* + visit_custom (type_mappings lookup)  -> render_m
     generators/zod/type_visitor.rs   visit_* / visit_custom / visit_type_for_interface     -> zvisit, render_m
     generators/zod/schema_builder.rs render_type with validator = None                     -> zbuild
     generators/base/templates.rs     add_types_prefix                                      -> atp
     generators/base/template_context.rs + the partial templates: which of the above each site uses -> emit_ts
   No proofs in this file. *)
From Coq Require Import String Ascii.
From Coq Require Import List Arith Bool.
Require Import TT.Model.Str TT.Model.TypeParse TT.Model.C05Parse.
Import ListNotations.
Local Open Scope char_scope.
Local Open Scope list_scope.

(* ---- configuration: type_mappings (a HashMap: at most one entry per key; lookup by exact string) ---- *)
Definition mapping := list (str * str).
Fixpoint lookup (m : mapping) (n : str) : option str :=
  match m with
  | [] => None
  | (k, v) :: m' => if str_eqb k n then Some v else lookup m' n
  end.

(* ---- base/type_visitor.rs: visit_type with the default methods; visit_custom consults the table.
        TypeScriptVisitor::visit_type and ZodVisitor::visit_type_for_interface print the same text. ---- *)
Definition custom_ts (m : mapping) (n : str) : str :=
  match lookup m n with Some t => t | None => n end.

Fixpoint render_m (m : mapping) (t : tstruct) : str :=
  match t with
  | TPrim p => p
  | TArr u => render_m m u ++ L "[]"
  | TMap k v => L "Record<" ++ render_m m k ++ L ", " ++ render_m m v ++ L ">"
  | TSet u => render_m m u ++ L "[]"
  | TTuple [] => L "void"
  | TTuple l => L "[" ++ join (L ", ") (map (render_m m) l) ++ L "]"
  | TOpt u => render_m m u ++ L " | null"
  | TRes u => render_m m u
  | TCustom n => custom_ts m n
  end.

(* ---- zod/type_visitor.rs ---- *)
Definition zprim_visitor (p : str) : str :=
  if str_eqb p (L "string") then L "z.string()"
  else if str_eqb p (L "number") then L "z.number()"
  else if str_eqb p (L "boolean") then L "z.boolean()"
  else if str_eqb p (L "void") then L "z.void()"
  else L "z.unknown() /* Unexpected: " ++ p ++ L " */".

Definition zcustom (m : mapping) (n : str) : str :=
  match lookup m n with
  | Some t =>
      if str_eqb t (L "string") then L "z.string()"
      else if str_eqb t (L "number") then L "z.number()"
      else if str_eqb t (L "boolean") then L "z.boolean()"
      else if str_eqb t (L "void") then L "z.void()"
      else L "z.custom<" ++ t ++ L ">((val) => true)"
  | None => n ++ L "Schema"
  end.

Fixpoint zvisit (m : mapping) (t : tstruct) : str :=
  match t with
  | TPrim p => zprim_visitor p
  | TArr u => L "z.array(" ++ zvisit m u ++ L ")"
  | TMap k v => L "z.record(" ++ zvisit m k ++ L ", " ++ zvisit m v ++ L ")"
  | TSet u => L "z.array(" ++ zvisit m u ++ L ")"
  | TTuple [] => L "z.void()"
  | TTuple l => L "z.tuple([" ++ join (L ", ") (map (zvisit m) l) ++ L "])"
  | TOpt u => zvisit m u ++ L ".nullable()"
  | TRes u => zvisit m u
  | TCustom n => zcustom m n
  end.

(* ---- zod/schema_builder.rs: render_type with validator = None (build_param_schema, and build_schema
        of a field without validator attributes); is_key = is_record_key ---- *)
Definition zprim_builder (p : str) (is_key : bool) : str :=
  if str_eqb p (L "string") then L "z.string()"
  else if str_eqb p (L "number") then (if is_key then L "z.number()" else L "z.coerce.number()")
  else if str_eqb p (L "boolean") then L "z.coerce.boolean()"
  else if str_eqb p (L "void") then L "z.void()"
  else L "z.unknown() /* Unknown primitive: " ++ p ++ L " */".

Fixpoint zbuild (m : mapping) (t : tstruct) (is_key : bool) : str :=
  match t with
  | TOpt u => zbuild m u is_key ++ L ".optional()"
  | TPrim p => zprim_builder p is_key
  | TArr u => L "z.array(" ++ zbuild m u false ++ L ")"
  | TMap k v => L "z.record(" ++ zbuild m k true ++ L ", " ++ zbuild m v false ++ L ")"
  | TSet u => L "z.set(" ++ zbuild m u false ++ L ")"
  | TTuple [] => L "z.void()"
  | TTuple l => L "z.tuple([" ++ join (L ", ") (map (fun x => zbuild m x false) l) ++ L "])"
  | TRes u => L "z.union([" ++ zbuild m u false ++ L ", z.object({ error: z.string() })])"
  | TCustom n => zcustom m n
  end.

(* ---- base/templates.rs: add_types_prefix, on strings (same transcription as Pipeline.atp) ---- *)
Definition strip_suffix (suf s : str) : option str :=
  if starts (rev suf) (rev s) then Some (firstn (List.length s - List.length suf) s) else None.
Local Open Scope string_scope.
Fixpoint atp (fuel : nat) (s : str) : str :=
  match fuel with 0 => s | S f =>
  if one_of s ["void"; "string"; "number"; "boolean"; "any"; "unknown"; "null"; "undefined"] then s else
  match strip_suffix (L "[]") s with
  | Some base => (atp f base ++ L "[]")%list        (* repair C05-4-prefix-composite: recurse on the element type *)
  | None =>
    if starts (L "Record<") s || starts (L "Map<") s then s else
    match strip_suffix (L " | null") s with
    | Some base => (atp f base ++ L " | null")%list
    | None =>
      match strip_suffix (L " | undefined") s with
      | Some base => (atp f base ++ L " | undefined")%list
      | None =>
        if starts (L "[") s && ends_with "]"%char s then s
        else if starts (L "types.") s then s else (L "types." ++ s)%list
      end end end end.
Definition add_types_prefix (s : str) : str := atp (S (List.length s)) s.
Local Close Scope string_scope.

(* ---- sites and modes ---- *)
Inductive site := SParam | SReturn | SField | SChannel | SEvent.
Inductive mode := MNone | MZod.

(* is_optional_type (command_parser.rs, struct_parser.rs): the last path segment is Option *)
Definition is_optional (t : rty) : bool :=
  match t with RPath n _ => is_name n "Option" | _ => false end.

(* the type text of a site, given the parsed structure.
   plain mode:  parameter, field: visit_type (Params interface / interface member in types.ts)
                channel: visit_type_for_interface inside Channel<..> in types.ts
                return, event: visit_type_for_interface, then the add_types_prefix filter
   zod mode:    parameter: build_param_schema, and the template appends .optional() when is_optional
                field: build_schema; channel, return, event as in plain mode *)
Definition emit_ts (s : site) (md : mode) (m : mapping) (opt : bool) (ts : tstruct) : str :=
  match s, md with
  | SParam, MZod => zbuild m ts false ++ (if opt then L ".optional()" else [])
  | SField, MZod => zbuild m ts false
  | SParam, MNone | SField, MNone | SChannel, _ => render_m m ts
  | SReturn, _ | SEvent, _ => add_types_prefix (render_m m ts)
  end.

(* from the string type_to_string printed *)
Definition emit_str (s : site) (md : mode) (m : mapping) (opt : bool) (ty : str) : option str :=
  option_map (emit_ts s md m opt) (parse_type_structure2 ty).

(* from the Rust type: all three type_to_string variants print tts on this syntax *)
Definition emit_type (s : site) (md : mode) (m : mapping) (t : rty) : option str :=
  emit_str s md m (is_optional t) (tts t).

(* whether a site's text is a TypeScript type (true) or a Zod schema expression (false) *)
Definition site_is_type (s : site) (md : mode) : bool :=
  match s, md with SParam, MZod | SField, MZod => false | _, _ => true end.
(* whether the site lives in a module that refers to declared types through the types namespace *)
Definition site_qualified (s : site) : bool :=
  match s with SReturn | SEvent => true | _ => false end.
