(* C07 and C09 copy of Model/Harvest.v following the repair fix: harvester descends into a one-argument Result; Model/Harvest.v keeps the behaviour before the repair for the properties that still import it *)
(* Faithful model of CommandAnalyzer::extract_type_names_recursive (analysis/mod.rs): the second,
   independent scanner over printed Rust types that decides which definitions are looked for. *)
From Coq Require Import String Ascii.
From Coq Require Import List Arith Lia Bool.
Require Import TT.Model.Str TT.Model.C07TypeParse.
Import ListNotations.
Local Open Scope char_scope.
Local Open Scope list_scope.

Definition strip_wrapped (tag : string) (s : str) : option str :=   (* strip_prefix(tag).and_then(strip_suffix(">")) *)
  if starts (L tag) s then
    if ends_with ">" (skipn (String.length tag) s)
    then Some (firstn (List.length s - String.length tag - 1) (skipn (String.length tag) s)) else None
  else None.

Local Open Scope string_scope.
Definition type_set : list string :=
  ["String"; "&str"; "str"; "i8"; "i16"; "i32"; "i64"; "i128"; "isize"; "u8"; "u16"; "u32"; "u64"; "u128"; "usize";
   "f32"; "f64"; "bool"; "()"; "HashMap"; "BTreeMap"; "HashSet"; "BTreeSet"].
Local Close Scope string_scope.

Definition is_lower_c (c : ascii) : bool := let n := nat_of_ascii c in ((97 <=? n) && (n <=? 122))%nat.
Definition is_alpha_c (c : ascii) : bool :=
  let n := nat_of_ascii c in (((65 <=? n) && (n <=? 90)) || ((97 <=? n) && (n <=? 122)))%nat.
Definition has_angle (s : str) : bool := existsb (fun c => Ascii.eqb c "<") s.
(* the final "is this a custom type name" test (ASCII reading of char::is_lowercase / is_alphabetic) *)
(* char::is_lowercase / char::is_alphabetic of the first character. Strings are UTF-8 bytes: the first code point is
   decoded (1 to 3 bytes) and classified by ranges transcribed from the Unicode tables for the scripts the generators
   use; the domain predicate (Spec/C07Spec.v first_classified) keeps every name inside these ranges. *)
From Coq Require Import NArith.
Local Open Scope N_scope.
Definition first_cp (s : str) : option N :=
  match s with
  | [] => None
  | b0 :: r =>
      let n0 := N_of_ascii b0 in
      if n0 <? 128 then Some n0
      else if (194 <=? n0) && (n0 <=? 223) then
        match r with b1 :: _ => Some ((n0 - 192) * 64 + (N_of_ascii b1 - 128)) | _ => None end
      else if (224 <=? n0) && (n0 <=? 239) then
        match r with b1 :: b2 :: _ => Some ((n0 - 224) * 4096 + (N_of_ascii b1 - 128) * 64 + (N_of_ascii b2 - 128)) | _ => None end
      else None
  end.
Definition in_ranges (cp : N) (l : list (N * N)) : bool := existsb (fun r => (fst r <=? cp) && (cp <=? snd r)) l.
(* Ll: ASCII, Latin-1, Greek, Cyrillic *)
Definition lower_ranges : list (N * N) := [(97, 122); (223, 246); (248, 255); (945, 969); (1072, 1103)].
(* Lu: ASCII, Latin-1, Greek, Cyrillic *)
Definition upper_ranges : list (N * N) := [(65, 90); (192, 214); (216, 222); (913, 929); (931, 937); (1040, 1071)].
(* alphabetic without case: Lt digraphs, Hebrew, Arabic, Devanagari, Hiragana, Katakana, CJK unified ideographs *)
Definition caseless_ranges : list (N * N) :=
  [(453, 453); (456, 456); (459, 459); (498, 498); (1488, 1514); (1569, 1610); (2308, 2361); (12353, 12438); (12449, 12538); (19968, 40959)].
Definition lower_first (s : str) : bool := match first_cp s with Some cp => in_ranges cp lower_ranges | None => false end.
Definition alpha_first (s : str) : bool :=
  match first_cp s with Some cp => in_ranges cp lower_ranges || in_ranges cp upper_ranges || in_ranges cp caseless_ranges | None => false end.
(* every character test of the final check has a definite answer on this name *)
Definition first_classified (s : str) : bool :=
  match first_cp s with Some cp => (cp <? 128) || alpha_first s | None => false end.
Local Close Scope N_scope.

Definition custom_name (s : str) : bool :=
  match s with
  | [] => false
  | c :: _ => negb (one_of s type_set) && negb (lower_first s) && alpha_first s && negb (has_angle s)
  end.

Fixpoint strip_amps (s : str) : str := match s with "&" :: r => strip_amps r | _ => s end.

Fixpoint harvest (fuel : nat) (s0 : str) : list str :=
  match fuel with
  | 0 => []
  | S f =>
    let s := trim s0 in
    if starts (L "Result<") s then
      match strip_wrapped "Result<" s with
      | Some inner => match find_top inner with
                      | Some (a, r) => harvest f (trim a) ++ harvest f (trim r)
                      | None => harvest f inner           (* Result<T> through a one-argument alias: T is harvested *)
                      end
      | None => [] end
    else if starts (L "Option<") s then
      match strip_wrapped "Option<" s with Some inner => harvest f inner | None => [] end
    else if starts (L "Vec<") s then
      match strip_wrapped "Vec<" s with Some inner => harvest f inner | None => [] end
    else if starts (L "HashMap<") s || starts (L "BTreeMap<") s then
      match (if starts (L "HashMap<") s then strip_wrapped "HashMap<" s else strip_wrapped "BTreeMap<" s) with
      | Some inner => match find_top inner with
                      | Some (a, r) => harvest f (trim a) ++ harvest f (trim r)
                      | None => [] end
      | None => [] end
    else if starts (L "HashSet<") s || starts (L "BTreeSet<") s then
      match (if starts (L "HashSet<") s then strip_wrapped "HashSet<" s else strip_wrapped "BTreeSet<" s) with
      | Some inner => harvest f inner | None => [] end
    else if starts (L "(") s && ends_with ")" s && negb (str_eqb s (L "()")) then
      flat_map (fun p => harvest f (trim p)) (split_top_level (mid 1 1 s))
    else if starts (L "&") s then harvest f (strip_amps s)
    else if custom_name s then [s] else []
  end.
Definition extract_type_names (s : str) : list str := harvest (S (List.length s)) s.

(* what should be found: every named type (both arms of a Result) *)
Fixpoint names (t : rty) : list str :=
  match t with
  | RPath n [] => if custom_name n then [n] else []
  | RPath n args => flat_map names args       (* generic heads are std containers in the domain *)
  | RRef t => names t
  | RTuple ts => flat_map names ts
  end.

Definition ex1 := RPath (L "Result") [RTuple [RPath (L "HashMap") [RPath (L "String") []; RPath (L "User") []]; RPath (L "Inner") []]; RPath (L "String") []].
Definition ex2 := RPath (L "HashMap") [RPath (L "String") []; RPath (L "Vec") [RTuple [RPath (L "A") []; RRef (RPath (L "B") [])]]].
Definition ex3 := RPath (L "Result") [RPath (L "User") []].

(* the harvester own defect class: Result with one argument (an alias) *)
Fixpoint kf_result_one_arg (t : rty) : bool :=        (* Result<T>: no comma, nothing is harvested *)
  match t with
  | RPath n args => (is_name n "Result" && Nat.eqb (List.length args) 1) || existsb kf_result_one_arg args
  | RRef t => kf_result_one_arg t
  | RTuple ts => existsb kf_result_one_arg ts
  end.
