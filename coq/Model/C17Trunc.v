(* C17: faults after the open. A write of the plan can fail in two ways:
   - FOpen k: the k-th write fails before the file is touched (a directory under its name, an unusable output
     path): the fault of Model/C08Run.run;
   - FPost k n rm_ok: the k-th write fails after File::create truncated the target and n units of the content were
     written (file size limit, full device): the file holds a prefix (cut n) of its content; then
     FileWriter::write_or_remove removes it; rm_ok = false: the removal fails too (its result is ignored by the
     code) and the truncated file stays under the output name.
   k >= length plan: the record write fails; a cut record is not a readable record (same as run).
   cut is a parameter: every statement of Proofs/C17TruncProofs.v holds for every cut function, in particular for
   every prefix length. Definitions only. *)
From Coq Require Import List Arith Bool.
Require Import TT.Model.Str TT.Model.C08Fingerprint TT.Model.C08Run TT.Model.C17History.
Import ListNotations.

Section Trunc.
  Variables proj cfg schedT fnameT content fpT : Type.
  Variable fn_eqb : fnameT -> fnameT -> bool.
  Variable fpt_eqb : fpT -> fpT -> bool.
  Variable gfiles : schedT -> proj -> cfg -> list (fnameT * content).
  Variable gfp : schedT -> proj -> cfg -> fpT.
  Variable ghas_commands : proj -> bool.
  Variable cfg_force : cfg -> bool.
  Variable check_presence : bool.
  Variable cut : nat -> content -> content.

  Inductive fault17 := FOpen (k : nat) | FPost (k n : nat) (rm_ok : bool).

  Definition fault_index (ft : fault17) : nat := match ft with FOpen k => k | FPost k _ _ => k end.

  (* the file whose write failed stays behind, cut to n units *)
  Definition leave_cut (n : nat) (fx : option (fnameT * content)) (o : fnameT -> option content) : fnameT -> option content :=
    match fx with Some (f, x) => upd fnameT content fn_eqb o f (Some (cut n x)) | None => o end.

  Definition run17 (w : schedT) (flag : bool) (ft : option fault17) (st : state proj cfg fnameT content fpT)
    : result * state proj cfg fnameT content fpT :=
    match ft with
    | None => run proj cfg schedT fnameT content fpT fn_eqb fpt_eqb gfiles gfp ghas_commands cfg_force check_presence w flag None st
    | Some (FOpen k) =>
        run proj cfg schedT fnameT content fpT fn_eqb fpt_eqb gfiles gfp ghas_commands cfg_force check_presence w flag (Some k) st
    | Some (FPost k n rm_ok) =>
        let rs := run proj cfg schedT fnameT content fpT fn_eqb fpt_eqb gfiles gfp ghas_commands cfg_force check_presence
                      w flag (Some k) st in
        match fst rs with
        | Failure =>
            if rm_ok then rs
            else (Failure, {| s_src := s_src (snd rs); s_cfg := s_cfg (snd rs);
                              s_out := leave_cut n (nth_error (gfiles w (s_src st) (s_cfg st)) k) (s_out (snd rs));
                              s_cache := s_cache (snd rs) |})
        | _ => rs
        end
    end.

  (* the class in which the model breaks the property: the removal failed, the failing write was one of the plan and the
     record on disk equals the current fingerprint (the run wrote because it was forced or because another file was lost) *)
  Definition kf_rmfail (w : schedT) (ft : fault17) (st : state proj cfg fnameT content fpT) : bool :=
    match ft with
    | FPost k _ false =>
        (k <? length (gfiles w (s_src st) (s_cfg st))) &&
        match s_cache st with Some h => fpt_eqb h (gfp w (s_src st) (s_cfg st)) | None => false end
    | _ => false
    end.

  Inductive hstep17t := H17t (edit : option (proj * cfg)) (w : schedT) (flag : bool) (fault : option fault17).

  Definition step17t (s : hstate17 proj cfg schedT fnameT content fpT) (h : hstep17t) : hstate17 proj cfg schedT fnameT content fpT :=
    let '(st, g, d) := s in
    let 'H17t e w flag fault := h in
    let st0 := edited proj cfg fnameT content fpT e st in
    let r := run17 w flag fault st0 in
    (snd r,
     match fst r with
     | Success => match s_cache (snd r) with Some _ => Some (w, s_src st0, s_cfg st0) | None => None end
     | _ => g
     end,
     match fst r with Success => false | Failure => true | _ => d end).
End Trunc.

(* ---------------- the concrete instance ---------------- *)
(* contents are views (trees): a prefix of a node keeps its first n children, a prefix of a leaf its first n bytes *)
Definition cut_tree (n : nat) (t : tree) : tree :=
  match t with TA s => TA (firstn n s) | TB b => TB b | TN l => TN (firstn n l) end.

Definition fault17_c := fault17.
Definition run17_c : sched -> bool -> option fault17 -> cstate -> cresult * cstate :=
  run17 project config sched fname tree tree fname_eqb tree_eqb files fp has_commands g_force true cut_tree.
Definition kf_C17_rmfail : sched -> fault17 -> cstate -> bool :=
  kf_rmfail project config sched fname tree tree tree_eqb files fp.
Definition hstep17t_c := hstep17t project config sched.
Definition step17t_c : hstate17_c -> hstep17t_c -> hstate17_c :=
  step17t project config sched fname tree tree fname_eqb tree_eqb files fp has_commands g_force true cut_tree.
