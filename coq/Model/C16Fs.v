(* C16 - abstract file system and the effect of one run of each entry point
   (CLI generate, CLI init, build script) on it. Definitions only.

   Paths are lists of components below one fixed root (the root itself is the
   empty list and is always a directory); symbolic links and dot-dot components
   are outside the model. The analysis of the sources and the rendering of the
   files are parameters of a run (which commands exist, what the files would
   contain): C16 speaks about WHERE a run writes and removes, not about what.

   Anchors (paths relative to /repo/src):
     generators/base/file_writer.rs   FileWriter::new, write_typescript_file
     generators/ts/generator.rs:177   order of the writes (zod/generator.rs:297 the same)
     build/generation_cache.rs:70     save; :84 needs_regeneration
     bin/cargo-tauri-typegen.rs:80    run_generate; :288 run_init
     build/mod.rs:72                  run_generation; :188 generate_bindings; :264 visualisation
     build/output_manager.rs:40       prepare_output_directory; :81 cleanup_old_files;
                                      :112 is_generated_file; :229 finalize_generation (after the C16 repairs)
     interface/config.rs:194          save_to_file; :202 save_to_tauri_config; :253 validate *)
From Coq Require Import String Ascii List Bool.
Require Import TT.Model.Str.
Import ListNotations.
Local Open Scope list_scope.

Definition path := list str.
Inductive node := File (c : str) | Dir.
Definition fs := list (path * node).

Definition path_eqb (a b : path) : bool :=
  if list_eq_dec (list_eq_dec ascii_dec) a b then true else false.

Fixpoint lookup (s : fs) (p : path) : option node :=
  match s with
  | [] => None
  | (q, n) :: s' => if path_eqb q p then Some n else lookup s' p
  end.

Definition del (s : fs) (p : path) : fs := filter (fun e => negb (path_eqb (fst e) p)) s.
Definition set (s : fs) (p : path) (n : node) : fs := (p, n) :: del s p.

Definition file_at (s : fs) (p : path) : option str :=
  match lookup s p with Some (File c) => Some c | _ => None end.
Definition is_file (s : fs) (p : path) : bool :=
  match lookup s p with Some (File _) => true | _ => false end.
Definition is_dir (s : fs) (p : path) : bool :=
  match p with
  | [] => true
  | _ => match lookup s p with Some Dir => true | _ => false end
  end.
Definition exists_b (s : fs) (p : path) : bool :=
  match p with [] => true | _ => match lookup s p with Some _ => true | None => false end end.

Definition parent (p : path) : path := removelast p.

(* std::fs::write: the parent must be a directory, the target must not be one. *)
Definition write (s : fs) (p : path) (c : str) : option fs :=
  match p with
  | [] => None
  | _ => if is_dir s (parent p) && negb (is_dir s p) then Some (set s p (File c)) else None
  end.

(* std::fs::remove_file *)
Definition remove_file (s : fs) (p : path) : option fs :=
  if is_file s p then Some (del s p) else None.

(* std::fs::create_dir_all: every missing component is created; a component that
   is a regular file makes the call fail. In a well-formed tree every component
   above an existing file exists, so nothing has been created when it fails. *)
Fixpoint mkdir_go (s : fs) (pre rest : path) : option fs :=
  match rest with
  | [] => Some s
  | c :: rest' =>
      let p := pre ++ [c] in
      match lookup s p with
      | Some (File _) => None
      | Some Dir => mkdir_go s p rest'
      | None => mkdir_go (set s p Dir) p rest'
      end
  end.
Definition mkdir_all (s : fs) (p : path) : option fs := mkdir_go s [] p.

(* A plan is a list of operations executed in order; the first failure aborts
   the run (Rust: the question-mark operator) and keeps what was done before. *)
Definition step := fs -> option fs.
Fixpoint seq (ops : list step) (s : fs) : fs * bool :=
  match ops with
  | [] => (s, true)
  | op :: ops' => match op s with Some s' => seq ops' s' | None => (s, false) end
  end.

(* ---- file names used by the tool *)
Definition n_types := L "types.ts".
Definition n_commands := L "commands.ts".
Definition n_events := L "events.ts".
Definition n_index := L "index.ts".
Definition n_txt := L "dependency-graph.txt".
Definition n_dot := L "dependency-graph.dot".
Definition n_cache := L ".typecache".
Definition n_probe := L ".write_test".
Definition n_tauri_conf := L "tauri.conf.json".

(* ---- parameters of a run *)
(* effective configuration (after file / flag / default resolution, which is C19) *)
Record cfg := {
  c_out : path;        (* output directory, resolved against the working directory *)
  c_proj : path;       (* project path *)
  c_lib_ok : bool;     (* validation library is zod or none *)
  c_force : bool;
  c_viz : bool }.

(* what analysis and rendering would produce for the current sources *)
Record ana := {
  a_ok : bool;             (* the analysis itself succeeds *)
  a_cmds : bool;           (* at least one command found *)
  k_types : str;
  k_commands : str;
  k_events : option str;   (* events.ts is written only when events were found *)
  k_index : str;
  k_txt : str;
  k_dot : str;
  k_cache : str }.         (* serialised GenerationCache of the current inputs *)

Inductive outcome := Failed | NoCommands | UpToDate | Regenerated | NoProject | BuildOk.

(* ---- the generator proper: FileWriter::new, the writes, visualisation, cache *)
Definition w (out : path) (name c : str) : step := fun s => write s (out ++ [name]) c.

Definition writer_plan (out : path) (a : ana) : list step :=
  [fun s => mkdir_all s out; w out n_types (k_types a); w out n_commands (k_commands a)]
  ++ match k_events a with Some e => [w out n_events e] | None => [] end
  ++ [w out n_index (k_index a)].

Definition written_names (a : ana) : list str :=
  [n_types; n_commands] ++ match k_events a with Some _ => [n_events] | None => [] end ++ [n_index].

Definition viz_plan (out : path) (a : ana) : list step :=
  [w out n_txt (k_txt a); w out n_dot (k_dot a)].

(* GenerationCache::save; both callers turn a failure into a warning *)
Definition cache_save (out : path) (a : ana) (s : fs) : fs :=
  match mkdir_all s out with
  | None => s
  | Some s1 => match write s1 (out ++ [n_cache]) (k_cache a) with Some s2 => s2 | None => s1 end
  end.

Definition generate_core (c : cfg) (a : ana) (s : fs) : fs * bool :=
  let '(s1, ok) := seq (writer_plan (c_out c) a ++ (if c_viz c then viz_plan (c_out c) a else [])) s in
  if ok then (cache_save (c_out c) a s1, true) else (s1, false).

(* needs_regeneration = false: the record can be read and names the current inputs.
   (Equality of the serialised records stands for equality of combined_hash.) *)
Definition cache_hit (c : cfg) (a : ana) (s : fs) : bool :=
  match lookup s (c_out c ++ [n_cache]) with
  | Some (File x) => str_eqb x (k_cache a)
  | _ => false
  end.

(* GenerationCache::outputs_present: every file this run would write is a regular file *)
Definition expected_outputs (c : cfg) (a : ana) : list str :=
  [n_types; n_commands; n_index]
  ++ match k_events a with Some _ => [n_events] | None => [] end
  ++ (if c_viz c then [n_txt; n_dot] else []).
Definition outputs_present (c : cfg) (a : ana) (s : fs) : bool :=
  forallb (fun n => is_file s (c_out c ++ [n])) (expected_outputs c a).

(* both callers answer up to date only when the record matches and the outputs are there *)
Definition up_to_date (c : cfg) (a : ana) (s : fs) : bool := cache_hit c a s && outputs_present c a s.

(* ---- CLI: generate. The effective configuration c is the file's settings (taken
   unvalidated from tauri.conf.json) with the flags applied on top; it is validated
   here, as a whole, before anything else happens: an invalid library or a missing
   project path, wherever it came from, refuses the run with nothing written. *)
Definition run_generate (c : cfg) (a : ana) (s : fs) : fs * outcome :=
  if negb (c_lib_ok c) then (s, Failed)                 (* config.validate *)
  else if negb (exists_b s (c_proj c)) then (s, Failed)
  else if negb (a_ok a) then (s, Failed)
  else if negb (a_cmds a) then (s, NoCommands)
  else if negb (c_force c) && up_to_date c a s then (s, UpToDate)
  else let '(s', ok) := generate_core c a s in (s', if ok then Regenerated else Failed).

(* ---- CLI: init *)
Record initp := {
  i_target : path;     (* the configuration file init was pointed at (resolved) *)
  i_force : bool;
  i_parses : bool;     (* the existing file is a JSON object whose plugins member, if any, is an object *)
  i_new : str }.       (* the text init writes (C19 says what it is) *)

Definition is_tauri_conf (p : path) : bool := str_eqb (last p []) n_tauri_conf.

Definition init_save (i : initp) (s : fs) : option fs :=
  let t := i_target i in
  if is_tauri_conf t then
    if is_file s t && i_parses i then write s t (i_new i) else None
  else
    if exists_b s t && negb (i_force i) then None else write s t (i_new i).

(* run_init validates the settings (library, project path) before the configuration
   file is touched (bin/cargo-tauri-typegen.rs, config.validate before the save) *)
Definition run_init (i : initp) (c : cfg) (a : ana) (s : fs) : fs * outcome :=
  if negb (c_lib_ok c) || negb (exists_b s (c_proj c)) then (s, Failed)
  else match init_save i s with
       | None => (s, Failed)
       | Some s1 => run_generate c a s1
       end.

(* ---- build script: OutputManager *)
Definition generated_patterns : list str :=
  [L "types.ts"; L "types.d.ts"; L "commands.ts"; L "commands.d.ts"; L "schemas.ts"; L "schemas.d.ts";
   L "index.ts"; L "index.d.ts"; L "models.ts"; L "models.d.ts"; L "bindings.ts"; L "bindings.d.ts"].

Fixpoint contains (pat s : str) : bool :=
  starts pat s || match s with [] => false | _ :: s' => contains pat s' end.

Definition in_b (n : str) (l : list str) : bool := existsb (str_eqb n) l.

Definition ends_ts (n : str) : bool := starts (rev (L ".ts")) (rev n).

Definition is_generated_file (managed : list str) (n : str) : bool :=
  in_b n generated_patterns
  || ((starts (L "generated_") n || contains (L "_generated") n) && ends_ts n)
  || in_b n managed.

(* names of the regular files directly inside d, in listing order *)
Fixpoint strip_prefix (d p : path) : option path :=
  match d, p with
  | [], _ => Some p
  | x :: d', y :: p' => if str_eqb x y then strip_prefix d' p' else None
  | _ :: _, [] => None
  end.
Definition child_files (s : fs) (d : path) : list str :=
  flat_map (fun e => match strip_prefix d (fst e) with
                     | Some [n] => if is_file s (fst e) then [n] else []
                     | _ => []
                     end) s.

(* the write probe opens <out>/.write_test with create_new: an existing entry of that
   name (AlreadyExists) is left alone, a fresh one is created empty and removed again *)
Definition prepare_output_directory (out : path) (s : fs) : option fs :=
  match (if exists_b s out then Some s else mkdir_all s out) with
  | None => None
  | Some s1 =>
      if exists_b s1 (out ++ [n_probe]) then Some s1
      else match write s1 (out ++ [n_probe]) [] with
           | None => None
           | Some s2 => Some (match remove_file s2 (out ++ [n_probe]) with Some s3 => s3 | None => s2 end)
           end
  end.

Definition cleanup_old_files (out : path) (current : list str) (s : fs) : fs :=
  fold_left (fun acc n =>
               if is_generated_file current n && negb (in_b n current) then del acc (out ++ [n]) else acc)
            (child_files s out) s.

Definition verify_output (out : path) (files : list str) (s : fs) : bool :=
  forallb (fun n => exists_b s (out ++ [n])) files.

Definition finalize_generation (out : path) (files : list str) (s : fs) : fs * bool :=
  match prepare_output_directory out s with
  | None => (s, false)
  | Some s1 => let s2 := cleanup_old_files out files s1 in (s2, verify_output out files s2)
  end.

Definition run_build (detected : bool) (c : cfg) (a : ana) (s : fs) : fs * outcome :=
  if negb detected then (s, NoProject)
  else if negb (exists_b s (c_proj c)) || negb (a_ok a) then (s, Failed)   (* analyze_project *)
  else
    let '(s1, files, ok) :=
      if negb (a_cmds a) then (s, [], true)
      else if negb (c_force c) && up_to_date c a s then (s, child_files s (c_out c), true)
      else if negb (c_lib_ok c) then (s, [], false)
      else let '(s1, ok) := generate_core c a s in (s1, written_names a, ok) in
    if negb ok then (s1, Failed)
    else let '(s2, ok2) := finalize_generation (c_out c) files s1 in (s2, if ok2 then BuildOk else Failed).

(* ---- library entry: generate_from_config (interface/mod.rs:221). Validation, analysis,
   the generator's writes; no cache record, no visualisation, no cleanup. *)
Definition run_api (c : cfg) (a : ana) (s : fs) : fs * outcome :=
  if negb (c_lib_ok c) then (s, Failed)
  else if negb (exists_b s (c_proj c)) then (s, Failed)
  else if negb (a_ok a) then (s, Failed)
  else if negb (a_cmds a) then (s, NoCommands)
  else let '(s', ok) := seq (writer_plan (c_out c) a) s in (s', if ok then Regenerated else Failed).

(* ---- a run, a history *)
Inductive entry := Generate | Init (i : initp) | Build (detected : bool) | Api.
Record run := { r_entry : entry; r_cfg : cfg; r_ana : ana }.

Definition exec (r : run) (s : fs) : fs * outcome :=
  match r_entry r with
  | Generate => run_generate (r_cfg r) (r_ana r) s
  | Init i => run_init i (r_cfg r) (r_ana r) s
  | Build d => run_build d (r_cfg r) (r_ana r) s
  | Api => run_api (r_cfg r) (r_ana r) s
  end.

Definition fs_after (runs : list run) (s : fs) : fs := fold_left (fun acc r => fst (exec r acc)) runs s.

Definition is_build (r : run) : bool := match r_entry r with Build _ => true | _ => false end.
Definition init_target (r : run) : option path := match r_entry r with Init i => Some (i_target i) | _ => None end.
