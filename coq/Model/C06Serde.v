(* C06: faithful model of how tauri-typegen derives property keys and enum literals.
   Anchors (/repo/src):
     analysis/serde_parser.rs   parse_struct_serde_attrs, parse_field_serde_attrs,
                                parse_rename_all, parse_rename          (substring scanners)
     analysis/struct_parser.rs  parse_struct / parse_field (skip filter), parse_enum (no filter)
     generators/base/template_context.rs  NamingContext::apply_naming_convention (CamelCase computed at the
                                call site), compute_field_name, compute_variant_name
     crate serde-rename-rule 0.2.3         RenameRule::apply_to_field, apply_to_variant, from_rename_all_str
   analysis/struct_parser.rs  field.ident.unraw() / variant.ident.unraw()  (C01-raw-ident-strip)
   written_value / find_key / first_quoted: the repair C06-8-9-serde-attr-spellings.
   State of the code: /repo with the repairs C06-1-variant-rule, C06-6-variant-skip,
   C15-fix-C15-rename-restart-offset and C15-fix-C15-camel-call-site-guard applied.
   The serde scanners are a private copy of the ones in Model/Scan.v (shared with C11),
   restated with structural recursion. Definitions only; proofs are in Proofs/C06*.v *)
From Coq Require Import String Ascii.
From Coq Require Import List Arith Bool NArith.
Require Import TT.Model.Str.
Import ListNotations.
Local Open Scope char_scope.
Local Open Scope list_scope.

(* ------------------------------------------------------------------ input syntax *)
(* One meta item inside #[serde(...)] on a field or variant. Literal values are the VALUE of the
   Rust string literal; its source text is [lit v]. *)
Inductive meta :=
| MRename (v : str)                       (* rename = <lit v> *)
| MRenameP (l : list (bool * str))        (* rename(serialize = <lit>, deserialize = <lit>): entries in
                                             source order, true = serialize *)
| MSkip                                   (* skip *)
| MOther (name : str) (v : option str).   (* name   or   name = <lit v> *)
Definition group := list meta.            (* one #[serde(m1, m2, ...)] attribute *)
Record item := { it_ident : str; it_attrs : list group }.

Inductive rule := RLower | RUpper | RPascal | RCamel | RSnake | RScreamingSnake | RKebab | RScreamingKebab.
Inductive cmeta :=
| CRenameAll (v : str)                    (* rename_all = <lit v> *)
| CRenameAllP (l : list (bool * str))     (* rename_all(serialize = <lit>, deserialize = <lit>) *)
| CFlag (name : str)                      (* deny_unknown_fields, default, ... *)
| CKV (name : str) (v : str).             (* tag = <lit>, rename = <lit> (container rename), rename_all_fields = <lit>, ... *)
(* shape of an enum variant: StructParser::parse_enum marks the FieldInfo of a variant with rust_type
   enum_variant / enum_variant_tuple / enum_variant_struct and FieldContext::from_field_info names an
   item by the variant routine iff rust_type starts with enum_variant - for all three shapes. The
   test [is_struct k] in emit_raw below stands for that test (variant_marker_is_variant in the proofs). *)
Inductive shape := SUnit | STuple | SStructV.
Definition variant_marker (sh : shape) : str :=
  match sh with SUnit => L "enum_variant" | STuple => L "enum_variant_tuple" | SStructV => L "enum_variant_struct" end.
Definition named_as_variant (rust_type : str) : bool := starts (L "enum_variant") rust_type.
Inductive kind := KStruct | KEnum.
Record container := { c_kind : kind; c_attrs : list (list cmeta); c_items : list item }.

Definition is_struct (k : kind) : bool := match k with KStruct => true | KEnum => false end.

(* ------------------------------------------------------------------ proc_macro2 printing *)
(* Source text of a string literal with value v, as the generators of the correspondence check
   print it and as proc_macro2 keeps it (literals are printed verbatim). *)
Fixpoint esc (v : str) : str :=
  match v with
  | [] => []
  | c :: r => if Ascii.eqb c """" then "\" :: """" :: esc r
              else if Ascii.eqb c "\" then "\" :: "\" :: esc r
              else c :: esc r
  end.
Definition lit (v : str) : str := """" :: esc v ++ [""""].

(* Token trees of the attribute arguments (MetaList.tokens). All puncts here are Alone. *)
Inductive tt := TIdent (s : str) | TPunct (c : ascii) | TLit (src : str).
Definition tok_text (t : tt) : str := match t with TIdent s => s | TPunct c => [c] | TLit s => s end.
(* proc_macro2 fallback Display: tokens separated by one space (no Joint punct occurs) *)
Fixpoint tok_go (first : bool) (l : list tt) : str :=
  match l with
  | [] => []
  | x :: r => (if first then [] else [" "]) ++ tok_text x ++ tok_go false r
  end.
Definition tok_string (l : list tt) : str := tok_go true l.

Fixpoint sep_tokens {A} (f : A -> list tt) (l : list A) : list tt :=
  match l with
  | [] => []
  | [m] => f m
  | m :: r => f m ++ TPunct "," :: sep_tokens f r
  end.
(* the parenthesised serialize / deserialize form: a Parenthesis group prints as ( inner ) with the
   inner tokens space-separated and no padding; it is carried here as one verbatim token *)
Definition side_name (b : bool) : str := if b then L "serialize" else L "deserialize".
Definition sd_tokens (p : bool * str) : list tt := [TIdent (side_name (fst p)); TPunct "="; TLit (lit (snd p))].
Definition paren_text (l : list (bool * str)) : str := "(" :: tok_string (sep_tokens sd_tokens l) ++ [")"].
Definition meta_tokens (m : meta) : list tt :=
  match m with
  | MRename v => [TIdent (L "rename"); TPunct "="; TLit (lit v)]
  | MRenameP l => [TIdent (L "rename"); TLit (paren_text l)]
  | MSkip => [TIdent (L "skip")]
  | MOther n None => [TIdent n]
  | MOther n (Some v) => [TIdent n; TPunct "="; TLit (lit v)]
  end.
Definition cmeta_tokens (m : cmeta) : list tt :=
  match m with
  | CRenameAll v => [TIdent (L "rename_all"); TPunct "="; TLit (lit v)]
  | CRenameAllP l => [TIdent (L "rename_all"); TLit (paren_text l)]
  | CFlag n => [TIdent n]
  | CKV n v => [TIdent n; TPunct "="; TLit (lit v)]
  end.
Definition group_string (g : group) : str := tok_string (sep_tokens meta_tokens g).
Definition cgroup_string (g : list cmeta) : str := tok_string (sep_tokens cmeta_tokens g).

(* ------------------------------------------------------------------ str::find and friends *)
(* s.find(pat): Some (text before the first occurrence, text after it) *)
Fixpoint find_sub (pat s : str) : option (str * str) :=
  if starts pat s then Some ([], skipn (List.length pat) s)
  else match s with
       | [] => None
       | c :: r => match find_sub pat r with Some (a, b) => Some (c :: a, b) | None => None end
       end.
Definition contains (pat s : str) : bool := match find_sub pat s with Some _ => true | None => false end.
(* s.find(c) for a single byte: (before, after) *)
Fixpoint after_char (c : ascii) (s : str) : option (str * str) :=
  match s with
  | [] => None
  | b :: r => if Ascii.eqb b c then Some ([], r)
              else match after_char c r with Some (x, y) => Some (b :: x, y) | None => None end
  end.

Definition nb (c : ascii) : N := N_of_ascii c.

(* ------------------------------------------------------------------ serde_parser.rs *)
(* first_quoted: the text between the first two double quotes *)
Definition quoted_value (text : str) : option str :=
  match after_char """" text with
  | Some (_, r) => match after_char """" r with Some (v, _) => Some v | None => None end
  | None => None end.

(* find_key: the next occurrence of key that is a whole attribute key - not preceded by an ASCII
   identifier character (rename in prerename, serialize in deserialize) and followed, after spaces,
   by = or ( (so not rename in rename_all, nor rename_all in rename_all_fields). Returns the text
   from that = or ( on. The Rust loop resumes after a rejected occurrence; none of the keys used
   (rename, rename_all, serialize) overlaps itself, so no occurrence can start inside a rejected one
   and looking at every position, as here, finds the same occurrence. prev_ident is the test on
   the last character of text[..at]. *)
Definition is_key_ident (c : ascii) : bool :=
  let x := nb c in ((48 <=? x) && (x <=? 57) || (65 <=? x) && (x <=? 90) || (97 <=? x) && (x <=? 122) || (x =? 95))%N.
Definition opens_value (rest : str) : bool :=
  match rest with c :: _ => Ascii.eqb c "=" || Ascii.eqb c "(" | [] => false end.
Fixpoint key_scan (key : str) (prev_ident : bool) (s : str) : option str :=
  match s with
  | [] => None
  | c :: r =>
      let rest := trim_l (skipn (List.length key) s) in           (* trim_start_matches(' ') *)
      if starts key s && negb prev_ident && opens_value rest then Some rest
      else key_scan key (is_key_ident c) r
  end.
Definition find_key (key text : str) : option str := key_scan key false text.
Definition strip1 (c : ascii) (s : str) : option str :=           (* strip_prefix(c) *)
  match s with x :: r => if Ascii.eqb x c then Some r else None | [] => None end.
Definition cut_paren (group : str) : str :=                       (* group[..group.find(')').unwrap_or(len)] *)
  match after_char ")" group with Some (b, _) => b | None => group end.
(* written_value: key = <lit>, or the serialize entry of key(serialize = <lit>, deserialize = <lit>) *)
Definition written_value (tokens key : str) : option str :=
  match find_key key tokens with
  | None => None
  | Some rest =>
      match strip1 "(" rest with
      | Some group =>
          match find_key (L "serialize") (cut_paren group) with
          | Some r => match strip1 "=" r with Some x => quoted_value x | None => None end
          | None => None end
      | None => match strip1 "=" rest with Some x => quoted_value x | None => None end
      end
  end.
Definition parse_rename (tokens : str) : option str := written_value tokens (L "rename").

Definition rule_of_str (s : str) : option rule :=
  if str_eqb s (L "lowercase") then Some RLower
  else if str_eqb s (L "UPPERCASE") then Some RUpper
  else if str_eqb s (L "PascalCase") then Some RPascal
  else if str_eqb s (L "camelCase") then Some RCamel
  else if str_eqb s (L "snake_case") then Some RSnake
  else if str_eqb s (L "SCREAMING_SNAKE_CASE") then Some RScreamingSnake
  else if str_eqb s (L "kebab-case") then Some RKebab
  else if str_eqb s (L "SCREAMING-KEBAB-CASE") then Some RScreamingKebab
  else None.

(* written_value(tokens, rename_all).and_then(from_rename_all_str(..).ok()) *)
Definition parse_rename_all (tokens : str) : option rule :=
  match written_value tokens (L "rename_all") with Some v => rule_of_str v | None => None end.

Definition field_skip (tokens : str) : bool :=
  contains (L "skip") tokens && negb (contains (L "skip_serializing") tokens).

(* parse_field_serde_attrs over the token strings of the serde attributes, in source order *)
Fixpoint field_attrs_go (gs : list str) (rn : option str) (sk : bool) : option str * bool :=
  match gs with
  | [] => (rn, sk)
  | ts :: r =>
      let sk' := if field_skip ts then true else sk in
      let rn' := match parse_rename ts with Some v => Some v | None => rn end in
      field_attrs_go r rn' sk'
  end.
Definition field_attrs (gs : list str) : option str * bool := field_attrs_go gs None false.

(* parse_struct_serde_attrs *)
Fixpoint struct_attrs_go (gs : list str) (ra : option rule) : option rule :=
  match gs with
  | [] => ra
  | ts :: r => struct_attrs_go r (match parse_rename_all ts with Some c => Some c | None => ra end)
  end.
Definition struct_attrs (gs : list str) : option rule := struct_attrs_go gs None.

(* ------------------------------------------------------------------ serde-rename-rule: apply_to_field *)
Definition is_us (c : ascii) : bool := Ascii.eqb c "_".
Definition is_lower (c : ascii) : bool := (97 <=? nb c)%N && (nb c <=? 122)%N.
Definition is_upper (c : ascii) : bool := (65 <=? nb c)%N && (nb c <=? 90)%N.
Definition upper (c : ascii) : ascii := if is_lower c then ascii_of_N (nb c - 32) else c.  (* to_ascii_uppercase *)
Definition lower (c : ascii) : ascii := if is_upper c then ascii_of_N (nb c + 32) else c.  (* to_ascii_lowercase *)
Definition is_cont (b : ascii) : bool := (128 <=? nb b)%N && (nb b <? 192)%N.

Fixpoint pascal (cap : bool) (s : str) : str :=
  match s with
  | [] => []
  | c :: s' => if is_us c then pascal true s'
               else if cap then upper c :: pascal false s' else c :: pascal false s'
  end.
Definition us_to_dash (s : str) : str := map (fun c => if is_us c then "-" else c) s.   (* replace of every underscore by a dash *)

(* apply_to_variant; SnakeCase puts an underscore before every upper-case letter but the first
   character and lower-cases everything (char::is_uppercase is read on ASCII only) *)
Fixpoint snake_go (first : bool) (s : str) : str :=
  match s with
  | [] => []
  | c :: r => (if negb first && is_upper c then ["_"] else []) ++ lower c :: snake_go false r
  end.
Definition snake (s : str) : str := snake_go true s.
(* RenameRule::apply_to_variant for every rule but CamelCase (compute_variant_name computes that one
   itself, see below) *)
Definition apply_to_variant (r : rule) (s : str) : str :=
  match r with
  | RPascal => s
  | RLower => map lower s
  | RUpper => map upper s
  | RCamel => s                      (* not reached *)
  | RSnake => snake s
  | RScreamingSnake => map upper (snake s)
  | RKebab => us_to_dash (snake s)
  | RScreamingKebab => us_to_dash (map upper (snake s))
  end.

(* ------------------------------------------------------------------ template_context.rs *)
(* apply_naming_convention: CamelCase is computed at the call site (PascalCase form, first character
   lowered through chars(); the name itself when that form is empty); the other rules are the
   crate's apply_to_field. Total. The first character is lowered with to_ascii_lowercase, the
   identity on a non-ASCII character, hence on its first byte. *)
Definition camel_guard (s : str) : str :=
  match pascal true s with [] => s | c :: rest => lower c :: rest end.
Definition apply_naming_convention (r : rule) (s : str) : str :=
  match r with
  | RLower | RSnake => s
  | RUpper | RScreamingSnake => map upper s
  | RPascal => pascal true s
  | RCamel => camel_guard s
  | RKebab => us_to_dash s
  | RScreamingKebab => us_to_dash (map upper s)
  end.
Definition default_case (dfc : str) : rule := match rule_of_str dfc with Some r => r | None => RCamel end.
Definition compute_field_name (dfc : str) (name : str) (rename : option str) (ra : option rule) : str :=
  match rename with
  | Some r => r
  | None => apply_naming_convention (match ra with Some c => c | None => default_case dfc end) name
  end.
(* variants: rename > the variant form of the container rule > the Rust name (no default case).
   CamelCase is computed at the call site: first character lowered through chars() (to_ascii_lowercase:
   the identity on a non-ASCII character, hence on its first byte), the empty string for an empty name;
   the other rules are the crate's apply_to_variant. Total. *)
Definition variant_camel (s : str) : str := match s with [] => [] | c :: rest => lower c :: rest end.
Definition compute_variant_name (name : str) (rename : option str) (ra : option rule) : str :=
  match rename, ra with
  | Some r, _ => r
  | None, Some RCamel => variant_camel name
  | None, Some c => apply_to_variant c name
  | None, None => name
  end.

(* ------------------------------------------------------------------ struct_parser.rs + generators *)
(* parse_field drops a struct field whose skip flag is set; parse_enum filters variants with the same
   flag. The generators print serialized_name of every remaining FieldInfo, in order:
   compute_field_name for fields, compute_variant_name for variants (rust_type starting with enum_variant). *)
(* syn IdentExt::unraw: the raw-identifier prefix is not part of the name *)
Definition unraw (s : str) : str := if starts (L "r#") s then skipn 2 s else s.

Fixpoint emit_raw (k : kind) (dfc : str) (ra : option rule) (l : list (str * list str)) : list str :=
  match l with
  | [] => []
  | (ident, toks) :: r =>
      let '(rn, sk) := field_attrs toks in
      if sk then emit_raw k dfc ra r
      else (if is_struct k then compute_field_name dfc (unraw ident) rn ra else compute_variant_name (unraw ident) rn ra)
           :: emit_raw k dfc ra r
  end.
(* the same on token strings given directly (attribute text outside the syntax above) *)
Definition emitted_keys_raw (dfc : str) (k : kind) (ctoks : list str) (items : list (str * list str)) : list str :=
  emit_raw k dfc (struct_attrs ctoks) items.
Definition item_raw (it : item) : str * list str := (it_ident it, map group_string (it_attrs it)).
Definition emitted_keys (dfc : str) (c : container) : list str :=
  emitted_keys_raw dfc (c_kind c) (map cgroup_string (c_attrs c)) (map item_raw (c_items c)).

Definition default_field_case : str := L "snake_case".      (* interface/config.rs default_field_case() *)
