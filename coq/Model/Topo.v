From Coq Require Import List Arith Bool.
Require Import TT.Model.Base.
Import ListNotations.

Section Topo.
Context {node : Type} {ED : EqDec node}.

Definition graph := list (node * list node).

Fixpoint deps (g : graph) (n : node) : list node :=
  match g with
  | [] => []
  | (k, ds) :: g' => if eq_dec n k then ds else deps g' n
  end.

Definition memb (x : node) (l : list node) : bool := if in_dec eq_dec x l then true else false.
Definition rem (x : node) (l : list node) : list node :=
  filter (fun y => if eq_dec x y then false else true) l.

Definition state := (list node * list node * list node)%type. (* sorted, visited, visiting *)

Fixpoint visit (fuel : nat) (g : graph) (n : node) (st : state) : option state :=
  match fuel with
  | 0 => None
  | S f =>
    let '(sorted, visited, visiting) := st in
    if memb n visiting then Some st
    else if memb n visited then Some st
    else
      match fold_left (fun acc d => match acc with None => None | Some s => visit f g d s end)
                      (deps g n) (Some (sorted, visited, n :: visiting)) with
      | None => None
      | Some (sorted', visited', visiting') =>
          Some (sorted' ++ [n], n :: visited', rem n visiting')
      end
  end.

Definition topo_sort (fuel : nat) (g : graph) (req : list node) : option (list node) :=
  match fold_left (fun acc r => match acc with
                                | None => None
                                | Some (s, v, vi) => if memb r v then Some (s, v, vi) else visit fuel g r (s, v, vi)
                                end) req (Some ([], [], [])) with
  | None => None
  | Some (s, _, _) => Some s
  end.

(* every node mentioned by the graph or the request; its length + 1 is the
   fuel with which the model is run *)
Definition universe (g : graph) (req : list node) : list node :=
  req ++ flat_map (fun kd => fst kd :: snd kd) g.
End Topo.
Arguments graph : clear implicits.
Arguments state : clear implicits.
