(* C08 / C14 / C17: the analysed project, the configuration, the fingerprint (= exactly the data
   that generation_cache.rs hash_commands / hash_structs / hash_config serialise to JSON before
   hashing) and the data that reaches the generated files without being hashed.
   Definitions only. Anchors (patched tree): src/build/generation_cache.rs hash_commands / hash_structs / hash_config, /repo/src/models.rs:43-165. *)
From Coq Require Import String Ascii List Arith Bool.
Require Import TT.Model.Str.
Import ListNotations.
Local Open Scope list_scope.

(* JSON-like trees: the serialised hash input and the views of the output files *)
Inductive tree := TA (s : str) | TB (b : bool) | TN (l : list tree).

Fixpoint tree_eqb (a b : tree) : bool :=
  match a, b with
  | TA s, TA t => str_eqb s t
  | TB x, TB y => Bool.eqb x y
  | TN l, TN m =>
      (fix go (l m : list tree) : bool :=
         match l, m with
         | [], [] => true
         | x :: l', y :: m' => tree_eqb x y && go l' m'
         | _, _ => false
         end) l m
  | _, _ => false
  end.

Definition topt (o : option str) : tree := match o with None => TN [] | Some s => TN [TA s] end.

(* ---- analysed data (models.rs) ---- *)
Record param := { p_name : str; p_type : str; p_opt : bool; p_rename : option str }.
Record chan := { ch_param : str; ch_msg : str }.
Record command := { c_name : str; c_file : str; c_line : str; c_params : list param; c_ret : str; c_async : bool;
                    c_chans : list chan; c_rename_all : option str }.
Record field := { f_name : str; f_type : str; f_opt : bool; f_pub : bool;
                  f_rename : option str; f_valid : option str }.
Record struct := { s_name : str; s_file : str; s_enum : bool; s_fields : list field; s_rename_all : option str }.
Record event := { e_name : str; e_payload : str }.
Record analysis := { a_cmds : list command; a_structs : list struct; a_events : list event;
                     a_ndefs : list str (* per file: how many type definitions were indexed *) }.

(* GenerateConfig: the fields that matter to a run (interface/config.rs:18-72) *)
Record config := { g_lib : str; g_private : bool; g_maps : option (list (str * str));
                   g_pcase : str; g_fcase : str; g_viz : bool; g_force : bool;
                   g_ppath : str (* project_path as spelled: file_path = g_ppath/<file> *) }.

(* ---- a project on disk and the discovery order ---- *)
Record sfile := { sf_path : str; sf_cmds : list command; sf_structs : list struct; sf_events : list event;
                  sf_ndefs : str (* number of struct/enum definitions in the file, used or not *) }.
Definition project := list sfile.
Definition empty_file : sfile := {| sf_path := []; sf_cmds := []; sf_structs := []; sf_events := []; sf_ndefs := [] |}.

(* schedule = iteration order of the file map (AstCache, analysis/mod.rs:88) and iteration order of the
   type_mappings map (serialised by hash_config in map order) *)
Record sched := { w_files : list nat; w_maps : list nat }.

Definition pick {A} (d : A) (l : list A) (w : list nat) : list A := map (fun i => nth i l d) w.

(* Rust String::cmp = byte-wise lexicographic *)
Fixpoint str_leb (a b : str) : bool :=
  match a, b with
  | [], _ => true
  | _ :: _, [] => false
  | x :: a', y :: b' =>
      if Nat.ltb (nat_of_ascii x) (nat_of_ascii y) then true
      else if Nat.ltb (nat_of_ascii y) (nat_of_ascii x) then false
      else str_leb a' b'
  end.

Section Sort.
  Context {A : Type} (leb : A -> A -> bool).
  Fixpoint insert (x : A) (l : list A) : list A :=
    match l with [] => [x] | y :: r => if leb x y then x :: l else y :: insert x r end.
  Fixpoint isort (l : list A) : list A := match l with [] => [] | x :: r => insert x (isort r) end.
End Sort.

Definition struct_leb (a b : struct) : bool := str_leb (s_name a) (s_name b).

(* commands in discovery order (files in map order, items in source order); structs collected from all
   files (the hash sorts them by name); events in discovery order *)
Definition analyse (w : sched) (p : project) : analysis :=
  let fs := pick empty_file p (w_files w) in
  {| a_cmds := flat_map sf_cmds fs; a_structs := flat_map sf_structs fs; a_events := flat_map sf_events fs;
     a_ndefs := map sf_ndefs fs |}.

Definition maps_in_order (w : sched) (c : config) : option (list (str * str)) :=
  match g_maps c with None => None | Some l => Some (pick ([], []) l (w_maps w)) end.

(* Path::strip_prefix of the project path (generation_cache.rs relative_to_project): the file path relative to
   the project path when it lies below it, the path itself otherwise *)
Fixpoint strip_pre (pre s : str) : option str :=
  match pre, s with
  | [], _ => Some s
  | a :: pre', b :: s' => if Ascii.eqb a b then strip_pre pre' s' else None
  | _ :: _, [] => None
  end.
Definition rel_path (root file : str) : str :=
  match strip_pre (root ++ L "/") file with Some r => r | None => file end.

(* ---- the fingerprint (generation_cache.rs after the repairs C08-C14-hash-inputs, C14-3, C08-6) ---- *)
(* hash_commands: CommandHashData / ParameterHashData / ChannelHashData, commands sorted by (file, name);
   serde_rename of parameters and serde_rename_all of commands are part of the data *)
Definition hp (p : param) : tree := TN [TA (p_name p); TA (p_type p); TB (p_opt p); topt (p_rename p)].
Definition hch (c : chan) : tree := TN [TA (ch_param c); TA (ch_msg c)].
Definition hc (root : str) (c : command) : tree :=
  TN [TA (c_name c); TA (rel_path root (c_file c)); TN (map hp (c_params c)); TA (c_ret c); TB (c_async c); TN (map hch (c_chans c));
      topt (c_rename_all c)].
(* hash_structs: StructHashData / FieldHashData, sorted by name; serde_rename, validator_attributes of the
   fields and serde_rename_all of the struct are part of the data *)
Definition hf (f : field) : tree :=
  TN [TA (f_name f); TA (f_type f); TB (f_opt f); TB (f_pub f); topt (f_rename f); topt (f_valid f)].
Definition hs (root : str) (s : struct) : tree :=
  TN [TA (s_name s); TA (rel_path root (s_file s)); TB (s_enum s); TN (map hf (s_fields s)); topt (s_rename_all s)].
(* hash_config: six fields; type_mappings through a BTreeMap = the pairs sorted by key, whatever the
   iteration order of the HashMap they are collected from; visualize_deps *)
Definition kv_leb (a b : str * str) : bool := str_leb (fst a) (fst b).
Definition hmaps (o : option (list (str * str))) : tree :=
  match o with None => TN [] | Some l => TN [TN (map (fun kv => TN [TA (fst kv); TA (snd kv)]) (isort kv_leb l))] end.

(* sort key: the relative file only; the sort is stable (Rust sort_by; insert / isort here), so the commands of
   one file keep their source order - the order the generated files follow (repair C08-10) *)
Definition cmd_leb (root : str) (a b : command) : bool :=
  str_leb (rel_path root (c_file a)) (rel_path root (c_file b)).

Definition fp_cmds (root : str) (a : analysis) : tree := TN (map (hc root) (isort (cmd_leb root) (a_cmds a))).
Definition fp_structs (root : str) (a : analysis) : tree := TN (map (hs root) (isort struct_leb (a_structs a))).
(* the project path itself is hashed only while visualize_deps is on (the graph prints the paths as given) *)
Definition fp_cfg (c : config) : tree :=
  TN [TA (g_lib c); TB (g_private c); hmaps (g_maps c); TA (g_pcase c); TA (g_fcase c); TB (g_viz c);
      (if g_viz c then TN [TA (g_ppath c)] else TN [])].
(* with_events: name and payload type of every discovered event, in discovery order *)
Definition u_events (a : analysis) : tree := TN (map (fun e => TN [TA (e_name e); TA (e_payload e)]) (a_events a)).

Definition fp (w : sched) (p : project) (c : config) : tree :=
  TN [fp_cmds (g_ppath c) (analyse w p); fp_structs (g_ppath c) (analyse w p); fp_cfg c; u_events (analyse w p)].

(* ---- data that reaches the output but not the hash: the remaining recorded class 8 ---- *)
(* data printed into dependency-graph.txt only and not hashed (dependency_graph.rs): file:line of every command,
   and the summary lines counting every indexed type definition, reachable from a command or not *)
Definition u_lines (a : analysis) (c : config) : tree :=
  if g_viz c then TN [TN (map (fun k => TA (c_line k)) (a_cmds a)); TN (map TA (a_ndefs a))] else TN [].

Definition unhashed (w : sched) (p : project) (c : config) : list tree :=
  let a := analyse w p in [u_lines a c].

(* ---- the files of a forced generation, in write order, as views of the data they are rendered from ----
   ts/generator.rs:176-199, zod/generator.rs:297-317 (types, commands, [events], index),
   bin/cargo-tauri-typegen.rs:263-273 and build/mod.rs:263-266 ([dependency-graph.txt, .dot]);
   the cache record is written after all of them (bin:276-279, build/mod.rs:269-274). *)
Inductive fname := Types | Commands | Events | Index | GraphTxt | GraphDot.
Definition fname_code (f : fname) : nat :=
  match f with Types => 0 | Commands => 1 | Events => 2 | Index => 3 | GraphTxt => 4 | GraphDot => 5 end.
Definition fname_eqb (a b : fname) : bool := Nat.eqb (fname_code a) (fname_code b).

Definition has_events (a : analysis) : bool := match a_events a with [] => false | _ => true end.

Definition files (w : sched) (p : project) (c : config) : list (fname * tree) :=
  let a := analyse w p in
  let lib := TA (g_lib c) in
  let root := g_ppath c in
  [ (Types, TN [lib; fp_cmds root a; fp_structs root a; fp_cfg c]);
    (Commands, TN [lib; fp_cmds root a; fp_cfg c]) ]
  ++ (if has_events a then [(Events, TN [lib; u_events a; fp_cfg c])] else [])
  ++ [ (Index, TN [lib; TB (has_events a)]) ]
  ++ (if g_viz c then [ (GraphTxt, TN [fp_cmds root a; fp_structs root a; fp_cfg c; u_lines a c]);
                        (GraphDot, TN [fp_cmds root a; fp_structs root a; fp_cfg c]) ] else []).

Definition has_commands (p : project) : bool :=
  existsb (fun f => match sf_cmds f with [] => false | _ => true end) p.

(* a schedule is valid for a project/configuration when it enumerates every file (mapping) exactly once *)
Definition is_perm_of_seq (w : list nat) (n : nat) : bool :=
  Nat.eqb (length w) n && forallb (fun i => existsb (Nat.eqb i) w) (seq 0 n).
Definition valid_sched (w : sched) (p : project) (c : config) : bool :=
  is_perm_of_seq (w_files w) (length p) &&
  match g_maps c with None => true | Some l => is_perm_of_seq (w_maps w) (length l) end.
Definition id_sched (p : project) (c : config) : sched :=
  {| w_files := seq 0 (length p); w_maps := match g_maps c with None => [] | Some l => seq 0 (length l) end |}.
