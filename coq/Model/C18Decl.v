(* C18: which project types types.ts declares, under a mapping table.
   anchors (paths below /repo/src):
     generators/mod.rs:54-96   TypeCollector::collect_used_types: the custom names of every parameter, return and
                               channel structure, then discover_nested_dependencies, then all_structs filtered
                               by the used names
     generators/ts/generator.rs:157-181, generators/zod/generator.rs:285-312: for every event the custom names of the
                               payload structure and their nested closure are added to the used structs; as a set
                               this is the closure of the union of the roots, so an event payload is one more site
     generators/mod.rs:98-135  discover_nested_dependencies: work list through the field structures of the used
                               structs (only names that are keys of all_structs are added)
     generators/mod.rs:138-166 collect_referenced_types_from_structure: every Custom(name), at any depth;
                               config.type_mappings is NOT consulted anywhere on this path (finding C18-4)
   all_structs holds the serde structs and enums of the project; a type alias is not entered.
   The model computes the SET of declared names (the work list is replaced by an iteration to the fixed point,
   which yields the same set). No proofs in this file. *)
From Coq Require Import String Ascii.
From Coq Require Import List Arith Bool.
Require Import TT.Model.Str TT.Model.TypeParse TT.Model.C05Parse TT.Model.C05Emit.
Import ListNotations.
Local Open Scope list_scope.

Record sinfo := { s_name : str; s_fields : list tstruct }.

Fixpoint refs (t : tstruct) : list str :=
  match t with
  | TPrim _ => []
  | TCustom n => [n]
  | TArr u | TSet u | TOpt u | TRes u => refs u
  | TMap k v => refs k ++ refs v
  | TTuple l => flat_map refs l
  end.
Definition mem (n : str) (l : list str) : bool := existsb (str_eqb n) l.
Definition find_struct (all : list sinfo) (n : str) : option sinfo := find (fun s => str_eqb (s_name s) n) all.
Definition is_struct (all : list sinfo) (n : str) : bool := match find_struct all n with Some _ => true | None => false end.
Definition add_new (all : list sinfo) (acc : list str) (x : str) : list str :=
  if mem x acc || negb (is_struct all x) then acc else acc ++ [x].
Definition step (all : list sinfo) (used : list str) : list str :=
  fold_left (fun acc n => match find_struct all n with
                          | Some s => fold_left (add_new all) (flat_map refs (s_fields s)) acc
                          | None => acc end) used used.
Fixpoint iter (k : nat) (all : list sinfo) (used : list str) : list str :=
  match k with 0 => used | S k' => iter k' all (step all used) end.
Definition used_types (all : list sinfo) (sites : list tstruct) : list str :=
  iter (List.length all) all (flat_map refs sites).
(* the table is an argument and is ignored: that is what the code does *)
Definition declared (m : mapping) (all : list sinfo) (sites : list tstruct) : list str :=
  filter (fun n => mem n (used_types all sites)) (map s_name all).
(* the exported names: interface N, in Zod mode also the schema constant NSchema *)
Definition declared_ts (zod : bool) (m : mapping) (all : list sinfo) (sites : list tstruct) : list str :=
  let d := declared m all sites in if zod then d ++ map (fun n => n ++ L "Schema") d else d.

(* recorded class C18-4: a project struct or enum whose own name is a key of the table *)
Definition is_key (m : mapping) (n : str) : bool := match lookup m n with Some _ => true | None => false end.
Definition kf18_own_name_mapped (m : mapping) (all : list sinfo) : bool := existsb (fun s => is_key m (s_name s)) all.

(* the clause as a boolean on a list of declared names (run-time oracle): no key N of the table is declared,
   neither as N nor as NSchema *)
Definition c18_decl_ok (m : mapping) (names : list str) : bool :=
  forallb (fun kv => negb (mem (fst kv) names) && negb (mem (fst kv ++ L "Schema") names)) m.

(* the frame clause on declarations (run-time oracle): the set of names exported with the table equals the
   set exported without it - the table changes nothing it does not name, and it names no declaration *)
Definition c18_decl_frame_ok (with_table without_table : list str) : bool :=
  forallb (fun x => mem x without_table) with_table && forallb (fun x => mem x with_table) without_table.

(* from Rust types, as the analysis hands them over *)
Definition structs_of (l : list rty) : list tstruct :=
  flat_map (fun t => match parse_type_structure2 (tts t) with Some ts => [ts] | None => [] end) l.
Definition mk_all (all : list (str * list rty)) : list sinfo :=
  map (fun p => {| s_name := fst p; s_fields := structs_of (snd p) |}) all.
