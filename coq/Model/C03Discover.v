(* C03 - faithful model of command discovery and of the wrapper list of commands.ts.
   ast_cache.rs parse_and_cache_all_files (walk; acceptance test on the directory COMPONENTS
   of the path below the project path; a file that cannot be read or parsed is reported and
   skipped), analysis/mod.rs
   analyze_project_with_verbose (per-file loop over the hash map, any order),
   command_parser.rs extract_commands_from_ast / is_tauri_command (top-level Item::Fn only),
   partials/command_function.ts.tera (one exported async function per CommandInfo).
   Definitions only; proofs are in Proofs/C03Proofs.v. *)
From Coq Require Import String Ascii.
From Coq Require Import List Arith Bool.
Require Import TT.Model.Str TT.Model.Pipeline TT.Model.C03RetType.
Import ListNotations.
Local Open Scope char_scope.
Local Open Scope list_scope.

(* ---- what a directory tree holds ---- *)
(* items of a parsed file, as far as discovery looks at them *)
Inductive ritem :=
| RFn (f : fn_def)                 (* free function at this level *)
| RImpl (methods : list fn_def)    (* impl block: methods are ImplItem::Fn, never Item::Fn *)
| RMod (items : list ritem)        (* inline module with a body *)
| ROther.                          (* struct, enum, use, const, ... *)

(* what may stand before the items of a source text, as far as the parser ENTRY POINT
   syn::parse_file treats it specially *)
Inductive pro :=
| PBom             (* U+FEFF *)
| PShebang         (* a line starting with #! whose next non-blank character is not [ *)
| PInnerAttr       (* #![...] *)
| PDocInner        (* //! ... *)
| PBlank           (* blank line *)
| PComment         (* // ... or /* ... */ *)
| PFrontmatter.    (* a block between --- lines *)

Inductive content :=
| Parsed (items : list ritem)      (* syn::parse_file succeeds *)
| Unparsable                       (* valid UTF-8, syn::parse_file fails *)
| NotUtf8                          (* std::fs::read_to_string fails *)
| Source (p : list pro) (items : list ritem).   (* valid UTF-8: these pieces, then items that parse *)

(* syn::parse_file (syn 2, lib.rs): strip ONE leading BOM; if the text then starts with #! and
   what follows is not [, cut the shebang line (the rest starts at its newline); hand the rest
   to parse_str, whose lexer (proc-macro2 fallback) strips a BOM at the very start of ITS
   input; after that only white space, comments and inner attributes may precede the items:
   a later shebang, a later BOM and a frontmatter block are syntax errors *)
Definition strip_bom (l : list pro) : list pro := match l with PBom :: r => r | _ => l end.
Definition pro_trivia (x : pro) : bool :=
  match x with PInnerAttr | PDocInner | PBlank | PComment => true | _ => false end.
Definition parse_file_accepts (l : list pro) : bool :=
  match strip_bom l with
  | PShebang :: r => forallb pro_trivia r
  | l1 => forallb pro_trivia (strip_bom l1)
  end.
(* what the match on syn::parse_file sees *)
Definition resolve (c : content) : content :=
  match c with
  | Source p items => if parse_file_accepts p then Parsed items else Unparsable
  | _ => c
  end.

(* what a symbolic link resolves to (the target may lie inside or outside the project path:
   the code only ever looks through the link) *)
Inductive link_target :=
| LFile (c : content)              (* a regular file with these contents *)
| LDir                             (* a directory *)
| LDangling.                       (* nothing *)

Inductive node :=
| NFile (name : str) (c : content)
| NDir (name : str) (children : list node)
| NLink (name : str) (t : link_target).
Definition layout := list node.     (* the entries of the project root *)

(* ---- WalkDir + path.is_file(): every entry that is a regular file, directly or through a
   symbolic link, with its components below the root (directories fail path.is_file() and
   only contribute a component; links to directories and dangling links fail it too) ---- *)
Fixpoint walk_node (dirs : list str) (n : node) : list (list str * content) :=
  match n with
  | NFile name c => [(dirs ++ [name], resolve c)]
  | NDir name ch => flat_map (walk_node (dirs ++ [name])) ch
  | NLink name t =>
      (* WalkDir::new without follow_links yields the link itself and never descends into it;
         path.is_file() and read_to_string(path) follow the link: the entry counts exactly when
         it resolves to a regular file, under the NAME AND PLACE OF THE LINK *)
      match t with LFile c => [(dirs ++ [name], resolve c)] | LDir => [] | LDangling => [] end
  end.
Definition walk_nodes (dirs : list str) (l : layout) : list (list str * content) :=
  flat_map (walk_node dirs) l.
Definition walk (l : layout) := walk_nodes [] l.

(* ---- the path string WalkDir hands out: root.join(c1).join(c2)...; PathBuf::push adds a
   separator unless the buffer already ends with one ---- *)
Definition slash : ascii := "/".
Definition norm_root (root : str) : str := if ends_with slash root then removelast root else root.
Definition flat (comps : list str) : str := flat_map (fun c => slash :: c) comps.
Definition path_string (root : str) (comps : list str) : str := norm_root root ++ flat comps.

(* Path::extension of the last component: text after the last dot, provided something
   stands before that dot *)
Fixpoint ext_rev (acc : str) (r : str) : option str :=     (* r = reversed file name *)
  match r with
  | [] => None
  | c :: r' => if Ascii.eqb c "." then (match r' with [] => None | _ => Some acc end) else ext_rev (c :: acc) r'
  end.
Definition extension (name : str) : option str := ext_rev [] (rev name).
Definition is_rs (name : str) : bool :=
  match extension name with Some e => str_eqb e (L "rs") | None => false end.

(* path.strip_prefix(project_path): every walked path is project_path joined with the
   components below it, and strip_prefix compares components, so it gives those back for
   every spelling of the root *)
Definition below_root (root : str) (comps : list str) : list str := comps.
(* Component::Normal(name) with name == target or name == .git *)
Definition excluded_component (d : str) : bool := str_eqb d (L "target") || str_eqb d (L ".git").
(* below_root.parent() drops the file name; any excluded directory component rejects the file *)
Definition accepted (root : str) (comps : list str) : bool :=
  is_rs (last comps []) && negb (existsb excluded_component (removelast (below_root root comps))).

(* ---- parse_and_cache_all_files: the Err arms of read_to_string and of syn::parse_file both
   print to stderr and continue; inside the model the function has no failing outcome ---- *)
Fixpoint load (root : str) (files : list (list str * content)) : list (list str * list ritem) :=
  match files with
  | [] => []
  | (p, c) :: r =>
      if accepted root p then
        match c with
        | NotUtf8 => load root r                   (* Failed to read ..., continue *)
        | Source _ _ => load root r                (* never walked: walk resolves it *)
        | Unparsable => load root r                (* Failed to parse ..., continue *)
        | Parsed items => (p, items) :: load root r
        end
      else load root r
  end.
Definition cache (root : str) (l : layout) := load root (walk l).

(* ---- extract_commands_from_ast ---- *)
Record cmd := { c_file : list str; c_fn : fn_def }.
Definition file_cmds (items : list ritem) : list fn_def :=
  flat_map (fun it => match it with RFn f => if is_tauri_command f then [f] else [] | _ => [] end) items.
Definition analyze_files (cached : list (list str * list ritem)) : list cmd :=
  flat_map (fun pi => map (fun f => {| c_file := fst pi; c_fn := f |}) (file_cmds (snd pi))) cached.

(* the run with the hash map iterated in walk order *)
Definition analyze (root : str) (l : layout) : list cmd := analyze_files (cache root l).

(* ---- commands.ts: one AsyncFn per CommandInfo, both modes ---- *)
Record wrapper := { w_invoke : str; w_ret : str }.
Definition promise_of (f : fn_def) : str := L "Promise<" ++ rt_ret_ts f ++ L ">".
Definition emit (cmds : list cmd) : list wrapper :=
  map (fun c => {| w_invoke := unraw (fn_name (c_fn c)); w_ret := promise_of (c_fn c) |}) cmds.
Definition wobs (w : wrapper) : str * str := (w_invoke w, w_ret w).

(* library-level observation of one CommandInfo: name, file_path, return_type, is_async *)
Definition cmd_obs (root : str) (c : cmd) : str * str * str * bool :=
  (unraw (fn_name (c_fn c)), path_string root (c_file c), ret_string (c_fn c), fn_async (c_fn c)).

(* ---- the build-script route: BuildSystem::run_generation, as far as commands.ts goes ----
   build/mod.rs generate_bindings + OutputManager::finalize_generation. The state is what the
   output directory holds: None = no commands.ts, Some p = commands.ts generated from the
   command list p (the .typecache written with it describes p).
   - no command discovered: nothing is generated and the empty file list makes
     cleanup_old_files remove commands.ts;
   - GenerationCache hit with every output present: nothing is written, the list of the
     existing files is handed to finalize_generation, commands.ts stays what it was. The cache
     key of the code covers more than the CommandInfo fields compared here (parameters,
     structs, events, configuration - property C08); every hit of the code is a hit here;
   - otherwise commands.ts is rewritten from the commands of this run. *)
Definition obs4_eqb (a b : str * str * str * bool) : bool :=
  match a, b with
  | (n1, p1, r1, a1), (n2, p2, r2, a2) => str_eqb n1 n2 && str_eqb p1 p2 && str_eqb r1 r2 && Bool.eqb a1 a2
  end.
Fixpoint list_eqb {A} (e : A -> A -> bool) (l1 l2 : list A) : bool :=
  match l1, l2 with
  | [], [] => true
  | x :: r1, y :: r2 => e x y && list_eqb e r1 r2
  | _, _ => false
  end.
Definition cache_hit (root : str) (p cs : list cmd) : bool :=
  list_eqb obs4_eqb (map (cmd_obs root) p) (map (cmd_obs root) cs).
Definition build_run (root : str) (st : option (list cmd)) (l : layout) : option (list cmd) :=
  match analyze root l with
  | [] => None
  | cs => match st with
          | Some p => if cache_hit root p cs then Some p else Some cs
          | None => Some cs
          end
  end.
Definition commands_ts (st : option (list cmd)) : list wrapper :=
  match st with Some p => emit p | None => [] end.
(* the wrappers in the output directory after each run of a history of source trees *)
Fixpoint build_history (root : str) (st : option (list cmd)) (ls : list layout) : list (list wrapper) :=
  match ls with
  | [] => []
  | l :: r => let st' := build_run root st l in commands_ts st' :: build_history root st' r
  end.

(* ---- histories over both routes, forced or not ----
   RCli = run_generate of the cargo-tauri-typegen binary: no command discovered -> early return,
   NOTHING in the output directory is touched (an earlier commands.ts stays); force (--force
   or "force": true) -> regenerate and save the cache; otherwise regenerate unless the cache
   record matches and every output is present; the cache is saved after EVERY generation,
   forced or not, so the record always describes the commands.ts next to it.
   RBuild = BuildSystem::run_generation: the same, except that without commands the empty file
   list makes finalize_generation remove commands.ts. *)
Inductive route := RBuild | RCli.
Record step := { s_route : route; s_force : bool; s_tree : layout }.
Definition run_step (root : str) (s : step) (st : option (list cmd)) : option (list cmd) :=
  match analyze root (s_tree s) with
  | [] => match s_route s with RBuild => None | RCli => st end
  | cs => if s_force s then Some cs
          else match st with
               | Some p => if cache_hit root p cs then Some p else Some cs
               | None => Some cs
               end
  end.
Fixpoint history (root : str) (st : option (list cmd)) (steps : list step) : list (list wrapper) :=
  match steps with
  | [] => []
  | s :: r => let st' := run_step root s st in commands_ts st' :: history root st' r
  end.
