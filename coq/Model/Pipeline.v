(* Spike of the project-level model: syntax of the documented feature set, command analysis,
   naming, and the plain-mode token streams of types.ts and commands.ts. *)
From Coq Require Import String Ascii.
From Coq Require Import List Arith Lia Bool.
Require Import TT.Model.Str TT.Model.TypeParse TT.Model.Render TT.Spec.TsLex.
Import ListNotations.
Local Open Scope list_scope.

(* ---- syntax ---- *)
Inductive qty :=
| QPath (segs : list str) (name : str) (angle : bool) (args : list qty)   (* a::b::Name<'x, T, ..> ; angle = has <...> at all *)
| QRef (t : qty)
| QTuple (ts : list qty).

Fixpoint to_rty (t : qty) : rty :=     (* what type_to_string looks at, for unqualified paths *)
  match t with
  | QPath _ n _ args => RPath n (map to_rty args)
  | QRef t => RRef (to_rty t)
  | QTuple ts => RTuple (map to_rty ts)
  end.
Fixpoint qtts (t : qty) : str :=       (* command_parser.rs type_to_string *)
  match t with
  | QPath segs n angle args =>
      join (L "::") (segs ++ [if angle then n ++ L "<" ++ join (L ", ") (map qtts args) ++ L ">" else n])
  | QRef t => L "&" ++ qtts t
  | QTuple [] => L "()"
  | QTuple ts => L "(" ++ join (L ", ") (map qtts ts) ++ L ")"
  end.

Inductive serde_item := SRename (v : str) | SSkip | SRenameAll (v : str) | SOtherSerde.
Record field := { f_name : str; f_ty : qty; f_serde : list serde_item }.
Record struct_def := { s_name : str; s_serde : list serde_item; s_fields : list field }.
Record fn_def := { fn_name : str; fn_attrs : list (list str); fn_async : bool;
                   fn_params : list (str * qty); fn_ret : option qty }.

(* ---- analysis (command_parser.rs, channel_parser.rs) ---- *)
Definition name_in (n : str) (l : list string) : bool := existsb (fun x => str_eqb n (L x)) l.
Local Open Scope string_scope.
Definition is_tauri_command (f : fn_def) : bool :=
  existsb (fun p => match p with
                    | [a; b] => str_eqb a (L "tauri") && str_eqb b (L "command")
                    | [a] => str_eqb a (L "command")
                    | _ => false end) (fn_attrs f).

Definition is_tauri_parameter_type (t : qty) : bool :=
  match t with
  | QPath segs n angle args =>
      let total := S (List.length segs) in
      let early :=
        match segs with
        | s0 :: rest =>
            if str_eqb s0 (L "tauri") then
              if Nat.eqb total 2 then Some (name_in n ["AppHandle"; "Window"; "WebviewWindow"; "State"; "Manager"])
              else if Nat.eqb total 3 && match rest with [s1] => str_eqb s1 (L "ipc") | _ => false end
                   then Some (name_in n ["Request"; "Channel"])
              else None
            else None
        | [] => None end in
      match early with
      | Some b => b
      | None => name_in n ["AppHandle"; "WebviewWindow"]
                || (str_eqb n (L "Channel") && angle)
                || (name_in n ["State"; "Window"] && angle)
      end
  | _ => false
  end.

Definition channel_message (t : qty) : option qty :=
  match t with
  | QPath segs n true (a :: _) =>
      if str_eqb n (L "Channel") && match segs with [] => true | s0 :: _ => str_eqb s0 (L "tauri") end then Some a else None
  | _ => None
  end.
Definition is_option (t : qty) : bool := match t with QPath _ n _ _ => str_eqb n (L "Option") | _ => false end.
Local Close Scope string_scope.

(* ---- naming (serde-rename-rule apply_to_field; ASCII) ---- *)
Definition is_us (c : ascii) : bool := Ascii.eqb c "_".
Definition lowerp (c : ascii) : bool := let n := nat_of_ascii c in ((97 <=? n) && (n <=? 122))%nat.
Definition upperp (c : ascii) : bool := let n := nat_of_ascii c in ((65 <=? n) && (n <=? 90))%nat.
Definition up (c : ascii) : ascii := if lowerp c then ascii_of_nat (nat_of_ascii c - 32) else c.
Definition low (c : ascii) : ascii := if upperp c then ascii_of_nat (nat_of_ascii c + 32) else c.
Fixpoint pascal (cap : bool) (s : str) : str :=
  match s with
  | [] => []
  | c :: s' => if is_us c then pascal true s' else if cap then up c :: pascal false s' else c :: pascal false s'
  end.
Definition camel (s : str) : str := match pascal true s with c :: r => low c :: r | [] => [] end.

(* ---- add_types_prefix (base/templates.rs), faithful, on strings ---- *)
Definition strip_suffix (suf s : str) : option str :=
  if starts (rev suf) (rev s) then Some (firstn (List.length s - List.length suf) s) else None.
Local Open Scope string_scope.
Fixpoint atp (fuel : nat) (s : str) : str :=
  match fuel with 0 => s | S f =>
  if name_in s ["void"; "string"; "number"; "boolean"; "any"; "unknown"; "null"; "undefined"] then s else
  match strip_suffix (L "[]") s with
  | Some base => if name_in base ["string"; "number"; "boolean"; "void"] then s else (L "types." ++ base ++ L "[]")%list
  | None =>
    if starts (L "Record<") s || starts (L "Map<") s then s else
    match strip_suffix (L " | null") s with
    | Some base => (atp f base ++ L " | null")%list
    | None =>
      match strip_suffix (L " | undefined") s with
      | Some base => (atp f base ++ L " | undefined")%list
      | None =>
        if starts (L "[") s && ends_with "]"%char s then s
        else if starts (L "types.") s then s else (L "types." ++ s)%list
      end end end end.
Definition add_types_prefix (s : str) : str := atp (S (List.length s)) s.
Local Close Scope string_scope.

(* ---- contexts ---- *)
Definition ts_of (t : qty) : str :=
  match parse_type_structure (qtts t) with Some ts => render ts | None => [] end.
Definition value_params (f : fn_def) := filter (fun p => negb (is_tauri_parameter_type (snd p))) (fn_params f).
Definition channels (f : fn_def) : list (str * qty) :=
  flat_map (fun p => match channel_message (snd p) with Some m => [(fst p, m)] | None => [] end) (fn_params f).
Definition ret_string (f : fn_def) : str := match fn_ret f with Some t => qtts t | None => L "()" end.
Definition ret_ts (f : fn_def) : str :=
  match parse_type_structure (ret_string f) with Some ts => add_types_prefix (render ts) | None => [] end.

Definition rename_of (l : list serde_item) : option str :=
  fold_left (fun acc i => match i with SRename v => Some v | _ => acc end) l None.
Definition rename_all_of (l : list serde_item) : option str :=
  fold_left (fun acc i => match i with SRenameAll v => Some v | _ => acc end) l None.
Definition skipped (l : list serde_item) : bool := existsb (fun i => match i with SSkip => true | _ => false end) l.
Definition field_key (s : struct_def) (f : field) : str :=
  match rename_of (f_serde f) with
  | Some v => v
  | None => match rename_all_of (s_serde s) with
            | Some r => if str_eqb r (L "camelCase") then camel (f_name f)
                        else if str_eqb r (L "PascalCase") then pascal true (f_name f) else f_name f
            | None => f_name f            (* default_field_case = snake_case = identity *)
            end
  end.

(* ---- plain-mode token streams (ts/templates/*.tera) ---- *)
Definition I (s : string) : tk := KId (L s).
Definition Pn (s : string) : tk := KP (L s).
Definition S1 (s : string) : tk := KStr "'"%char (L s).
Definition ty_toks (s : str) : list tk := lex_module s.       (* rendered type text, as the lexer sees it *)

Definition member_toks (key : str) (opt : bool) (ty : str) : list tk :=
  ty_toks key ++ (if opt then [Pn "?"] else []) ++ [Pn ":"] ++ ty_toks ty ++ [Pn ";"].

Definition struct_toks (s : struct_def) : list tk :=
  [I "export"; I "interface"; KId (s_name s); Pn "{"] ++
  flat_map (fun f => if skipped (f_serde f) then [] else member_toks (field_key s f) (is_option (f_ty f)) (ts_of (f_ty f))) (s_fields s) ++
  [Pn "}"].

Definition params_iface_toks (f : fn_def) : list tk :=
  match value_params f, channels f with
  | [], [] => []
  | vs, cs =>
      [I "export"; I "interface"; KId (pascal true (fn_name f) ++ L "Params"); Pn "{"] ++
      flat_map (fun p => member_toks (camel (fst p)) (is_option (snd p)) (ts_of (snd p))) vs ++
      flat_map (fun c => ty_toks (camel (fst c)) ++ [Pn ":"; I "Channel"; Pn "<"] ++ ty_toks (ts_of (snd c)) ++ [Pn ">"; Pn ";"]) cs ++
      [Pn "["; I "key"; Pn ":"; I "string"; Pn "]"; Pn ":"; I "unknown"; Pn ";"; Pn "}"]
  end.

Definition types_toks (structs : list struct_def) (cmds : list fn_def) : list tk :=
  (if existsb (fun f => negb (Nat.eqb (List.length (channels f)) 0)) cmds
   then [I "import"; I "type"; Pn "{"; I "Channel"; Pn "}"; I "from"; S1 "@tauri-apps/api/core"; Pn ";"] else []) ++
  flat_map struct_toks structs ++ flat_map params_iface_toks cmds.

Definition wrapper_toks (f : fn_def) : list tk :=
  let has := negb (Nat.eqb (List.length (value_params f) + List.length (channels f)) 0) in
  [I "export"; I "async"; I "function"; KId (camel (fn_name f)); Pn "("] ++
  (if has then [I "params"; Pn ":"; I "types"; Pn "."; KId (pascal true (fn_name f) ++ L "Params")] else []) ++
  [Pn ")"; Pn ":"; I "Promise"; Pn "<"] ++ ty_toks (ret_ts f) ++ [Pn ">"; Pn "{"; I "return"; I "invoke"; Pn "("; KStr "'"%char (fn_name f)] ++
  (if has then [Pn ","; I "params"] else []) ++ [Pn ")"; Pn ";"; Pn "}"].

Definition commands_toks (cmds : list fn_def) : list tk :=
  [I "import"; Pn "{"; I "invoke"] ++
  (if existsb (fun f => negb (Nat.eqb (List.length (channels f)) 0)) cmds then [Pn ","; I "Channel"] else []) ++
  [Pn "}"; I "from"; S1 "@tauri-apps/api/core"; Pn ";";
   I "import"; Pn "*"; I "as"; I "types"; I "from"; S1 "./types"; Pn ";"] ++
  flat_map wrapper_toks cmds.

(* ---- the sample project, as the generator would hand it over ---- *)
Definition T0 (n : string) : qty := QPath [] (L n) false [].
Definition T1 (n : string) (a : qty) : qty := QPath [] (L n) true [a].
Definition T2 (n : string) (a b : qty) : qty := QPath [] (L n) true [a; b].
Definition user : struct_def := {| s_name := L "User"; s_serde := [SRenameAll (L "camelCase")];
  s_fields := [ {| f_name := L "user_id"; f_ty := T0 "i32"; f_serde := [] |};
                {| f_name := L "nick"; f_ty := T1 "Option" (T0 "String"); f_serde := [] |};
                {| f_name := L "tags"; f_ty := T1 "Vec" (T0 "String"); f_serde := [SRename (L "allTags")] |};
                {| f_name := L "secret"; f_ty := T0 "String"; f_serde := [SSkip] |};
                {| f_name := L "pair"; f_ty := QTuple [T0 "String"; T0 "i32"]; f_serde := [] |};
                {| f_name := L "inner"; f_ty := T2 "HashMap" (T0 "String") (T1 "Vec" (T0 "u8")); f_serde := [] |} ] |}.
Definition tc : list (list str) := [[L "tauri"; L "command"]].
Definition fns : list fn_def := [
  {| fn_name := L "get_user"; fn_attrs := tc; fn_async := true;
     fn_params := [(L "app", QPath [L "tauri"] (L "AppHandle") false []); (L "user_id", T0 "i32"); (L "opt_x", T1 "Option" (T0 "i32"))];
     fn_ret := Some (T2 "Result" (T0 "User") (T0 "String")) |};
  {| fn_name := L "stream"; fn_attrs := tc; fn_async := false;
     fn_params := [(L "on_ev", T1 "Channel" (T0 "User")); (L "state", QPath [] (L "State") true [T0 "Db"]); (L "m", T2 "HashMap" (T0 "String") (T0 "i32"))];
     fn_ret := Some (T1 "Vec" (T0 "User")) |};
  {| fn_name := L "only_chan"; fn_attrs := tc; fn_async := false;
     fn_params := [(L "ch", QPath [L "tauri"; L "ipc"] (L "Channel") true [T0 "String"])]; fn_ret := None |};
  {| fn_name := L "nothing"; fn_attrs := [[L "command"]]; fn_async := false; fn_params := []; fn_ret := Some (T1 "Option" (T0 "User")) |};
  {| fn_name := L "helper"; fn_attrs := []; fn_async := false; fn_params := []; fn_ret := None |} ].
Definition cmds := filter is_tauri_command fns.

