(* C09, text level: the initialiser texts of the schema constants of the Zod-mode types.ts (C10 text model,
   Model/C10ZodText.v struct_schema_text / param_schema_text, read-only) and what the specification lexer and
   expression parser read from them. The project model of C07 / C09 carries no field names and no optional
   flags, so the members of a printed object are any members whose TYPES are the parsed field strings.
   Definitions only. *)
From Coq Require Import String Ascii.
From Coq Require Import List Arith Bool.
Require Import TT.Model.Base TT.Model.Str TT.Model.C07TypeParse TT.Model.C07Harvest TT.Model.C07Worklist TT.Model.C07Reach.
Require TT.Model.TypeParse TT.Model.C10Zod TT.Model.C10ZodText TT.Spec.C10Check.
Require Import TT.Spec.TsLex TT.Spec.TsModule TT.Spec.TsObs TT.Spec.C07Spec TT.Spec.C09Spec TT.Model.C09Module.
Import ListNotations.
Local Open Scope list_scope.

(* the TypeStructures the tool parses from the type strings of the fields / parameters *)
Definition parsed_fields (l : list str) : list (option TT.Model.TypeParse.tstruct) :=
  map (fun s => option_map conv (parse_type_structure s)) l.
(* members (any keys, any optional flags) whose types are exactly those structures, in order; every string parses *)
Definition members_of (l : list str) (fs : list TT.Model.C10Zod.member) : Prop :=
  map (fun f => Some (TT.Model.C10Zod.m_ty f)) fs = parsed_fields l.
(* a C10 struct declaration that renders the type n of the project; a C10 command declaration that renders c *)
Definition struct_sdef (p : project) (n : str) (s : TT.Model.C10Zod.sdef) : Prop :=
  exists l, field_strings p n = Some l /\ members_of l (TT.Model.C10Zod.s_fields s).
Definition cmd_cdef (c : fndef) (d : TT.Model.C10Zod.cdef) : Prop :=
  members_of (map tstr (cmd_params c)) (TT.Model.C10Zod.c_params d).

(* what the specification parser reads: the free identifiers of the expression an initialiser text parses to
   (Spec/C10Check.v parse_ex = lex_module, no error token, pexpr consuming every token) *)
Definition text_ids (s : str) : list str :=
  match TT.Spec.C10Check.parse_ex s with Some e => ex_ids [] e | None => [] end.
(* a module as (constant name, initialiser text) pairs, and the constants read from it *)
Definition text_consts (tm : list (str * str)) : list (str * list str) :=
  map (fun nt => (fst nt, text_ids (snd nt))) tm.
