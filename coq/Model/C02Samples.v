(* C02: sample projects (one inside each recorded class, one outside all of them). Definitions only. *)
From Coq Require Import String Ascii.
From Coq Require Import List Arith Bool.
Require Import TT.Model.Str TT.Model.Pipeline TT.Model.C02Model.
Import ListNotations.
Local Open Scope list_scope.

Definition fld (t : qty) : sfield := {| sf_ty := t; sf_skip := false |}.
Definition sstruct (n : string) (fs : list qty) : ritem := RStruct (L n) true true (map fld fs).
Definition senum (n : string) : ritem := REnum (L n) true.
Definition scmd (n : string) (ps : list (string * qty)) (r : option qty) (es : list emit_site) : ritem :=
  RFn (L n) true (map (fun x => (L (fst x), snd x)) ps) r (map SEmit es).
Definition sfn (n : string) (ps : list (string * qty)) (es : list emit_site) : ritem :=
  RFn (L n) false (map (fun x => (L (fst x), snd x)) ps) None (map SEmit es).
Definition sfnb (n : string) (ps : list (string * qty)) (b : list stmt) : ritem :=
  RFn (L n) false (map (fun x => (L (fst x), snd x)) ps) None b.
Definition semit (n : string) (pl : payload) : emit_site := {| em_name := L n; em_recv := L "app"; em_payload := pl |}.
Definition app_ty : qty := QPath [L "tauri"] (L "AppHandle") false [].
Definition mk (l : list ritem) : proj := {| pj_items := l; pj_maps := [] |}.
Local Open Scope string_scope.

Definition s_user := sstruct "User" [T0 "i32"; T0 "String"].
Definition s_status := senum "Status".

(* outside every class: structs, an enum, nesting, channel, an event, a mapping *)
Definition w_ok : proj :=
  {| pj_items := [s_user; s_status;
                  sstruct "Team" [T0 "User"; T1 "Vec" (T0 "User"); T1 "Option" (T0 "Status"); T2 "HashMap" (T0 "String") (T0 "Uuid")];
                  scmd "get_team" [("id", T0 "i32")] (Some (T2 "Result" (T0 "Team") (T0 "String"))) [];
                  scmd "save_user" [("app", app_ty); ("user", T0 "User"); ("on_ev", T1 "Channel" (T0 "Team"))] None [semit "user-saved" (PVar (L "user"))];
                  scmd "list_users" [] (Some (T1 "Vec" (T0 "User"))) []];
     pj_maps := [(L "Uuid", L "string")] |}.

Definition w_garbage := mk [s_user; scmd "index" [] (Some (T2 "Result" (T2 "HashMap" (T0 "String") (T0 "User")) (T0 "String"))) []].
Definition w_prefix := mk [s_user; scmd "by_name" [] (Some (T2 "HashMap" (T0 "String") (T0 "User"))) []].
Definition w_prefix2 := mk [scmd "grid" [] (Some (T1 "Vec" (T1 "Vec" (T0 "String")))) []].
(* batch 3 *)
Definition w_tuple_map_field :=
  mk [s_user; sstruct "Holder" [QTuple [T2 "HashMap" (T0 "String") (T0 "User"); T0 "bool"]]; scmd "hold" [("h", T0 "Holder")] None []].
Definition w_vecvec_user := mk [s_user; scmd "grid_u" [] (Some (T1 "Vec" (T1 "Vec" (T0 "User")))) []].
Definition w_prefix3 := mk [s_user; scmd "maps" [] (Some (T1 "Vec" (T2 "HashMap" (T0 "String") (T0 "User")))) []].
Definition w_zod_enum := mk [s_status; scmd "get_status" [] (Some (T0 "Status")) []].
Definition w_result1 := mk [s_user; scmd "load_user" [] (Some (T1 "Result" (T0 "User"))) []].
Definition w_event_nested :=
  mk [sstruct "Leaf" [T0 "i32"]; sstruct "Deep" [T0 "Leaf"]; scmd "ping" [] None [];
      sfn "notify" [("app", app_ty); ("d", T0 "Deep")] [semit "deep-changed" (PVar (L "d"))]].
Definition w_event_head :=
  mk [s_user; scmd "broadcast" [("app", app_ty); ("items", T1 "Vec" (T0 "User"))] None [semit "items" (PVar (L "items"))]].
Definition w_dup_listener :=
  mk [s_user; scmd "touch" [("app", app_ty); ("u", T0 "User")] None [semit "user-updated" (PVar (L "u")); semit "user_updated" (PVar (L "u"))]].
(* the same event from two places, a name with characters that are not legal in identifiers *)
Definition w_same_event_twice :=
  mk [s_user; scmd "touch" [("app", app_ty); ("u", T0 "User")] None [semit "user:updated/now" (PVar (L "u")); semit "user:updated/now" (PVar (L "u"))]].
Definition w_ipc_channel :=
  mk [s_user; scmd "watch" [("on_ev", QPath [L "ipc"] (L "Channel") true [T0 "User"])] None []].
(* re-bindings of the payload variable: an initialiser that cannot be typed keeps the earlier entry;
   a struct literal and a typed let replace it *)
Definition w_rebind :=
  mk [sstruct "Summary" [T0 "Detail"]; sstruct "Detail" [T0 "i32"]; sstruct "Other" [T0 "bool"]; scmd "ping" [] None [];
      sfnb "publish" [("app", app_ty); ("summary", T0 "Summary")]
        [SLet (L "summary") IOther; SEmit (semit "summary-ready" (PVar (L "summary")));
         SLet (L "copy") (IRef (IVar (L "summary"))); SEmit (semit "copy-ready" (PVar (L "copy")));
         SLetTy (L "summary") (T0 "Other"); SLet (L "summary") IOther; SEmit (semit "other-ready" (PVar (L "summary")))]].
Definition w_collision :=
  mk [sstruct "GetUserParams" [T0 "i32"]; scmd "get_user" [("id", T0 "i32"); ("p", T0 "GetUserParams")] None []].
