(* Generic worklists of C07 (definitions only).
   [work]   : resolve_types_lazily (analysis/mod.rs): pop a name; skip it if already resolved; if it
              can be resolved record it and push those of its dependencies that are not yet resolved
              and have an entry in the definition index ([pushok]).
   [nested] : TypeCollector::discover_nested_dependencies (generators/mod.rs): marks a name when it is
              pushed ([all]) and again when it is popped ([processed]). *)
From Coq Require Import List Arith Bool.
Import ListNotations.

Section Worklist.
Context {node : Type}.
Variable eq_dec : forall a b : node, {a = b} + {a <> b}.

Definition memb (x : node) (l : list node) : bool := if in_dec eq_dec x l then true else false.

Section Work.
Variable succ : node -> list node.      (* names harvested from the fields of the definition of n, in set order *)
Variable defined : node -> bool.        (* n can be resolved to a StructInfo *)
Variable pushok : node -> bool.         (* n has an entry in the definition index *)

Fixpoint work (fuel : nat) (todo seen : list node) : option (list node) :=
  match fuel with
  | 0 => None
  | S f =>
    match todo with
    | [] => Some seen
    | n :: rest =>
        if memb n seen then work f rest seen
        else if defined n then
          let seen' := n :: seen in
          work f (filter (fun d => negb (memb d seen') && pushok d) (succ n) ++ rest) seen'
        else work f rest seen
    end
  end.

(* specification of the worklists: names reachable from a root through resolvable names *)
Inductive reach : node -> node -> Prop :=
| reach_refl a : reach a a
| reach_step a b c : defined a = true -> In b (succ a) -> reach b c -> reach a c.
Definition target (roots : list node) (x : node) : Prop :=
  defined x = true /\ exists r, In r roots /\ reach r x.
End Work.

Section Nested.
Variable fields : node -> list (list node).   (* per field of n: the names its TypeStructure mentions, in set order *)
Variable known : node -> bool.                (* all_structs.contains_key *)

Definition push_step (acc : list node * list node) (x : node) : list node * list node :=
  let '(td, al) := acc in
  if negb (memb x al) && known x then (x :: td, x :: al) else (td, al).

Fixpoint nested (fuel : nat) (todo processed all : list node) : option (list node) :=
  match fuel with
  | 0 => None
  | S f =>
    match todo with
    | [] => Some all
    | n :: rest =>
        if memb n processed then nested f rest processed all
        else if known n then
          let '(todo', all') := fold_left (fun acc names => fold_left push_step names acc) (fields n) (rest, all) in
          nested f todo' (n :: processed) all'
        else nested f rest (n :: processed) all
    end
  end.
End Nested.

(* generate_models: after collect_used_types, the names each event payload mentions are inserted when
   they are discovered types (HashMap insert: no second copy) *)
Definition add_event (disc : list node) (acc : list node) (n : node) : list node :=
  if memb n disc && negb (memb n acc) then acc ++ [n] else acc.
Definition add_events (disc : list node) (events : list (list node)) (base : list node) : list node :=
  fold_left (fun acc e => fold_left (add_event disc) e acc) events base.
End Worklist.
