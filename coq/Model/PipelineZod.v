(* Spike: Zod-mode generator model (schema_builder.rs + zod templates), compared token for token *)
From Coq Require Import String Ascii.
From Coq Require Import List Arith Lia Bool.
Require Import TT.Model.Str TT.Model.TypeParse TT.Model.Render TT.Spec.TsLex TT.Model.Pipeline.
Import ListNotations.
Local Open Scope list_scope.

(* ---- zod/schema_builder.rs render_type, without validator attributes (validator = None) ---- *)
Fixpoint zrender (t : tstruct) (is_key : bool) : str :=
  match t with
  | TOpt u => zrender u is_key ++ L ".optional()"
  | TPrim p =>
      if str_eqb p (L "string") then L "z.string()"
      else if str_eqb p (L "number") then (if is_key then L "z.number()" else L "z.coerce.number()")
      else if str_eqb p (L "boolean") then L "z.coerce.boolean()"
      else if str_eqb p (L "void") then L "z.void()"
      else L "z.unknown() /* Unknown primitive: " ++ p ++ L " */"
  | TArr u => L "z.array(" ++ zrender u false ++ L ")"
  | TMap k v => L "z.record(" ++ zrender k true ++ L ", " ++ zrender v false ++ L ")"
  | TSet u => L "z.set(" ++ zrender u false ++ L ")"
  | TTuple [] => L "z.void()"
  | TTuple l => L "z.tuple([" ++ join (L ", ") (map (fun x => zrender x false) l) ++ L "])"
  | TRes u => L "z.union([" ++ zrender u false ++ L ", z.object({ error: z.string() })])"
  | TCustom n => n ++ L "Schema"
  end.
Definition zschema_of (t : qty) : str :=
  match parse_type_structure (qtts t) with Some ts => zrender ts false | None => [] end.

(* ---- templates as text with holes; the token stream is the lexing of that text ---- *)
Definition cat (l : list str) : str := concat l.
Definition T (s : string) : str := L s.

Definition struct_schema_text (s : struct_def) : str :=
  cat [T "export const "; s_name s; T "Schema = z.object({ "] ++
  cat (map (fun f => if skipped (f_serde f) then [] else cat [field_key s f; T ": "; zschema_of (f_ty f); T ", "]) (s_fields s)) ++
  cat [T "}); export type "; s_name s; T " = z.infer<typeof "; s_name s; T "Schema>; "].

Definition tname (f : fn_def) : str := pascal true (fn_name f).
Definition param_schema_text (f : fn_def) : str :=
  match value_params f with
  | [] => []
  | vs => cat [T "export const "; tname f; T "ParamsSchema = z.object({ "] ++
          cat (map (fun p => cat [camel (fst p); T ": "; zschema_of (snd p); (if is_option (snd p) then T ".optional()" else []); T ", "]) vs) ++
          T "}); "
  end.
Definition chan_members (f : fn_def) : str :=
  cat (map (fun c => cat [camel (fst c); T ": Channel<"; ts_of (snd c); T ">; "]) (channels f)).
Definition alias_text (f : fn_def) : str :=
  match value_params f, channels f with
  | [], [] => []
  | [], _ => cat [T "export interface "; tname f; T "Params { "; chan_members f; T "[key: string]: unknown; } "]
  | _, [] => cat [T "export type "; tname f; T "Params = z.infer<typeof "; tname f; T "ParamsSchema>; "]
  | _, _ => cat [T "export interface "; tname f; T "Params extends z.infer<typeof "; tname f; T "ParamsSchema> { "; chan_members f; T "} "]
  end.
Definition has_chan (cmds : list fn_def) := existsb (fun f => negb (Nat.eqb (List.length (channels f)) 0)) cmds.
Definition zod_types_text (sorted_structs : list struct_def) (cmds : list fn_def) : str :=
  T "import { z } from 'zod'; " ++
  (if has_chan cmds then T "import type { Channel } from '@tauri-apps/api/core'; " else []) ++
  cat (map struct_schema_text sorted_structs) ++ cat (map param_schema_text cmds) ++ cat (map alias_text cmds).

Definition hooks_text : str := T
"export interface CommandHooks<T> { onValidationError?: (error: ZodError) => void; onInvokeError?: (error: unknown) => void; onSuccess?: (result: T) => void; onSettled?: () => void; } ".

Definition zod_wrapper_text (f : fn_def) : str :=
  let ret := ret_ts f in
  let hp := negb (Nat.eqb (List.length (value_params f)) 0) in
  let hc := negb (Nat.eqb (List.length (channels f)) 0) in
  let nm := fn_name f in
  if hp || hc then
    cat [T "export async function "; camel nm; T "(params: types."; tname f; T "Params, hooks?: CommandHooks<"; ret; T ">): Promise<"; ret; T "> { try { "] ++
    (if hp then
       cat [T "const result = types."; tname f; T "ParamsSchema.safeParse(params); if (!result.success) { hooks?.onValidationError?.(result.error); throw result.error; } "] ++
       (if hc then
          cat [T "const data = await invoke<"; ret; T ">('"; nm; T "', { ...result.data, "] ++
          join (T ", ") (map (fun c => cat [camel (fst c); T ": params."; camel (fst c)]) (channels f)) ++ T " }); "
        else cat [T "const data = await invoke<"; ret; T ">('"; nm; T "', result.data); "])
     else cat [T "const data = await invoke<"; ret; T ">('"; nm; T "', params); "]) ++
    T "hooks?.onSuccess?.(data); return data; } catch (error) { " ++
    (if hp then T "if (!(error instanceof ZodError)) { hooks?.onInvokeError?.(error); } " else T "hooks?.onInvokeError?.(error); ") ++
    T "throw error; } finally { hooks?.onSettled?.(); } } "
  else
    cat [T "export async function "; camel nm; T "(hooks?: CommandHooks<"; ret; T ">): Promise<"; ret; T "> { try { const data = await invoke<"; ret; T ">('"; nm;
         T "'); hooks?.onSuccess?.(data); return data; } catch (error) { hooks?.onInvokeError?.(error); throw error; } finally { hooks?.onSettled?.(); } } "].

Definition zod_commands_text (cmds : list fn_def) : str :=
  (if has_chan cmds then T "import { invoke, Channel } from '@tauri-apps/api/core'; " else T "import { invoke } from '@tauri-apps/api/core'; ") ++
  T "import { ZodError } from 'zod'; import * as types from './types'; " ++ hooks_text ++ cat (map zod_wrapper_text cmds).

(* ---- the Zod sample project (p5 plus a set field and an integer-keyed map parameter) ---- *)
Definition user7 : struct_def := {| s_name := s_name user; s_serde := s_serde user;
  s_fields := s_fields user ++ [ {| f_name := L "set"; f_ty := T1 "HashSet" (T0 "bool"); f_serde := [] |} ] |}.
Definition fns7 : list fn_def := map (fun f =>
  if str_eqb (fn_name f) (L "stream")
  then {| fn_name := fn_name f; fn_attrs := fn_attrs f; fn_async := fn_async f;
          fn_params := [(L "on_ev", T1 "Channel" (T0 "User")); (L "state", QPath [] (L "State") true [T0 "Db"]); (L "m", T2 "HashMap" (T0 "i32") (T0 "i32"))];
          fn_ret := fn_ret f |}
  else f) fns.
Definition cmds7 := filter is_tauri_command fns7.

