(* C04 - faithful model of what decides the keys of the object passed to invoke:
     command_parser.rs   is_tauri_parameter_type (131-188), extract_parameters (91-127), is_optional_type (247-254)
     channel_parser.rs   extract_channel_message_type (66-90), is_channel_segment (94-121)
     template_context.rs compute_parameter_name (60-80), CommandContext::from_command_info (145-207)
     config.rs           default_parameter_case (59-60, 86-88)
     templates           ts/partials/param_interface.ts.tera, ts/partials/command_function.ts.tera,
                         zod/partials/param_schemas.ts.tera, type_aliases.ts.tera, command_function.ts.tera
   Definitions only. The generated module is represented by the three things the key set depends on:
   the parameter schema (Zod mode), the declaration of the Params type, and the shape of the
   second argument of invoke. *)
From Coq Require Import String Ascii.
From Coq Require Import List Arith Bool.
Require Import TT.Model.Str TT.Model.C04Case.
Import ListNotations.
Local Open Scope list_scope.

(* ---- parameter types, as far as the analysis looks at them ---- *)
Inductive stag := STauri | SIpc | SOtherSeg.                 (* a non-final path segment *)
Inductive ntag := NAppHandle | NWindow | NWebviewWindow | NState | NManager | NRequest | NChannel
                | NOption | NOther.                          (* the final path segment *)
Inductive garg := GLife | GType.                             (* generic argument: lifetime / type (const args count as GLife) *)
(* args: None = no angle brackets; Some l = the arguments between < and > *)
Inductive aty := APath (pre : list stag) (n : ntag) (args : option (list garg)) | AOther.
(* concrete form: identifiers as written *)
Inductive cty := CPath (segs : list str) (args : option (list garg)) | COther.

Local Open Scope string_scope.
Definition seg_tag (s : str) : stag :=
  if str_eqb s (L "tauri") then STauri else if str_eqb s (L "ipc") then SIpc else SOtherSeg.
Definition name_tag (s : str) : ntag :=
  if str_eqb s (L "AppHandle") then NAppHandle else if str_eqb s (L "Window") then NWindow
  else if str_eqb s (L "WebviewWindow") then NWebviewWindow else if str_eqb s (L "State") then NState
  else if str_eqb s (L "Manager") then NManager else if str_eqb s (L "Request") then NRequest
  else if str_eqb s (L "Channel") then NChannel else if str_eqb s (L "Option") then NOption else NOther.
Local Close Scope string_scope.
Definition abs_ty (t : cty) : aty :=
  match t with
  | COther => AOther
  | CPath segs args => match rev segs with
                       | [] => AOther
                       | n :: pre_rev => APath (map seg_tag (rev pre_rev)) (name_tag n) args
                       end
  end.

Definition args_nonempty (a : option (list garg)) : bool := match a with Some (_ :: _) => true | _ => false end.
Definition args_angle (a : option (list garg)) : bool := match a with Some _ => true | None => false end.
Definition first_is_type (a : option (list garg)) : bool := match a with Some (GType :: _) => true | _ => false end.
(* non-empty and lifetimes only: Request<'_>, Request<'a> *)
Definition args_life_only (a : option (list garg)) : bool :=
  match a with
  | Some (g :: l) => forallb (fun x => match x with GLife => true | GType => false end) (g :: l)
  | _ => false
  end.

(* command_parser.rs:131 *)
Definition last_seg_rule (n : ntag) (args : option (list garg)) : bool :=
  match n with
  | NAppHandle | NWebviewWindow => true
  | NChannel => args_angle args                (* matches!(arguments, AngleBracketed(_)) *)
  | NState | NWindow => args_nonempty args     (* !arguments.is_empty() *)
  | NRequest => args_life_only args            (* repair C04-3-request-with-lifetime: Request only with its lifetime *)
  | _ => false
  end.
Definition is_injected (t : aty) : bool :=
  match t with
  | AOther => false
  | APath pre n args =>
      match pre with
      | [STauri] =>                            (* segments.len() == 2, early return *)
          match n with NAppHandle | NWindow | NWebviewWindow | NState | NManager => true | _ => false end
      | [STauri; SIpc] =>                      (* segments.len() == 3 && segments[1] == ipc, early return *)
          match n with NRequest | NChannel => true | _ => false end
      | _ => last_seg_rule n args
      end
  end.
(* channel_parser.rs:66 and :94: bare, rooted at tauri, or (repair C04-2-ipc-channel) the two-segment ipc::Channel *)
Definition channel_of (t : aty) : bool :=
  match t with
  | APath pre NChannel args =>
      (match pre with [] => true | STauri :: _ => true | [SIpc] => true | _ => false end) && first_is_type args
  | _ => false
  end.
(* command_parser.rs:247 *)
Definition is_opt (t : aty) : bool := match t with APath _ NOption _ => true | _ => false end.

(* ---- commands and configuration ---- *)
(* how the parameter is bound: a plain identifier (also mut x, ref x), the wildcard _, or a destructuring
   pattern (Point { x, y }: Point, Wrapper(inner): Wrapper). extract_parameters (command_parser.rs:100) and
   extract_channels_from_command (channel_parser.rs:33) both look only at Pat::Ident and skip everything else. *)
Inductive ppat := PatIdent | PatWild | PatDestructure.
Record param := { p_name : str; p_ty : aty; p_pat : ppat }.
Definition bound (p : param) : bool := match p_pat p with PatIdent => true | _ => false end.
(* c_macro_case: the value of rename_all inside the command attribute itself, when present
   (is_tauri_command looks at the attribute path only, so the model never reads it) *)
Record cmd := { c_name : str; c_macro_case : option str; c_params : list param }.
Record cfg := { default_case : str }.

Definition configured (cf : cfg) : rule :=
  match rule_of_str (default_case cf) with Some r => r | None => RCamel end.   (* .unwrap_or(CamelCase) *)
(* compute_parameter_name with no serde attribute on the parameter or the function *)
Definition param_key (cf : cfg) (name : str) : outcome str := apply_rule (configured cf) name.

Definition value_params (c : cmd) : list param := filter (fun p => bound p && negb (is_injected (p_ty p))) (c_params c).
Definition chan_params (c : cmd) : list param := filter (fun p => bound p && channel_of (p_ty p)) (c_params c).

Fixpoint mapO {A B} (f : A -> outcome B) (l : list A) : outcome (list B) :=
  match l with
  | [] => Ok []
  | x :: l' => match f x, mapO f l' with Ok y, Ok ys => Ok (y :: ys) | _, _ => Panic end
  end.

Record ctx := { x_values : list (str * bool); x_chans : list str }.
Definition value_entry (cf : cfg) (p : param) : outcome (str * bool) :=
  match param_key cf (p_name p) with Ok k => Ok (k, is_opt (p_ty p)) | Panic => Panic end.
Definition analyse (cf : cfg) (c : cmd) : outcome ctx :=
  match apply_rule RCamel (c_name c) with                 (* compute_function_name *)
  | Panic => Panic
  | Ok _ =>
      match mapO (value_entry cf) (value_params c), mapO (fun p => param_key cf (p_name p)) (chan_params c) with
      | Ok vs, Ok cs => Ok {| x_values := vs; x_chans := cs |}
      | _, _ => Panic
      end
  end.

(* ---- what is generated ---- *)
Inductive src := Validated | Raw.
Inductive decl :=
| DNone                                              (* no Params type *)
| DInterface (ext : bool) (members : list (str * bool))  (* interface [extends z.infer<typeof Schema>] { key[?]: ..; } *)
| DAlias.                                            (* type Params = z.infer<typeof Schema> *)
Inductive callsite := CNoArg | CParams | CResultData | CSpread (explicit : list str).
Record gen := { g_schema : option (list (str * bool));   (* z.object({ key: ..[.optional()], }) *)
                g_decl : decl; g_call : callsite }.
Definition entry := (str * bool * src)%type.             (* key, omittable, validated before invoke? *)

Definition chan_members (cs : list str) : list (str * bool) := map (fun k => (k, false)) cs.
Definition gen_plain (x : ctx) : gen :=
  match x_values x ++ chan_members (x_chans x) with
  | [] => {| g_schema := None; g_decl := DNone; g_call := CNoArg |}
  | ms => {| g_schema := None; g_decl := DInterface false ms; g_call := CParams |}
  end.
Definition gen_zod (x : ctx) : gen :=
  match x_values x, x_chans x with
  | [], [] => {| g_schema := None; g_decl := DNone; g_call := CNoArg |}
  | [], cs => {| g_schema := None; g_decl := DInterface false (chan_members cs); g_call := CParams |}
  | vs, [] => {| g_schema := Some vs; g_decl := DAlias; g_call := CResultData |}
  | vs, cs => {| g_schema := Some vs; g_decl := DInterface true (chan_members cs); g_call := CSpread cs |}
  end.
Inductive mode := Plain | Zod.
Definition generate (cf : cfg) (m : mode) (c : cmd) : outcome gen :=
  match analyse cf c with
  | Panic => Panic
  | Ok x => Ok (match m with Plain => gen_plain x | Zod => gen_zod x end)
  end.

(* ---- resolution of the object reaching invoke to its keys (shared by the theorems and by the
        run-time observation of the real files):
        params      -> keys of the Params declaration (own members, plus the schema it extends / aliases)
        result.data -> keys of the schema that validated params (z.object strips unknown keys)
        { ...result.data, k: params.k } -> schema keys, plus each explicit k, which must be a key of Params *)
Definition tag (s : src) (l : list (str * bool)) : list entry := map (fun kb => (fst kb, snd kb, s)) l.
Definition caller_keys (g : gen) : option (list (str * bool)) :=
  match g_decl g with
  | DNone => None
  | DAlias => g_schema g
  | DInterface false ms => Some ms
  | DInterface true ms => match g_schema g with Some s => Some (ms ++ s) | None => None end   (* own members first *)
  end.
Fixpoint lookup (k : str) (l : list (str * bool)) : option bool :=
  match l with [] => None | (k', b) :: l' => if str_eqb k k' then Some b else lookup k l' end.
Definition invoke_keys (g : gen) : option (list entry) :=
  match g_call g with
  | CNoArg => Some []
  | CParams => option_map (tag Raw) (caller_keys g)
  | CResultData => option_map (tag Validated) (g_schema g)
  | CSpread ks =>
      match g_schema g, caller_keys g with
      | Some s, Some ck =>
          match mapM (fun k => match lookup k ck with Some b => Some (k, b, Raw) | None => None end) ks with
          | Some es => Some (tag Validated s ++ es)
          | None => None
          end
      | _, _ => None
      end
  end.

(* ---- project level (analysis/mod.rs:94-124 analyze_project, :500-515 find_function_in_ast) ----
   A file is the list of its top-level functions; some carry the command attribute. The value
   parameters of a command come from its own signature (extract_commands_from_ast); its channels are
   extracted from the first top-level function of the same file whose name equals the command name
   (find_function_in_ast) - the command itself when top-level names are unique in the file. Nothing of
   another file is looked at. *)
Record fn_item := { f_cmd : cmd; f_is_command : bool }.
Definition file := list fn_item.
Definition project := list file.

Definition find_fn (name : str) (f : file) : option cmd :=
  match find (fun g => str_eqb (c_name (f_cmd g)) name) f with Some g => Some (f_cmd g) | None => None end.
Definition chan_source (f : file) (c : cmd) : list param :=
  match find_fn (c_name c) f with Some d => chan_params d | None => [] end.

Definition analyse_in (cf : cfg) (f : file) (c : cmd) : outcome ctx :=
  match apply_rule RCamel (c_name c) with
  | Panic => Panic
  | Ok _ =>
      match mapO (value_entry cf) (value_params c), mapO (fun p => param_key cf (p_name p)) (chan_source f c) with
      | Ok vs, Ok cs => Ok {| x_values := vs; x_chans := cs |}
      | _, _ => Panic
      end
  end.
Definition generate_in (cf : cfg) (m : mode) (f : file) (c : cmd) : outcome gen :=
  match analyse_in cf f c with
  | Panic => Panic
  | Ok x => Ok (match m with Plain => gen_plain x | Zod => gen_zod x end)
  end.
Definition commands_of (f : file) : list cmd := map f_cmd (filter f_is_command f).
(* every command of the project with what is generated for it, files in the given (sorted) order *)
Definition generate_project (cf : cfg) (m : mode) (p : project) : list (cmd * outcome gen) :=
  flat_map (fun f => map (fun c => (c, generate_in cf m f c)) (commands_of f)) p.

(* ---- histories of runs into one output directory (bin run_generate / build generate_bindings with
        GenerationCache): a run either regenerates from the current sources and settings or, when the cache
        it finds was saved for inputs that hash like the current ones and the files are present, leaves the
        files alone. At HEAD every regenerating run (forced or not) saves the cache of what it wrote, so the
        files found by a skipping run are those of a run with the same inputs: after every run the bindings
        are those of the current state. (That equal hashes mean equal key-relevant inputs is C08's subject;
        here the history is tied to the code by the run-histories stream.) *)
Record run_step := { r_cfg : cfg; r_mode : mode; r_project : project; r_force : bool }.
Definition after_run (s : run_step) : list (cmd * outcome gen) := generate_project (r_cfg s) (r_mode s) (r_project s).
Definition run_history (h : list run_step) : list (list (cmd * outcome gen)) := map after_run h.
