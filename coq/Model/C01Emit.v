(* C01: generator model as template text with typed holes.
   Every generated file is a list of chunks [Fixed text | Hole class text]; the file's text is the
   concatenation and its token stream is [lex_module] of that text (comments and white space are
   not tokens, so the templates' white-space control never has to be modelled).
   Anchors (/repo/src):
     generators/ts/templates/*.tera, partials/*.tera            plain mode
     generators/zod/templates/*.tera, partials/*.tera           zod mode
     generators/zod/generator.rs   generate_enum_schema (format!), generate_object_schema
     generators/zod/schema_builder.rs  render_type / render_primitive / apply_*_validator / escape_js_string
     generators/zod/type_visitor.rs    visit_custom, visit_type_for_interface
     generators/base/type_visitor.rs   visit_* defaults, visit_custom (type_mappings)
     generators/base/templates.rs      add_types_prefix
     generators/base/template_context.rs  NamingContext::{compute_field_name, compute_parameter_name,
                                          compute_function_name, compute_type_name, event_name_to_function}
     analysis/serde_parser.rs     parse_field_serde_attrs (rename scanner, skip test), parse_rename_all
     analysis/command_parser.rs / struct_parser.rs / channel_parser.rs   type_to_string, is_optional_type,
                                          is_tauri_parameter_type, channel extraction   (Model/Pipeline.v)
     analysis/type_resolver.rs    parse_type_structure                                  (Model/TypeParse.v)
     crate serde-rename-rule 0.2.3  RenameRule::apply_to_field, from_rename_all_str
   Inputs the model does NOT derive itself (they belong to C11 / C12 and are observed from the real
   analysis through the public API, then fed in): the ValidatorAttributes of each field and the list
   of discovered events (name, payload type string).
   Definitions only. *)
From Coq Require Import String Ascii.
From Coq Require Import List Arith Bool ZArith NArith.
Require Import TT.Model.Str TT.Model.TypeParse TT.Model.Render TT.Model.Pipeline.
Require Import TT.Spec.TsLex TT.Spec.TsModule TT.Spec.TsObs TT.Spec.C01Wf.
Import ListNotations.
Local Open Scope list_scope.

(* ------------------------------------------------------------------ chunks *)
Inductive hclass :=
| HFn                 (* declared function name *)
| HTyName             (* declared type / constant name (with its fixed suffix: Params, Schema, ParamsSchema) *)
| HKey                (* property key / member name after a dot *)
| HType               (* TypeScript type text *)
| HStr (q : ascii)    (* a whole quoted literal with quote q: text is the BODY, the chunk prints q body q *)
| HZ.                 (* Zod schema expression text *)
Inductive chunk := Fixed (s : str) | Hole (c : hclass) (s : str).

Definition chunk_text (c : chunk) : str :=
  match c with
  | Fixed s => s
  | Hole (HStr q) s => q :: s ++ [q]
  | Hole _ s => s
  end.
Definition text (cs : list chunk) : str := concat (map chunk_text cs).
Definition chunk_lex (c : chunk) : list tk := lex_module (chunk_text c).
(* token stream of a chunk list when every chunk is lexed on its own *)
Definition toks_of (cs : list chunk) : list tk := flat_map chunk_lex cs.
(* token stream of the file text *)
Definition lexed (cs : list chunk) : list tk := lex_module (text cs).

Definition toks_clean (l : list tk) : bool := negb (has_err l) && forallb tok_ok l.
Definition key_text_ok (s : str) : bool := is_ident_name s || num_ok s.
Definition hole_ok (c : hclass) (s : str) : bool :=
  match c with
  | HFn | HTyName => is_binding_name s
  | HKey => key_text_ok s
  | HType => let l := lex_module s in toks_clean l && match ptype l with Some (t, []) => ty_ok t | _ => false end
  | HStr q => str_body_ok q s
  | HZ => let l := lex_module s in toks_clean l && match pexpr l with Some (e, []) => ex_ok e | _ => false end
  end.
Definition holes (cs : list chunk) : list (hclass * str) :=
  flat_map (fun c => match c with Hole h s => [(h, s)] | Fixed _ => [] end) cs.
Definition bad_holes (cs : list chunk) : list (hclass * str) :=
  filter (fun h => negb (hole_ok (fst h) (snd h))) (holes cs).

Definition F (s : string) : chunk := Fixed (L s).
(* line ends are kept where a hole that may contain // precedes them (a line comment would otherwise swallow the rest) *)
Definition NL : chunk := Fixed [ascii_of_nat 10].
Definition SQ : ascii := "'"%char.
Definition DQ : ascii := """"%char.

(* ------------------------------------------------------------------ model input *)
Record vbound := { vb_min : option str; vb_max : option str; vb_msg : option str }.   (* bounds as Display prints them *)
Record vattr := { v_email : bool; v_url : bool; v_length : option vbound; v_range : option vbound }.
Record c_field := { cf_name : str; cf_ty : qty; cf_serde : list serde_item; cf_val : option vattr }.
(* enums: cs_fields are the variants, cf_ty unused *)
Record c_struct := { cs_name : str; cs_enum : bool; cs_serde : list serde_item; cs_fields : list c_field }.
Record c_cmd := { cc_name : str; cc_serde : list serde_item; cc_params : list (str * qty); cc_ret : option qty }.
Record c_event := { ce_name : str; ce_payload : str }.
Record c_cfg := { g_zod : bool; g_param_case : str; g_field_case : str; g_mappings : list (str * str) }.

(* ------------------------------------------------------------------ serde scanners (serde_parser.rs) *)
(* Source text of a Rust string literal body as the project printer writes it *)
Fixpoint rust_esc (v : str) : str :=
  match v with
  | [] => []
  | c :: r =>
      let n := nat_of_ascii c in
      if Ascii.eqb c DQ then "\"%char :: DQ :: rust_esc r
      else if Ascii.eqb c "\"%char then "\"%char :: "\"%char :: rust_esc r
      else if (n =? 10)%nat then "\"%char :: "n"%char :: rust_esc r
      else if (n =? 13)%nat then "\"%char :: "r"%char :: rust_esc r
      else if (n =? 9)%nat then "\"%char :: "t"%char :: rust_esc r
      else c :: rust_esc r
  end.
Fixpoint until_quote (s : str) : str :=
  match s with [] => [] | c :: r => if Ascii.eqb c DQ then [] else c :: until_quote r end.
(* parse_rename / parse_rename_all: the text between the first two double quotes after the '=' *)
Definition scanned (v : str) : str := until_quote (rust_esc v).
Fixpoint contains (pat s : str) : bool :=
  starts pat s || match s with [] => false | _ :: r => contains pat r end.
(* tokens.to_string() of one #[serde(..)] attribute holding one meta item *)
Definition serde_tokens (i : serde_item) : str :=
  match i with
  | SRename v => L "rename = """ ++ rust_esc v ++ [DQ]
  | SRenameAll v => L "rename_all = """ ++ rust_esc v ++ [DQ]
  | SSkip => L "skip"
  | SOtherSerde => L "default"
  end.
Definition c_skipped (l : list serde_item) : bool :=
  existsb (fun i => let t := serde_tokens i in contains (L "skip") t && negb (contains (L "skip_serializing") t)) l.
Definition c_rename (l : list serde_item) : option str :=
  fold_left (fun acc i => match i with SRename v => Some (scanned v) | _ => acc end) l None.

Inductive rule := RLower | RUpper | RPascal | RCamel | RSnake | RScreamingSnake | RKebab | RScreamingKebab.
Local Open Scope string_scope.
Definition rule_of (s : str) : option rule :=
  if str_eqb s (L "lowercase") then Some RLower else if str_eqb s (L "UPPERCASE") then Some RUpper
  else if str_eqb s (L "PascalCase") then Some RPascal else if str_eqb s (L "camelCase") then Some RCamel
  else if str_eqb s (L "snake_case") then Some RSnake else if str_eqb s (L "SCREAMING_SNAKE_CASE") then Some RScreamingSnake
  else if str_eqb s (L "kebab-case") then Some RKebab else if str_eqb s (L "SCREAMING-KEBAB-CASE") then Some RScreamingKebab
  else None.
Local Close Scope string_scope.
Definition c_rename_all (l : list serde_item) : option rule :=
  fold_left (fun acc i => match i with
                          | SRenameAll v => match rule_of (scanned v) with Some r => Some r | None => acc end
                          | _ => acc end) l None.

(* NamingContext::apply_naming_convention for CamelCase (call-site guard): PascalCase, then the first
   character lowered by the caller itself; a name whose PascalCase form is empty is kept as it is *)
Definition camel2 (s : str) : str := match pascal true s with c :: r => low c :: r | [] => s end.
(* RenameRule::apply_to_variant (serde's variant rule), ASCII variant names *)
Fixpoint snake_variant (first : bool) (s : str) : str :=
  match s with
  | [] => []
  | c :: r => (if negb first && upperp c then ["_"%char] else []) ++ low c :: snake_variant false r
  end.
(* RenameRule::apply_to_field on UTF-8 bytes (ASCII-only case mapping) *)
Definition dash (c : ascii) : ascii := if is_us c then "-"%char else c.
Definition apply_rule (r : rule) (s : str) : str :=
  match r with
  | RLower | RSnake => s
  | RUpper | RScreamingSnake => map up s
  | RPascal => pascal true s
  | RCamel => camel2 s
  | RKebab => map dash s
  | RScreamingKebab => map dash (map up s)
  end.
Definition apply_variant (r : rule) (s : str) : str :=
  match r with
  | RPascal => s
  | RLower => map low s
  | RUpper => map up s
  | RCamel => match s with c :: t => low c :: t | [] => [] end
  | RSnake => snake_variant true s
  | RScreamingSnake => map up (snake_variant true s)
  | RKebab => map dash (snake_variant true s)
  | RScreamingKebab => map dash (map up (snake_variant true s))
  end.
Definition default_rule (cfg_case : str) : rule := match rule_of cfg_case with Some r => r | None => RCamel end.

(* syn::ext::IdentExt::unraw where function, parameter, channel-parameter, field and variant names are read *)
Definition unraw (s : str) : str := if starts (L "r#") s then skipn 2 s else s.
(* compute_field_name / compute_parameter_name *)
Definition serialized (name : str) (rename : option str) (rename_all : option rule) (dflt : str) : str :=
  match rename with
  | Some v => v
  | None => match rename_all with Some r => apply_rule r name | None => apply_rule (default_rule dflt) name end
  end.
Definition field_ser (g : c_cfg) (s : c_struct) (f : c_field) : str :=
  serialized (unraw (cf_name f)) (c_rename (cf_serde f)) (c_rename_all (cs_serde s)) (g_field_case g).
Definition param_ser (g : c_cfg) (c : c_cmd) (name : str) : str :=
  serialized (unraw name) None (c_rename_all (cc_serde c)) (g_param_case g).
Definition cmd_name (c : c_cmd) : str := unraw (cc_name c).
Definition fn_ts (c : c_cmd) : str := camel2 (cmd_name c).
(* compute_variant_name: explicit rename, else the variant form of the container rule, else the Rust name *)
Definition variant_ser (s : c_struct) (f : c_field) : str :=
  match c_rename (cf_serde f) with
  | Some v => v
  | None => match c_rename_all (cs_serde s) with Some r => apply_variant r (unraw (cf_name f)) | None => unraw (cf_name f) end
  end.
(* parse_enum drops variants carrying serde(skip) *)
Definition listed_variants (s : c_struct) : list c_field := filter (fun f => negb (c_skipped (cf_serde f))) (cs_fields s).
Definition ty_ts (c : c_cmd) : str := pascal true (cmd_name c).
(* event_name_to_function *)
Definition ascii_alnum (c : ascii) : bool := lowerp c || upperp c || is_digit c.
Definition us_of_other (c : ascii) : ascii := if ascii_alnum c then c else "_"%char.
(* every character that is not ASCII alphanumeric becomes '_' (a multi-byte character becomes several
   underscores here, one in the code: PascalCase drops them all, so the result is the same) *)
Definition event_fn (name : str) : str := L "on" ++ pascal true (map us_of_other name).

(* ------------------------------------------------------------------ type rendering with type_mappings *)
Fixpoint assoc (k : str) (l : list (str * str)) : option str :=
  match l with [] => None | (a, b) :: r => if str_eqb a k then Some b else assoc k r end.
Definition custom_ts (g : c_cfg) (n : str) : str := match assoc n (g_mappings g) with Some m => m | None => n end.
(* base/type_visitor.rs defaults = zod visit_type_for_interface *)
Fixpoint render_m (g : c_cfg) (t : tstruct) : str :=
  match t with
  | TPrim p => p
  | TArr u => render_m g u ++ L "[]"
  | TMap k v => L "Record<" ++ render_m g k ++ L ", " ++ render_m g v ++ L ">"
  | TSet u => render_m g u ++ L "[]"
  | TTuple [] => L "void"
  | TTuple l => L "[" ++ join (L ", ") (map (render_m g) l) ++ L "]"
  | TOpt u => render_m g u ++ L " | null"
  | TRes u => render_m g u
  | TCustom n => custom_ts g n
  end.
(* type_resolver.rs find_top_level_comma / split_top_level: commas outside <>, () and [] (signed depth) *)
Definition opens (c : ascii) : bool := existsb (Ascii.eqb c) (L "<([").
Definition closes (c : ascii) : bool := existsb (Ascii.eqb c) (L ">)]").
Fixpoint top_comma_go (d : Z) (pre : str) (s : str) : option (str * str) :=
  match s with
  | [] => None
  | b :: s' =>
      if opens b then top_comma_go (d + 1)%Z (b :: pre) s'
      else if closes b then top_comma_go (d - 1)%Z (b :: pre) s'
      else if Ascii.eqb b ","%char && (d =? 0)%Z then Some (rev pre, s')
      else top_comma_go d (b :: pre) s'
  end.
Definition top_comma (s : str) : option (str * str) := top_comma_go 0%Z [] s.
Fixpoint split_top (fuel : nat) (s : str) : list str :=
  match fuel with
  | 0 => [s]
  | S f => match top_comma s with Some (a, b) => a :: split_top f b | None => [s] end
  end.
Definition top2 (s : str) : option (str * str) :=
  match top_comma s with Some (k, v) => Some (trim k, trim v) | None => None end.
(* TypeResolver::parse_type_structure after the repair of the comma splitting (same order of tests as
   Model/TypeParse.v parse, which keeps the earlier behaviour) *)
Fixpoint parse3 (fuel : nat) (s0 : str) : option tstruct :=
  match fuel with
  | 0 => None
  | S f =>
    let s := trim s0 in
    if starts (L "&") s then parse3 f (skipn 1 s) else
    match wrapped "Option<" s with Some inner => option_map TOpt (parse3 f inner) | None =>
    match wrapped "Result<" s with
    | Some inner =>
        let ok := match top_comma inner with Some (a, _) => trim a | None => inner end in
        option_map TRes (parse3 f ok)
    | None =>
    match wrapped "Vec<" s with Some inner => option_map TArr (parse3 f inner) | None =>
    match (match wrapped "HashMap<" s with Some inner => top2 inner | None => None end),
          (match wrapped "BTreeMap<" s with Some inner => top2 inner | None => None end) with
    | Some (k, v), _ | None, Some (k, v) =>
        match parse3 f k, parse3 f v with Some k', Some v' => Some (TMap k' v') | _, _ => None end
    | None, None =>
    match (match wrapped "HashSet<" s with Some i => Some i | None => wrapped "BTreeSet<" s end) with
    | Some inner => option_map TSet (parse3 f inner)
    | None =>
    if starts (L "(") s && ends_with ")"%char s then
      let inner := mid 1 1 s in
      if all_blank inner then Some (TPrim (L "void"))
      else option_map TTuple (mapM (parse3 f) (map trim (split_top (S (List.length inner)) inner)))
    else match prim_of s with Some p => Some (TPrim p) | None => Some (TCustom s) end
    end end end end end
  end.
Definition pts (s : str) : tstruct := match parse3 (S (List.length s)) s with Some t => t | None => TCustom s end.
(* base/templates.rs add_types_prefix after the repair of the array branch (recursion on the element type) *)
Local Open Scope string_scope.
Fixpoint atp3 (fuel : nat) (s : str) : str :=
  match fuel with 0 => s | S f =>
  if name_in s ["void"; "string"; "number"; "boolean"; "any"; "unknown"; "null"; "undefined"] then s else
  match strip_suffix (L "[]") s with
  | Some base => (atp3 f base ++ L "[]")%list
  | None =>
    if starts (L "Record<") s || starts (L "Map<") s then s else
    match strip_suffix (L " | null") s with
    | Some base => (atp3 f base ++ L " | null")%list
    | None =>
      match strip_suffix (L " | undefined") s with
      | Some base => (atp3 f base ++ L " | undefined")%list
      | None =>
        if starts (L "[") s && ends_with "]"%char s then s
        else if starts (L "types.") s then s else (L "types." ++ s)%list
      end end end end.
Local Close Scope string_scope.
Definition add_types_prefix3 (s : str) : str := atp3 (S (List.length s)) s.
Definition ts_text (g : c_cfg) (t : qty) : str := render_m g (pts (qtts t)).
Definition ret_text (g : c_cfg) (c : c_cmd) : str :=
  add_types_prefix3 (render_m g (pts (match cc_ret c with Some t => qtts t | None => L "()" end))).

(* zod/type_visitor.rs visit_custom *)
Definition custom_z (g : c_cfg) (n : str) : str :=
  match assoc n (g_mappings g) with
  | Some m => if str_eqb m (L "string") then L "z.string()" else if str_eqb m (L "number") then L "z.number()"
              else if str_eqb m (L "boolean") then L "z.boolean()" else if str_eqb m (L "void") then L "z.void()"
              else L "z.custom<" ++ m ++ L ">((val) => true)"
  | None => n ++ L "Schema"
  end.

(* zod/schema_builder.rs *)
Definition esc1 (c : ascii) : str :=
  let n := nat_of_ascii c in
  if Ascii.eqb c "\"%char then ["\"%char; "\"%char] else if Ascii.eqb c DQ then ["\"%char; DQ]
  else if (n =? 10)%nat then ["\"%char; "n"%char] else if (n =? 13)%nat then ["\"%char; "r"%char]
  else if (n =? 9)%nat then ["\"%char; "t"%char] else [c].
(* the five sequential replaces of escape_js_string equal this character-wise map (Proofs/EscapeSpike.v) *)
Definition escape_js (s : str) : str := flat_map esc1 s.
Definition msg_arg (m : option str) : str :=
  match m with Some t => L ", { message: """ ++ escape_js t ++ L """ }" | None => [] end.
Definition apply_bound (schema : str) (b : option vbound) (skip : bool) : str :=
  if skip then schema else
  match b with
  | None => schema
  | Some vb =>
      match vb_min vb, vb_max vb with
      | Some mn, Some mx => schema ++ L ".min(" ++ mn ++ msg_arg (vb_msg vb) ++ L ").max(" ++ mx ++ msg_arg (vb_msg vb) ++ L ")"
      | Some mn, None => schema ++ L ".min(" ++ mn ++ msg_arg (vb_msg vb) ++ L ")"
      | None, Some mx => schema ++ L ".max(" ++ mx ++ msg_arg (vb_msg vb) ++ L ")"
      | None, None => schema
      end
  end.
Definition v_len (v : option vattr) : option vbound := match v with Some a => v_length a | None => None end.
Definition v_rng (v : option vattr) : option vbound := match v with Some a => v_range a | None => None end.
Definition zprim (p : str) (v : option vattr) (skip is_key : bool) : str :=
  if str_eqb p (L "string") then
    (if skip then L "z.string()" else
     match v with
     | None => L "z.string()"
     | Some a => apply_bound (L "z.string()" ++ (if v_email a then L ".email()" else []) ++ (if v_url a then L ".url()" else [])) (v_length a) skip
     end)
  else if str_eqb p (L "number") then
    apply_bound (if is_key then L "z.number()" else L "z.coerce.number()") (v_rng v) (skip || match v with None => true | Some _ => false end)
  else if str_eqb p (L "boolean") then L "z.coerce.boolean()"
  else if str_eqb p (L "void") then L "z.void()"
  else L "z.unknown() /* Unknown primitive: " ++ p ++ L " */".
Fixpoint zr (g : c_cfg) (t : tstruct) (v : option vattr) (skip is_key : bool) : str :=
  match t with
  | TOpt u => zr g u v skip is_key ++ L ".optional()"
  | TPrim p => zprim p v skip is_key
  | TArr u => apply_bound (L "z.array(" ++ zr g u v true false ++ L ")") (v_len v) (skip || match v with None => true | Some _ => false end)
  | TMap k w => L "z.record(" ++ zr g k v true true ++ L ", " ++ zr g w v true false ++ L ")"
  | TSet u => L "z.set(" ++ zr g u v true false ++ L ")"
  | TTuple [] => L "z.void()"
  | TTuple l => L "z.tuple([" ++ join (L ", ") (map (fun x => zr g x v true false) l) ++ L "])"
  | TRes u => L "z.union([" ++ zr g u v true false ++ L ", z.object({ error: z.string() })])"
  | TCustom n => custom_z g n
  end.
Definition field_schema (g : c_cfg) (f : c_field) : str := zr g (pts (qtts (cf_ty f))) (cf_val f) false false.
Definition param_schema (g : c_cfg) (t : qty) : str := zr g (pts (qtts t)) None true false.

(* ------------------------------------------------------------------ command analysis (Pipeline.v functions on c_cmd) *)
Definition c_values (c : c_cmd) : list (str * qty) := filter (fun p => negb (is_tauri_parameter_type (snd p))) (cc_params c).
(* channel_parser.rs is_channel_segment: bare Channel, tauri::..::Channel, or ipc::Channel *)
Definition c_channel_message (t : qty) : option qty :=
  match t with
  | QPath segs n true (a :: _) =>
      if str_eqb n (L "Channel") &&
         match segs with
         | [] => true
         | s0 :: rest => str_eqb s0 (L "tauri") || (str_eqb s0 (L "ipc") && match rest with [] => true | _ => false end)
         end
      then Some a else None
  | _ => None
  end.
Definition c_channels (c : c_cmd) : list (str * qty) :=
  flat_map (fun p => match c_channel_message (snd p) with Some m => [(fst p, m)] | None => [] end) (cc_params c).
Definition nonempty {A} (l : list A) : bool := match l with [] => false | _ => true end.
Definition any_channels (cmds : list c_cmd) : bool := existsb (fun c => nonempty (c_channels c)) cmds.

(* ------------------------------------------------------------------ plain mode: types.ts *)
(* the ts_key filter (base/templates.rs): an identifier name stays bare, anything else becomes a double-quoted
   escaped literal. is_identifier_name uses char::is_alphabetic / is_alphanumeric; on bytes every non-ASCII
   byte counts as a letter here (the code quotes names with non-alphabetic non-ASCII characters as well:
   the difference is only towards more quoting) *)
(* is_identifier_name of the ts_key filter (after the repair of C01-key-other-number): first char is_alphabetic or _ or $,
   the others is_alphabetic or an ASCII digit or _ or $. On the generated alphabet char::is_alphabetic = the ID_Start
   table of Spec/C01Wf.v plus the Devanagari vowel signs; decimal digits of other scripts and category No
   (superscripts, subscripts, fractions, circled numbers) are not accepted any more: such names are quoted.
   Outside the generated alphabet: Unicode has a few symbols with the Alphabetic property that are not identifier
   characters (circled / squared Latin letters U+24B6-24E9, U+1F130-1F189); the model counts them as not alphabetic. *)
Definition rust_alpha_cp (cp : N) : bool := in_ranges cp id_start_ranges.
Definition rust_alnum_cp (cp : N) : bool := in_ranges cp id_start_ranges || in_ranges cp [(2366, 2380)]%N.
Definition rust_ident_name (k : str) : bool := is_ts_identifier k && uni_walk rust_alpha_cp rust_alnum_cp true k.
Definition key_chunk (k : str) : chunk := if rust_ident_name k then Hole HKey k else Hole (HStr DQ) (escape_js k).
(* ts_key(member=true): .name or ["na-me"] *)
Definition member_access (k : str) : list chunk :=
  if rust_ident_name k then [F "."; Hole HKey k] else [F "["; Hole (HStr DQ) (escape_js k); F "]"].
Definition member_chunks (key : str) (opt : bool) (ty : str) : list chunk :=
  [F " "; key_chunk key] ++ (if opt then [F "?"] else []) ++ [F ": "; Hole HType ty; F ";"; NL].
Definition channel_member (g : c_cfg) (c : c_cmd) (ch : str * qty) : list chunk :=
  [F " "; key_chunk (param_ser g c (fst ch)); F ": Channel<"; Hole HType (ts_text g (snd ch)); F ">;"; NL].

Definition interface_chunks (g : c_cfg) (s : c_struct) : list chunk :=
  [F "export interface "; Hole HTyName (cs_name s); F " {"] ++
  flat_map (fun f => if c_skipped (cf_serde f) then [] else member_chunks (field_ser g s f) (is_option (cf_ty f)) (ts_text g (cf_ty f))) (cs_fields s) ++
  [F " } "].
Fixpoint enum_alts (g : c_cfg) (s : c_struct) (l : list c_field) : list chunk :=
  match l with
  | [] => []
  | [f] => [Hole (HStr DQ) (escape_js (variant_ser s f))]
  | f :: r => Hole (HStr DQ) (escape_js (variant_ser s f)) :: F " | " :: enum_alts g s r
  end.
Definition enum_chunks (g : c_cfg) (s : c_struct) : list chunk :=
  (* an enum without listed variants (none declared or all skipped) is the uninhabited type *)
  [F "export type "; Hole HTyName (cs_name s); F " = "] ++
  (match listed_variants s with [] => [F "never"] | l => enum_alts g s l end) ++ [F "; "].
Definition struct_chunks (g : c_cfg) (s : c_struct) : list chunk :=
  if cs_enum s then enum_chunks g s else interface_chunks g s.
Definition params_iface_chunks (g : c_cfg) (c : c_cmd) : list chunk :=
  if nonempty (c_values c) || nonempty (c_channels c) then
    [F "export interface "; Hole HTyName (ty_ts c ++ L "Params"); F " {"] ++
    flat_map (fun p => member_chunks (param_ser g c (fst p)) (is_option (snd p)) (ts_text g (snd p))) (c_values c) ++
    flat_map (channel_member g c) (c_channels c) ++
    [F " [key: string]: unknown; } "]
  else [].
Definition channel_import : list chunk := [F "import type { Channel } from '@tauri-apps/api/core'; "].

(* a file: tokens that must come first, items that must each occur exactly once (any order),
   items that may occur at most once (types.ts declares the subset of candidate types the tool found reachable - C07) *)
Record cfile := { fl_prefix : list chunk; fl_required : list (list chunk); fl_optional : list (list chunk) }.

Definition plain_types (g : c_cfg) (ss : list c_struct) (cmds : list c_cmd) : cfile :=
  {| fl_prefix := if any_channels cmds then channel_import else [];
     fl_required := map (params_iface_chunks g) cmds;
     fl_optional := map (struct_chunks g) ss |}.

(* ------------------------------------------------------------------ plain mode: commands.ts *)
Definition invoke_import (cmds : list c_cmd) : list chunk :=
  [if any_channels cmds then F "import { invoke, Channel } from '@tauri-apps/api/core'; " else F "import { invoke } from '@tauri-apps/api/core'; "].
Definition wrapper_chunks (g : c_cfg) (c : c_cmd) : list chunk :=
  let has := nonempty (c_values c) || nonempty (c_channels c) in
  [F "export async function "; Hole HFn (fn_ts c); F "("] ++
  (if has then [F "params: types."; Hole HKey (ty_ts c ++ L "Params")] else []) ++
  [F "): Promise<"; Hole HType (ret_text g c); F "> { return invoke("; Hole (HStr SQ) (cmd_name c)] ++
  (if has then [F ", params"] else []) ++ [F "); } "].
Definition plain_commands (g : c_cfg) (cmds : list c_cmd) : cfile :=
  {| fl_prefix := invoke_import cmds ++ [F "import * as types from './types'; "];
     fl_required := map (wrapper_chunks g) cmds; fl_optional := [] |}.

(* ------------------------------------------------------------------ events.ts (same partial in both modes) *)
Definition payload_text (g : c_cfg) (e : c_event) : str := add_types_prefix3 (render_m g (pts (ce_payload e))).
Definition listener_chunks (g : c_cfg) (e : c_event) : list chunk :=
  [F "export async function "; Hole HFn (event_fn (ce_name e)); F "("; NL; F " handler: (payload: "; Hole HType (payload_text g e);
   F ") => void ): Promise<UnlistenFn> { return listen<"; Hole HType (payload_text g e); F ">("; Hole (HStr SQ) (ce_name e);
   F ", (event) => { handler(event.payload); }); } "].
(* create_event_contexts: one listener per distinct event name, the first emit site wins *)
Fixpoint dedup_events (seen : list str) (evs : list c_event) : list c_event :=
  match evs with
  | [] => []
  | e :: r => if existsb (str_eqb (ce_name e)) seen then dedup_events seen r else e :: dedup_events (ce_name e :: seen) r
  end.
Definition events_file (g : c_cfg) (evs : list c_event) : cfile :=
  {| fl_prefix := [F "import { listen, type UnlistenFn, type Event } from '@tauri-apps/api/event'; import * as types from './types'; "];
     fl_required := map (listener_chunks g) (dedup_events [] evs); fl_optional := [] |}.

(* ------------------------------------------------------------------ index.ts *)
Definition index_file (has_events : bool) : cfile :=
  {| fl_prefix := [];
     fl_required := map (fun f => [F "export * from "; Hole (HStr SQ) (L "./" ++ L f); F "; "])
                        (if has_events then ["types"; "commands"; "events"] else ["types"; "commands"])%string;
     fl_optional := [] |}.

(* ------------------------------------------------------------------ zod mode: types.ts *)
Definition zod_struct_chunks (g : c_cfg) (s : c_struct) : list chunk :=
  if cs_enum s && negb (nonempty (listed_variants s)) then
    [F "export const "; Hole HTyName (cs_name s ++ L "Schema"); F " = z.never(); export type "; Hole HTyName (cs_name s);
     F " = z.infer<typeof "; Hole HKey (cs_name s ++ L "Schema"); F ">; "]
  else if cs_enum s then
    (* generate_enum_schema: format!, values joined by ", " (a trailing comma is token-different, so join exactly) *)
    [F "export const "; Hole HTyName (cs_name s ++ L "Schema"); F " = z.enum(["] ++
    (fix go (l : list c_field) : list chunk :=
       match l with [] => [] | [f] => [Hole (HStr DQ) (escape_js (variant_ser s f))]
       | f :: r => Hole (HStr DQ) (escape_js (variant_ser s f)) :: F ", " :: go r end) (listed_variants s) ++
    [F "]); export type "; Hole HTyName (cs_name s); F " = z.infer<typeof "; Hole HKey (cs_name s ++ L "Schema"); F ">; "]
  else
    [F "export const "; Hole HTyName (cs_name s ++ L "Schema"); F " = z.object({"] ++
    flat_map (fun f => if c_skipped (cf_serde f) then [] else [F " "; key_chunk (field_ser g s f); F ": "; Hole HZ (field_schema g f); F ","; NL]) (cs_fields s) ++
    [F " }); export type "; Hole HTyName (cs_name s); F " = z.infer<typeof "; Hole HKey (cs_name s ++ L "Schema"); F ">; "].
Definition zod_param_schema_chunks (g : c_cfg) (c : c_cmd) : list chunk :=
  match c_values c with
  | [] => []
  | vs => [F "export const "; Hole HTyName (ty_ts c ++ L "ParamsSchema"); F " = z.object({"] ++
          flat_map (fun p => [F " "; key_chunk (param_ser g c (fst p)); F ": ";
                              Hole HZ (param_schema g (snd p) ++ (if is_option (snd p) then L ".optional()" else [])); F ","; NL]) vs ++
          [F " }); "]
  end.
Definition zod_alias_chunks (g : c_cfg) (c : c_cmd) : list chunk :=
  match c_values c, c_channels c with
  | [], [] => []
  | [], chs => [F "export interface "; Hole HTyName (ty_ts c ++ L "Params"); F " {"] ++ flat_map (channel_member g c) chs ++ [F " [key: string]: unknown; } "]
  | _, [] => [F "export type "; Hole HTyName (ty_ts c ++ L "Params"); F " = z.infer<typeof "; Hole HKey (ty_ts c ++ L "ParamsSchema"); F ">; "]
  | _, chs => [F "export interface "; Hole HTyName (ty_ts c ++ L "Params"); F " extends z.infer<typeof "; Hole HKey (ty_ts c ++ L "ParamsSchema"); F "> {"] ++
              flat_map (channel_member g c) chs ++ [F " } "]
  end.
Definition zod_types (g : c_cfg) (ss : list c_struct) (cmds : list c_cmd) : cfile :=
  {| fl_prefix := F "import { z } from 'zod'; " :: (if any_channels cmds then channel_import else []);
     fl_required := map (zod_param_schema_chunks g) cmds ++ map (zod_alias_chunks g) cmds;
     fl_optional := map (zod_struct_chunks g) ss |}.

(* ------------------------------------------------------------------ zod mode: commands.ts *)
Definition hooks_chunks : list chunk := [F
"import { ZodError } from 'zod'; import * as types from './types'; export interface CommandHooks<T> { onValidationError?: (error: ZodError) => void; onInvokeError?: (error: unknown) => void; onSuccess?: (result: T) => void; onSettled?: () => void; } "].
Fixpoint chan_refs (g : c_cfg) (c : c_cmd) (l : list (str * qty)) : list chunk :=
  match l with
  | [] => []
  | [ch] => [key_chunk (param_ser g c (fst ch)); F ": params"] ++ member_access (param_ser g c (fst ch))
  | ch :: r => [key_chunk (param_ser g c (fst ch)); F ": params"] ++ member_access (param_ser g c (fst ch)) ++ [F ", "] ++ chan_refs g c r
  end.
Definition zod_wrapper_chunks (g : c_cfg) (c : c_cmd) : list chunk :=
  let ret := Hole HType (ret_text g c) in
  let hp := nonempty (c_values c) in
  let hc := nonempty (c_channels c) in
  let nm := Hole (HStr SQ) (cmd_name c) in
  if hp || hc then
    [F "export async function "; Hole HFn (fn_ts c); F "(params: types."; Hole HKey (ty_ts c ++ L "Params"); F ", hooks?: CommandHooks<"; ret;
     F ">): Promise<"; ret; F "> { try { "] ++
    (if hp then
       [F "const result = types."; Hole HKey (ty_ts c ++ L "ParamsSchema");
        F ".safeParse(params); if (!result.success) { hooks?.onValidationError?.(result.error); throw result.error; } "] ++
       (if hc then [F "const data = await invoke<"; ret; F ">("; nm; F ", { ...result.data, "] ++ chan_refs g c (c_channels c) ++ [F " }); "]
        else [F "const data = await invoke<"; ret; F ">("; nm; F ", result.data); "])
     else [F "const data = await invoke<"; ret; F ">("; nm; F ", params); "]) ++
    [F "hooks?.onSuccess?.(data); return data; } catch (error) { "] ++
    [if hp then F "if (!(error instanceof ZodError)) { hooks?.onInvokeError?.(error); } " else F "hooks?.onInvokeError?.(error); "] ++
    [F "throw error; } finally { hooks?.onSettled?.(); } } "]
  else
    [F "export async function "; Hole HFn (fn_ts c); F "(hooks?: CommandHooks<"; ret; F ">): Promise<"; ret; F "> { try { const data = await invoke<"; ret; F ">("; nm;
     F "); hooks?.onSuccess?.(data); return data; } catch (error) { hooks?.onInvokeError?.(error); throw error; } finally { hooks?.onSettled?.(); } } "].
Definition zod_commands (g : c_cfg) (cmds : list c_cmd) : cfile :=
  {| fl_prefix := invoke_import cmds ++ hooks_chunks; fl_required := map (zod_wrapper_chunks g) cmds; fl_optional := [] |}.

(* ------------------------------------------------------------------ the four files *)
Inductive fname := FTypes | FCommands | FEvents | FIndex.
Definition gen_file (g : c_cfg) (ss : list c_struct) (cmds : list c_cmd) (evs : list c_event) (f : fname) : cfile :=
  match f with
  | FTypes => if g_zod g then zod_types g ss cmds else plain_types g ss cmds
  | FCommands => if g_zod g then zod_commands g cmds else plain_commands g cmds
  | FEvents => events_file g evs
  | FIndex => index_file (nonempty evs)
  end.
Definition all_chunks (f : cfile) : list chunk := fl_prefix f ++ concat (fl_required f) ++ concat (fl_optional f).

(* ------------------------------------------------------------------ matching a real token stream *)
Definition tk_eqb (a b : tk) : bool :=
  match a, b with
  | KId x, KId y | KNum x, KNum y | KTpl x, KTpl y | KP x, KP y | KErr x, KErr y => str_eqb x y
  | KStr q x, KStr r y => Ascii.eqb q r && str_eqb x y
  | _, _ => false
  end.
Fixpoint strip (p l : list tk) : option (list tk) :=
  match p, l with
  | [], _ => Some l
  | a :: p', b :: l' => if tk_eqb a b then strip p' l' else None
  | _ :: _, [] => None
  end.
Definition cand := (list tk * list chunk)%type.
Fixpoint pick (cands : list cand) (l : list tk) (seen : list cand) : option (list tk * cand * list cand) :=
  match cands with
  | [] => None
  | c :: cs => match fst c with
               | [] => pick cs l seen
               | _ => match strip (fst c) l with
                      | Some r => Some (r, c, rev seen ++ cs)
                      | None => pick cs l (c :: seen) end
               end
  end.
Definition live (l : list cand) : list cand := filter (fun c => nonempty (fst c)) l.
(* leftover real tokens ([] on success), the required items never seen, the items used *)
Fixpoint consume (fuel : nat) (req opt : list cand) (l : list tk) (used : list (list chunk)) : list tk * list cand * list (list chunk) :=
  match l with
  | [] => ([], live req, rev used)
  | _ =>
    match fuel with
    | 0 => (l, live req, rev used)
    | S f =>
        match pick req l [] with
        | Some (r, c, req') => consume f req' opt r (snd c :: used)
        | None => match pick opt l [] with
                  | Some (r, c, opt') => consume f req opt' r (snd c :: used)
                  | None => (l, live req, rev used)
                  end
        end
    end
  end.
(* model token stream of an item: the lexing of the item's text *)
Definition mk_cand (cs : list chunk) : cand := (lexed cs, cs).
Definition match_file (f : cfile) (real : list tk) : list tk * list cand * list (list chunk) :=
  match strip (lexed (fl_prefix f)) real with
  | None => (real, [], [])
  | Some r => consume (S (List.length real)) (map mk_cand (fl_required f)) (map mk_cand (fl_optional f)) r [fl_prefix f]
  end.
Definition corr_ok (f : cfile) (real : list tk) : bool :=
  match match_file f real with ([], [], _) => true | _ => false end.
(* the chunks of the items the real file is made of (prefix first) *)
Definition used_chunks (f : cfile) (real : list tk) : list chunk := concat (snd (match_file f real)).
(* each chunk lexed on its own gives the same tokens as the whole text: no hole merges with its neighbours *)
Fixpoint toks_eqb (a b : list tk) : bool :=
  match a, b with [], [] => true | x :: a', y :: b' => tk_eqb x y && toks_eqb a' b' | _, _ => false end.
Definition lex_compositional (f : cfile) : bool :=
  forallb (fun cs => toks_eqb (toks_of cs) (lexed cs)) (fl_prefix f :: fl_required f ++ fl_optional f).

(* ------------------------------------------------------------------ classes of bad holes (known findings) *)
Definition has_sub (pat : string) (s : str) : bool := contains (L pat) s.
Definition any_char (cs : string) (s : str) : bool := existsb (fun c => existsb (Ascii.eqb c) (L cs)) s.
(* identifier of the recorded class a bad hole belongs to; None = not a recorded defect *)
Definition bad_class (h : hclass) (s : str) : option string :=
  if (match h with HFn | HTyName | HKey => true | _ => false end) &&
     (match s with c :: _ => is_digit c | [] => false end) && forallb is_id_char s && negb (num_ok s)
  then Some "C01-digit-first"%string else
  match h with
  | HKey => None
  | HFn => if is_ident_name s then Some "C01-reserved-fn"%string
           else None
  | HType | HZ => if has_sub "::" s then Some "C01-path-leak"%string
                  else None
  | HStr q => None
  | HTyName => None
  end.
