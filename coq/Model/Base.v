(* Shared base of the model: decidable equality as a class, so that model
   definitions written inside a Section keep short names in the proof files. *)
From Coq Require Import List Arith Bool.
Import ListNotations.

Class EqDec (A : Type) := eq_dec : forall a b : A, {a = b} + {a <> b}.

#[global] Instance nat_EqDec : EqDec nat := Nat.eq_dec.
#[global] Instance list_EqDec {A} {E : EqDec A} : EqDec (list A) := list_eq_dec eq_dec.
#[global] Instance bool_EqDec : EqDec bool := Bool.bool_dec.
