(* C15 - the per-file analysis loop and what follows it, with the syn-level walkers abstract.
   analysis/ast_cache.rs parse_and_cache_all_files (walk; read; parse; both failure arms report
   and continue), analysis/mod.rs analyze_project_with_verbose (sorted paths; per-file commands,
   events, harvested names; definition index; resolve_types_lazily) and the ordering of the
   resolved types for emission. Definitions only; proofs in Proofs/C15ProjectProofs.v. *)
From Coq Require Import List Arith Bool.
Require Import TT.Model.Base TT.Model.Topo TT.Model.C07Worklist.
Import ListNotations.

Section Project.
Context {path name AST cmd ev def : Type} {EN : EqDec name}.

(* the walkers over a parsed file (CommandParser, ChannelParser, EventParser, StructParser): parameters *)
Variable cmds_of : path -> AST -> list cmd.          (* extract_commands_from_ast with the channels of each command *)
Variable events_of : path -> AST -> list ev.         (* extract_events_from_ast *)
Variable names_of : path -> AST -> list name.        (* type names harvested from the commands, channels and events of the file *)
Variable defs_of : AST -> list name.                 (* index_type_definitions: serde structs and enums the file declares *)
Variable extract_type : AST -> name -> option def.   (* extract_type_from_ast *)
Variable deps_of : def -> list name.                 (* names harvested from the fields of a resolved type *)
Variable arrange : list (path * AST) -> list (path * AST).   (* the cached files in the order of the sorted paths *)

(* what the walk meets *)
Inductive content := Parsed (a : AST) | Unparsable | Unreadable.
Inductive entry :=
| WalkErr                       (* walkdir reports an error: `entry?` ends the run with Err (exit 1) *)
| Skipped (p : path)            (* a directory, a file that is not .rs, or a file below target / .git *)
| File (p : path) (c : content).
Inductive report := FailedToRead (p : path) | FailedToParse (p : path).

Definition is_bad (e : entry) : bool :=
  match e with File _ Unparsable | File _ Unreadable => true | _ => false end.
Definition report_of (e : entry) : list report :=
  match e with File p Unparsable => [FailedToParse p] | File p Unreadable => [FailedToRead p] | _ => [] end.

(* parse_and_cache_all_files: the cache and the lines written to stderr; None = the Err of `entry?` *)
Fixpoint load (es : list entry) : option (list (path * AST) * list report) :=
  match es with
  | [] => Some ([], [])
  | WalkErr :: _ => None
  | Skipped _ :: r => load r
  | File p c :: r =>
      match load r with
      | None => None
      | Some (cache, reps) =>
          match c with
          | Parsed a => Some ((p, a) :: cache, reps)
          | Unparsable => Some (cache, FailedToParse p :: reps)
          | Unreadable => Some (cache, FailedToRead p :: reps)
          end
      end
  end.

(* the definition index: type name -> file that declares it; a later file overwrites an earlier one *)
Definition index (c : list (path * AST)) : list (name * AST) :=
  flat_map (fun pa => map (fun n => (n, snd pa)) (defs_of (snd pa))) c.
Definition lookup (idx : list (name * AST)) (n : name) : option AST :=
  match find (fun x => if eq_dec (fst x) n then true else false) (rev idx) with
  | Some x => Some (snd x)
  | None => None
  end.
Definition resolved_def (idx : list (name * AST)) (n : name) : option def :=
  match lookup idx n with Some a => extract_type a n | None => None end.
Definition defined (idx : list (name * AST)) (n : name) : bool :=
  match resolved_def idx n with Some _ => true | None => false end.
Definition succ (idx : list (name * AST)) (n : name) : list name :=
  match resolved_def idx n with Some d => deps_of d | None => [] end.
Definition pushok (idx : list (name * AST)) (n : name) : bool :=
  match lookup idx n with Some _ => true | None => false end.
Definition index_names (idx : list (name * AST)) : list name := nodup eq_dec (map fst idx).

Record result := {
  r_cmds : list cmd; r_events : list ev;
  r_structs : list name;          (* discovered_structs, in resolution order *)
  r_order : list name             (* the same types in emission (dependency) order *)
}.
Inductive run := RunErr | RunOutOfFuel | RunOk (r : result) (stderr : list report).

Definition roots (c : list (path * AST)) : list name := flat_map (fun pa => names_of (fst pa) (snd pa)) c.
(* fuel of resolve_types_lazily: the potential of Proofs/WorklistSpike.v at the start *)
Definition resolve_fuel (idx : list (name * AST)) (rs : list name) : nat :=
  S (length rs + list_sum (map (fun n => length (succ idx n)) (index_names idx))).

Definition analyze_cache (c0 : list (path * AST)) : option result :=
  let c := arrange c0 in
  let idx := index c in
  let rs := roots c in
  match work eq_dec (succ idx) (defined idx) (pushok idx) (resolve_fuel idx rs) rs [] with
  | None => None
  | Some structs =>
      let g : Topo.graph name := map (fun n => (n, succ idx n)) structs in
      match topo_sort (S (length (universe g structs))) g structs with
      | None => None
      | Some order =>
          Some {| r_cmds := flat_map (fun pa => cmds_of (fst pa) (snd pa)) c;
                  r_events := flat_map (fun pa => events_of (fst pa) (snd pa)) c;
                  r_structs := structs; r_order := order |}
      end
  end.

(* analysis of a project: everything that is generated is a function of the cache alone *)
Definition analysis (es : list entry) : run :=
  match load es with
  | None => RunErr
  | Some (cache, reps) =>
      match analyze_cache cache with Some r => RunOk r reps | None => RunOutOfFuel end
  end.
Definition generated (x : run) : option result := match x with RunOk r _ => Some r | _ => None end.
Definition stderr_of (x : run) : list report := match x with RunOk _ reps => reps | _ => [] end.
End Project.
