(* C07 / C09: faithful model of type discovery and of the set and order of declarations in types.ts.
   analysis/mod.rs   analyze_project_with_verbose (per-file loop, type_names_to_discover),
                     index_type_definitions, resolve_types_lazily, extract_type_from_ast
   struct_parser.rs  should_include, parse_struct (tuple structs give None), parse_field (serde skip)
   command_parser.rs is_tauri_command, is_tauri_parameter_type, extract_return_type
   channel_parser.rs extract_channel_message_type, is_channel_segment
   event_parser.rs   extract_param_types, extract_type_name, infer_payload_type (variable / struct literal)
   generators/mod.rs collect_used_types, discover_nested_dependencies, collect_referenced_types_from_structure
   ts|zod/generator.rs generate_models (event payload addition), generate_types_file_content (order)
   Hash-based collections are lists; every iteration order is taken from the parameter [o]. Definitions only. *)
From Coq Require Import String Ascii.
From Coq Require Import List Arith Bool.
Require Import TT.Model.Base TT.Model.Str TT.Model.C07TypeParse TT.Model.C07Harvest TT.Model.C07Worklist TT.Model.Topo.
Import ListNotations.
Local Open Scope list_scope.

(* ---------------- syntax of a project (what syn hands to the analysis) ---------------- *)
Inductive cty :=
| CPath (segs : list str) (name : str) (angle : bool) (args : list cty)   (* a::b::Name<args>; angle: has <..> at all *)
| CRef (t : cty)
| CTuple (ts : list cty).

Record field := { f_skip : bool; f_ty : cty }.
Inductive dkind := DStruct (fs : list field) | DUnit | DTuple | DEnum.
Record tdef := { d_name : str; d_derives : list str; d_kind : dkind }.
(* payload expression of an emit call after stripping & and .clone(), as infer_payload_type does *)
(* PVar v: a variable; PStruct n: a struct literal whose path ends in n (any number of leading segments: events::N,
   crate::events::N, self::N), directly or through let v = <literal>; PVariant e v st: an enum variant E::V, as a
   struct-variant literal (st) or as a path; PNew segs n: let v = segs::N::new() followed by the emit of v *)
Inductive pay := PVar (v : str) | PStruct (n : str) | POther
               | PVariant (e v : str) (st : bool) | PNew (segs : list str) (n : str).
Record fndef := { fn_name : str; fn_attrs : list (list str); fn_params : list (str * cty);
                  fn_ret : option cty; fn_emits : list pay }.
(* IMod: an inline module holding type definitions; the analysis looks at top-level items only
   (index_type_definitions, extract_type_from_ast, extract_commands_from_ast iterate ast.items) *)
Inductive item := IDef (d : tdef) | IFn (f : fndef) | IOther | IMod (ds : list tdef).
Definition project := list (str * list item).       (* files in AstCache iteration order *)

(* serde_parser.rs parse_field_serde_attrs: a field is skipped when the token text of one of its #[serde(..)]
   attributes contains skip and does not contain skip_serializing (so skip, skip_deserializing and lists holding skip
   count; skip_serializing, skip_serializing_if and a single list holding both skip_serializing and
   skip_deserializing do not). The input record carries the resulting flag; the decoder computes it with this function. *)
Fixpoint has_sub (p s : str) : bool :=
  match s with [] => starts p [] | _ :: s' => starts p s || has_sub p s' end.
Definition field_skip (serde_attrs : list str) : bool :=
  existsb (fun a => has_sub (L "skip") a && negb (has_sub (L "skip_serializing") a)) serde_attrs.

(* type_to_string (all three variants agree on this syntax) *)
Fixpoint rty_of (q : cty) : rty :=
  match q with
  | CPath segs n _ args => RPath (join (L "::") (segs ++ [n])) (map rty_of args)
  | CRef t => RRef (rty_of t)
  | CTuple ts => RTuple (map rty_of ts)
  end.
Definition tstr (q : cty) : str := tts (rty_of q).

(* ---------------- iteration orders ---------------- *)
(* o site key elements = the order in which the hash collection built from [elements] (insertion
   order) at that program point is iterated. Sites: *)
Definition S_ROOTS := 0.     (* type_names_to_discover -> types_to_resolve *)
Definition S_DEPS := 1.      (* type_dependencies of one resolved type (push loop) *)
Definition S_GRAPH := 2.     (* dependencies[type] as iterated by topological_visit *)
Definition S_USED := 3.      (* used_types -> to_process *)
Definition S_FIELD := 4.     (* nested_types of one field (key = type name) *)
Definition S_STRUCTS := 5.   (* discovered_structs / used_structs HashMap iteration *)
Definition S_REQ := 6.       (* type_names handed to topological_sort_types *)
Definition S_EVENT := 7.     (* event_types of one event *)
Definition S_CLOSURE := 8.   (* closure of one event: payload names with their nested dependencies *)
Definition orders := nat -> str -> list str -> list str.

Definition str_dec : forall a b : str, {a = b} + {a <> b} := list_eq_dec ascii_dec.
Definition smemb (x : str) (l : list str) : bool := C07Worklist.memb str_dec x l.
Definition dedup (l : list str) : list str := nodup str_dec l.
Definition o_default : orders := fun _ _ l => dedup l.

(* ---------------- front end ---------------- *)
Fixpoint contains (p s : str) : bool :=
  match s with [] => starts p [] | _ :: s' => starts p s || contains p s' end.
(* should_include: the token string of a derive attribute contains Serialize or Deserialize *)
Definition included (d : tdef) : bool :=
  existsb (fun x => contains (L "Serialize") x || contains (L "Deserialize") x) (d_derives d).

Local Open Scope string_scope.
Definition is_command (f : fndef) : bool :=
  existsb (fun a => match a with
                    | [t; c] => str_eqb t (L "tauri") && str_eqb c (L "command")
                    | [c] => str_eqb c (L "command")
                    | _ => false end) (fn_attrs f).

Definition is_tauri_param (q : cty) : bool :=
  match q with
  | CPath segs n angle _ =>
      let last_check := one_of n ["AppHandle"; "WebviewWindow"] || (str_eqb n (L "Channel") && angle)
                        || (one_of n ["State"; "Window"] && angle) in
      match segs with
      | [t] => if str_eqb t (L "tauri") then one_of n ["AppHandle"; "Window"; "WebviewWindow"; "State"; "Manager"] else last_check
      | [t; i] => if str_eqb t (L "tauri") && str_eqb i (L "ipc") then one_of n ["Request"; "Channel"] else last_check
      | _ => last_check
      end
  | _ => false
  end.

Definition channel_msg (q : cty) : option cty :=
  match q with
  | CPath segs n _ args =>
      if str_eqb n (L "Channel")
         && (match segs with
             | [] => true
             | [t] => str_eqb t (L "tauri") || str_eqb t (L "ipc")      (* use tauri::ipc; ipc::Channel<T> *)
             | t :: _ => str_eqb t (L "tauri") end)
      then match args with a :: _ => Some a | [] => None end else None
  | _ => None
  end.

(* event_parser::extract_type_name *)
Fixpoint last_name (q : cty) : str :=
  match q with CRef t => last_name t | CPath _ n _ _ => n | CTuple _ => L "unknown" end.
Local Close Scope string_scope.

Fixpoint lookup_sym (v : str) (ps : list (str * cty)) : option str :=
  match ps with
  | [] => None
  | (n, t) :: r => match lookup_sym v r with Some x => Some x | None => if str_eqb n v then Some (last_name t) else None end
  end.
Definition payload_type (f : fndef) (p : pay) : str :=
  match p with
  | PVar v => match lookup_sym v (fn_params f) with Some t => t | None => v end
  | PStruct n => n                                   (* infer_payload_type / infer_type_from_init: path.segments.last() *)
  | POther => L "unknown"
  | PVariant _ v true => v                           (* Expr::Struct: the last segment is the variant *)
  | PVariant _ _ false => L "unknown"                (* qualified value path *)
  | PNew segs n => match segs with [] => n | s :: _ => s end   (* Expr::Call with >= 2 segments: segments[0] *)
  end.

Definition file_fns (its : list item) : list fndef := flat_map (fun it => match it with IFn f => [f] | _ => [] end) its.
Definition file_defs (its : list item) : list tdef := flat_map (fun it => match it with IDef d => [d] | _ => [] end) its.
Definition all_fns (p : project) : list fndef := flat_map (fun f => file_fns (snd f)) p.
Definition commands (p : project) : list fndef := filter is_command (all_fns p).
Definition defs (p : project) : list tdef := flat_map (fun f => file_defs (snd f)) p.

Definition cmd_channels (c : fndef) : list cty :=
  flat_map (fun x => match channel_msg (snd x) with Some m => [m] | None => [] end) (fn_params c).
Definition cmd_params (c : fndef) : list cty := filter (fun t => negb (is_tauri_param t)) (map snd (fn_params c)).
Definition cmd_ret (c : fndef) : str := match fn_ret c with Some t => tstr t | None => L "()" end.
Definition events (p : project) : list str := flat_map (fun f => map (payload_type f) (fn_emits f)) (all_fns p).

(* the strings handed to extract_type_names while the files are walked *)
Definition root_strings (p : project) : list str :=
  flat_map (fun c => map tstr (cmd_channels c) ++ map tstr (cmd_params c) ++ [cmd_ret c]) (commands p) ++ events p.
Definition harvest_roots (p : project) : list str := flat_map extract_type_names (root_strings p).

(* ---------------- definition index and resolution ---------------- *)
Definition indexed (p : project) (n : str) : bool := existsb (fun d => included d && str_eqb (d_name d) n) (defs p).
Definition lookup (p : project) (n : str) : option tdef := find (fun d => included d && str_eqb (d_name d) n) (defs p).
(* rust_type strings of the fields of the StructInfo; None when parse_struct gives None *)
Definition field_strings (p : project) (n : str) : option (list str) :=
  match lookup p n with
  | Some d => match d_kind d with
              | DStruct fs => Some (map (fun f => tstr (f_ty f)) (filter (fun f => negb (f_skip f)) fs))
              | DUnit => Some []
              | DEnum => Some []      (* variants carry the pseudo types enum_variant.., which name nothing *)
              | DTuple => None end
  | None => None
  end.
Definition resolvable (p : project) (n : str) : bool := match field_strings p n with Some _ => true | None => false end.
Definition deps_of (p : project) (n : str) : list str :=
  match field_strings p n with Some l => flat_map extract_type_names l | None => [] end.

Definition big_fuel (p : project) : nat :=
  S (List.length (harvest_roots p) + list_sum (map (fun d => S (List.length (deps_of p (d_name d)))) (defs p))).

Definition discovered (o : orders) (p : project) : option (list str) :=
  work str_dec (fun n => o S_DEPS n (deps_of p n)) (resolvable p) (indexed p)
       (big_fuel p) (o S_ROOTS [] (harvest_roots p)) [].

(* ---------------- selection for emission ---------------- *)
Fixpoint ts_names (t : tstruct) : list str :=
  match t with
  | TCustom n => [n]
  | TArr t | TSet t | TOpt t | TRes t => ts_names t
  | TMap k v => ts_names k ++ ts_names v
  | TTuple l => flat_map ts_names l
  | TPrim _ => []
  end.
Definition ts_of (s : str) : list str := match parse_type_structure s with Some t => ts_names t | None => [] end.

Definition used_roots (p : project) : list str :=
  flat_map (fun c => flat_map (fun t => ts_of (tstr t)) (cmd_params c) ++ ts_of (cmd_ret c)
                     ++ flat_map (fun t => ts_of (tstr t)) (cmd_channels c)) (commands p).
Definition fields_ts (o : orders) (p : project) (n : str) : list (list str) :=
  match field_strings p n with Some l => map (fun s => o S_FIELD n (ts_of s)) l | None => [] end.

Definition used_types (o : orders) (p : project) (disc : list str) : option (list str) :=
  let init := o S_USED [] (used_roots p) in
  nested str_dec (fields_ts o p) (fun n => smemb n disc)
         (S (S (List.length init + List.length disc + List.length disc))) init [] init.

(* generate_models: the names an event payload mentions together with their nested dependencies
   (discover_nested_dependencies started from the payload names) *)
Definition event_closure (o : orders) (p : project) (disc : list str) (e : str) : option (list str) :=
  let init := o S_EVENT e (ts_of e) in
  option_map (o S_CLOSURE e)
    (nested str_dec (fields_ts o p) (fun n => smemb n disc)
            (S (S (List.length init + List.length disc + List.length disc))) init [] init).

(* generate_models: used_structs, then for every event the discovered types of its closure *)
Definition declared (o : orders) (p : project) : option (list str) :=
  match discovered o p with
  | None => None
  | Some disc =>
    match used_types o p disc with
    | None => None
    | Some used =>
        let base := filter (fun n => smemb n used) (o S_STRUCTS [] disc) in
        match mapM (event_closure o p disc) (events p) with
        | Some closures => Some (add_events str_dec disc closures base)
        | None => None
        end
    end
  end.

(* plain mode: interfaces / enum aliases in the order of the used_structs map *)
Definition emitted_plain (o : orders) (p : project) : option (list str) :=
  option_map (fun d => o S_STRUCTS (L "used") d) (declared o p).

(* Zod mode: depth-first topological sort over the recorded dependency sets, then those with a schema *)
#[global] Instance str_EqDec : EqDec str := str_dec.
Definition dep_graph (o : orders) (p : project) (disc : list str) : Topo.graph str :=
  map (fun n => (n, o S_GRAPH n (deps_of p n))) disc.
Definition emitted_zod (o : orders) (p : project) : option (list str) :=
  match discovered o p, declared o p with
  | Some disc, Some decl =>
      let g := dep_graph o p disc in
      let req := o S_REQ [] decl in
      match topo_sort (S (List.length (universe g req))) g req with
      | Some sorted => Some (filter (fun n => smemb n decl) sorted)
      | None => None end
  | _, _ => None
  end.
