(* Copy of Model/TypeParse.v taken for C07 and C09 (the C05 worker edits the original): faithful model of TypeResolver::parse_type_structure on the strings type_to_string prints *)
From Coq Require Import String Ascii.
From Coq Require Import List Arith Lia Bool.
Require Import TT.Model.Str.
Import ListNotations.
Local Open Scope char_scope.
Local Open Scope list_scope.

(* ---- Rust types as syn sees them (documented feature set) and the printer ---- *)
Inductive rty :=
| RPath (name : str) (args : list rty)   (* unqualified path with type arguments *)
| RRef (t : rty)
| RTuple (ts : list rty).

Fixpoint tts (t : rty) : str :=
  match t with
  | RPath n [] => n
  | RPath n args => n ++ L "<" ++ join (L ", ") (map tts args) ++ L ">"
  | RRef t => L "&" ++ tts t
  | RTuple [] => L "()"
  | RTuple ts => L "(" ++ join (L ", ") (map tts ts) ++ L ")"
  end.

(* ---- TypeStructure (models.rs) ---- *)
Inductive tstruct :=
| TPrim (s : str) | TArr (t : tstruct) | TMap (k v : tstruct) | TSet (t : tstruct)
| TTuple (l : list tstruct) | TOpt (t : tstruct) | TRes (t : tstruct) | TCustom (s : str).

Definition one_of (s : str) (l : list string) : bool := existsb (fun x => str_eqb s (L x)) l.
Local Open Scope string_scope.
Definition prim_of (s : str) : option str :=
  if one_of s ["String"; "str"; "&str"] then Some (L "string")
  else if one_of s ["i8"; "i16"; "i32"; "i64"; "i128"; "isize"; "u8"; "u16"; "u32"; "u64"; "u128"; "usize"; "f32"; "f64"]
       then Some (L "number")
  else if one_of s ["bool"] then Some (L "boolean")
  else if one_of s ["()"] then Some (L "void")
  else None.

(* extract_* helpers: prefix test, '>' suffix test, fixed-offset slice *)
Definition wrapped (tag : string) (s : str) : option str :=
  if starts (L tag) s && ends_with ">"%char s then Some (mid (String.length tag) 1 s) else None.

(* type_resolver.rs find_top_level_comma / split_top_level (shared by the resolver and the harvester):
   the first comma outside every pair of angle brackets, parentheses and square brackets; the depth is a
   signed integer and commas at negative depth are not split *)
From Coq Require Import ZArith.
Definition opener (c : ascii) : bool := Ascii.eqb c "<" || Ascii.eqb c "(" || Ascii.eqb c "[".
Definition closer (c : ascii) : bool := Ascii.eqb c ">" || Ascii.eqb c ")" || Ascii.eqb c "]".
Fixpoint top_go (d : Z) (pre : str) (s : str) : option (str * str) :=
  match s with
  | [] => None
  | b :: s' =>
      if opener b then top_go (d + 1) (b :: pre) s'
      else if closer b then top_go (d - 1) (b :: pre) s'
      else if Ascii.eqb b "," && (d =? 0)%Z then Some (rev pre, s')
      else top_go d (b :: pre) s'
  end.
(* (s[..pos], s[pos+1..]) for the first top-level comma *)
Definition find_top (s : str) : option (str * str) := top_go 0 [] s.
Fixpoint split_top (fuel : nat) (s : str) : list str :=
  match fuel with
  | 0 => [s]
  | S f => match find_top s with Some (a, r) => a :: split_top f r | None => [s] end
  end.
Definition split_top_level (s : str) : list str := split_top (S (List.length s)) s.
(* parse_two_type_params *)
Definition top2 (s : str) : option (str * str) :=
  match find_top s with Some (k, v) => Some (trim k, trim v) | None => None end.

Fixpoint parse (fuel : nat) (s0 : str) : option tstruct :=
  match fuel with
  | 0 => None
  | S f =>
    let s := trim s0 in
    if starts (L "&") s then parse f (skipn 1 s) else
    match wrapped "Option<" s with Some inner => option_map TOpt (parse f inner) | None =>
    match wrapped "Result<" s with
    | Some inner =>                      (* extract_result_ok_type: first top-level comma *)
        let ok := match find_top inner with Some (a, _) => trim a | None => inner end in
        option_map TRes (parse f ok)
    | None =>
    match wrapped "Vec<" s with Some inner => option_map TArr (parse f inner) | None =>
    match (match wrapped "HashMap<" s with
           | Some inner => match top2 inner with Some kv => Some kv | None => None end
           | None => None end),
          (match wrapped "BTreeMap<" s with
           | Some inner => top2 inner
           | None => None end) with
    | Some (k, v), _ | None, Some (k, v) =>
        match parse f k, parse f v with Some k', Some v' => Some (TMap k' v') | _, _ => None end
    | None, None =>
    match (match wrapped "HashSet<" s with Some i => Some i | None => wrapped "BTreeSet<" s end) with
    | Some inner => option_map TSet (parse f inner)
    | None =>
    if starts (L "(") s && ends_with ")"%char s then
      let inner := mid 1 1 s in
      if all_blank inner then Some (TPrim (L "void"))
      else option_map TTuple (mapM (parse f) (map trim (split_top_level inner)))
    else match prim_of s with Some p => Some (TPrim p) | None => Some (TCustom s) end
    end end end end end
  end.

Definition parse_type_structure (s : str) : option tstruct := parse (S (List.length s)) s.

Local Close Scope string_scope.
Local Open Scope nat_scope.
(* ---- the two recorded defect classes, as predicates on the syntax ---- *)
(* the printed form contains a comma: some path has >= 2 arguments or some tuple >= 2 elements *)
Fixpoint multi (t : rty) : bool :=
  match t with
  | RPath _ args => (2 <=? List.length args) || existsb multi args
  | RRef t => multi t
  | RTuple ts => (2 <=? List.length ts) || existsb multi ts
  end.
Definition is_name (n : str) (s : string) : bool := str_eqb n (L s).

(* extract_result_ok_type cuts at the first comma: wrong as soon as the Ok type prints a comma *)
Fixpoint kf_result_ok_has_comma (t : rty) : bool :=
  match t with
  | RPath n args =>
      (is_name n "Result"%string && match args with a :: _ => multi a | [] => false end)
      || existsb kf_result_ok_has_comma args
  | RRef t => kf_result_ok_has_comma t
  | RTuple ts => existsb kf_result_ok_has_comma ts
  end.
(* extract_tuple_types splits at every comma: wrong as soon as an element prints a comma *)
Fixpoint kf_tuple_elem_has_comma (t : rty) : bool :=
  match t with
  | RPath _ args => existsb kf_tuple_elem_has_comma args
  | RRef t => kf_tuple_elem_has_comma t
  | RTuple ts => existsb multi ts || existsb kf_tuple_elem_has_comma ts
  end.

(* witnesses *)
Definition ex_result := RPath (L "Result") [RPath (L "HashMap") [RPath (L "String") []; RPath (L "i32") []]; RPath (L "String") []].
Definition ex_tuple := RTuple [RPath (L "HashMap") [RPath (L "String") []; RPath (L "i32") []]; RPath (L "bool") []].
