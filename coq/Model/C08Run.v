(* C08 / C14 / C17: the run / cache state machine. Definitions only.
   Abstract part (a Section over the project, configuration, schedule, file-name, content and fingerprint
   types) transcribes the control flow shared by bin/cargo-tauri-typegen.rs run_generate (lines 85-286)
   and build/mod.rs generate_bindings (lines 201-277): no commands => return; force or cache miss =>
   write the files in order, then the cache record (a failing record write is only a warning);
   cache hit => return. needs_regeneration (generation_cache.rs:84-111) = load / parse / version /
   compare combined_hash; since C08-9-presence-test-in-callers both callers also test that the files of the
   plan exist (GenerationCache::outputs_present) before answering up to date (check_presence = true). *)
From Coq Require Import List Arith Bool.
Require Import TT.Model.Str TT.Model.C08Fingerprint.
Import ListNotations.

Section Run.
  Variables proj cfg schedT fnameT content fpT : Type.
  Variable fn_eqb : fnameT -> fnameT -> bool.
  Variable fpt_eqb : fpT -> fpT -> bool.
  Variable gfiles : schedT -> proj -> cfg -> list (fnameT * content).   (* forced generation, in write order *)
  Variable gfp : schedT -> proj -> cfg -> fpT.
  Variable ghas_commands : proj -> bool.
  Variable cfg_force : cfg -> bool.        (* force: true in the configuration file *)
  Variable check_presence : bool.          (* true = the code since C08-9-presence-test-in-callers; false = before *)

  Record state := { s_src : proj; s_cfg : cfg; s_out : fnameT -> option content; s_cache : option fpT }.

  Definition upd (o : fnameT -> option content) (f : fnameT) (x : option content) : fnameT -> option content :=
    fun g => if fn_eqb g f then x else o g.

  Fixpoint write_all (l : list (fnameT * content)) (o : fnameT -> option content) :=
    match l with [] => o | (f, x) :: l' => write_all l' (upd o f (Some x)) end.

  Definition unwrite (fx : option (fnameT * content)) (o : fnameT -> option content) : fnameT -> option content :=
    match fx with Some (f, _) => upd o f None | None => o end.

  Definition present (o : fnameT -> option content) (l : list (fnameT * content)) : bool :=
    forallb (fun p => match o (fst p) with Some _ => true | None => false end) l.

  Inductive result := NoCommands | UpToDate | Success | Failure.

  Definition cache_hit (w : schedT) (st : state) : bool :=
    match s_cache st with
    | Some h => if fpt_eqb h (gfp w (s_src st) (s_cfg st)) then
                  (if check_presence then present (s_out st) (gfiles w (s_src st) (s_cfg st)) else true)
                else false
    | None => false
    end.

  (* flag > file: the flag can only switch forcing on (there is no negative flag) *)
  Definition effective_force (flag : bool) (c : cfg) : bool := flag || cfg_force c.

  (* fault = Some k : the k-th write (0-based) of the plan fails; k >= length plan: the record write fails *)
  Definition run (w : schedT) (flag : bool) (fault : option nat) (st : state) : result * state :=
    if negb (ghas_commands (s_src st)) then (NoCommands, st)
    else if negb (effective_force flag (s_cfg st)) && cache_hit w st then (UpToDate, st)
    else
      let plan := gfiles w (s_src st) (s_cfg st) in
      match fault with
      | Some k =>
          if k <? length plan then
            (* the file whose write failed is not left behind (FileWriter::write_or_remove: a truncated file would
               pass for a generated one); a directory standing in its place is not a file either *)
            (Failure, {| s_src := s_src st; s_cfg := s_cfg st;
                         s_out := unwrite (nth_error plan k) (write_all (firstn k plan) (s_out st));
                         s_cache := s_cache st |})
          else (* the record cannot be written: warning only; whatever was there is not a readable record *)
            (Success, {| s_src := s_src st; s_cfg := s_cfg st;
                         s_out := write_all plan (s_out st); s_cache := None |})
      | None =>
          (Success, {| s_src := s_src st; s_cfg := s_cfg st;
                       s_out := write_all plan (s_out st);
                       s_cache := Some (gfp w (s_src st) (s_cfg st)) |})
      end.

  Inductive op := SetSrc (s : proj) | SetCfg (c : cfg) | Delete (f : fnameT) | DropCache | Run (w : schedT) (flag : bool).

  Definition step (st : state) (o : op) : state :=
    match o with
    | SetSrc s => {| s_src := s; s_cfg := s_cfg st; s_out := s_out st; s_cache := s_cache st |}
    | SetCfg c => {| s_src := s_src st; s_cfg := c; s_out := s_out st; s_cache := s_cache st |}
    | Delete f => {| s_src := s_src st; s_cfg := s_cfg st; s_out := upd (s_out st) f None; s_cache := s_cache st |}
    | DropCache => {| s_src := s_src st; s_cfg := s_cfg st; s_out := s_out st; s_cache := None |}
    | Run w flag => snd (run w flag None st)
    end.

  (* ghost: the inputs of the generation that wrote the current record (not visible to the tool) *)
  Definition gen := (schedT * proj * cfg)%type.
  Definition gstate := (state * option gen)%type.

  Definition regenerates (w : schedT) (flag : bool) (st : state) : bool :=
    ghas_commands (s_src st) && negb (negb (effective_force flag (s_cfg st)) && cache_hit w st).

  Definition stepG (sg : gstate) (o : op) : gstate :=
    let (st, g) := sg in
    (step st o,
     match o with
     | Run w flag => if regenerates w flag st then Some (w, s_src st, s_cfg st) else g
     | DropCache => None
     | _ => g
     end).

  Definition gfiles_of (g : gen) := let '(w, s, c) := g in gfiles w s c.
  Definition gfp_of (g : gen) := let '(w, s, c) := g in gfp w s c.
End Run.

Arguments s_src {_ _ _ _ _} _.
Arguments s_cfg {_ _ _ _ _} _.
Arguments s_out {_ _ _ _ _} _ _.
Arguments s_cache {_ _ _ _ _} _.


(* ---------------- the concrete (faithful) instance ---------------- *)
Definition cstate := state project config fname tree tree.
Definition cop := op project config sched fname.
Definition cgen := gen project config sched.
Definition cresult := result.

Definition run_c (presence : bool) : sched -> bool -> option nat -> cstate -> cresult * cstate :=
  run project config sched fname tree tree fname_eqb tree_eqb files fp has_commands g_force presence.
Definition step_c (presence : bool) : cstate -> cop -> cstate :=
  step project config sched fname tree tree fname_eqb tree_eqb files fp has_commands g_force presence.
Definition stepG_c (presence : bool) : cstate * option cgen -> cop -> cstate * option cgen :=
  stepG project config sched fname tree tree fname_eqb tree_eqb files fp has_commands g_force presence.
Definition cache_hit_c (presence : bool) : sched -> cstate -> bool :=
  cache_hit project config sched fname tree tree tree_eqb files fp presence.

Definition init_state (p : project) (c : config) : cstate :=
  {| s_src := p; s_cfg := c; s_out := fun _ => None; s_cache := None |}.

(* ---- recorded class (known finding) ----
   8: data printed only into dependency-graph.txt - the command line numbers, the number of indexed type
      definitions - differ while visualize_deps is on between the generation the record stems from and the
      current inputs, while the fingerprints agree (neither is part of any hash).
   (1..5, 7 repaired by C08-C14-hash-inputs; 6 events by C08-6-events-in-cache; 9 lost file by
    C08-9-presence-test-in-callers: the callers test for the files of the plan before answering up to date.) *)
Definition kf_C08_unhashed (w : sched) (st : cstate) (g : cgen) : list nat :=
  let '(w0, p0, c0) := g in
  if tree_eqb (fp w0 p0 c0) (fp w (s_src st) (s_cfg st))
  then (if tree_eqb (u_lines (analyse w0 p0) c0) (u_lines (analyse w (s_src st)) (s_cfg st)) then [] else [8])
  else [].

(* classes of the final non-forced run of a history: empty unless that run is a cache hit *)
Definition kf_C08 (w : sched) (sg : cstate * option cgen) : list nat :=
  let (st, g) := sg in
  if has_commands (s_src st) && negb (g_force (s_cfg st)) && cache_hit_c true w st then
    match g with Some g0 => kf_C08_unhashed w st g0 | None => [] end
  else [].

(* ---- observations compared with the real tool ---- *)
Definition stale (w : sched) (st : cstate) : list fname * list fname :=
  let fs := files w (s_src st) (s_cfg st) in
  (map fst (filter (fun fx => match s_out st (fst fx) with None => true | Some _ => false end) fs),
   map fst (filter (fun fx => match s_out st (fst fx) with None => false | Some y => negb (tree_eqb y (snd fx)) end) fs)).

Definition all_current (w : sched) (st : cstate) : bool :=
  match stale w st with ([], []) => true | _ => false end.

(* property predicates on observations *)
Definition c08_ok (r : cresult) (missing different : list fname) : bool :=
  match r with
  | Success | UpToDate => match missing, different with [], [] => true | _, _ => false end
  | _ => true
  end.

(* history steps as the checks script them *)
Inductive hstep :=
| HSet (p : project) (c : config)
| HDelete (f : fname)
| HDropCache
| HCorrupt (f : fname)     (* a write that failed after truncating the file leaves an empty / partial file behind *)
| HRun (w : sched) (flag : bool) (fault : option nat).

Record hobs := { o_result : cresult; o_missing : list fname; o_different : list fname;
                 o_classes : list nat; o_cache_current : bool }.

Definition run_obs (presence : bool) (sg : cstate * option cgen) (w : sched) (flag : bool) (fault : option nat)
  : hobs * (cstate * option cgen) :=
  let (st, g) := sg in
  let cls := if flag then [] else kf_C08 w sg in
  let '(r, st') := run_c presence w flag fault st in
  let g' := match r with
            | Success => match s_cache st' with Some _ => Some (w, s_src st, s_cfg st) | None => None end
            | _ => g
            end in
  let '(mi, di) := stale w st' in
  ({| o_result := r; o_missing := mi; o_different := di; o_classes := cls;
      o_cache_current := cache_hit_c presence w st' |}, (st', g')).

Fixpoint trace (presence : bool) (sg : cstate * option cgen) (h : list hstep) : list hobs :=
  match h with
  | [] => []
  | HSet p c :: h' =>
      trace presence ({| s_src := p; s_cfg := c; s_out := s_out (fst sg); s_cache := s_cache (fst sg) |}, snd sg) h'
  | HDelete f :: h' =>
      trace presence (step_c presence (fst sg) (Delete _ _ _ _ f), snd sg) h'
  | HDropCache :: h' =>
      trace presence (step_c presence (fst sg) (DropCache _ _ _ _), None) h'
  | HCorrupt f :: h' =>
      let st := fst sg in
      trace presence ({| s_src := s_src st; s_cfg := s_cfg st;
                         s_out := upd fname tree fname_eqb (s_out st) f (Some (TN [TN []]));
                         s_cache := s_cache st |}, snd sg) h'
  | HRun w flag fault :: h' =>
      let (o, sg') := run_obs presence sg w flag fault in o :: trace presence sg' h'
  end.
