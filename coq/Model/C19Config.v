(* C19 - model of the configuration handling of tauri-typegen.
   Definitions only (proofs are in Proofs/C19ConfigProofs.v).

   Anchors (all under /repo/src):
     interface/config.rs   save_to_tauri_config, from_tauri_config, validate, Default
     bin/cargo-tauri-typegen.rs   run_generate (search loop, override order, validate), run_init

   JSON documents follow serde_json::Value without preserve_order: an object is a
   map; here an association list with Map::insert semantics (replace the value of an
   existing key, otherwise add the key). Numbers are opaque tokens of the number model
   of serde_json (u64 / i64 / f64); the model never looks inside them. *)
From Coq Require Import String Ascii List Bool Arith.
Import ListNotations.
Local Open Scope string_scope.

Definition num := string.

Inductive json :=
| JNull | JBool (b : bool) | JNum (n : num) | JStr (s : string)
| JArr (l : list json) | JObj (kvs : list (string * json)).

Section Assoc.
Context {A : Type}.
Fixpoint lookup (k : string) (kvs : list (string * A)) : option A :=
  match kvs with [] => None | (k', v) :: r => if String.eqb k k' then Some v else lookup k r end.
Fixpoint insert (k : string) (v : A) (kvs : list (string * A)) : list (string * A) :=
  match kvs with
  | [] => [(k, v)]
  | (k', v') :: r => if String.eqb k k' then (k, v) :: r else (k', v') :: insert k v r
  end.
End Assoc.

(* a path into a document: object keys and array positions *)
Inductive pel := PKey (k : string) | PIdx (i : nat).

Fixpoint get (q : list pel) (j : json) : option json :=
  match q with
  | [] => Some j
  | PKey k :: q' =>
      match j with
      | JObj kvs => match lookup k kvs with Some v => get q' v | None => None end
      | _ => None
      end
  | PIdx i :: q' =>
      match j with
      | JArr l => match nth_error l i with Some v => get q' v | None => None end
      | _ => None
      end
  end.

Definition pel_eqb (a b : pel) : bool :=
  match a, b with
  | PKey x, PKey y => String.eqb x y
  | PIdx x, PIdx y => Nat.eqb x y
  | _, _ => false
  end.
Fixpoint is_prefix (a b : list pel) : bool :=
  match a, b with
  | [], _ => true
  | x :: a', y :: b' => pel_eqb x y && is_prefix a' b'
  | _, _ => false
  end.

(* where the settings live *)
Definition P : list pel := [PKey "plugins"; PKey "typegen"].
(* the paths the property speaks about: neither leading to nor passing through the section *)
Definition outside_section (q : list pel) : bool := negb (is_prefix q P) && negb (is_prefix P q).

(* ---------------------------------------------------------------- settings *)
(* config.rs:19 GenerateConfig *)
Record config := {
  project_path : string; output_path : string; validation_library : string;
  verbose : option bool; visualize_deps : option bool; include_private : option bool;
  type_mappings : option (list (string * string));
  exclude_patterns : option (list string); include_patterns : option (list string);
  default_parameter_case : string; default_field_case : string;
  force : option bool
}.

(* config.rs:96 Default *)
Definition dflt : config := {|
  project_path := "./src-tauri"; output_path := "./src/generated"; validation_library := "none";
  verbose := Some false; visualize_deps := Some false; include_private := Some false;
  type_mappings := None; exclude_patterns := None; include_patterns := None;
  default_parameter_case := "camelCase"; default_field_case := "snake_case";
  force := Some false |}.

Definition or_else {A} (o : option A) (d : A) : A := match o with Some x => x | None => d end.
Definition ob (o : option bool) : json := JBool (or_else o false).
Definition ostrs (o : option (list string)) : json :=
  match o with Some l => JArr (map JStr l) | None => JNull end.
Definition omap (o : option (list (string * string))) : json :=
  match o with Some l => JObj (map (fun kv => (fst kv, JStr (snd kv))) l) | None => JNull end.

(* config.rs:216 the json! literal *)
Definition typegen_json (c : config) : json := JObj [
  ("projectPath", JStr (project_path c)); ("outputPath", JStr (output_path c));
  ("validationLibrary", JStr (validation_library c));
  ("verbose", ob (verbose c)); ("visualizeDeps", ob (visualize_deps c));
  ("includePrivate", ob (include_private c)); ("typeMappings", omap (type_mappings c));
  ("excludePatterns", ostrs (exclude_patterns c)); ("includePatterns", ostrs (include_patterns c));
  ("force", ob (force c));
  ("defaultParameterCase", JStr (default_parameter_case c)); ("defaultFieldCase", JStr (default_field_case c)) ].

(* config.rs save_to_tauri_config on the parsed document: None = refused with
   ConfigError::InvalidConfig before anything is written (the root is not an object, or
   plugins exists and is not an object); plugins is created when absent *)
Definition save_doc (c : config) (doc : json) : option json :=
  match doc with
  | JObj kvs =>
      let root := match lookup "plugins" kvs with Some _ => kvs | None => insert "plugins" (JObj []) kvs end in
      match lookup "plugins" root with
      | Some (JObj p) => Some (JObj (insert "plugins" (JObj (insert "typegen" (typegen_json c) p)) root))
      | _ => None
      end
  | _ => None
  end.

(* the documents the settings can be written into *)
Definition saveable (doc : json) : bool :=
  match doc with
  | JObj kvs => match lookup "plugins" kvs with Some (JObj _) | None => true | Some _ => false end
  | _ => false
  end.

Definition as_str (j : option json) : option string := match j with Some (JStr s) => Some s | _ => None end.
Definition as_bool (j : option json) : option bool := match j with Some (JBool b) => Some b | _ => None end.
Fixpoint all_strs (l : list json) : option (list string) :=
  match l with [] => Some [] | JStr s :: r => option_map (cons s) (all_strs r) | _ => None end.
Fixpoint all_str_vals (l : list (string * json)) : option (list (string * string)) :=
  match l with [] => Some [] | (k, JStr s) :: r => option_map (cons (k, s)) (all_str_vals r) | _ => None end.

(* config.rs:137-185 the section is read key by key over the defaults; a key of the
   wrong type is ignored *)
Definition config_of_section (tg : json) : config :=
  let f k := get [PKey k] tg in
  {| project_path := or_else (as_str (f "projectPath")) (project_path dflt);
     output_path := or_else (as_str (f "outputPath")) (output_path dflt);
     validation_library := or_else (as_str (f "validationLibrary")) (validation_library dflt);
     verbose := match as_bool (f "verbose") with Some b => Some b | None => verbose dflt end;
     visualize_deps := match as_bool (f "visualizeDeps") with Some b => Some b | None => visualize_deps dflt end;
     include_private := match as_bool (f "includePrivate") with Some b => Some b | None => include_private dflt end;
     type_mappings := match f "typeMappings" with Some (JObj l) => all_str_vals l | _ => None end;
     exclude_patterns := match f "excludePatterns" with Some (JArr l) => all_strs l | _ => None end;
     include_patterns := match f "includePatterns" with Some (JArr l) => all_strs l | _ => None end;
     default_parameter_case := or_else (as_str (f "defaultParameterCase")) (default_parameter_case dflt);
     default_field_case := or_else (as_str (f "defaultFieldCase")) (default_field_case dflt);
     force := match as_bool (f "force") with Some b => Some b | None => force dflt end |}.

(* config.rs:135-136 from_tauri_config before validate: None when there is no section *)
Definition load_doc (doc : json) : option config :=
  match get P doc with Some tg => Some (config_of_section tg) | None => None end.

(* what reading back can at best return: absent booleans are written as false *)
Definition nb (o : option bool) : option bool := Some (or_else o false).
Definition normalise (c : config) : config :=
  {| project_path := project_path c; output_path := output_path c; validation_library := validation_library c;
     verbose := nb (verbose c); visualize_deps := nb (visualize_deps c); include_private := nb (include_private c);
     type_mappings := type_mappings c; exclude_patterns := exclude_patterns c; include_patterns := include_patterns c;
     default_parameter_case := default_parameter_case c; default_field_case := default_field_case c;
     force := nb (force c) |}.

(* ---------------------------------------------------------------- files *)
(* The part of the file system the command line tool looks at. Paths are relative to
   the working directory; a leading ./ is dropped (norm); nothing else is normalised. *)
Record genout := { g_project : string; g_lib : string; g_viz : bool }.
Inductive node :=
| NDir                       (* a directory without Tauri commands *)
| NProj                      (* a directory whose sources declare at least one command *)
| NDoc (d : option json)     (* a file; None = not parseable as JSON *)
| NOut (o : genout).         (* a directory holding generated bindings *)
Definition fs := list (string * node).

Definition norm (p : string) : string :=
  match p with
  | String "."%char (String "/"%char r) => r
  | _ => p
  end.
Definition fs_get (f : fs) (p : string) : option node := lookup (norm p) f.
Definition fs_exists (f : fs) (p : string) : bool := match fs_get f p with Some _ => true | None => false end.
Definition fs_put (f : fs) (p : string) (n : node) : fs := insert (norm p) n f.

(* config.rs:254 validate *)
Inductive verr := BadLib (s : string) | NoProject (s : string).
Definition lib_ok (s : string) : bool := String.eqb s "zod" || String.eqb s "none".
Definition validate (f : fs) (c : config) : option verr :=
  if lib_ok (validation_library c) then
    if fs_exists f (project_path c) then None else Some (NoProject (project_path c))
  else Some (BadLib (validation_library c)).

(* config.rs:130 from_tauri_config on a path *)
Inductive lres := LOk (c : config) | LNone | LErr.
Definition from_tauri_config (f : fs) (p : string) : lres :=
  match fs_get f p with
  | Some (NDoc (Some d)) =>
      match load_doc d with
      | None => LNone
      | Some c => match validate f c with None => LOk c | Some _ => LErr end
      end
  | _ => LErr
  end.

(* config.rs from_tauri_config_unvalidated: the same reading without validate; an error
   only when the file cannot be read or is not JSON *)
Definition from_tauri_config_unvalidated (f : fs) (p : string) : lres :=
  match fs_get f p with
  | Some (NDoc (Some d)) => match load_doc d with None => LNone | Some c => LOk c end
  | _ => LErr
  end.

(* bin:103-107 *)
Definition cands : list string := ["tauri.conf.json"; "src-tauri/tauri.conf.json"; "../tauri.conf.json"].

(* bin:112-129 the search loop: the first existing candidate decides unless it cannot be
   read as JSON; its settings are not validated here but after the overrides *)
Fixpoint search (f : fs) (ps : list string) : config :=
  match ps with
  | [] => dflt
  | p :: r =>
      if fs_exists f p then
        match from_tauri_config_unvalidated f p with
        | LOk c => c
        | LNone => dflt
        | LErr => search f r
        end
      else search f r
  end.

(* command line of generate (without -c) *)
Record flags := {
  f_project : option string; f_output : option string; f_validation : option string;
  f_verbose : bool; f_visualize : bool; f_force : bool }.

(* bin:135-154 *)
Definition apply_flags (fl : flags) (c : config) : config :=
  {| project_path := or_else (f_project fl) (project_path c);
     output_path := or_else (f_output fl) (output_path c);
     validation_library := or_else (f_validation fl) (validation_library c);
     verbose := if f_verbose fl then Some true else verbose c;
     visualize_deps := if f_visualize fl then Some true else visualize_deps c;
     include_private := include_private c; type_mappings := type_mappings c;
     exclude_patterns := exclude_patterns c; include_patterns := include_patterns c;
     default_parameter_case := default_parameter_case c; default_field_case := default_field_case c;
     force := if f_force fl then Some true else force c |}.

(* the settings a run can be seen to use *)
Record eff := {
  e_project : string; e_output : string; e_lib : string;
  e_verbose : bool;        (* config.is_verbose(): analyzer and cache messages *)
  e_log_verbose : bool;    (* verbosity of the Logger (step lines): built from config.is_verbose() after the overrides *)
  e_visualize : bool; e_force : bool }.

Definition eff_of (fl : flags) (c : config) : eff :=
  {| e_project := project_path c; e_output := output_path c; e_lib := validation_library c;
     e_verbose := or_else (verbose c) false; e_log_verbose := or_else (verbose c) false;
     e_visualize := or_else (visualize_deps c) false; e_force := or_else (force c) false |}.

Inductive result :=
| RReject (e : verr) (f : fs)          (* error, exit status 1 *)
| RFail (f : fs)                       (* other error (configuration file missing or unreadable), exit 1 *)
| RNoCommands (e : eff) (f : fs)       (* exit 0, nothing generated *)
| RRun (e : eff) (f : fs).             (* exit 0, bindings written to e_output *)

(* bin:80 run_generate, analysis and generation reduced to: which project, where to, which mode *)
Definition run_generate (f : fs) (fl : flags) : result :=
  let c := apply_flags fl (search f cands) in
  match validate f c with
  | Some e => RReject e f
  | None =>
      let e := eff_of fl c in
      match fs_get f (project_path c) with
      | Some NProj =>
          RRun e (fs_put f (output_path c)
                    (NOut {| g_project := norm (project_path c); g_lib := validation_library c; g_viz := e_visualize e |}))
      | _ => RNoCommands e f
      end
  end.

(* command line of init, restricted to targets named tauri.conf.json *)
Record iflags := {
  i_project : option string; i_generated : option string; i_output : option string;
  i_validation : option string; i_verbose : bool; i_visualize : bool }.

Definition join (a b : string) : string := a ++ "/" ++ b.

Definition init_project (il : iflags) : string := or_else (i_project il) "./src-tauri".
Definition init_generated (il : iflags) : string := or_else (i_generated il) "./src/generated".
Definition init_lib (il : iflags) : string := or_else (i_validation il) "none".
(* bin:304-317: a bare tauri.conf.json is looked for inside the project directory *)
Definition init_target (il : iflags) : string :=
  let out := or_else (i_output il) "tauri.conf.json" in
  if String.eqb out "tauri.conf.json" then join (init_project il) "tauri.conf.json" else out.
(* bin:333-340 *)
Definition init_config (il : iflags) : config :=
  {| project_path := init_project il; output_path := init_generated il; validation_library := init_lib il;
     verbose := Some (i_verbose il); visualize_deps := Some (i_visualize il);
     include_private := include_private dflt; type_mappings := None; exclude_patterns := None;
     include_patterns := None; default_parameter_case := default_parameter_case dflt;
     default_field_case := default_field_case dflt; force := force dflt |}.
(* bin:384-392 *)
Definition init_flags (il : iflags) : flags :=
  {| f_project := Some (init_project il); f_output := Some (init_generated il);
     f_validation := Some (init_lib il); f_verbose := i_verbose il; f_visualize := i_visualize il;
     f_force := false |}.

(* bin run_init: the settings are validated before the document is touched; a document
   the settings cannot be written into is an error as well *)
Definition run_init (f : fs) (il : iflags) : result :=
  let t := init_target il in
  match validate f (init_config il) with
  | Some e => RReject e f
  | None =>
      match fs_get f t with
      | Some (NDoc (Some d)) =>
          match save_doc (init_config il) d with
          | Some d' => run_generate (fs_put f t (NDoc (Some d'))) (init_flags il)
          | None => RFail f
          end
      | _ => RFail f
      end
  end.

(* ---------------------------------------------------------------- the standalone configuration file *)
(* config.rs save_to_file / from_file: serde's derived (De)Serialize of GenerateConfig:
   twelve snake_case keys in declaration order; Option fields are null when None; on
   reading, an absent key takes the field's serde default (Option fields: None), a null is
   None for an Option field and an error for a String field, a value of the wrong type is
   an error, unknown keys are ignored. *)
Definition ojb (o : option bool) : json := match o with Some b => JBool b | None => JNull end.
Definition flat_json (c : config) : json := JObj [
  ("project_path", JStr (project_path c)); ("output_path", JStr (output_path c));
  ("validation_library", JStr (validation_library c));
  ("verbose", ojb (verbose c)); ("visualize_deps", ojb (visualize_deps c));
  ("include_private", ojb (include_private c)); ("type_mappings", omap (type_mappings c));
  ("exclude_patterns", ostrs (exclude_patterns c)); ("include_patterns", ostrs (include_patterns c));
  ("default_parameter_case", JStr (default_parameter_case c));
  ("default_field_case", JStr (default_field_case c)); ("force", ojb (force c)) ].

(* typed field readers on the value found for a field (None = the file does not give the
   field); the outer None of the result is a deserialisation error *)
Definition rd_str (v : option json) (dfl : string) : option string :=
  match v with None => Some dfl | Some (JStr s) => Some s | Some _ => None end.
Definition rd_obool (v : option json) : option (option bool) :=
  match v with
  | None | Some JNull => Some None
  | Some (JBool b) => Some (Some b)
  | Some _ => None
  end.
Definition rd_ostrs (v : option json) : option (option (list string)) :=
  match v with
  | None | Some JNull => Some None
  | Some (JArr l) => option_map Some (all_strs l)
  | Some _ => None
  end.
Definition rd_omap (v : option json) : option (option (list (string * string))) :=
  match v with
  | None | Some JNull => Some None
  | Some (JObj l) => option_map Some (all_str_vals l)
  | Some _ => None
  end.

(* the twelve fields in declaration order *)
Definition flat_keys : list string :=
  ["project_path"; "output_path"; "validation_library"; "verbose"; "visualize_deps"; "include_private";
   "type_mappings"; "exclude_patterns"; "include_patterns"; "default_parameter_case"; "default_field_case"; "force"].
Fixpoint count_key (k : string) (d : list (string * json)) : nat :=
  match d with [] => 0 | (k', _) :: r => (if String.eqb k k' then 1 else 0) + count_key k r end.
(* the derived reader sees every member of the text: a field given twice is an error
   (duplicate field), whatever the two values; unknown keys may repeat. Here the members of a
   standalone document are kept in text order with their repetitions *)
Definition dup_field (d : list (string * json)) : bool :=
  existsb (fun k => Nat.leb 2 (count_key k d)) flat_keys.

(* where the file gives field k (the i-th in declaration order): by name in an object, by
   position in an array (serde's derived visit_seq: missing trailing elements take the field
   defaults, more than twelve elements are an error) *)
Definition flat_at (doc : json) (k : string) (i : nat) : option json :=
  match doc with JObj d => lookup k d | JArr l => nth_error l i | _ => None end.
Definition flat_shape_ok (doc : json) : bool :=
  match doc with JObj d => negb (dup_field d) | JArr l => Nat.leb (List.length l) 12 | _ => false end.

Definition from_flat (doc : json) : option config :=
  if flat_shape_ok doc then
    match rd_str (flat_at doc "project_path" 0) (project_path dflt) with None => None | Some pp =>
    match rd_str (flat_at doc "output_path" 1) (output_path dflt) with None => None | Some op =>
    match rd_str (flat_at doc "validation_library" 2) (validation_library dflt) with None => None | Some vl =>
    match rd_obool (flat_at doc "verbose" 3) with None => None | Some vb =>
    match rd_obool (flat_at doc "visualize_deps" 4) with None => None | Some vd =>
    match rd_obool (flat_at doc "include_private" 5) with None => None | Some ip =>
    match rd_omap (flat_at doc "type_mappings" 6) with None => None | Some tm =>
    match rd_ostrs (flat_at doc "exclude_patterns" 7) with None => None | Some ep =>
    match rd_ostrs (flat_at doc "include_patterns" 8) with None => None | Some ipat =>
    match rd_str (flat_at doc "default_parameter_case" 9) (default_parameter_case dflt) with None => None | Some pc =>
    match rd_str (flat_at doc "default_field_case" 10) (default_field_case dflt) with None => None | Some fc =>
    match rd_obool (flat_at doc "force" 11) with None => None | Some fo =>
      Some {| project_path := pp; output_path := op; validation_library := vl; verbose := vb;
              visualize_deps := vd; include_private := ip; type_mappings := tm; exclude_patterns := ep;
              include_patterns := ipat; default_parameter_case := pc; default_field_case := fc; force := fo |}
    end end end end end end end end end end end end
  else None.

(* config.rs:122 from_file: read, deserialise, validate (before any override) *)
Definition from_file (f : fs) (p : string) : option config :=
  match fs_get f p with
  | Some (NDoc (Some d)) =>
      match from_flat d with
      | Some c => match validate f c with None => Some c | Some _ => None end
      | None => None
      end
  | _ => None
  end.

(* run_generate after the configuration has been loaded: overrides, validate, run *)
Definition run_with (f : fs) (fl : flags) (c0 : config) : result :=
  let c := apply_flags fl c0 in
  match validate f c with
  | Some e => RReject e f
  | None =>
      let e := eff_of fl c in
      match fs_get f (project_path c) with
      | Some NProj =>
          RRun e (fs_put f (output_path c)
                    (NOut {| g_project := norm (project_path c); g_lib := validation_library c; g_viz := e_visualize e |}))
      | _ => RNoCommands e f
      end
  end.

(* config.rs from_file_unvalidated: read and deserialise only *)
Definition from_file_unvalidated (f : fs) (p : string) : option config :=
  match fs_get f p with
  | Some (NDoc (Some d)) => from_flat d
  | _ => None
  end.

(* bin:91-98 generate -c <file>: a missing, unreadable or malformed file is an error; the
   file's settings are validated after the overrides, with the effective configuration *)
Definition run_generate_c (f : fs) (fl : flags) (p : string) : result :=
  match from_file_unvalidated f p with
  | Some c0 => run_with f fl c0
  | None => RFail f
  end.

(* build/mod.rs load_configuration, seen from the project root: the section of
   tauri.conf.json if it loads and validates, else typegen.json if it loads and validates,
   else the defaults (failures are logged as warnings) *)
Definition build_config (f : fs) : config :=
  match from_tauri_config f "tauri.conf.json" with
  | LOk c => c
  | _ => match from_file f "typegen.json" with Some c => c | None => dflt end
  end.

Definition no_flags : flags :=
  {| f_project := None; f_output := None; f_validation := None; f_verbose := false;
     f_visualize := false; f_force := false |}.

(* build/mod.rs run_generation from the project root: no flags, no further validation *)
Definition run_build (f : fs) : result := 
  let c := build_config f in
  let e := eff_of no_flags c in
  match fs_get f (project_path c) with
  | Some NProj =>
      RRun e (fs_put f (output_path c)
                (NOut {| g_project := norm (project_path c); g_lib := validation_library c; g_viz := e_visualize e |}))
  | _ => RNoCommands e f
  end.

(* ---------------------------------------------------------------- init -o <standalone file> *)
(* the directory part of a path: everything before the last slash; None when there is none *)
Fixpoint dirname (s : string) : option string :=
  match s with
  | EmptyString => None
  | String c r => match dirname r with
                  | Some d => Some (String c d)
                  | None => if Ascii.eqb c "/"%char then Some EmptyString else None
                  end
  end.
Definition is_dir_node (n : node) : bool := match n with NDoc _ => false | _ => true end.
(* fs::write(t) can create or replace t: its directory exists and is a directory (a missing
   directory is not created; a regular file in the way is ENOTDIR) and t itself is not a directory *)
Definition init_writable (f : fs) (t : string) : bool :=
  match dirname t with
  | None => true
  | Some d => String.eqb d "" || String.eqb d "." ||
              match fs_get f d with Some n => is_dir_node n | None => false end
  end
  && match fs_get f t with Some n => negb (is_dir_node n) | None => true end.

(* bin run_init with a target not named tauri.conf.json (t = the -o value): an existing
   target is only overwritten with --force; the settings are validated before the file is
   created; save_to_file writes the twelve keys (an error, nothing created, when the target
   cannot be written: its directory does not exist); then the initial generation runs. *)
Definition run_init_file (f : fs) (il : iflags) (force : bool) : result :=
  let t := or_else (i_output il) "tauri.conf.json" in
  if fs_exists f t && negb force then RFail f
  else match validate f (init_config il) with
       | Some e => RReject e f
       | None =>
           if init_writable f t
           then run_generate (fs_put f t (NDoc (Some (flat_json (init_config il))))) (init_flags il)
           else RFail f
       end.

(* ---------------------------------------------------------------- the build script's project detection *)
(* build/project_scanner.rs detect_project, seen from the working directory: the first
   directory, walking upwards, that holds tauri.conf.json, tauri.conf.js or src-tauri. Two
   levels are modelled (the working directory and its parent: r is the prefix that leads
   there); that nothing is found further up is an assumption about where the check runs. *)
Definition is_root (f : fs) (r : string) : bool :=
  fs_exists f (r ++ "tauri.conf.json") || fs_exists f (r ++ "tauri.conf.js") || fs_exists f (r ++ "src-tauri").
Definition build_root (f : fs) : option string :=
  if is_root f "" then Some "" else if is_root f "../" then Some "../" else None.
(* project_scanner.rs:66-72 the configuration document of the detected root *)
Definition build_conf_path (f : fs) (r : string) : option string :=
  if fs_exists f (r ++ "tauri.conf.json") then Some (r ++ "tauri.conf.json")
  else if fs_exists f (r ++ "tauri.conf.js") then Some (r ++ "tauri.conf.js") else None.
(* build/mod.rs load_configuration for a given document path and typegen.json path *)
Definition build_config_at (f : fs) (tp : option string) (gp : string) : config :=
  match (match tp with Some p => from_tauri_config f p | None => LNone end) with
  | LOk c => c
  | _ => match from_file f gp with Some c => c | None => dflt end
  end.
(* build/mod.rs run_generation: no project detected = nothing is generated, Ok; the settings'
   paths stay relative to the working directory *)
Definition run_build_detect (f : fs) : result :=
  match build_root f with
  | None => RNoCommands (eff_of no_flags dflt) f
  | Some r =>
      let c := build_config_at f (build_conf_path f r) (r ++ "typegen.json") in
      let e := eff_of no_flags c in
      match fs_get f (project_path c) with
      | Some NProj =>
          RRun e (fs_put f (output_path c)
                    (NOut {| g_project := norm (project_path c); g_lib := validation_library c; g_viz := e_visualize e |}))
      | _ => RNoCommands e f
      end
  end.
